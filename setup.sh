#!/bin/bash
# Run once after a fresh restore, offline. Warms the Go build cache for the harness.
set -e
cd "$(dirname "$0")/harness"
export GOFLAGS=-mod=mod GOPROXY=off
cp /repo/go.sum go.sum
mkdir -p bin ../evidence ../replays
go build -tags verif -o bin/ ./cmd/... 
echo setup ok
