#!/bin/bash
# Run once after a fresh restore, offline. Warms the Go build cache for the harness.
cd "$(dirname "$0")/harness" || exit 1
export GOFLAGS=-mod=mod GOPROXY=off
cp /repo/go.sum go.sum
mkdir -p bin ../evidence ../replays
OVL=()
if grep -q 'capacity := 20_000' /repo/lib/crypto/key_batch.go 2>/dev/null; then
  mkdir -p bin/overlay
  sed 's/capacity := 20_000/capacity := 64/' /repo/lib/crypto/key_batch.go > bin/overlay/key_batch.go
  printf '{"Replace":{"/repo/lib/crypto/key_batch.go":"%s"}}' "$PWD/bin/overlay/key_batch.go" > bin/overlay/overlay.json
  OVL=(-overlay bin/overlay/overlay.json)
fi
rc=0
for d in cmd/*/; do
  n=$(basename "$d")
  cgo=0; { [ "$n" = c18 ] || [ "$n" = c17 ]; } && cgo=1
  if ! CGO_ENABLED=$cgo go build "${OVL[@]}" -tags verif -o "bin/$n" "./cmd/$n" 2> "bin/$n.buildlog"; then
    echo "WARN: cmd/$n does not build (see harness/bin/$n.buildlog)"; rc=0
  fi
done
./build_c20caps.sh /repo "$PWD/bin/c20caps" "$PWD/bin/overlay"
# the C18 data-race pass needs a binary built with -race (cold build takes minutes: do it here)
go build "${OVL[@]}" -race -tags verif -o bin/c18race ./cmd/c18 2> bin/c18race.buildlog || echo "WARN: c18race does not build"
echo setup ok
exit $rc
