#!/bin/bash
# development aid: runs every thorough command with a shortened soft deadline to smoke-test the thorough code paths
B="${1:-240s}"
for i in 01 02 03 04 05 06 07 08 09 10 11 12 13 14 15 16 17 18 19 20; do
  s=$(date +%s); ./check C$i thorough -budget $B > /tmp/thorough_C$i.log 2>&1; rc=$?; e=$(date +%s)
  echo "C$i rc=$rc wall=$((e-s))s $(grep -E '^RESULT' /tmp/thorough_C$i.log | tail -1) $(grep -c '^VIOLATION' /tmp/thorough_C$i.log) violations"
done
