#!/bin/bash
# Runs the repository's own test suite with the verif guard OFF and compares with /root/.vp/BASELINE.json
export GOFLAGS=-mod=mod GOPROXY=off
OUT=$(mktemp -d /tmp/baseline-XXXX)
for m in . plugin/go plugin/go/tutorial; do (cd /repo/$m && go test -json -vet=off -count=1 -timeout 25m ./... ) >> $OUT/run.json 2>/dev/null; done
python3 - "$OUT/run.json" <<'PY'
import json,sys
b=json.load(open('/root/.vp/BASELINE.json'))
want=set(b['stable_pass'])
res={}
for l in open(sys.argv[1]):
    try: e=json.loads(l)
    except: continue
    if e.get('Test') and e.get('Action') in ('pass','fail','skip'):
        res[e['Package']+'::'+e['Test']]=e['Action']
passed={k for k,v in res.items() if v=='pass'}
missing=sorted(want-passed)
print("baseline stable_pass:",len(want),"passed now:",len(passed & want),"missing:",len(missing))
for m in missing[:40]: print("  MISSING",m,res.get(m))
PY
rm -rf $OUT
