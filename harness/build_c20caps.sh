#!/bin/bash
# usage: build_c20caps.sh <repo dir> <output binary> <scratch dir for the overlay files>
# Second build of cmd/c20 from the same tree with the three DEX batch capacities of lib/certificate.go overlaid
# (5 000 / 5 000 / 10 000 -> 2 / 2 / 2) and the per-block settlement cap (250 -> 1): the "does not fit in the batch" branches are out of reach of a bounded search
# otherwise. Every other line of the file is what the tree holds; if the constants are not found the build is skipped
# (cmd/c20 then reports the small-caps searches as not started). Run from the harness directory.
REPO="$1"; OUT="$2"; SCR="$3"
f="$REPO/lib/certificate.go"
grep -q 'MaxDepositsPerDexBatch  = 5_000' "$f" && grep -q 'MaxWithdrawsPerDexBatch = 5_000' "$f" && grep -q 'MaxOrdersPerDexBatch    = 10_000' "$f" && grep -q 'MaxOrdersSettledPerBlock = 250' "$f" || { rm -f "$OUT"; exit 0; }
mkdir -p "$SCR"
sed 's/MaxDepositsPerDexBatch  = 5_000/MaxDepositsPerDexBatch  = 2/; s/MaxWithdrawsPerDexBatch = 5_000/MaxWithdrawsPerDexBatch = 2/; s/MaxOrdersPerDexBatch    = 10_000/MaxOrdersPerDexBatch    = 2/; s/MaxOrdersSettledPerBlock = 250/MaxOrdersSettledPerBlock = 1/' "$f" > "$SCR/certificate.go"
rep="\"$f\":\"$SCR/certificate.go\""
if grep -q 'capacity := 20_000' "$REPO/lib/crypto/key_batch.go" 2>/dev/null; then
  sed 's/capacity := 20_000/capacity := 64/' "$REPO/lib/crypto/key_batch.go" > "$SCR/key_batch_caps.go"
  rep="$rep,\"$REPO/lib/crypto/key_batch.go\":\"$SCR/key_batch_caps.go\""
fi
printf '{"Replace":{%s}}' "$rep" > "$SCR/overlay_caps.json"
CGO_ENABLED=0 go build -overlay "$SCR/overlay_caps.json" -tags verif -o "$OUT" ./cmd/c20 2> "$OUT.buildlog" || { cat "$OUT.buildlog" >&2; rm -f "$OUT"; }
exit 0
