package bftworld

import (
	"flag"
	"fmt"
	"os"
	"sort"
	"strings"
	"sync"
	"time"

	"verifharness/mc"
)

// NamedConfig is one committee / adversary placement.
type NamedConfig struct {
	Name string
	Cfg  Config
	// Negative marks a control configuration where the adversary holds >= 1/3 of the power:
	// disagreement must be findable there (shows the oracle can fire); it is never a violation.
	Negative bool
	// ReplicaOnly marks a placement in which the Byzantine node leads none of the first rounds (see replicaOnlyConfigs).
	ReplicaOnly bool
}

func eqTimeouts(t int) [7]int { return [7]int{t, t, t, t, t, t, t} }

// allConfigs is every committee / adversary placement known by name.
func allConfigs() []NamedConfig {
	var out []NamedConfig
	for rh := uint64(2); rh <= 12; rh++ {
		for byz := 0; byz < 4; byz++ {
			out = append(out, NamedConfig{Name: fmt.Sprintf("n4-equal-byz%d-rh%d", byz, rh), Cfg: Config{Powers: []uint64{1, 1, 1, 1}, Byz: byz, BaseRH: rh, Timeouts: eqTimeouts(10)}})
		}
	}
	for _, byz := range []int{1, 2, 3} {
		out = append(out, NamedConfig{Name: fmt.Sprintf("n4-weighted3211-byz%d-rh10", byz), Cfg: Config{Powers: []uint64{3, 2, 1, 1}, Byz: byz, BaseRH: 10, Timeouts: eqTimeouts(10)}})
	}
	return out
}

// Configs enumerates the committees explored. The leader of every (root height, round) is a
// deterministic function of keys and heights, so a Byzantine placement only has leader-side
// choices where the schedule makes it lead. Placements are therefore picked from the
// schedule (computed with the implementation's own election functions): the Byzantine node
// leads round 1 after a root-height bump while different nodes lead (rh, 1) and (rh+1, 0),
// i.e. it can speak after two competing locks can exist. quick takes the first maxCfg such
// placements, thorough all of them for base root heights 2..12 plus the weighted committee.
func Configs(quick bool) []NamedConfig {
	all := allConfigs()
	probe := New(all[0].Cfg)
	var out []NamedConfig
	for _, c := range all {
		if len(c.Cfg.Powers) != 4 || c.Cfg.Powers[0] != 1 {
			if !quick {
				out = append(out, c)
			}
			continue
		}
		rh := c.Cfg.BaseRH
		a, b, z := probe.PredictLeader(rh, 1), probe.PredictLeader(rh+1, 0), probe.PredictLeader(rh+1, 1)
		if z == c.Cfg.Byz && z != a && b != a {
			out = append(out, c)
		}
	}
	if quick && len(out) > 1 {
		out = out[:1]
	}
	out = append(replicaOnlyConfigs(quick), out...)
	if IncludeLate {
		out = append(lateConfigs(quick), out...) // completes in well under a minute: before the placements a deadline cuts
	}
	out = append(fiveNodeConfigs(quick), out...) // the cheap configuration first: a deadline must not cut it
	return out
}

// replicaOnlyConfigs: n=4 equal power where the Byzantine node leads NONE of the rounds (rh,0), (rh,1),
// (rh+1,0), (rh+1,1) and three different honest nodes lead the last three: the adversary is the network plus
// an amnesiac voter whose signature completes any quorum (the quorum-intersection argument with no leader tricks).
func replicaOnlyConfigs(quick bool) []NamedConfig {
	all := allConfigs()
	probe := New(all[0].Cfg)
	var out []NamedConfig
	for _, c := range all {
		if len(c.Cfg.Powers) != 4 || c.Cfg.Powers[0] != 1 {
			continue
		}
		rh, byz := c.Cfg.BaseRH, c.Cfg.Byz
		l0, a, b, z := probe.PredictLeader(rh, 0), probe.PredictLeader(rh, 1), probe.PredictLeader(rh+1, 0), probe.PredictLeader(rh+1, 1)
		if l0 != byz && a != byz && b != byz && z != byz && a != b && b != z && a != z {
			c.ReplicaOnly = true
			out = append(out, c)
			if quick {
				break
			}
		}
	}
	return out
}

// lateConfigs: n=4 equal power where the Byzantine node leads round 0 of the base root height AND round 0 of the next
// one, with honest leaders in round 1 of both: the placement in which a leader message of (rh, 0) that arrived late can
// meet a round 0 again after a root-chain update. These configurations carry Config.Late (timing scenarios, stored
// leader messages in the state key).
func lateConfigs(quick bool) []NamedConfig {
	base := Config{Powers: []uint64{1, 1, 1, 1}, Byz: 0, BaseRH: 2, Timeouts: eqTimeouts(10)}
	probe := New(base)
	var out []NamedConfig
	for rh := uint64(2); rh <= 60; rh++ {
		l0, l1, b0, b1 := probe.PredictLeader(rh, 0), probe.PredictLeader(rh, 1), probe.PredictLeader(rh+1, 0), probe.PredictLeader(rh+1, 1)
		if l0 == b0 && l1 != l0 && b1 != l0 {
			c := base
			c.BaseRH, c.Byz, c.Late = rh, l0, true
			out = append(out, NamedConfig{Name: fmt.Sprintf("n4-equal-byz%d-rh%d-late", l0, rh), Cfg: c})
			if quick || len(out) == 3 {
				break
			}
		}
	}
	return out
}

// fiveNodeConfigs: n=5 equal power has total power 5 = 3k+2, the residue where an off-by-one
// in the +2/3 threshold shows (4 of 5 needed; two sets of 3 intersect in one validator only).
// The Byzantine node is placed where it leads round 0, so its equivocation is explored at depth 1.
func fiveNodeConfigs(quick bool) []NamedConfig {
	var out []NamedConfig
	base := Config{Powers: []uint64{1, 1, 1, 1, 1}, Byz: 0, BaseRH: 2, Timeouts: eqTimeouts(10)}
	probe := New(base)
	for rh := uint64(2); rh <= 12; rh++ {
		c := base
		c.BaseRH, c.Byz = rh, probe.PredictLeader(rh, 0)
		out = append(out, NamedConfig{Name: fmt.Sprintf("n5-equal-byz%d-rh%d", c.Byz, rh), Cfg: c})
		if quick {
			break
		}
	}
	return out
}

// ChangeConfigs: root-chain updates that CHANGE the committee (C15's message-level liveness search only).
// A validator leaves (n5to4), joins (n4to5) or the stake shifts (reweigh) at root height BaseRH+1;
// in each, one validator is crashed from the start so that every remaining member is needed for +2/3
// before the change or after it.
func ChangeConfigs() []NamedConfig {
	t := eqTimeouts(10)
	var out []NamedConfig
	for _, c := range changeBase(t) {
		out = append(out, c)
		c.Name += "-gstbump"
		c.Cfg.GSTBump = true
		out = append(out, c)
	}
	return out
}

func changeBase(t [7]int) []NamedConfig {
	return []NamedConfig{
		{Name: "n5to4-leave4-crash0-rh2", Cfg: Config{Powers: []uint64{1, 1, 1, 1, 1}, NextPowers: []uint64{1, 1, 1, 1, 0}, Crashed: []int{0}, Byz: -1, BaseRH: 2, Timeouts: t}},
		{Name: "n5to4-leave0-crash1-rh3", Cfg: Config{Powers: []uint64{1, 1, 1, 1, 1}, NextPowers: []uint64{0, 1, 1, 1, 1}, Crashed: []int{1}, Byz: -1, BaseRH: 3, Timeouts: t}},
		{Name: "n4to5-join4-crash0-rh2", Cfg: Config{Powers: []uint64{1, 1, 1, 1, 0}, NextPowers: []uint64{1, 1, 1, 1, 1}, Crashed: []int{0}, Byz: -1, BaseRH: 2, Timeouts: t}},
		{Name: "n4-reweigh1111to3211-crash3-rh2", Cfg: Config{Powers: []uint64{1, 1, 1, 1}, NextPowers: []uint64{3, 2, 1, 1}, Crashed: []int{3}, Byz: -1, BaseRH: 2, Timeouts: t}},
	}
}

func ConfigByName(name string) (NamedConfig, bool) {
	for _, c := range append(append(append(append(allConfigs(), fiveNodeConfigs(false)...), NegativeControl()), ChangeConfigs()...), lateConfigs(false)...) {
		if c.Name == name {
			return c, true
		}
	}
	return NamedConfig{}, false
}

// NegativeControl: powers 3/1/1/1/1 with the Byzantine node holding 3 of 7 (>= 1/3): two
// quorums of 5 that share only the Byzantine node exist, so an equivocating leader can fork
// the chain. The search must find that fork, otherwise the oracle has not been shown to fire.
func NegativeControl() NamedConfig {
	probe := New(Config{Powers: []uint64{3, 1, 1, 1, 1}, Byz: 0, BaseRH: 2, Timeouts: eqTimeouts(10)})
	rh := uint64(2)
	for ; rh < 40; rh++ {
		if probe.PredictLeader(rh, 0) == 0 {
			break
		}
	}
	return NamedConfig{Name: fmt.Sprintf("n5-weighted31111-byz0-rh%d-NEGATIVE", rh), Cfg: Config{Powers: []uint64{3, 1, 1, 1, 1}, Byz: 0, BaseRH: rh, Timeouts: eqTimeouts(10)}, Negative: true}
}

// IncludeLate adds the Late configurations (timing scenarios) to Configs: C01 always, C15 in the thorough tier;
// C14's equivocation profile has no use for them.
var IncludeLate bool

type stateRec struct {
	cfg  string
	path []int
	w    *World // live world at that state (cloned before any further use)
}

// PartFraction, Extra and ReplayHook let a check add a second part after the shared search
// (C14: the evidence-to-stake pipeline on a real chain). PartFraction is the share of the soft
// deadline the shared part may use; Extra runs before the evidence is written; ReplayHook may
// claim a replay artefact.
var (
	PartFraction float64
	Extra        func(r *mc.Run, cov map[string]any)
	ReplayHook   func(r *mc.Run) bool
	SkipShared   func() bool
)

// Main is the entry point shared by C01 (agreement), C14 (evidence soundness) and C15 (liveness tail).
func Main(id string) {
	depthFlag := flag.Int("depth", 0, "override BFS depth")
	cfgFlag := flag.String("config", "", "only this configuration")
	traceFlag := flag.Bool("trace", false, "print the trace when replaying")
	reducedFlag := flag.Bool("reduced", false, "thorough tier: reduced alphabet, deeper")
	noDevFlag := flag.Bool("nodev", false, "development aid: skip the message-level searches")
	quickBudget := 95 * time.Second
	if id == "C01" {
		quickBudget = 170 * time.Second // the Late configuration (fourth session) brought its own share
	}
	r := mc.Start(id, "model_checking", quickBudget, 28*time.Minute)
	r.Assumptions = []string{
		"committee-preserving root-chain updates: the mock controller serves the same committee at every root height",
		"the FSM is abstracted: the mock controller accepts every structurally valid proposal (CheckProposalBasic + the real ValidateByzantineEvidence)",
		"Search 1 explores round-granular scenarios in lockstep virtual time (all phase timeouts equal); messages not delivered within their round are lost; in the Late configurations a leader message can also arrive one phase timeout late (stored, not acted on in time)",
		"the Byzantine validator is Dolev-Yao: it recombines certificates and signatures seen on the network and signs with its own key",
		"cryptographic hardness (BLS unforgeability, hash collision resistance) is assumed",
	}
	if r.Replay != "" {
		if ReplayHook != nil && ReplayHook(r) {
			return
		}
		replayMain(r, *traceFlag)
		return
	}
	stop = r.Expired
	if PartFraction > 0 {
		stop = func() bool { return r.ExpiredFrac(PartFraction) }
	} else if id == "C01" {
		// Search 2 keeps a share of its own: on a loaded machine Search 1 used to run into the deadline and the
		// message-level search was never started
		stop = func() bool { return r.ExpiredFrac(0.75) }
	}
	// quick: reduced round alphabet to depth 4; thorough: full alphabet (see DESIGN) to depth 4,
	// which the -reduced flag can trade for a deeper reduced-alphabet search
	depth, reduced, maxBumps := 4, true, 1 // quick: at most one root-height bump per explored path
	if !r.Quick() {
		depth, reduced, maxBumps = 4, *reducedFlag, -1
		if reduced {
			depth, maxBumps = 6, 2
		}
	}
	if id == "C14" {
		// evidence soundness needs real equivocation, not depth: the Byzantine leader equivocates
		EquivocationProfile = true
		depth, reduced, maxBumps = 3, true, 1
		if !r.Quick() {
			depth, maxBumps = 4, 2
		}
	}
	if *depthFlag > 0 {
		depth = *depthFlag
	}
	var totalStates int
	var totalTrans int64
	var perCfg []map[string]any
	var states []stateRec
	var mu sync.Mutex
	forkStates := 0
	ReducedMinQuorum = id == "C15"
	IncludeLate = id == "C01" || (id == "C15" && !r.Quick())
	cfgs := Configs(r.Quick())
	if id == "C01" {
		cfgs = append([]NamedConfig{NegativeControl()}, cfgs...) // cheap, and must not be cut by the deadline
	}
	if SkipShared != nil && SkipShared() {
		cfgs = nil
	}
	negativeForks := 0
	var auditedTotal int64
	// thorough: every configuration gets an equal share of the time that is left for Search 1 when its turn comes
	// (with one shared deadline the first configuration used all of it and the others stayed at depth 0)
	part := PartFraction
	if part <= 0 {
		part = 1
	}
	nRun := 0
	for _, nc := range cfgs {
		if *cfgFlag == "" || nc.Name == *cfgFlag {
			nRun++
		}
	}
	ci := 0
	for _, nc := range cfgs {
		if *cfgFlag != "" && nc.Name != *cfgFlag {
			continue
		}
		nc := nc
		ci++
		shareEnd := part * float64(ci) / float64(nRun)
		d := depth
		if nc.Negative {
			d = 1 // the Byzantine node leads round 0 of the control's root height: one round suffices
		}
		if len(nc.Cfg.Powers) == 5 && !nc.Negative && d > 2 {
			d = 2 // the five-node committee is there for the threshold residue, not for depth
			if !r.Quick() {
				d = 3
			}
		}
		audit := 2
		if !r.Quick() {
			audit = 3
		}
		st := MemBFS(MemBFSConfig{
			NC: nc, MaxDepth: d, AuditDepth: audit,
			OpsFor: func(path []int, info Info) []int {
				ops := OpsFor(info, reduced && !nc.Negative)
				if id == "C01" && !nc.Negative && len(path) == d-1 && d > 1 {
					// the last round of a path can only matter for agreement if somebody can commit in it:
					// PROPOSE delivered, PRECOMMIT reaching a quorum, COMMIT reaching somebody. The other
					// scenarios only produce states nobody expands. Rounds in which the Byzantine leader
					// acts come first, so that a deadline cuts the honest-leader rounds of the level first.
					var keep, adv []int
					for _, op := range ops {
						sc := AllScenarios[op]
						if sc.P != 0 || (sc.Q1 != 0 && sc.Q1 != 2 && sc.Q1 != 4) || sc.Q2 == 1 {
							continue
						}
						if sc.L > 0 || sc.J > 0 {
							adv = append(adv, op)
						} else {
							keep = append(keep, op)
						}
					}
					ops = append(adv, keep...)
				}
				if maxBumps < 0 {
					return ops
				}
				bumps := 0
				for _, op := range path {
					if AllScenarios[op].Bump {
						bumps++
					}
				}
				if bumps < maxBumps {
					return ops
				}
				var out []int
				for _, op := range ops {
					if !AllScenarios[op].Bump {
						out = append(out, op)
					}
				}
				return out
			},
			OnViol: func(v mc.Viol) {
				if nc.Negative {
					mu.Lock()
					negativeForks++
					mu.Unlock()
					return
				}
				if id == "C01" {
					r.OnViol(v)
				} else {
					mu.Lock()
					forkStates++
					mu.Unlock()
				}
			},
			OnState: func(path []int, w *World) {
				if !nc.Negative && id != "C01" {
					mu.Lock()
					states = append(states, stateRec{nc.Name, append([]int{}, path...), w})
					mu.Unlock()
				}
			},
			Stop: func() bool {
				if nc.ReplicaOnly && r.Quick() && PartFraction > 0 && r.ExpiredFrac(PartFraction*0.5) {
					return true // leave at least half of the part's time to the placement in which the Byzantine node leads
				}
				if id == "C01" && r.Quick() && ((nc.Cfg.Late && r.ExpiredFrac(0.32)) || (nc.ReplicaOnly && r.ExpiredFrac(0.5))) {
					return true // quick shares: Late placement, replica-only placement, then the placement in which the Byzantine node leads
				}
				if !r.Quick() && !nc.Negative && r.ExpiredFrac(shareEnd) {
					return true
				}
				return stop()
			},
			Priority: func(op int) int {
				if sc := AllScenarios[op]; sc.L > 0 || sc.J > 0 {
					return 1
				}
				return 0
			},
		})
		auditedTotal += st.Crashes
		if !nc.Negative {
			totalStates += st.States
			totalTrans += st.Transitions
		}
		if !st.Complete {
			r.Exhaustive = false
		}
		perCfg = append(perCfg, map[string]any{"config": nc.Name, "states": st.States, "transitions": st.Transitions, "depth_completed": st.DepthDone,
			"frontier_per_depth": st.Frontier, "disabled": st.Disabled, "revisits": st.Revisits, "complete": st.Complete, "negative_control": nc.Negative})
		fmt.Printf("config=%s depth=%d states=%d transitions=%d frontier=%v complete=%v\n", nc.Name, st.DepthDone, st.States, st.Transitions, st.Frontier, st.Complete)
		for _, p := range st.SamplePaths {
			var names []string
			for _, op := range p {
				names = append(names, AllScenarios[op].String())
			}
			r.AddSample(map[string]any{"config": nc.Name, "round_scenarios": names})
		}
	}
	cov := map[string]any{"states": totalStates, "transitions": totalTrans, "traces_validated_against_impl": int(totalTrans),
		"per_config": perCfg, "depth_bound_rounds": depth, "reduced_alphabet": reduced, "max_root_bumps_per_path": maxBumps, "scenario_alphabet": len(AllScenarios),
		"successors_cross_checked_clone_vs_replay": auditedTotal,
		"explanation": "a transition is one whole consensus round executed on n real bft.BFT instances (HandlePhase/HandleMessage/NewHeight); there is no separate model, so every explored trace is an implementation trace"}
	switch id {
	case "C01":
		cov["negative_control_forks_found"] = negativeForks
		if negativeForks == 0 && *cfgFlag == "" {
			r.Note("negative control found no fork: the oracle was not shown to fire in this run")
		}
		if !*noDevFlag {
			devSearch(r, cfgs, cov, *cfgFlag)
		}
	case "C15":
		livenessPass(r, states, cov)
		if *noDevFlag {
			break
		}
		devLiveness(r, append(append([]NamedConfig{}, cfgs...), ChangeConfigs()...), cov, *cfgFlag)
	case "C14":
		evidencePass(r, states, cov)
	}
	if Extra != nil {
		Extra(r, cov)
	}
	r.Finish(cov)
}

var stop func() bool

func livenessPass(r *mc.Run, states []stateRec, cov map[string]any) {
	const rLive = 8
	type res struct{ silent, honest, usurp, veto int }
	out := make([]res, len(states))
	stopTails := r.Expired
	if PartFraction > 0 {
		stopTails = func() bool { return r.ExpiredFrac(PartFraction + 0.2) }
	}
	done := mc.ParallelFor(len(states), 0, stopTails, func(i int) {
		nc, _ := ConfigByName(states[i].cfg)
		for mode := 0; mode < 4; mode++ {
			_ = nc
			if mode >= 2 && nc.Cfg.Byz < 0 {
				continue
			}
			if mode == 3 && len(states[i].w.Certs) == 0 && states[i].w.Info().LeaderStay != nc.Cfg.Byz {
				continue // no certificate to report and the adversary does not lead next: the same as mode 2 until one appears (kept where it leads)
			}
			w, ok := states[i].w.Clone(), true
			if cloneUntrusted.Load() {
				w, ok = Replay(nc.Cfg, states[i].path, false)
			}
			// a prefix in which an honest node already committed has its block: after GST the
			// committed certificate is gossiped and adopted through the block path (C02's gate)
			if !ok || w.Info().Terminal || len(w.DistinctCommits()) > 0 {
				out[i] = res{0, 0, 0, 0}
				return
			}
			n := w.Tail(mode, rLive)
			switch mode {
			case 0:
				out[i].silent = n
			case 1:
				out[i].honest = n
			case 2:
				out[i].usurp = n
			default:
				out[i].veto = n
			}
		}
	})
	hist := map[int]int{}
	perMode := map[int]map[int]int{}
	worst := 0
	var worstAt stateRec
	tails := 0
	for i, o := range out[:] {
		if i >= done {
			break
		}
		for m, n := range []int{o.silent, o.honest, o.usurp, o.veto} {
			if n == 0 {
				continue
			}
			tails++
			hist[n]++
			if perMode[m] == nil {
				perMode[m] = map[int]int{}
			}
			perMode[m][n]++
			if n < 0 {
				var names []string
				for _, op := range states[i].path {
					names = append(names, AllScenarios[op].String())
				}
				mode := []string{"byzantine-silent", "byzantine-honest", "byzantine-active", "byzantine-active+lock-veto"}[m]
				r.Violation("C15:no-commit-within-8-rounds:"+mode, fmt.Sprintf("config %s: after adversarial prefix %v, %d synchronous rounds (%s) did not commit", states[i].cfg, names, rLive, mode),
					map[string]any{"config": states[i].cfg, "path": states[i].path, "mode": m, "scenarios": names})
			} else if n > worst {
				worst, worstAt = n, states[i]
			}
		}
	}
	if done < len(states) {
		r.Exhaustive = false
	}
	hs := map[string]int{}
	for k, v := range hist {
		hs[fmt.Sprint(k)] = v
	}
	cov["tails_run"] = tails
	cov["prefix_states"] = len(states)
	cov["rounds_to_commit_histogram"] = hs
	cov["worst_rounds_to_commit"] = worst
	cov["worst_prefix"] = map[string]any{"config": worstAt.cfg, "path": worstAt.path}
	cov["liveness_bound_rounds"] = rLive
	pm := map[string]map[string]int{}
	for m, h := range perMode {
		name := []string{"byzantine-silent", "byzantine-honest", "byzantine-active", "byzantine-active+lock-veto"}[m]
		pm[name] = map[string]int{}
		for k, v := range h {
			pm[name][fmt.Sprint(k)] = v
		}
	}
	cov["rounds_to_commit_histogram_per_tail_mode"] = pm
	fmt.Printf("liveness tails=%d histogram=%v worst=%d per-mode=%v\n", tails, hs, worst, pm)
}

func evidencePass(r *mc.Run, states []stateRec, cov map[string]any) {
	var mu sync.Mutex
	var pairs, implicated, withConflict int
	done := mc.ParallelFor(len(states), 0, stop, func(i int) {
		w := states[i].w.Clone()
		if cloneUntrusted.Load() {
			if nc, found := ConfigByName(states[i].cfg); found {
				w, _ = Replay(nc.Cfg, states[i].path, false)
			}
		}
		vs, p, im := w.EvidenceViols(states[i].cfg, states[i].path)
		mu.Lock()
		pairs += p
		implicated += im
		if im > 0 {
			withConflict++
		}
		mu.Unlock()
		for _, v := range vs {
			r.OnViol(v)
		}
	})
	if done < len(states) {
		r.Exhaustive = false
	}
	cov["evidence_pairs_processed"] = pairs
	cov["true_double_signers_reported"] = implicated
	cov["states_with_real_equivocation"] = withConflict
	cov["prefix_states"] = len(states)
	if withConflict == 0 {
		r.Note("no state contained a real equivocation: the evidence oracle was only exercised on refusals")
	}
	fmt.Printf("evidence pairs=%d true double signers reported=%d states with equivocation=%d\n", pairs, implicated, withConflict)
}

func replayMain(r *mc.Run, trace bool) {
	var rp struct {
		Config    string `json:"config"`
		Path      []int  `json:"path"`
		Search    string `json:"search"`
		Choices   []int  `json:"choices"`
		DevRounds uint64 `json:"dev_rounds"`
		Rounds    uint64 `json:"rounds"`
		Mode      *int   `json:"mode"`
		Silent    bool   `json:"silent_byz"`
	}
	if err := r.LoadReplay(&rp); err != nil {
		fmt.Println("cannot load replay:", err)
		os.Exit(2)
	}
	nc, ok := ConfigByName(rp.Config)
	if !ok {
		fmt.Println("unknown config", rp.Config)
		os.Exit(2)
	}
	if rp.Search == "message-level" || rp.Search == "message-level-liveness" {
		outcomes := map[string]int{}
		for i := 0; i < 5; i++ {
			c := mc.NewChooser(rp.Choices)
			var w *World
			if rp.Search == "message-level" {
				if rp.Rounds == 0 {
					rp.Rounds = 2
				}
				w, _ = RunDev(nc.Cfg, c, rp.Rounds, trace && i == 0)
			} else {
				w, _ = RunDevOpt(nc.Cfg, c, DevOpt{MaxRounds: rp.DevRounds + 64, DevRounds: rp.DevRounds, TailRounds: tailRoundsFlag(), Trace: trace && i == 0, SilentByz: rp.Silent})
			}
			if trace && i == 0 {
				fmt.Println(strings.Join(w.Trace, "\n"))
			}
			var cs []string
			honest := 0
			for _, cm := range w.Commits {
				cs = append(cs, fmt.Sprintf("n%d:%s", cm.Node, cm.BlockHash[:8]))
				if w.Honest(cm.Node) {
					honest++
				}
			}
			sort.Strings(cs)
			outcomes[strings.Join(cs, ",")]++
			if i == 0 && r.ID == "C01" {
				if v := DevViol(rp.Config, w, c, rp.Rounds); v != nil {
					r.OnViol(*v)
				}
			}
			if i == 0 && r.ID == "C15" && honest == 0 {
				r.Violation("C15:no-commit-after-message-level-prefix", fmt.Sprintf("config %s: replayed schedule %v did not commit at any honest node", rp.Config, rp.Choices), nil)
			}
		}
		fmt.Println("replay outcomes (5 runs):", outcomes)
		if len(outcomes) != 1 {
			fmt.Println("HARNESS ERROR: replay is not deterministic")
			os.Exit(2)
		}
		r.Finish(map[string]any{"states": 1, "transitions": len(rp.Choices), "traces_validated_against_impl": 1})
		return
	}
	outcomes := map[string]int{}
	for i := 0; i < 5; i++ {
		w, _ := Replay(nc.Cfg, rp.Path, trace && i == 0)
		if trace && i == 0 {
			fmt.Println(strings.Join(w.Trace, "\n"))
		}
		var cs []string
		for _, c := range w.Commits {
			cs = append(cs, fmt.Sprintf("n%d:%s", c.Node, c.BlockHash[:8]))
		}
		sort.Strings(cs)
		okey := strings.Join(cs, ",")
		if v := w.AgreementViol(rp.Config, rp.Path); v != nil && r.ID == "C01" {
			r.OnViol(*v)
		}
		if r.ID != "C15" || rp.Mode == nil {
			outcomes[okey]++
		}
		if r.ID == "C15" && rp.Mode != nil && (w.Info().Terminal || len(w.DistinctCommits()) > 0) {
			// the search does not start a tail from such a state (an honest node has the block already, it spreads through
			// the block path): a replay must not either
			outcomes[okey+" not a tail start: an honest node committed in the prefix"]++
			continue
		}
		if r.ID == "C15" && rp.Mode != nil {
			w.TraceOn = trace && i == 0
			w.Trace = nil
			n := w.Tail(*rp.Mode, 8)
			if trace && i == 0 {
				fmt.Println("---- tail")
				fmt.Println(strings.Join(w.Trace, "\n"))
			}
			outcomes[okey+fmt.Sprintf(" tail commits after %d rounds", n)]++
			if n < 0 && i == 0 {
				mn := "?"
				if *rp.Mode >= 0 && *rp.Mode < 4 {
					mn = []string{"byzantine-silent", "byzantine-honest", "byzantine-active", "byzantine-active+lock-veto"}[*rp.Mode]
				}
				r.Violation("C15:no-commit-within-8-rounds:"+mn, fmt.Sprintf("config %s: replayed prefix %v, tail mode %d (%s): 8 synchronous rounds did not commit", rp.Config, rp.Path, *rp.Mode, mn), nil)
			}
		}
	}
	fmt.Println("replay outcomes (5 runs):", outcomes)
	if len(outcomes) != 1 {
		fmt.Println("HARNESS ERROR: replay is not deterministic")
		os.Exit(2)
	}
	r.Finish(map[string]any{"states": 1, "transitions": len(rp.Path), "traces_validated_against_impl": 1})
}

var tailFlag = flag.Int("tail", 8, "message-level liveness replay: synchronous rounds after GST")

func tailRoundsFlag() uint64 { return uint64(*tailFlag) }
