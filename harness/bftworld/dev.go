package bftworld

import (
	"fmt"
	"sort"
	"strings"
	"sync"

	"github.com/canopy-network/canopy/lib"

	"verifharness/mc"
)

// Search 2 — message-level deviation-bounded exploration (explorer (b)).
//
// The execution is a function of a choice sequence. The DEFAULT answer (0) at every choice
// point reproduces the schedule the implementation is designed for: timers fire in virtual
// time order, every message is delivered before the next timer. A non-default answer is one
// DEVIATION:
//   - per message and recipient: 1 = lost, 2 = delivered one timer late (right after the
//     recipient's next phase fired), 3 = delivered twice;
//   - per timer firing: 1 = a committee-preserving root-height bump reaches that node just
//     before its timer fires (the NEW_COMMITTEE reset, at a single node, between phases).
// mc.ExploreChoices enumerates every choice sequence with at most k deviations; executions
// always run to the horizon (maxRounds rounds or every honest node committed).

// DevStats is what one execution reports.
type DevStats struct {
	Points     int
	Commits    int
	Distinct   int
	Rounds     uint64
	Deviations int
}

// RunDev executes one schedule on a fresh world.
func RunDev(cfg Config, c *mc.Chooser, maxRounds uint64, trace bool) (*World, DevStats) {
	w := New(cfg)
	w.TraceOn = trace
	held := map[int][]*Envelope{} // recipient -> messages to deliver right after its next fire
	var maxRH uint64 = cfg.BaseRH
	for guard := 0; guard < 2000; guard++ {
		// next timer generation among live nodes still inside the horizon
		min := int64(-1)
		for i, n := range w.Nodes {
			if !w.Live(i) || roundsUsed(w, i) >= maxRounds {
				continue
			}
			if min < 0 || n.FireAt < min {
				min = n.FireAt
			}
		}
		if min < 0 {
			break
		}
		if min > w.Now {
			w.Now = min
		}
		w.Pending = nil
		var firedNow []int
		for i, n := range w.Nodes {
			if !w.Live(i) || n.FireAt != min || roundsUsed(w, i) >= maxRounds {
				continue
			}
			// deviation: a root-height bump reaches this node just before this timer
			if n.BFT.Phase != lib.Phase_ELECTION || n.Steps > 0 {
				if c.Choose(2) == 1 {
					// the root chain has ONE height: a node behind catches up, a node at the tip sees a new one
					if n.ctl.rh == maxRH {
						maxRH++
					}
					w.BumpRoot(i, maxRH)
				}
			}
			w.Fire(i)
			firedNow = append(firedNow, i)
		}
		// late messages for the nodes that just fired
		for _, i := range firedNow {
			for _, e := range held[i] {
				_ = w.Deliver(e)
			}
			held[i] = nil
		}
		pend := w.Pending
		w.Pending = nil
		for _, e := range pend {
			if !w.Live(e.To) {
				continue
			}
			switch c.Choose(4) {
			case 0:
				_ = w.Deliver(e)
			case 1: // lost
				w.tracef("LOST %s n%d->n%d", e.Kind, e.From, e.To)
			case 2: // one timer late
				held[e.To] = append(held[e.To], e)
				w.tracef("LATE %s n%d->n%d", e.Kind, e.From, e.To)
			case 3: // duplicated
				_ = w.Deliver(e)
				_ = w.Deliver(e)
			}
		}
		done := true
		for i := range w.Nodes {
			if w.Honest(i) && w.Live(i) && roundsUsed(w, i) < maxRounds {
				done = false
			}
		}
		if done {
			break
		}
	}
	st := DevStats{Points: len(c.Trace), Commits: len(w.Commits), Distinct: len(w.DistinctCommits()), Deviations: c.Dev}
	return w, st
}

// roundsUsed counts the rounds node i has started since the beginning (rounds restart at 0 on a bump).
func roundsUsed(w *World, i int) uint64 {
	return w.Nodes[i].BFT.Round + w.roundsBase[i]
}

// DevViol is the agreement oracle for Search 2.
func DevViol(cfgName string, w *World, c *mc.Chooser) *mc.Viol {
	if len(w.DistinctCommits()) <= 1 {
		return nil
	}
	return &mc.Viol{Sig: "C01:fork:message-level", What: fmt.Sprintf("config %s: honest nodes committed different blocks under message-level schedule %v", cfgName, c.Trace),
		Replay: map[string]any{"config": cfgName, "choices": c.Trace, "search": "message-level"}}
}

// devSearch runs Search 2 on every (non-control) configuration and records its coverage.
func devSearch(r *mc.Run, cfgs []NamedConfig, cov map[string]any, only string) {
	bounds := []struct {
		k      int
		rounds uint64
	}{{2, 2}}
	if !r.Quick() {
		// bounds are iterated: the smaller one is completed before the larger one is attempted
		bounds = append(bounds, struct {
			k      int
			rounds uint64
		}{2, 3}, struct {
			k      int
			rounds uint64
		}{3, 2})
	}
	var per []map[string]any
	var total int64
	for _, bd := range bounds {
		k, rounds := bd.k, bd.rounds
		for _, nc := range cfgs {
			if nc.Negative || (only != "" && nc.Name != only) {
				continue
			}
			nc := nc
			outcomes := map[string]int{}
			var mu sync.Mutex
			newBody := func() func(c *mc.Chooser) {
				return func(c *mc.Chooser) {
					w, _ := RunDev(nc.Cfg, c, rounds, false)
					if v := DevViol(nc.Name, w, c); v != nil {
						r.OnViol(*v)
					}
					var cs []string
					for _, cm := range w.Commits {
						cs = append(cs, fmt.Sprintf("n%d:r%d", cm.Node, cm.Round))
					}
					sort.Strings(cs)
					mu.Lock()
					outcomes[strings.Join(cs, ",")]++
					mu.Unlock()
				}
			}
			st := mc.ExploreChoicesParallel(newBody, k, 14, 0, r.Expired)
			total += st.Executions
			if !st.Complete {
				r.Exhaustive = false
			}
			per = append(per, map[string]any{"config": nc.Name, "executions": st.Executions, "max_choice_points": st.MaxPoints, "deviation_bound": k,
				"horizon_rounds": rounds, "distinct_commit_outcomes": len(outcomes), "complete": st.Complete})
			fmt.Printf("search2 config=%s k<=%d horizon=%d rounds executions=%d max_points=%d distinct_outcomes=%d complete=%v\n", nc.Name, k, rounds, st.Executions, st.MaxPoints, len(outcomes), st.Complete)
		}
	}
	cov["search2_message_level"] = per
	cov["search2_executions"] = total
}
