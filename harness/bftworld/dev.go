package bftworld

import (
	"fmt"
	"sort"
	"strings"
	"sync"

	"github.com/canopy-network/canopy/lib"

	"verifharness/mc"
)

// Search 2 — message-level deviation-bounded exploration (explorer (b)).
//
// The execution is a function of a choice sequence. The DEFAULT answer (0) at every choice
// point reproduces the schedule the implementation is designed for: timers fire in virtual
// time order, every message is delivered before the next timer. A non-default answer is one
// DEVIATION:
//   - per message and recipient: 1 = lost, 2 = delivered one timer late (right after the
//     recipient's next phase fired), 3 = delivered twice;
//   - per timer firing: 1 = a committee-preserving root-height bump reaches that node just
//     before its timer fires (the NEW_COMMITTEE reset, at a single node, between phases).
// mc.ExploreChoices enumerates every choice sequence with at most k deviations; executions
// always run to the horizon (maxRounds rounds or every honest node committed).

// DevStats is what one execution reports.
type DevStats struct {
	Points     int
	Commits    int
	Distinct   int
	Rounds     uint64
	Deviations int
}

// DevOpt bounds one message-level execution. With DevRounds > 0 choice points exist only while
// some live node is still inside its first DevRounds rounds (the adversarial prefix); when that
// window closes ("GST") the latest root height reaches every node that lacks it and delivery is
// the default (synchronous) one for TailRounds further rounds per node.
type DevOpt struct {
	MaxRounds  uint64
	DevRounds  uint64
	TailRounds uint64
	Trace      bool
	// SilentByz: after GST the Byzantine node's protocol messages are lost (it still spams): the honest nodes
	// have to commit on their own. Otherwise it follows the protocol and spams.
	SilentByz bool
}

// RunDev executes one schedule on a fresh world.
func RunDev(cfg Config, c *mc.Chooser, maxRounds uint64, trace bool) (*World, DevStats) {
	return RunDevOpt(cfg, c, DevOpt{MaxRounds: maxRounds, Trace: trace})
}

func RunDevOpt(cfg Config, c *mc.Chooser, o DevOpt) (*World, DevStats) {
	w := New(cfg)
	w.TraceOn = o.Trace
	maxRounds := o.MaxRounds
	held := map[int][]*Envelope{} // recipient -> messages to deliver right after its next fire
	var maxRH uint64 = cfg.BaseRH
	gst := false
	limit := map[int]uint64{}
	horizon := func(i int) uint64 {
		if gst {
			return limit[i]
		}
		return maxRounds
	}
	for guard := 0; guard < 4000; guard++ {
		if o.DevRounds > 0 && !gst {
			inside := false
			for i := range w.Nodes {
				if w.Live(i) && roundsUsed(w, i) < o.DevRounds {
					inside = true
				}
			}
			if !inside {
				// GST: from here on everything is delivered in time, including the root chain's latest height
				gst = true
				if cfg.GSTBump && maxRH == cfg.BaseRH {
					maxRH++
				}
				for i, n := range w.Nodes {
					if !w.Down(i) && n.ctl.rh < maxRH {
						w.BumpRoot(i, maxRH)
					}
					need, extra := o.TailRounds+skewRounds(w, cfg), uint64(0)
					if o.SilentByz && cfg.Byz >= 0 {
						// rounds the silent Byzantine node is elected to lead are wasted by construction (the sortition
						// bounds them): the node gets `need` rounds with an honest elected leader
						for r, got := n.BFT.Round, uint64(0); got < need && extra < 32; r++ {
							if w.PredictLeader(n.BFT.RootHeight, r) == cfg.Byz {
								extra++
							} else {
								got++
							}
						}
					}
					limit[i] = roundsUsed(w, i) + need + extra
				}
				w.tracef("GST")
			}
		}
		// next timer generation among live nodes still inside the horizon
		min := int64(-1)
		for i, n := range w.Nodes {
			if !w.Live(i) || roundsUsed(w, i) >= horizon(i) {
				continue
			}
			if min < 0 || n.FireAt < min {
				min = n.FireAt
			}
		}
		if min < 0 {
			break
		}
		if min > w.Now {
			w.Now = min
		}
		w.Pending = nil
		var firedNow []int
		for i, n := range w.Nodes {
			if !w.Live(i) || n.FireAt != min || roundsUsed(w, i) >= horizon(i) {
				continue
			}
			// deviation: a root-height bump reaches this node just before this timer
			if !gst && (n.BFT.Phase != lib.Phase_ELECTION || n.Steps > 0) {
				if c.Choose(2) == 1 {
					// the root chain has ONE height: a node behind catches up, a node at the tip sees a new one
					if n.ctl.rh == maxRH {
						maxRH++
					}
					w.BumpRoot(i, maxRH)
				}
			}
			w.Fire(i)
			firedNow = append(firedNow, i)
		}
		// late messages for the nodes that just fired
		for _, i := range firedNow {
			for _, e := range held[i] {
				_ = w.Deliver(e)
			}
			held[i] = nil
		}
		pend := w.Pending
		w.Pending = nil
		for _, e := range pend {
			if !w.Live(e.To) {
				continue
			}
			if gst && o.SilentByz && cfg.Byz >= 0 && e.From == cfg.Byz {
				continue
			}
			ch := 0
			if !gst {
				ch = c.Choose(4)
			}
			switch ch {
			case 0:
				_ = w.Deliver(e)
			case 1: // lost
				w.tracef("LOST %s n%d->n%d", e.Kind, e.From, e.To)
			case 2: // one timer late
				held[e.To] = append(held[e.To], e)
				w.tracef("LATE %s n%d->n%d", e.Kind, e.From, e.To)
			case 3: // duplicated
				_ = w.Deliver(e)
				_ = w.Deliver(e)
			}
		}
		if gst && cfg.Byz >= 0 && len(firedNow) > 0 {
			// an active adversary after GST: besides running the protocol, the Byzantine node spams
			f := w.Nodes[firedNow[0]].BFT
			w.Spam(f.RootHeight, f.Round)
		}
		done := true
		for i := range w.Nodes {
			if w.Honest(i) && w.Live(i) && roundsUsed(w, i) < horizon(i) {
				done = false
			}
		}
		if done {
			break
		}
	}
	st := DevStats{Points: len(c.Trace), Commits: len(w.Commits), Distinct: len(w.DistinctCommits()), Deviations: c.Dev}
	return w, st
}

// skewRounds: timers are never re-aligned by the protocol (the pacemaker aligns round NUMBERS only), so
// two groups of nodes whose timers are offset by a skew S keep that offset until the phase length
// T*(2r+1) of the linear back-off exceeds S; only then do votes of one group reach the other group's
// leader inside the phase that collects them. The skew accumulated by an adversarial prefix is at most
// the virtual time that has passed, so the round bound after GST is the first r with T*(2r+1) >= now.
func skewRounds(w *World, cfg Config) uint64 {
	t := int64(cfg.Timeouts[0])
	if t <= 0 {
		t = 1
	}
	r := uint64(0)
	for t*int64(2*r+1) < w.Now {
		r++
	}
	return r
}

// roundsUsed counts the rounds node i has started since the beginning (rounds restart at 0 on a bump).
func roundsUsed(w *World, i int) uint64 {
	return w.Nodes[i].BFT.Round + w.roundsBase[i]
}

// DevViol is the agreement oracle for Search 2.
func DevViol(cfgName string, w *World, c *mc.Chooser, rounds uint64) *mc.Viol {
	if len(w.DistinctCommits()) <= 1 {
		return nil
	}
	return &mc.Viol{Sig: "C01:fork:message-level", What: fmt.Sprintf("config %s: honest nodes committed different blocks under message-level schedule %v", cfgName, c.Trace),
		Replay: map[string]any{"config": cfgName, "choices": c.Trace, "search": "message-level", "rounds": rounds}}
}

// devSearch runs Search 2 on every (non-control) configuration and records its coverage.
func devSearch(r *mc.Run, cfgs []NamedConfig, cov map[string]any, only string) {
	bounds := []struct {
		k      int
		rounds uint64
	}{{2, 2}}
	if !r.Quick() {
		// bounds are iterated: the smaller one is completed before the larger one is attempted
		bounds = append(bounds, struct {
			k      int
			rounds uint64
		}{2, 3}, struct {
			k      int
			rounds uint64
		}{3, 2})
	}
	var per []map[string]any
	var total int64
	for _, bd := range bounds {
		k, rounds := bd.k, bd.rounds
		for _, nc := range cfgs {
			if nc.Negative || (only != "" && nc.Name != only) {
				continue
			}
			nc := nc
			if r.Expired() {
				r.Exhaustive = false
				per = append(per, map[string]any{"config": nc.Name, "executions": 0, "deviation_bound": k, "horizon_rounds": rounds, "complete": false, "note": "not started: soft deadline"})
				continue
			}
			outcomes := map[string]int{}
			var mu sync.Mutex
			newBody := func() func(c *mc.Chooser) {
				return func(c *mc.Chooser) {
					w, _ := RunDev(nc.Cfg, c, rounds, false)
					if v := DevViol(nc.Name, w, c, rounds); v != nil {
						r.OnViol(*v)
					}
					var cs []string
					for _, cm := range w.Commits {
						cs = append(cs, fmt.Sprintf("n%d:r%d", cm.Node, cm.Round))
					}
					sort.Strings(cs)
					mu.Lock()
					outcomes[strings.Join(cs, ",")]++
					mu.Unlock()
				}
			}
			st := mc.ExploreChoicesParallel(newBody, k, 14, 0, r.Expired)
			total += st.Executions
			if !st.Complete {
				r.Exhaustive = false
			}
			per = append(per, map[string]any{"config": nc.Name, "executions": st.Executions, "max_choice_points": st.MaxPoints, "deviation_bound": k,
				"horizon_rounds": rounds, "distinct_commit_outcomes": len(outcomes), "complete": st.Complete})
			fmt.Printf("search2 config=%s k<=%d horizon=%d rounds executions=%d max_points=%d distinct_outcomes=%d complete=%v\n", nc.Name, k, rounds, st.Executions, st.MaxPoints, len(outcomes), st.Complete)
		}
	}
	cov["search2_message_level"] = per
	cov["search2_executions"] = total
}

// devLiveness is C15's second part: every message-level schedule with at most k deviations inside
// the first devRounds rounds is an adversarial prefix; after it ("GST") the latest root height
// reaches everybody and delivery is synchronous. An execution in which no honest node has
// committed tailRounds rounds later is a violation. Prefixes in which an honest node committed
// before GST have their block (it spreads through the block path, C02's gate).
func devLiveness(r *mc.Run, cfgs []NamedConfig, cov map[string]any, only string) {
	const tailRounds = 3 // + skewRounds (see there)
	type bound struct {
		k         int
		devRounds uint64
		n4only    bool
		silent    bool
	}
	// bounds are iterated: the smaller one is completed before the larger one is attempted
	// quick order: the four-node placements with the Byzantine node silent-but-spamming after GST first (k <= 1, then
	// k <= 2), then the committee-changing configurations with a one-round prefix, then the rest
	bounds := []bound{{1, 2, true, true}, {2, 2, true, true}, {1, 1, false, false}, {1, 2, false, true}, {1, 2, false, false}}
	if !r.Quick() {
		bounds = []bound{{1, 1, false, false}, {1, 2, false, true}, {1, 2, false, false}, {2, 1, false, false}, {2, 2, false, true}, {2, 2, false, false}, {2, 3, false, true}, {3, 2, true, true}}
	}
	var per []map[string]any
	var total int64
	for _, bd := range bounds {
		for _, nc := range cfgs {
			change := nc.Cfg.NextPowers != nil
			if nc.Negative || (only != "" && nc.Name != only) || (bd.n4only && (len(nc.Cfg.Powers) != 4 || change)) {
				continue
			}
			if bd.devRounds == 1 && !change {
				continue // a one-round prefix only adds something where the root height moves at GST
			}
			if bd.devRounds == 1 && r.Quick() && !nc.Cfg.GSTBump {
				continue // quick: with a one-round prefix only the variants in which the root height moves at GST
			}
			if bd.silent && nc.Cfg.Byz < 0 {
				continue
			}
			if r.Expired() {
				r.Exhaustive = false
				break
			}
			nc, bd := nc, bd
			hist := map[string]int{}
			var mu sync.Mutex
			newBody := func() func(c *mc.Chooser) {
				return func(c *mc.Chooser) {
					w, _ := RunDevOpt(nc.Cfg, c, DevOpt{MaxRounds: bd.devRounds + tailRounds + 64, DevRounds: bd.devRounds, TailRounds: tailRounds, SilentByz: bd.silent})
					honest, worst := 0, uint64(0)
					for _, cm := range w.Commits {
						if w.Honest(cm.Node) {
							honest++
							if ru := roundsUsed(w, cm.Node); ru > worst {
								worst = ru
							}
						}
					}
					key := "none"
					if honest > 0 {
						key = fmt.Sprintf("%d honest commits, slowest in its round %d", honest, worst)
					} else {
						r.Violation("C15:no-commit-after-message-level-prefix", fmt.Sprintf("config %s: after the message-level prefix %v (<= %d deviations inside the first %d rounds), %d synchronous rounds did not commit at any honest node", nc.Name, c.Trace, bd.k, bd.devRounds, tailRounds),
							map[string]any{"config": nc.Name, "choices": c.Trace, "search": "message-level-liveness", "dev_rounds": bd.devRounds, "silent_byz": bd.silent})
					}
					mu.Lock()
					hist[key]++
					mu.Unlock()
				}
			}
			st := mc.ExploreChoicesParallel(newBody, bd.k, 14, 0, r.Expired)
			total += st.Executions
			if !st.Complete {
				r.Exhaustive = false
			}
			per = append(per, map[string]any{"config": nc.Name, "executions": st.Executions, "max_choice_points": st.MaxPoints, "deviation_bound": bd.k,
				"prefix_rounds": bd.devRounds, "tail_rounds": tailRounds, "byzantine_after_gst": map[bool]string{true: "silent+spam", false: "protocol+spam"}[bd.silent], "outcomes": hist, "complete": st.Complete})
			fmt.Printf("liveness2 config=%s k<=%d prefix=%d rounds silent=%v executions=%d outcomes=%v complete=%v\n", nc.Name, bd.k, bd.devRounds, bd.silent, st.Executions, hist, st.Complete)
		}
	}
	cov["message_level_prefixes"] = per
	cov["message_level_executions"] = total
}
