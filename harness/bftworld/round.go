package bftworld

import (
	"bytes"
	"fmt"
	"strings"

	"github.com/canopy-network/canopy/bft"
	"github.com/canopy-network/canopy/lib"
	"github.com/canopy-network/canopy/lib/crypto"
)

// Amnesia makes the Byzantine node's own instance forget its lock at every round boundary (see RunRound).
var Amnesia = true

// Scenario is one round-level environment decision (explorer (c), Search 1).
type Scenario struct {
	Bump bool // committee-preserving root-height bump at every live node before the round
	E    int  // ELECTION_VOTE reaching the leader: 0 all; 1 all except those carrying a HighQc; 2 all except those from holders of the highest lock
	P    int  // PROPOSE recipients: 0 all; 1 none
	Q1   int  // PRECOMMIT recipients: 0 all; 1 leader only; 2 minimal quorum incl. leader (the highest honest non-leader is left out); 3 none; 4 the other minimal quorum (the lowest honest non-leader is left out)
	Q2   int  // COMMIT recipients: 0 all; 1 none; 2 leader only; 3+i node i only
	V    int  // Byzantine replica: 0 votes; 1 withholds its votes
	J    int  // Byzantine leader's PRECOMMIT justification: 0 the certificate it just aggregated; 1 a REPLAYED certificate: the first certificate of the first certified block (other round, possibly other results) under the current message header
	S    int  // 2: like 1, and its ELECTION_VOTE reaches the elected leader FIRST, reporting the highest lock certificate seen on the network with a root-chain build height nobody accepts (World.lockVeto); 1: the Byzantine node additionally spams every honest node, after every timer generation, with an absurd pacemaker claim and a far-future ELECTION_VOTE (World.Spam)
	U    int  // 1: the Byzantine node is NOT this round's elected leader but acts as one (mode L) with a REPLAYED election certificate: the +2/3 ELECTION_VOTE certificate of an earlier round of this root height in which it was elected; its PROPOSE follows the elected leader's
	T    int  // late delivery (Late configurations): 1 every PROPOSE, 2 every PRECOMMIT, 3 every COMMIT that the other choices let through reaches its recipient only AFTER the recipient's next phase timer fired - too late to be voted on / locked on / committed, but stored
	L    int  // Byzantine leader: 0 honest; 1,2 re-proposes known certificate 0/1 with that certificate as HighQc; 3 proposes a fresh block with no justification; 4 equivocates (X to one half of the honest nodes, X' to the other); 5,6 like 1,2 with the latest certificate; 7 equivocates on the certificate RESULTS only (same block, results R / R'); 8 proposes the first certified block again with OTHER results and no justification; 9 proposes one fresh block to everybody but the first live honest node's copy carries another (unsigned) root-chain build height; 10 proposes a fresh block whose HighQc is forged from its own ELECTION_VOTE certificate of this round (wrong phase, block hashes pasted in)
}

func (s Scenario) String() string {
	if s.T != 0 {
		return fmt.Sprintf("{bump:%v E:%d P:%d Q1:%d Q2:%d V:%d L:%d T:%d}", s.Bump, s.E, s.P, s.Q1, s.Q2, s.V, s.L, s.T)
	}
	if s.U != 0 {
		return fmt.Sprintf("{bump:%v E:%d P:%d Q1:%d Q2:%d V:%d L:%d U:%d}", s.Bump, s.E, s.P, s.Q1, s.Q2, s.V, s.L, s.U)
	}
	if s.J != 0 {
		return fmt.Sprintf("{bump:%v E:%d P:%d Q1:%d Q2:%d V:%d L:%d J:%d}", s.Bump, s.E, s.P, s.Q1, s.Q2, s.V, s.L, s.J)
	}
	return fmt.Sprintf("{bump:%v E:%d P:%d Q1:%d Q2:%d V:%d L:%d}", s.Bump, s.E, s.P, s.Q1, s.Q2, s.V, s.L)
}

// track is one payload a puppet (Byzantine) leader pushes through the phases.
type track struct {
	block   []byte
	results *lib.CertificateResult
	bh, rh  []byte
	highQc  *lib.QuorumCertificate
	rcBuild uint64
	to      map[int]bool // recipients of this track's leader messages
	pvSig   *lib.AggregateSignature
	pvHdr   *lib.View
	pcSig   *lib.AggregateSignature
	pcHdr   *lib.View
}

type roundCtx struct {
	sc       Scenario
	leader   int
	rh       uint64
	round    uint64
	puppet   bool
	tracks   []*track
	tmpl     *bft.Message // the Byzantine instance's own PROPOSE (source of the election certificate)
	sent     []*Envelope  // every envelope enqueued during this round
	highLock *lib.View
	disabled bool // scenario not applicable (e.g. L>0 but the Byzantine node does not lead)
	minQ     map[int]bool
	minQAlt  map[int]bool
	vetoSent bool
	held     []*Envelope // late delivery: released after the next timer generation fired
}

// RunRound executes one whole round on the real nodes under scenario sc.
// ok=false: the scenario does not apply in this state (nothing meaningful was explored).
func (w *World) RunRound(sc Scenario) (ok bool) {
	if sc.Bump {
		var max uint64
		for _, n := range w.Nodes {
			if n.ctl.rh > max {
				max = n.ctl.rh
			}
		}
		for i := range w.Nodes {
			w.BumpRoot(i, max+1)
		}
	}
	// the Byzantine REPLICA is amnesiac: it forgets its lock at every round boundary, so its instance votes for
	// whatever is proposed (V=0) or for nothing (V=1). A Byzantine replica that honours its lock votes exactly
	// when the lock allows it, i.e. it behaves like V=0 in some rounds and like V=1 in the others: both are explored.
	if Amnesia && w.Cfg.Byz >= 0 && w.Live(w.Cfg.Byz) {
		w.Nodes[w.Cfg.Byz].BFT.HighQC = nil
	}
	rc := &roundCtx{sc: sc, leader: -1}
	// highest lock among live honest nodes (for E=2)
	for i, n := range w.Nodes {
		if w.Live(i) && n.BFT.HighQC != nil && (rc.highLock == nil || rc.highLock.Less(n.BFT.HighQC.Header)) {
			rc.highLock = n.BFT.HighQC.Header
		}
	}
	done := make([]bool, len(w.Nodes))
	w.Pending = nil
	for guard := 0; guard < 200; guard++ {
		// next generation: all live, not-done nodes with the smallest FireAt
		min := int64(-1)
		for i, n := range w.Nodes {
			if w.Live(i) && !done[i] && (min < 0 || n.FireAt < min) {
				min = n.FireAt
			}
		}
		if min < 0 {
			break
		}
		if min > w.Now {
			w.Now = min
		}
		var fired []int
		genPhase := lib.Phase(-1)
		for i, n := range w.Nodes {
			if w.Live(i) && !done[i] && n.FireAt == min {
				before := n.BFT.Phase
				if rc.leader < 0 && before == lib.Phase_ELECTION {
					rc.rh, rc.round = n.BFT.RootHeight, n.BFT.Round
				}
				mark := len(w.Pending)
				w.Fire(i)
				rc.sent = append(rc.sent, w.Pending[mark:]...)
				fired = append(fired, i)
				if before == lib.Phase_PACEMAKER || !w.Live(i) {
					done[i] = true
				}
				if genPhase < 0 && before >= lib.Phase_ELECTION && before <= lib.Phase_COMMIT_PROCESS {
					genPhase = before
				}
			}
		}
		// the puppet leader acts on the lockstep clock, whatever its own instance did
		if rc.puppet && genPhase >= 0 {
			mark2 := len(w.Pending)
			w.puppet(rc, genPhase)
			rc.sent = append(rc.sent, w.Pending[mark2:]...)
		}
		// late messages of the previous generation arrive now: their recipients' timers have just fired
		pend := w.Pending
		w.Pending = nil
		for _, e := range rc.held {
			w.tracef("LATE arrival %s n%d->n%d", e.Kind, e.From, e.To)
			_ = w.Deliver(e)
		}
		rc.held = nil
		// (a late arrival produces no message: leader messages are stored, votes are sent on timers)
		pend = append(pend, w.Pending...)
		w.Pending = nil
		// deliver what this generation produced
		for _, e := range pend {
			if rc.leader < 0 && e.Kind == KElectionVote {
				rc.leader = e.To
				if sc.U == 0 {
					rc.puppet = sc.L > 0 && rc.leader == w.Cfg.Byz
					if sc.L > 0 && rc.leader != w.Cfg.Byz {
						rc.disabled = true
					}
				} else {
					rc.puppet = sc.L > 0 && w.Cfg.Byz >= 0 && rc.leader != w.Cfg.Byz && w.oldElection(rc.rh, rc.round) != nil
					if !rc.puppet {
						rc.disabled = true
					}
				}
			}
			if sc.S == 2 && e.Kind == KElectionVote && !rc.vetoSent && rc.leader >= 0 && rc.leader != w.Cfg.Byz {
				// the active adversary answers FIRST: its election vote reports the highest lock anybody could report,
				// with a root-chain build height no replica will accept (none of HighQc / RcBuildHeight is covered by the vote's signature)
				rc.vetoSent = true
				w.lockVeto(rc)
			}
			if w.allow(rc, e) {
				if (sc.T == 1 && e.Kind == KPropose) || (sc.T == 2 && e.Kind == KPrecommit) || (sc.T == 3 && e.Kind == KCommit) {
					if e.From != e.To {
						rc.held = append(rc.held, e)
						continue
					}
				}
				_ = w.Deliver(e)
			}
		}
		if rc.disabled {
			return false
		}
		if sc.S >= 1 {
			w.Spam(rc.rh, rc.round)
		}
	}
	w.Pending = nil
	if sc.L > 0 && !rc.puppet {
		return false
	}
	if sc.L > 0 && len(rc.tracks) == 0 {
		return false // the puppet could not act (no election certificate or unknown certificate index)
	}
	return true
}

// allow is the delivery filter of the round scenario.
func (w *World) allow(rc *roundCtx, e *Envelope) bool {
	sc := rc.sc
	byz := w.Cfg.Byz
	if w.silent && byz >= 0 && e.From == byz {
		return false
	}
	if e.Round != rc.round || e.RH != rc.rh {
		return false // nothing stale is in flight in Search 1 (loss is a legal network behaviour)
	}
	if e.From == byz && !e.Crafted {
		if rc.puppet && e.Kind != KElection && e.Kind != KElectionVote && e.Kind != KPacemaker {
			return false // the puppet speaks for the Byzantine node in this round
		}
		if sc.V == 1 && (e.Kind == KProposeVote || e.Kind == KPrecommitVote) {
			return false
		}
	}
	if rc.puppet && e.To == byz && e.Kind != KElection && e.Kind != KElectionVote && e.Kind != KPacemaker {
		return false // the Byzantine instance's own view of the round does not matter; the puppet reads rc.sent
	}
	switch e.Kind {
	case KElectionVote:
		if e.From == e.To {
			return true
		}
		switch sc.E {
		case 1:
			return e.Msg.HighQc == nil
		case 2:
			if rc.highLock != nil && e.Msg.HighQc != nil && e.Msg.HighQc.Header.Equals(rc.highLock) {
				return false
			}
		}
	case KPropose:
		if e.Crafted {
			return w.trackAllows(rc, e)
		}
		return sc.P == 0
	case KPrecommit:
		if e.Crafted && !w.trackAllows(rc, e) {
			return false
		}
		if sc.U == 1 && !e.Crafted {
			return true // usurpation rounds: Q1/Q2 select the recipients of the USURPER's messages; the elected leader's are delivered
		}
		switch sc.Q1 {
		case 1:
			return e.To == rc.leader
		case 2:
			return w.minQuorum(rc)[e.To]
		case 4:
			return w.minQuorumAlt(rc)[e.To]
		case 3:
			return false
		}
	case KCommit:
		if e.Crafted && !w.trackAllows(rc, e) {
			return false
		}
		if sc.U == 1 && !e.Crafted {
			return true
		}
		switch {
		case sc.Q2 == 1:
			return false
		case sc.Q2 == 2:
			return e.To == rc.leader
		case sc.Q2 >= 3:
			return e.To == sc.Q2-3
		}
	}
	return true
}

// CertBlocks lists the distinct certified block hashes in order of first certification.
func (w *World) CertBlocks() [][]byte {
	var out [][]byte
	for _, c := range w.Certs {
		dup := false
		for _, h := range out {
			if bytes.Equal(h, c.QC.BlockHash) {
				dup = true
			}
		}
		if !dup {
			out = append(out, c.QC.BlockHash)
		}
	}
	return out
}

// certFor returns the first or the latest certificate of the k-th distinct certified block
// (nil if there is none; for latest also nil when it is the same as the first).
func (w *World) certFor(k int, latest bool) *Cert {
	blocks := w.CertBlocks()
	if k >= len(blocks) {
		return nil
	}
	var first, last *Cert
	for _, c := range w.Certs {
		if bytes.Equal(c.QC.BlockHash, blocks[k]) {
			if first == nil {
				first = c
			}
			last = c
		}
	}
	if !latest {
		return first
	}
	if last == first {
		return nil
	}
	return last
}

func (w *World) trackAllows(rc *roundCtx, e *Envelope) bool {
	for _, t := range rc.tracks {
		if bytes.Equal(t.bh, e.Msg.Qc.BlockHash) {
			if rc.sc.P == 1 && e.Kind == KPropose {
				return false
			}
			return t.to[e.To]
		}
	}
	return false
}

func (w *World) minQuorum(rc *roundCtx) map[int]bool {
	if rc.minQ != nil {
		return rc.minQ
	}
	vs := w.ValSet()
	q := map[int]bool{rc.leader: true}
	power := w.Cfg.Powers[rc.leader]
	// the Byzantine node counts towards a quorum and is preferred (worst case for honest nodes)
	order := []int{}
	if w.Cfg.Byz >= 0 && w.Cfg.Byz != rc.leader {
		order = append(order, w.Cfg.Byz)
	}
	for i := range w.Nodes {
		if i != rc.leader && i != w.Cfg.Byz {
			order = append(order, i)
		}
	}
	for _, i := range order {
		if power >= vs.MinimumMaj23 {
			break
		}
		if w.Live(i) {
			q[i] = true
			power += w.Cfg.Powers[i]
		}
	}
	rc.minQ = q
	return q
}

// minQuorumAlt is the other minimal quorum: the honest non-leaders are taken from the highest index down, so the node left
// out is the lowest one (minQuorum leaves out the highest). Which honest node misses the PRECOMMIT decides who keeps an
// older lock; with one fixed choice that depended on the placement.
func (w *World) minQuorumAlt(rc *roundCtx) map[int]bool {
	if rc.minQAlt != nil {
		return rc.minQAlt
	}
	vs := w.ValSet()
	q := map[int]bool{rc.leader: true}
	power := w.Cfg.Powers[rc.leader]
	order := []int{}
	if w.Cfg.Byz >= 0 && w.Cfg.Byz != rc.leader {
		order = append(order, w.Cfg.Byz)
	}
	for i := len(w.Nodes) - 1; i >= 0; i-- {
		if i != rc.leader && i != w.Cfg.Byz {
			order = append(order, i)
		}
	}
	for _, i := range order {
		if power >= vs.MinimumMaj23 {
			break
		}
		if w.Live(i) {
			q[i] = true
			power += w.Cfg.Powers[i]
		}
	}
	rc.minQAlt = q
	return q
}

// ---------------------------------------------------------------------------------------
// puppet: the harness plays the Byzantine leader with its key (Dolev-Yao: it only uses
// certificates and signatures that appeared on the network plus its own signatures).

func (w *World) puppet(rc *roundCtx, phaseFired lib.Phase) {
	if !rc.puppet {
		return
	}
	byz := w.Cfg.Byz
	key := w.Nodes[byz].Key
	vs := w.ValSet()
	view := func(p lib.Phase) *lib.View {
		return &lib.View{NetworkId: NetworkID, ChainId: ChainID, Height: ChainHeight, RootHeight: rc.rh, Round: rc.round, Phase: p}
	}
	sendAll := func(m *bft.Message) {
		if err := m.Sign(key); err != nil {
			return
		}
		for i := range w.Nodes {
			w.enqueue(byz, i, m, true)
		}
	}
	switch phaseFired {
	case lib.Phase_PROPOSE:
		// the instance's own PROPOSE carries the election certificate that justifies it as leader
		for _, e := range w.Pending {
			if e.From == byz && e.Kind == KPropose && !e.Crafted {
				rc.tmpl = e.Msg
				break
			}
		}
		if rc.sc.U == 1 {
			// not elected in this round: replay the election certificate of an earlier round
			rc.tmpl = nil
			if q := w.oldElection(rc.rh, rc.round); q != nil {
				rc.tmpl = &bft.Message{Qc: q}
			}
		}
		if rc.tmpl == nil {
			return
		}
		all := map[int]bool{}
		for i := range w.Nodes {
			all[i] = true
		}
		switch {
		case rc.sc.L == 9:
			// one fresh block for everybody, but the copy of the first live honest node carries another (unsigned) root-chain build height
			bx, rx := MakeBlock(byz, rc.rh, rc.round, 9)
			h, _ := new(lib.Block).BytesToBlockHash(bx)
			rc.tracks = []*track{{block: bx, results: rx, bh: h, rh: rx.Hash(), rcBuild: rc.rh, to: all}}
		case rc.sc.L == 10:
			// a fresh block "justified" by a certificate of the WRONG PHASE: the leader's own +2/3 ELECTION_VOTE certificate of
			// this very round (its sign bytes cover the header and the proposer key only) with the fresh block's hashes pasted
			// next to it. It outranks every real lock (same root height, current round); a HighQc must be a PROPOSE_VOTE certificate
			bx, rx := MakeBlock(byz, rc.rh, rc.round, 10)
			h, _ := new(lib.Block).BytesToBlockHash(bx)
			hq := &lib.QuorumCertificate{Header: rc.tmpl.Qc.Header.Copy(), BlockHash: h, ResultsHash: rx.Hash(), ProposerKey: rc.tmpl.Qc.ProposerKey,
				Signature: rc.tmpl.Qc.Signature, Block: bx, Results: rx}
			rc.tracks = []*track{{block: bx, results: rx, bh: h, rh: rx.Hash(), highQc: hq, rcBuild: rc.rh, to: all}}
		case rc.sc.L == 3:
			// a fresh block with no justification at all, whatever locks the replicas hold
			bx, rx := MakeBlock(byz, rc.rh, rc.round, 3)
			h, _ := new(lib.Block).BytesToBlockHash(bx)
			rc.tracks = []*track{{block: bx, results: rx, bh: h, rh: rx.Hash(), rcBuild: rc.rh, to: all}}
		case rc.sc.L == 1 || rc.sc.L == 2 || rc.sc.L == 5 || rc.sc.L == 6:
			// k-th distinct certified block, with its FIRST (L=1,2) or its LATEST (L=5,6) certificate
			k, latest := rc.sc.L-1, false
			if rc.sc.L >= 5 {
				k, latest = rc.sc.L-5, true
			}
			c := w.certFor(k, latest)
			if c == nil || c.Block == nil || c.Results == nil {
				return
			}
			hq := &lib.QuorumCertificate{Header: c.QC.Header.Copy(), BlockHash: c.QC.BlockHash, ResultsHash: c.QC.ResultsHash, ProposerKey: c.QC.ProposerKey,
				Signature: c.QC.Signature, Block: c.Block, Results: c.Results}
			rc.tracks = []*track{{block: c.Block, results: c.Results, bh: c.QC.BlockHash, rh: c.QC.ResultsHash, highQc: hq, rcBuild: c.RCBuild, to: all}}
		case rc.sc.L == 8:
			// the block of the first certificate again, with different results, no justification
			c := w.certFor(0, false)
			if c == nil || c.Block == nil || c.Results == nil {
				return
			}
			rx := otherResults(c.Results)
			rc.tracks = []*track{{block: c.Block, results: rx, bh: c.QC.BlockHash, rh: rx.Hash(), rcBuild: rc.rh, to: all}}
		case rc.sc.L == 4 || rc.sc.L == 7:
			// equivocate: X to every node but the highest honest one, X' to that one (and to itself)
			var hon []int
			for i := range w.Nodes {
				if w.Honest(i) && w.Live(i) {
					hon = append(hon, i)
				}
			}
			bx, rx := MakeBlock(byz, rc.rh, rc.round, 1)
			by, ry := MakeBlock(byz, rc.rh, rc.round, 2)
			// X to the first half (rounded up) of the live honest nodes, X' to the rest
			toX, toY := map[int]bool{byz: true}, map[int]bool{byz: true}
			for k, i := range hon {
				if k < (len(hon)+1)/2 {
					toX[i] = true
				} else {
					toY[i] = true
				}
			}
			if rc.sc.L == 7 {
				by, ry = bx, otherResults(rx) // the same block under two different certificate results
			}
			hash := func(b []byte) []byte { h, _ := new(lib.Block).BytesToBlockHash(b); return h }
			rc.tracks = []*track{
				{block: bx, results: rx, bh: hash(bx), rh: rx.Hash(), rcBuild: rc.rh, to: toX},
				{block: by, results: ry, bh: hash(by), rh: ry.Hash(), rcBuild: rc.rh, to: toY},
			}
		}
		for _, t := range rc.tracks {
			m := &bft.Message{Header: view(lib.Phase_PROPOSE),
				Qc: &lib.QuorumCertificate{Header: rc.tmpl.Qc.Header, Results: t.results, ResultsHash: t.rh, Block: t.block, BlockHash: t.bh,
					ProposerKey: rc.tmpl.Qc.ProposerKey, Signature: rc.tmpl.Qc.Signature},
				HighQc: t.highQc, RcBuildHeight: t.rcBuild}
			if rc.sc.L == 9 {
				victim := -1
				for i := range w.Nodes {
					if w.Honest(i) && w.Live(i) {
						victim = i
						break
					}
				}
				if err := m.Sign(key); err != nil {
					continue
				}
				bad := clone(m)
				bad.RcBuildHeight = t.rcBuild + 1 // not covered by the signature
				for i := range w.Nodes {
					if i == victim {
						w.enqueue(byz, i, bad, true)
					} else {
						w.enqueue(byz, i, m, true)
					}
				}
				continue
			}
			sendAll(m)
		}
	case lib.Phase_PRECOMMIT, lib.Phase_COMMIT:
		votePhase, kind := lib.Phase_PROPOSE_VOTE, KProposeVote
		if phaseFired == lib.Phase_COMMIT {
			votePhase, kind = lib.Phase_PRECOMMIT_VOTE, KPrecommitVote
		}
		if rc.sc.L == 4 || rc.sc.L == 7 {
			// the equivocator shows both (full and partial) certificates to everybody: that is
			// what turns into double-sign evidence at the replicas
			for _, t := range rc.tracks {
				for i := range w.Nodes {
					t.to[i] = true
				}
			}
		}
		for _, t := range rc.tracks {
			if phaseFired == lib.Phase_COMMIT && t.pvSig == nil {
				continue // never sent a PRECOMMIT for this track
			}
			hdr := view(votePhase)
			mk := vs.MultiKey.Copy()
			power := uint64(0)
			seen := map[int]bool{}
			for _, e := range rc.sent {
				if e.Kind != kind || e.To != byz || e.Crafted || seen[e.From] || e.From == byz {
					continue
				}
				if !bytes.Equal(e.Msg.Qc.BlockHash, t.bh) || !bytes.Equal(e.Msg.Qc.ResultsHash, t.rh) || !e.Msg.Qc.Header.Equals(hdr) {
					continue
				}
				if err := mk.AddSigner(e.Msg.Signature.Signature, e.From); err != nil {
					continue
				}
				seen[e.From] = true
				power += w.Cfg.Powers[e.From]
			}
			// the Byzantine node's own vote (it signs every track: that is the double sign)
			own := &bft.Message{Qc: &lib.QuorumCertificate{Header: hdr, BlockHash: t.bh, ResultsHash: t.rh, ProposerKey: rc.tmpl.Qc.ProposerKey}}
			_ = own.Sign(key)
			w.recordVote(byz, own)
			if err := mk.AddSigner(own.Signature.Signature, byz); err == nil {
				power += w.Cfg.Powers[byz]
			}
			if power == 0 {
				continue
			}
			sig, err := mk.AggregateSignatures()
			if err != nil {
				continue
			}
			as := &lib.AggregateSignature{Signature: sig, Bitmap: mk.Bitmap()}
			full := power >= vs.MinimumMaj23
			if !full && rc.sc.L != 4 && rc.sc.L != 7 {
				continue // a partial certificate is only interesting as evidence (equivocation mode)
			}
			ph := lib.Phase_PRECOMMIT
			if phaseFired == lib.Phase_COMMIT {
				ph = lib.Phase_COMMIT
				t.pcSig, t.pcHdr = as, hdr
			} else {
				t.pvSig, t.pvHdr = as, hdr
				if rc.sc.J == 1 {
					// replay: justify the PRECOMMIT with an OLD certificate of the first certified block
					if c := w.certFor(0, false); c != nil && c.QC != nil && c.QC.Header != nil && c.QC.Header.Phase == lib.Phase_PROPOSE_VOTE {
						m := &bft.Message{Header: view(ph), Qc: &lib.QuorumCertificate{Header: c.QC.Header.Copy(), BlockHash: c.QC.BlockHash, ResultsHash: c.QC.ResultsHash,
							ProposerKey: c.QC.ProposerKey, Signature: c.QC.Signature}, RcBuildHeight: t.rcBuild}
						sendAll(m)
						continue
					}
				}
			}
			m := &bft.Message{Header: view(ph), Qc: &lib.QuorumCertificate{Header: hdr, BlockHash: t.bh, ResultsHash: t.rh, ProposerKey: rc.tmpl.Qc.ProposerKey, Signature: as}, RcBuildHeight: t.rcBuild}
			sendAll(m)
		}
	}
}

// lockVeto hands the elected leader, before any other election vote, a validly signed ELECTION_VOTE of the Byzantine
// node that carries the highest lock certificate seen on the network (with its block and results) and the
// root-chain build height off by one (it passes the cheap lower-bound check and fails the controller's validation).
func (w *World) lockVeto(rc *roundCtx) {
	byz := w.Cfg.Byz
	if byz < 0 || w.Down(byz) || len(w.Certs) == 0 {
		return
	}
	var best *Cert
	for _, c := range w.Certs {
		if c.Block == nil || c.Results == nil {
			continue
		}
		if best == nil || best.QC.Header.Less(c.QC.Header) {
			best = c
		}
	}
	if best == nil {
		return
	}
	hq := &lib.QuorumCertificate{Header: best.QC.Header.Copy(), BlockHash: best.QC.BlockHash, ResultsHash: best.QC.ResultsHash, ProposerKey: best.QC.ProposerKey,
		Signature: best.QC.Signature, Block: best.Block, Results: best.Results}
	m := &bft.Message{Qc: &lib.QuorumCertificate{Header: &lib.View{NetworkId: NetworkID, ChainId: ChainID, Height: ChainHeight, RootHeight: rc.rh, Round: rc.round, Phase: lib.Phase_ELECTION_VOTE},
		ProposerKey: w.Nodes[rc.leader].Key.PublicKey().Bytes()}, HighQc: hq, RcBuildHeight: best.RCBuild + 1}
	if err := m.Sign(w.Nodes[byz].Key); err != nil {
		return
	}
	err := w.Nodes[rc.leader].BFT.HandleMessage(clone(m))
	w.Calls++
	if w.TraceOn {
		es := ""
		if err != nil {
			es = " ERR " + strings.ReplaceAll(err.Error(), "\n", " ")
		}
		w.tracef("veto ELECTION_VOTE n%d->n%d with lock %x@rh%d/r%d and rcBuildHeight %d (built at %d)%s", byz, rc.leader, hq.BlockHash[:4], hq.Header.RootHeight, hq.Header.Round, best.RCBuild+1, best.RCBuild, es)
	}
}

// oldElection returns a +2/3 ELECTION_VOTE certificate that names the Byzantine node, of root height rh
// and of a round other than the current one (nil if the adversary never saw one).
func (w *World) oldElection(rh, round uint64) *lib.QuorumCertificate {
	if w.Cfg.Byz < 0 {
		return nil
	}
	pub := w.Nodes[w.Cfg.Byz].Key.PublicKey().Bytes()
	vs := w.ValSet()
	for _, q := range w.AllQCs {
		if q.Header.Phase != lib.Phase_ELECTION_VOTE || q.Header.RootHeight != rh || q.Header.Round == round || !bytes.Equal(q.ProposerKey, pub) {
			continue
		}
		if partial, err := q.Signature.Check(q, vs); err != nil || partial {
			continue
		}
		return q
	}
	return nil
}

// otherResults returns well-formed certificate results that differ from r (another reward recipient).
func otherResults(r *lib.CertificateResult) *lib.CertificateResult {
	addr := crypto.Hash([]byte("other-recipient"))[:20]
	if r != nil && r.RewardRecipients != nil && len(r.RewardRecipients.PaymentPercents) > 0 && bytes.Equal(r.RewardRecipients.PaymentPercents[0].Address, addr) {
		addr = crypto.Hash([]byte("yet-another-recipient"))[:20]
	}
	return &lib.CertificateResult{
		RewardRecipients: &lib.RewardRecipients{PaymentPercents: []*lib.PaymentPercents{{Address: addr, Percent: 100, ChainId: ChainID}}},
		SlashRecipients:  &lib.SlashRecipients{},
	}
}
