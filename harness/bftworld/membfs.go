package bftworld

import (
	"fmt"
	"sort"
	"sync"
	"sync/atomic"

	"verifharness/mc"
)

// MemBFS is the same explicit-state search as mc.ReplayBFS, but a successor is computed by
// cloning the live world of the parent state (see Clone) and running ONE round on the real
// nodes, instead of replaying the whole path. auditDepth > 0 additionally recomputes every
// successor up to that depth by plain replay and aborts (harness error, exit 2) if the two
// disagree on the state key.
// cloneUntrusted is set when the clone-vs-replay audit fails: bft.BFT then carries state World.Clone does not copy
// (the tree under test added a field). The search falls back to replaying whole paths, which needs no clone.
var cloneUntrusted atomic.Bool

func distrustClone(why string) {
	if !cloneUntrusted.Swap(true) {
		fmt.Printf("NOTE: the in-memory clone of the BFT world is not faithful for this tree (%s); Search 1 continues by replaying every path from the start (slower, no clone involved)\n", why)
	}
}

type MemBFSConfig struct {
	NC         NamedConfig
	MaxDepth   int
	OpsFor     func(path []int, in Info) []int
	OnViol     func(v mc.Viol)
	OnState    func(path []int, w *World)
	Stop       func() bool
	AuditDepth int
	// Priority (optional): within one level, jobs with a higher priority run first (a deadline then cuts
	// the low-priority part of the level)
	Priority func(op int) int
}

type memState struct {
	path []int
	w    *World
}

func MemBFS(cfg MemBFSConfig) mc.BFSStats {
	st := mc.BFSStats{Complete: true}
	root := New(cfg.NC.Cfg)
	seen := map[string]bool{mc.Hash(root.StateKey()): true}
	frontier := []memState{{nil, root}}
	st.Frontier = append(st.Frontier, 1)
	if cfg.OnState != nil {
		cfg.OnState(nil, root)
	}
	var audited int64
	for depth := 0; depth < cfg.MaxDepth && len(frontier) > 0; depth++ {
		type job struct {
			parent int
			op     int
		}
		var jobs []job
		for pi, s := range frontier {
			for _, op := range cfg.OpsFor(s.path, s.w.Info()) {
				jobs = append(jobs, job{pi, op})
			}
		}
		if cfg.Priority != nil {
			sort.SliceStable(jobs, func(a, b int) bool { return cfg.Priority(jobs[a].op) > cfg.Priority(jobs[b].op) })
		}
		type res struct {
			run  bool
			ok   bool
			key  string
			w    *World
			viol *mc.Viol
		}
		results := make([]res, len(jobs))
		var mu sync.Mutex
		mc.ParallelFor(len(jobs), 0, cfg.Stop, func(i int) {
			j := jobs[i]
			parent := frontier[j.parent]
			path := append(append([]int{}, parent.path...), j.op)
			var w *World
			var ok bool
			if cloneUntrusted.Load() {
				// the clone of bft.BFT is known to be incomplete for the tree under test: plain replay of the whole path
				w, ok = Replay(cfg.NC.Cfg, path, false)
			} else {
				w = parent.w.Clone()
				ok = w.RunRound(AllScenarios[j.op])
			}
			r := res{run: true, ok: ok}
			if ok {
				if v := w.AgreementViol(cfg.NC.Name, path); v != nil {
					// re-establish on a fresh world by plain replay before believing it
					rw, rok := Replay(cfg.NC.Cfg, path, false)
					if rok && rw.AgreementViol(cfg.NC.Name, path) != nil {
						r.viol, r.ok = v, false
					} else {
						distrustClone(fmt.Sprintf("a fork seen on a cloned world is not reproduced by replaying path %v", path))
						r.key, r.w = mc.Hash(rw.StateKey()), rw
						r.ok = rok
					}
				} else {
					r.key, r.w = mc.Hash(w.StateKey()), w
					if depth < cfg.AuditDepth && !cloneUntrusted.Load() {
						rw, rok := Replay(cfg.NC.Cfg, path, false)
						if !rok || mc.Hash(rw.StateKey()) != r.key {
							// bft.BFT carries state the clone does not know (a field added to the struct): not a verdict about
							// the tree, and no reason to stop checking it. From here on every successor is computed by replay.
							distrustClone(fmt.Sprintf("clone and replay disagree on path %v\n clone:  %s\n replay: %s", path, w.StateKey(), rw.StateKey()))
							if !rok {
								results[i] = res{run: true, ok: false}
								return
							}
							r.key, r.w = mc.Hash(rw.StateKey()), rw
						}
						mu.Lock()
						audited++
						mu.Unlock()
					}
				}
			}
			results[i] = r
		})
		var next []memState
		missing := false
		for i, r := range results {
			if !r.run {
				missing = true
				continue
			}
			st.Transitions++
			if r.viol != nil {
				cfg.OnViol(*r.viol)
				continue
			}
			if !r.ok {
				st.Disabled++
				continue
			}
			if seen[r.key] {
				st.Revisits++
				continue
			}
			seen[r.key] = true
			path := append(append([]int{}, frontier[jobs[i].parent].path...), jobs[i].op)
			next = append(next, memState{path, r.w})
			if cfg.OnState != nil {
				cfg.OnState(path, r.w)
			}
		}
		if missing {
			st.Complete = false
			break
		}
		st.DepthDone = depth + 1
		st.Frontier = append(st.Frontier, len(next))
		sort.Slice(next, func(a, b int) bool { return lessPath(next[a].path, next[b].path) })
		frontier = next
		if len(next) > 0 && len(st.SamplePaths) < 4 {
			st.SamplePaths = append(st.SamplePaths, next[len(next)/2].path)
		}
	}
	st.States = len(seen)
	st.Crashes = audited // reused field: number of successors cross-checked against plain replay
	return st
}

func lessPath(a, b []int) bool {
	for i := 0; i < len(a) && i < len(b); i++ {
		if a[i] != b[i] {
			return a[i] < b[i]
		}
	}
	return len(a) < len(b)
}
