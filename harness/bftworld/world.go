// Package bftworld drives n real bft.BFT instances behind mock controllers over a
// virtual network and a virtual clock. Every transition of the searches built on it is
// a call into canopy's bft package (HandlePhase / HandleMessage / NewHeight).
package bftworld

import (
	"bytes"
	"encoding/hex"
	"fmt"
	"sort"
	"strings"
	"sync"
	"sync/atomic"
	"time"

	"github.com/canopy-network/canopy/bft"
	"github.com/canopy-network/canopy/lib"
	"github.com/canopy-network/canopy/lib/crypto"
	"google.golang.org/protobuf/proto"

	"verifharness/env"
)

const (
	ChainHeight = uint64(1) // height being decided (1: block headers need no last certificate)
	ChainID     = uint64(2) // a nested chain ...
	RootChainID = uint64(1) // ... whose committee lives on root chain 1
	NetworkID   = uint64(1)
)

// Config fixes the committee and timing of one world.
type Config struct {
	Powers []uint64 // voting power per validator (index = node id)
	Byz    int      // index of the Byzantine validator, -1 for none
	BaseRH uint64   // root height at the start
	// phase timeouts in virtual ms (index by lib.Phase ELECTION..COMMIT)
	Timeouts [7]int
	// NextPowers, when set, is the committee at every root height above BaseRH (0 = the validator left
	// the committee): a root-chain update that is NOT committee-preserving. Only the message-level
	// liveness search (C15) uses such configurations; C01 is stated for committee-preserving updates.
	NextPowers []uint64
	// GSTBump: the root chain advanced during the adversarial prefix; every node learns the new root
	// height when the network heals (message-level liveness search only).
	GSTBump bool
	// Crashed validators never fire a timer and never receive a message.
	Crashed []int
	// KeepZero: members with voting power 0 stay in the committee list (attribution part of C14); elsewhere power 0 means
	// "not a member".
	KeepZero bool
	// Late: Search 1 also offers the round scenarios in which a leader message arrives AFTER the phase timeout that
	// would have used it (stored, not acted on) and the rounds in which nothing fresh is delivered while somebody still
	// collects votes; the state key then includes the stored leader messages (see lateConfigs).
	Late bool
}

func (c Config) N() int { return len(c.Powers) }

// Kind classifies consensus messages.
type Kind int

const (
	KElection Kind = iota
	KElectionVote
	KPropose
	KProposeVote
	KPrecommit
	KPrecommitVote
	KCommit
	KPacemaker
)

var kindNames = []string{"ELECTION", "ELECTION_VOTE", "PROPOSE", "PROPOSE_VOTE", "PRECOMMIT", "PRECOMMIT_VOTE", "COMMIT", "PACEMAKER"}

func (k Kind) String() string { return kindNames[k] }

// Envelope is one message in flight.
type Envelope struct {
	From, To int
	Kind     Kind
	Msg      *bft.Message
	Round    uint64
	RH       uint64
	Crafted  bool
	SentAt   int64
}

func KindOf(m *bft.Message) Kind {
	if m.IsPacemakerMessage() {
		return KPacemaker
	}
	if m.IsReplicaMessage() {
		switch m.Qc.Header.Phase {
		case lib.Phase_ELECTION_VOTE:
			return KElectionVote
		case lib.Phase_PROPOSE_VOTE:
			return KProposeVote
		default:
			return KPrecommitVote
		}
	}
	switch m.Header.Phase {
	case lib.Phase_ELECTION:
		return KElection
	case lib.Phase_PROPOSE:
		return KPropose
	case lib.Phase_PRECOMMIT:
		return KPrecommit
	default:
		return KCommit
	}
}

func msgView(m *bft.Message) *lib.View {
	if m.Header != nil {
		return m.Header
	}
	return m.Qc.Header
}

// Commit is what an honest node handed to SelfSendBlock.
type Commit struct {
	Node        int
	BlockHash   string
	ResultsHash string
	Round       uint64
	RH          uint64
}

// Cert is a +2/3 certificate observed on the network (adversary knowledge).
type Cert struct {
	QC      *lib.QuorumCertificate // hashes + signature (+block/results when known)
	Block   []byte
	Results *lib.CertificateResult
	RCBuild uint64
}

type Node struct {
	Idx       int
	Key       crypto.PrivateKeyI
	BFT       *bft.BFT
	ctl       *mockCtl
	FireAt    int64
	Committed *Commit
	Steps     int
}

// World is one execution in progress.
type World struct {
	Cfg     Config
	Nodes   []*Node
	Vals    *lib.ConsensusValidators
	Pending []*Envelope
	Now     int64
	Commits []Commit
	// adversary knowledge
	Certs   []*Cert                  // certificates of phase PROPOSE_VOTE (lock certificates), in order of appearance
	AllQCs  []*lib.QuorumCertificate // every aggregate certificate that appeared on the network (full or partial)
	Blocks  map[string][]byte
	Results map[string]*lib.CertificateResult
	// ground truth: who signed which payload in which view (replica votes and crafted ones)
	Signed     map[string]map[int]map[string]bool // viewKey -> validator -> payload set
	Calls      int64
	Trace      []string
	TraceOn    bool
	silent     bool // tail mode: every message of the Byzantine node is lost
	vs         *lib.ValidatorSet
	vsNext     *lib.ValidatorSet
	roundsBase []uint64 // rounds a node had started before its root-height bumps (rounds restart at 0 on a bump)
}

func (w *World) tracef(f string, a ...any) {
	if w.TraceOn {
		w.Trace = append(w.Trace, fmt.Sprintf("t=%d ", w.Now)+fmt.Sprintf(f, a...))
	}
}

func viewKey(v *lib.View) string {
	return fmt.Sprintf("h%d/rh%d/r%d/p%d", v.Height, v.RootHeight, v.Round, v.Phase)
}

// ---------------------------------------------------------------------------------------
// mock controller

type mockCtl struct {
	mu       sync.Mutex
	w        *World
	n        *Node
	rh       uint64
	syncing  atomic.Bool
	commitCh chan struct{}
}

func (c *mockCtl) Lock()                   { c.mu.Lock() }
func (c *mockCtl) Unlock()                 { c.mu.Unlock() }
func (c *mockCtl) ChainHeight() uint64     { return ChainHeight }
func (c *mockCtl) RootChainHeight() uint64 { return c.rh }
func (c *mockCtl) LoadCertificate(height uint64) (*lib.QuorumCertificate, lib.ErrorI) {
	return &lib.QuorumCertificate{Header: &lib.View{Height: height, NetworkId: NetworkID, ChainId: ChainID}, BlockHash: crypto.Hash([]byte("genesis"))}, nil
}
func (c *mockCtl) CommitCertificate(*lib.QuorumCertificate, *lib.Block, *lib.BlockResult, uint64) lib.ErrorI {
	return nil
}
func (c *mockCtl) GossipBlock(*lib.QuorumCertificate, []byte, uint64) {}
func (c *mockCtl) GossipConsensus(*bft.Message, []byte)               {}
func (c *mockCtl) SelfSendBlock(qc *lib.QuorumCertificate, _ uint64) {
	cm := Commit{Node: c.n.Idx, BlockHash: hex.EncodeToString(qc.BlockHash), ResultsHash: hex.EncodeToString(qc.ResultsHash), Round: qc.Header.Round, RH: qc.Header.RootHeight}
	c.n.Committed = &cm
	c.commitCh <- struct{}{}
}
func (c *mockCtl) LoadRootChainId(uint64) uint64                   { return RootChainID }
func (c *mockCtl) LoadIsOwnRoot() bool                             { return false }
func (c *mockCtl) Syncing() *atomic.Bool                           { return &c.syncing }
func (c *mockCtl) ResetFSM()                                       {}
func (c *mockCtl) SendCertificateResultsTx(*lib.QuorumCertificate) {}
func (c *mockCtl) LoadCommittee(_, rh uint64) (lib.ValidatorSet, lib.ErrorI) {
	if c.w.Cfg.NextPowers != nil && rh > c.w.Cfg.BaseRH {
		if c.w.vsNext == nil {
			next := &lib.ConsensusValidators{}
			for i, v := range c.w.Vals.ValidatorSet {
				if p := c.w.Cfg.NextPowers[i]; p > 0 {
					next.ValidatorSet = append(next.ValidatorSet, &lib.ConsensusValidator{PublicKey: v.PublicKey, VotingPower: p, NetAddress: v.NetAddress})
				}
			}
			vs, err := lib.NewValidatorSet(next)
			if err != nil {
				return vs, err
			}
			c.w.vsNext = &vs
		}
		return *c.w.vsNext, nil
	}
	// committee-preserving root-chain updates: the same committee at every root height
	// (one decoded set per world; every user copies MultiKey before mutating it)
	if c.w.vs == nil {
		base := &lib.ConsensusValidators{}
		for _, v := range c.w.Vals.ValidatorSet {
			if v.VotingPower > 0 || c.w.Cfg.KeepZero {
				base.ValidatorSet = append(base.ValidatorSet, v)
			}
		}
		vs, err := lib.NewValidatorSet(base)
		if err != nil {
			return vs, err
		}
		c.w.vs = &vs
	}
	return *c.w.vs, nil
}
func (c *mockCtl) LoadCommitteeData() (*lib.CommitteeData, lib.ErrorI) {
	// the chain last certified a block at the root height the world starts at (the normal case while the root chain has not advanced)
	return &lib.CommitteeData{ChainId: ChainID, LastRootHeightUpdated: c.w.Cfg.BaseRH, LastChainHeightUpdated: 0}, nil
}
func (c *mockCtl) LoadLastProposers(uint64) (*lib.Proposers, lib.ErrorI) {
	return &lib.Proposers{Addresses: [][]byte{bytes.Repeat([]byte{1}, 20), bytes.Repeat([]byte{2}, 20)}}, nil
}
func (c *mockCtl) LoadMinimumEvidenceHeight(_, _ uint64) (*uint64, lib.ErrorI) {
	z := uint64(0)
	return &z, nil
}
func (c *mockCtl) IsValidDoubleSigner(_, _ uint64, _ []byte) bool { return true }
func (c *mockCtl) LoadMaxBlockSize() int                          { return 1 << 20 }

// ProduceProposal mirrors controller.ProduceProposal's contract: a structurally valid block
// unique per (proposer, root height, round) and certificate results that carry the double
// signers derived from the evidence by the real ProcessDSE (as CalculateSlashRecipients does).
func (c *mockCtl) ProduceProposal(be *bft.ByzantineEvidence, _ *crypto.VDF) (uint64, []byte, *lib.CertificateResult, lib.ErrorI) {
	b := c.n.BFT
	blk, res := MakeBlock(c.n.Idx, c.rh, b.Round, 0)
	if be != nil {
		ds, err := b.ProcessDSE(be.DSE.Evidence...)
		if err == nil {
			res.SlashRecipients.DoubleSigners = ds
		}
	}
	return c.rh, blk, res, nil
}

// ValidateProposal mirrors the stateless part of controller.ValidateProposal (the FSM is out
// of scope of the BFT world): basic proposal checks plus the real evidence validation.
func (c *mockCtl) ValidateProposal(rcBuildHeight uint64, qc *lib.QuorumCertificate, evidence *bft.ByzantineEvidence) (*lib.BlockResult, lib.ErrorI) {
	block, err := qc.CheckProposalBasic(ChainHeight, NetworkID, ChainID)
	if err != nil {
		return nil, err
	}
	// the real controller recomputes the certificate results from root-chain data AT the build height (reward
	// recipients, order book, DEX batch): a block validates only with the build height it was built at
	if built, ok := builtAt.Load(string(block.BlockHeader.Hash)); ok && built.(uint64) != rcBuildHeight {
		return nil, lib.ErrInvalidRCBuildHeight()
	}
	if err = c.n.BFT.ValidateByzantineEvidence(qc.Results.SlashRecipients, evidence); err != nil {
		return nil, err
	}
	return &lib.BlockResult{BlockHeader: block.BlockHeader}, nil
}

func (c *mockCtl) SendToReplicas(replicas lib.ValidatorSet, msg lib.Signable) {
	if err := msg.Sign(c.n.Key); err != nil {
		return
	}
	m := msg.(*bft.Message)
	for _, v := range replicas.ValidatorSet.ValidatorSet {
		if to := c.w.IndexOf(v.PublicKey); to >= 0 {
			c.w.enqueue(c.n.Idx, to, m, false)
		}
	}
}

func (c *mockCtl) SendToProposer(msg lib.Signable) {
	if err := msg.Sign(c.n.Key); err != nil {
		return
	}
	m := msg.(*bft.Message)
	to := c.w.IndexOf(c.n.BFT.ProposerKey)
	c.w.recordVote(c.n.Idx, m)
	if to < 0 {
		return
	}
	c.w.enqueue(c.n.Idx, to, m, false)
}

// builtAt: block hash -> the root height the block was built at (MakeBlock is a pure function of its arguments, so
// one process-wide table serves every world).
var builtAt sync.Map

// MakeBlock builds a structurally valid block whose identity is (proposer, rh, round, salt).
func MakeBlock(proposer int, rh, round uint64, salt int) ([]byte, *lib.CertificateResult) {
	h32 := func(s string) []byte { return crypto.Hash([]byte(s)) }
	hdr := &lib.BlockHeader{
		Height: ChainHeight, NetworkId: uint32(NetworkID), Time: 1_700_000_000_000_000 + uint64(proposer)*1000 + rh*100 + round*10 + uint64(salt),
		StateRoot: h32("state"), TransactionRoot: h32("txs"), ValidatorRoot: h32("vals"), NextValidatorRoot: h32("nvals"), LastBlockHash: h32("last"),
		ProposerAddress: env.Addr(env.BLS(proposer)).Bytes(),
	}
	if _, err := hdr.SetHash(); err != nil {
		panic(err)
	}
	builtAt.Store(string(hdr.Hash), rh)
	bz, err := lib.Marshal(&lib.Block{BlockHeader: hdr})
	if err != nil {
		panic(err)
	}
	res := &lib.CertificateResult{
		RewardRecipients: &lib.RewardRecipients{PaymentPercents: []*lib.PaymentPercents{{Address: hdr.ProposerAddress, Percent: 100, ChainId: ChainID}}},
		SlashRecipients:  &lib.SlashRecipients{},
	}
	return bz, res
}

// ---------------------------------------------------------------------------------------

func clone(m *bft.Message) *bft.Message { return proto.Clone(m).(*bft.Message) }

// New builds the world: n nodes at round 0, ELECTION, root height BaseRH.
func New(cfg Config) *World {
	w := &World{Cfg: cfg, Blocks: map[string][]byte{}, Results: map[string]*lib.CertificateResult{}, Signed: map[string]map[int]map[string]bool{}}
	w.roundsBase = make([]uint64, len(cfg.Powers))
	w.Vals = &lib.ConsensusValidators{}
	for i, p := range cfg.Powers {
		w.Vals.ValidatorSet = append(w.Vals.ValidatorSet, &lib.ConsensusValidator{PublicKey: env.BLS(i).PublicKey().Bytes(), VotingPower: p, NetAddress: fmt.Sprintf("tcp://n%d", i)})
	}
	for i := range cfg.Powers {
		c := lib.DefaultConfig()
		c.ChainId = ChainID
		c.P2PConfig.NetworkID = NetworkID
		c.RunVDF = false
		c.ElectionTimeoutMS, c.ElectionVoteTimeoutMS, c.ProposeTimeoutMS, c.ProposeVoteTimeoutMS = cfg.Timeouts[0], cfg.Timeouts[1], cfg.Timeouts[2], cfg.Timeouts[3]
		c.PrecommitTimeoutMS, c.PrecommitVoteTimeoutMS, c.CommitTimeoutMS = cfg.Timeouts[4], cfg.Timeouts[5], cfg.Timeouts[6]
		n := &Node{Idx: i, Key: env.BLS(i)}
		ctl := &mockCtl{w: w, n: n, rh: cfg.BaseRH, commitCh: make(chan struct{}, 4)}
		b, err := bft.New(c, n.Key, cfg.BaseRH, ChainHeight, ctl, false, nil, lib.NewNullLogger())
		if err != nil {
			panic(err)
		}
		// what BFT.Start() does before its loop
		b.ValidatorSet, _ = ctl.LoadCommittee(RootChainID, cfg.BaseRH)
		b.CommitteeData, _ = ctl.LoadCommitteeData()
		b.NewHeight(false) // the first ResetBFT of a started node
		n.BFT, n.ctl = b, ctl
		w.Nodes = append(w.Nodes, n)
	}
	return w
}

// ValSet returns the (constant) committee.
func (w *World) ValSet() lib.ValidatorSet {
	vs, _ := w.Nodes[0].ctl.LoadCommittee(RootChainID, 0)
	return vs
}

func (w *World) IndexOf(pub []byte) int {
	for i, v := range w.Vals.ValidatorSet {
		if bytes.Equal(v.PublicKey, pub) {
			return i
		}
	}
	return -1
}

func (w *World) Honest(i int) bool { return i != w.Cfg.Byz }

func (w *World) enqueue(from, to int, m *bft.Message, crafted bool) {
	v := msgView(m)
	e := &Envelope{From: from, To: to, Kind: KindOf(m), Msg: clone(m), Round: v.Round, RH: v.RootHeight, Crafted: crafted, SentAt: w.Now}
	w.Pending = append(w.Pending, e)
	w.observe(m)
}

// observe records adversary knowledge: every aggregate certificate and every block/results body seen on the wire.
func (w *World) observe(m *bft.Message) {
	if m.Qc != nil && m.Qc.Block != nil && m.Qc.BlockHash != nil {
		w.Blocks[string(m.Qc.BlockHash)] = m.Qc.Block
		if m.Qc.Results != nil {
			w.Results[string(m.Qc.ResultsHash)] = m.Qc.Results
		}
	}
	if m.Header == nil || m.Qc == nil || m.Qc.Signature == nil || m.Qc.Header == nil {
		return
	}
	for _, q := range w.AllQCs {
		if bytes.Equal(q.Signature.Signature, m.Qc.Signature.Signature) && bytes.Equal(q.Signature.Bitmap, m.Qc.Signature.Bitmap) {
			return
		}
	}
	qc := &lib.QuorumCertificate{Header: m.Qc.Header.Copy(), BlockHash: m.Qc.BlockHash, ResultsHash: m.Qc.ResultsHash, ProposerKey: m.Qc.ProposerKey,
		Signature: &lib.AggregateSignature{Signature: m.Qc.Signature.Signature, Bitmap: m.Qc.Signature.Bitmap}}
	w.AllQCs = append(w.AllQCs, qc)
	if qc.Header.Phase == lib.Phase_PROPOSE_VOTE {
		vs := w.ValSet()
		if partial, err := qc.Signature.Check(qc, vs); err == nil && !partial {
			w.Certs = append(w.Certs, &Cert{QC: qc, Block: w.Blocks[string(qc.BlockHash)], Results: w.Results[string(qc.ResultsHash)], RCBuild: m.RcBuildHeight})
		}
	}
}

func (w *World) recordVote(signer int, m *bft.Message) {
	if m.Qc == nil || m.Qc.Header == nil || m.Qc.Header.Phase == lib.Phase_ELECTION_VOTE || m.Qc.Header.Phase == lib.Phase_ROUND_INTERRUPT {
		return
	}
	k := viewKey(m.Qc.Header)
	if w.Signed[k] == nil {
		w.Signed[k] = map[int]map[string]bool{}
	}
	if w.Signed[k][signer] == nil {
		w.Signed[k][signer] = map[string]bool{}
	}
	w.Signed[k][signer][string(m.Qc.BlockHash)+"|"+string(m.Qc.ResultsHash)] = true
}

// Live reports whether node i still takes part in this height.
func (w *World) Live(i int) bool { return !w.Down(i) && w.Member(i) }

// Down: committed this height already, or crashed (Config.Crashed).
func (w *World) Down(i int) bool {
	for _, c := range w.Cfg.Crashed {
		if c == i {
			return true
		}
	}
	return w.Nodes[i].Committed != nil
}

// Member reports whether validator i is in the committee of the root height node i knows.
func (w *World) Member(i int) bool {
	if w.Cfg.NextPowers != nil && w.Nodes[i].ctl.rh > w.Cfg.BaseRH {
		return w.Cfg.NextPowers[i] > 0
	}
	return w.Cfg.Powers[i] > 0
}

// Fire runs HandlePhase on node i exactly as BFT.Start's timer branch does and schedules the
// node's next timer on the virtual clock with the implementation's own WaitTime.
func (w *World) Fire(i int) {
	n := w.Nodes[i]
	b := n.BFT
	phaseBefore := b.Phase
	n.ctl.Lock()
	b.HandlePhase()
	n.ctl.Unlock()
	w.Calls++
	n.Steps++
	w.tracef("fire n%d %s r%d rh%d -> %s r%d lock=%s", i, lib.Phase_name[int32(phaseBefore)], b.Round, b.RootHeight, lib.Phase_name[int32(b.Phase)], b.Round, LockStr(b))
	if phaseBefore == lib.Phase_COMMIT_PROCESS && b.Phase == lib.Phase_COMMIT_PROCESS {
		// the commit goroutine was spawned: join it through the mock
		select {
		case <-n.ctl.commitCh:
		case <-time.After(30 * time.Second):
			panic("bftworld: commit goroutine did not report")
		}
		w.Commits = append(w.Commits, *n.Committed)
		w.tracef("COMMIT n%d block=%s", i, n.Committed.BlockHash[:8])
		return
	}
	// SetTimerForNextPhase used WaitTime(phase it saw, round it saw); recompute it
	var wait time.Duration
	switch b.Phase {
	case lib.Phase_ELECTION: // came from PACEMAKER
		wait = 0
	case lib.Phase_PACEMAKER: // came from ROUND_INTERRUPT
		wait = b.WaitTime(lib.Phase_ROUND_INTERRUPT, b.Round)
	default:
		wait = b.WaitTime(b.Phase-1, b.Round)
	}
	n.FireAt = w.Now + wait.Milliseconds()
}

// Deliver hands one envelope to its recipient (a fresh copy, as the wire would).
func (w *World) Deliver(e *Envelope) lib.ErrorI {
	if !w.Live(e.To) {
		return nil
	}
	err := w.Nodes[e.To].BFT.HandleMessage(clone(e.Msg))
	w.Calls++
	if w.TraceOn {
		es := ""
		if err != nil {
			es = " ERR " + err.Error()
		}
		w.tracef("deliver %s n%d->n%d r%d rh%d%s", e.Kind, e.From, e.To, e.Round, e.RH, es)
	}
	return err
}

// Spam hands every live honest node what an ACTIVE adversary can always send with its own key: a pacemaker
// message claiming an absurd round and an ELECTION_VOTE for a far-future round that names the recipient.
// Both are validly signed; a correct node must neither lose the votes it is collecting nor jump rounds on them.
func (w *World) Spam(rh, round uint64) {
	byz := w.Cfg.Byz
	if byz < 0 || w.Down(byz) {
		return
	}
	key := w.Nodes[byz].Key
	view := func(r uint64, p lib.Phase) *lib.View {
		return &lib.View{NetworkId: NetworkID, ChainId: ChainID, Height: ChainHeight, RootHeight: rh, Round: r, Phase: p}
	}
	for i, n := range w.Nodes {
		if i == byz || !w.Live(i) {
			continue
		}
		pm := &bft.Message{Qc: &lib.QuorumCertificate{Header: view(1_000_000_000, lib.Phase_ROUND_INTERRUPT)}}
		// a fresh far-future round every time (the virtual clock is strictly increasing between timer generations)
		ev := &bft.Message{Qc: &lib.QuorumCertificate{Header: view(round+1000+uint64(w.Now), lib.Phase_ELECTION_VOTE), ProposerKey: n.Key.PublicKey().Bytes()}}
		for _, m := range []*bft.Message{pm, ev} {
			if err := m.Sign(key); err != nil {
				continue
			}
			err := n.BFT.HandleMessage(clone(m))
			w.Calls++
			if w.TraceOn {
				es := ""
				if err != nil {
					es = " ERR " + strings.ReplaceAll(err.Error(), "\n", " ")
				}
				w.tracef("spam %s n%d->n%d claimed round %d%s", KindOf(m), byz, i, m.Qc.Header.Round, es)
			}
		}
	}
}

// BumpRoot delivers a committee-preserving root-chain update to node i: the NEW_COMMITTEE branch of BFT.Start.
func (w *World) BumpRoot(i int, rh uint64) {
	n := w.Nodes[i]
	if w.Down(i) {
		return
	}
	n.ctl.rh = rh
	if !w.Member(i) {
		// no longer a validator: its controller stops consensus for this committee
		w.tracef("bump n%d rh=%d: left the committee", i, rh)
		return
	}
	w.roundsBase[i] += n.BFT.Round + 1
	n.ctl.Lock()
	n.BFT.NewHeight(true)
	n.ctl.Unlock()
	w.Calls++
	n.FireAt = w.Now // NewHeightTimeout is the same for everyone; relative order is what matters
	w.tracef("bump n%d rh=%d", i, rh)
}

func LockStr(b *bft.BFT) string {
	if b.HighQC == nil {
		return "-"
	}
	return fmt.Sprintf("%x@rh%d/r%d", b.HighQC.BlockHash[:4], b.HighQC.Header.RootHeight, b.HighQC.Header.Round)
}

// StateKey is the canonical digest of everything that can influence the future at a round boundary.
func (w *World) StateKey() string {
	var sb strings.Builder
	for i, n := range w.Nodes {
		b := n.BFT
		if n.Committed != nil {
			fmt.Fprintf(&sb, "n%d:C(%s);", i, n.Committed.BlockHash[:12])
			continue
		}
		fmt.Fprintf(&sb, "n%d:rh%d/r%d/p%d/dt%d/lock=%s/rcb%d;", i, b.RootHeight, b.Round, b.Phase, n.FireAt-w.Now, LockStr(b), b.RCBuildHeight)
		// partial QCs and evidence carried into later rounds. Not part of the key (argued
		// future-irrelevant at a lockstep round boundary): stored pacemaker messages (their rounds
		// are <= the current round, Pacemaker() only ever jumps forward), votes/proposals of finished
		// rounds (indexed by round, never read again; R0 election candidates kept across a
		// NEW_COMMITTEE reset fail VRF verification against the new root height's seed).
		fmt.Fprintf(&sb, "pqc%d/dse%d;", len(b.PartialQCs), len(b.ByzantineEvidence.DSE.Evidence))
		if w.Cfg.Late {
			// stored leader messages: on a correct tree those of finished rounds are never read again, but a tree that
			// keeps them across a reset (or looks them up by round only) acts on them; states that differ in them must
			// not be merged with the state "nothing arrived", or the search drops exactly the path that matters
			var ps []string
			for r, byPhase := range b.Proposals {
				for ph, ms := range byPhase {
					if len(ms) > 0 && ph != "ELECTION" {
						ps = append(ps, fmt.Sprintf("%d%s%d", r, ph, len(ms)))
					}
				}
			}
			sort.Strings(ps)
			sb.WriteString("st[" + strings.Join(ps, ",") + "];")
		}
	}
	cs := []string{}
	for _, c := range w.Certs {
		cs = append(cs, fmt.Sprintf("%x@rh%d/r%d", c.QC.BlockHash[:4], c.QC.Header.RootHeight, c.QC.Header.Round))
	}
	sort.Strings(cs)
	sb.WriteString(strings.Join(cs, ","))
	return sb.String()
}

// DistinctCommits returns the set of committed (block,results) payloads of honest nodes.
func (w *World) DistinctCommits() map[string][]int {
	out := map[string][]int{}
	for _, c := range w.Commits {
		if w.Honest(c.Node) {
			k := c.BlockHash + "|" + c.ResultsHash
			out[k] = append(out[k], c.Node)
		}
	}
	return out
}
