package bftworld

import (
	"github.com/canopy-network/canopy/bft"
	"github.com/canopy-network/canopy/lib"
	"google.golang.org/protobuf/proto"
)

// Clone copies a world AT A ROUND BOUNDARY (nothing in flight, every live node about to
// fire ELECTION). bft.BFT cannot be copied wholesale from outside its package (VoteSet holds
// an unexported multi-key), so the copy is a fresh bft.New plus every exported field that
// outlives a round. What is deliberately NOT copied, and why that is sound here:
//   - Votes: indexed by round; the next round starts with no vote for it (Search 1 loses
//     undelivered messages at the round end) and NewHeight() replaces the map on a bump;
//   - the atomic phase/round/deadline mirrors: only read by external readers (controller);
//   - timers, logger, VDF service (disabled).
//
// The search cross-checks this against plain replay: see main.go (clone-vs-replay audit) —
// and every violation is re-established by replaying its path on a fresh world before it is
// reported, so a cloning mistake can cost coverage but never raise a false alarm.
func (w *World) Clone() *World {
	c := New(w.Cfg)
	c.Now = w.Now
	c.Commits = append([]Commit{}, w.Commits...)
	c.Calls = w.Calls
	copy(c.roundsBase, w.roundsBase)
	for _, ct := range w.Certs {
		c.Certs = append(c.Certs, ct) // immutable once recorded
	}
	c.AllQCs = append(c.AllQCs, w.AllQCs...)
	for k, v := range w.Blocks {
		c.Blocks[k] = v
	}
	for k, v := range w.Results {
		c.Results[k] = v
	}
	for vk, m := range w.Signed {
		c.Signed[vk] = map[int]map[string]bool{}
		for s, ps := range m {
			c.Signed[vk][s] = map[string]bool{}
			for p := range ps {
				c.Signed[vk][s][p] = true
			}
		}
	}
	for i, n := range w.Nodes {
		cn := c.Nodes[i]
		cn.FireAt, cn.Steps = n.FireAt, n.Steps
		if n.Committed != nil {
			cm := *n.Committed
			cn.Committed = &cm
		}
		cn.ctl.rh = n.ctl.rh
		copyBFT(cn.BFT, n.BFT)
	}
	return c
}

func cloneQC(q *lib.QuorumCertificate) *lib.QuorumCertificate {
	if q == nil {
		return nil
	}
	return proto.Clone(q).(*lib.QuorumCertificate)
}

func copyBFT(dst, src *bft.BFT) {
	dst.View = src.View.Copy()
	dst.Votes = make(bft.VotesForHeight)
	dst.Proposals = make(bft.ProposalsForHeight)
	for r, byPhase := range src.Proposals {
		dst.Proposals[r] = map[string][]*bft.Message{}
		for ph, ms := range byPhase {
			for _, m := range ms {
				if m == nil {
					dst.Proposals[r][ph] = append(dst.Proposals[r][ph], nil)
				} else {
					dst.Proposals[r][ph] = append(dst.Proposals[r][ph], clone(m))
				}
			}
		}
	}
	dst.ProposerKey = append([]byte(nil), src.ProposerKey...)
	if src.ProposerKey == nil {
		dst.ProposerKey = nil
	}
	dst.ValidatorSet = src.ValidatorSet
	if src.CommitteeData != nil {
		dst.CommitteeData = proto.Clone(src.CommitteeData).(*lib.CommitteeData)
	}
	dst.HighQC = cloneQC(src.HighQC)
	dst.RCBuildHeight = src.RCBuildHeight
	dst.Block = append([]byte(nil), src.Block...)
	if src.Block == nil {
		dst.Block = nil
	}
	dst.BlockHash = append([]byte(nil), src.BlockHash...)
	if src.BlockHash == nil {
		dst.BlockHash = nil
	}
	if src.Results != nil {
		dst.Results = proto.Clone(src.Results).(*lib.CertificateResult)
	} else {
		dst.Results = nil
	}
	if src.BlockResult != nil {
		dst.BlockResult = proto.Clone(src.BlockResult).(*lib.BlockResult)
	} else {
		dst.BlockResult = nil
	}
	if src.SortitionData != nil {
		sd := *src.SortitionData
		dst.SortitionData = &sd
	} else {
		dst.SortitionData = nil
	}
	dst.HighVDF = src.HighVDF
	dst.VDFCache = nil
	ev := &bft.ByzantineEvidence{DSE: bft.NewDSE()}
	if src.ByzantineEvidence != nil {
		for _, e := range src.ByzantineEvidence.DSE.Evidence {
			ev.DSE.Evidence = append(ev.DSE.Evidence, proto.Clone(e).(*bft.DoubleSignEvidence))
		}
		for k, v := range src.ByzantineEvidence.DSE.DeDuplicator {
			ev.DSE.DeDuplicator[k] = v
		}
	}
	dst.ByzantineEvidence = ev
	dst.PartialQCs = make(bft.PartialQCs)
	for k, q := range src.PartialQCs {
		dst.PartialQCs[k] = cloneQC(q)
	}
	dst.PacemakerMessages = make(bft.PacemakerMessages)
	for k, m := range src.PacemakerMessages {
		dst.PacemakerMessages[k] = clone(m)
	}
	dst.Config = src.Config
}
