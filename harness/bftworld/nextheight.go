package bftworld

import (
	"fmt"
	"time"

	"github.com/canopy-network/canopy/bft"

	"verifharness/mc"
)

// NextHeightStart drives the REAL BFT.Start() loop (timers and all) of one node behind the mock controller and
// hands it the reset that follows a committed block, with the start-time stamp the block message carried. The
// stamp is not covered by any signature: the leader puts it into its COMMIT message, every replica copies it into
// the block message it sends itself and gossips, and the controller passes it on as ResetBFT.StartTime. Whatever
// the stamp says (nothing, now, the past, the future), a correct node must start the next height: its first
// ELECTION message must appear. The new-height timeout is 20 ms and the block time 200 ms here; the verdict
// waits 20 s of wall time (a thousand times the expected delay), so a loaded machine cannot turn a slow start into a failure.
func NextHeightStart() (viols []mc.Viol, outcomes map[string]string) {
	outcomes = map[string]string{}
	cases := []struct {
		name  string
		stamp func() time.Time
	}{
		{"no-stamp", func() time.Time { return time.Time{} }},
		{"stamp=now", time.Now},
		{"stamp=now-50ms", func() time.Time { return time.Now().Add(-50 * time.Millisecond) }},
		{"stamp=now-1h", func() time.Time { return time.Now().Add(-time.Hour) }},
		{"stamp=now+150ms", func() time.Time { return time.Now().Add(150 * time.Millisecond) }},
		{"stamp=now+1h", func() time.Time { return time.Now().Add(time.Hour) }},
		{"stamp=now+100y", func() time.Time { return time.Now().Add(100 * 365 * 24 * time.Hour) }},
	}
	for _, rootUpdate := range []bool{false, true} {
		for _, c := range cases {
			name := fmt.Sprintf("%s:root-chain-update=%v", c.name, rootUpdate)
			w := New(Config{Powers: []uint64{1, 1, 1, 1}, Byz: -1, BaseRH: 2, Timeouts: [7]int{10, 10, 10, 10, 10, 10, 10}})
			n := w.Nodes[0]
			b := n.BFT
			b.Config.NewHeightTimeoutMs = 20
			n.ctl.Lock()
			w.Pending = nil
			n.ctl.Unlock()
			go b.Start()
			t0 := time.Now()
			b.ResetBFT <- bft.ResetBFT{IsRootChainUpdate: rootUpdate, StartTime: c.stamp()}
			started := false
			for time.Since(t0) < 20*time.Second {
				n.ctl.Lock()
				k := len(w.Pending)
				n.ctl.Unlock()
				if k > 0 {
					started = true
					break
				}
				time.Sleep(5 * time.Millisecond)
			}
			if started {
				outcomes[name] = fmt.Sprintf("first message after %d ms", time.Since(t0).Milliseconds())
				continue
			}
			outcomes[name] = "NOT STARTED within 20 s"
			viols = append(viols, mc.Viol{Sig: "C15:next-height-not-started:" + c.name, What: fmt.Sprintf("after a reset (root-chain update=%v) whose start-time stamp is %s the node's BFT loop sent no message for 20 s (new-height timeout 20 ms): the unsigned stamp of a block / COMMIT message sets the start of the next height", rootUpdate, c.name),
				Replay: map[string]any{"part": "next-height"}})
		}
	}
	return
}
