package bftworld

import (
	"encoding/hex"
	"fmt"
	"sort"
	"strconv"
	"strings"

	"github.com/canopy-network/canopy/bft"
	"github.com/canopy-network/canopy/lib"
	"github.com/canopy-network/canopy/lib/crypto"

	"verifharness/mc"
)

// AllScenarios is the fixed operation alphabet of Search 1 (canonical combinations only:
// choices that cannot matter given an earlier choice are pinned to 0).
var AllScenarios = func() []Scenario {
	type pq struct{ p, q1, q2 int }
	var pqs []pq
	pqs = append(pqs, pq{1, 0, 0}) // blacked-out round
	for _, q1 := range []int{0, 2} {
		for q2 := 0; q2 <= 6; q2++ {
			pqs = append(pqs, pq{0, q1, q2})
		}
	}
	pqs = append(pqs, pq{0, 1, 0}, pq{0, 3, 0})
	var out []Scenario
	for _, bump := range []bool{false, true} {
		for l := 0; l <= 6; l++ {
			for v := 0; v <= 1; v++ {
				for e := 0; e <= 2; e++ {
					for _, x := range pqs {
						out = append(out, Scenario{Bump: bump, E: e, P: x.p, Q1: x.q1, Q2: x.q2, V: v, L: l})
					}
				}
			}
		}
	}
	// leader modes added later are appended so that the indices of the earlier scenarios (replay artefacts) stay valid
	for _, bump := range []bool{false, true} {
		for l := 7; l <= 8; l++ {
			for e := 0; e <= 2; e++ {
				for _, x := range pqs {
					out = append(out, Scenario{Bump: bump, E: e, P: x.p, Q1: x.q1, Q2: x.q2, V: 0, L: l})
				}
			}
		}
	}
	// replayed PRECOMMIT justification (J=1), combined with the leader modes that put a proposal on the table
	for _, bump := range []bool{false, true} {
		for _, l := range []int{8, 1, 3} {
			for _, x := range pqs {
				out = append(out, Scenario{Bump: bump, P: x.p, Q1: x.q1, Q2: x.q2, L: l, J: 1})
			}
		}
	}
	// equivocation on the unsigned build height (L=9)
	for _, bump := range []bool{false, true} {
		for _, x := range []pq{{0, 0, 0}, {0, 1, 0}, {0, 2, 0}, {0, 0, 1}, {0, 3, 0}} {
			out = append(out, Scenario{Bump: bump, P: x.p, Q1: x.q1, Q2: x.q2, L: 9})
		}
	}
	// usurpation (U=1): the Byzantine node is not the elected leader of the round but proposes with a replayed election certificate
	// (the usurper completes its round / withholds its PRECOMMIT / lets its COMMIT reach nobody)
	for _, l := range []int{3, 1} {
		for _, x := range []pq{{0, 0, 0}, {0, 3, 0}, {0, 0, 1}} {
			out = append(out, Scenario{P: x.p, Q1: x.q1, Q2: x.q2, L: l, U: 1})
		}
	}
	// Late configurations only (see lateOnly): a leader message that arrives after the phase timeout that would have
	// used it, and the round in which NOTHING the leader sends before its COMMIT reaches anybody while it still collects
	// whatever votes the replicas send (votes on stored messages, on a tree that keeps them)
	for _, bump := range []bool{false, true} {
		for _, l := range []int{0, 1, 3} {
			for t := 1; t <= 3; t++ {
				for _, e := range []int{0, 2} {
					out = append(out, Scenario{Bump: bump, E: e, L: l, T: t})
				}
			}
		}
		for _, l := range []int{1, 3} {
			for q2 := 3; q2 <= 6; q2++ {
				out = append(out, Scenario{Bump: bump, P: 1, Q1: 3, Q2: q2, L: l})
			}
		}
	}
	// a HighQc of the wrong phase (L=10), appended after the Late scenarios
	for _, bump := range []bool{false, true} {
		for _, x := range []pq{{0, 0, 0}, {0, 1, 0}, {0, 2, 0}, {0, 0, 3}, {0, 0, 4}, {0, 0, 5}, {0, 0, 6}} {
			out = append(out, Scenario{Bump: bump, P: x.p, Q1: x.q1, Q2: x.q2, L: 10})
		}
	}
	// the other minimal quorum (Q1=4), honest leader, appended last
	for _, bump := range []bool{false, true} {
		for _, e := range []int{0, 2} {
			out = append(out, Scenario{Bump: bump, E: e, Q1: 4})
		}
	}
	// ... and with its COMMIT reaching nobody (the locks stay, nobody commits)
	for _, bump := range []bool{false, true} {
		for _, e := range []int{0, 2} {
			out = append(out, Scenario{Bump: bump, E: e, Q1: 4, Q2: 1})
		}
	}
	return out
}()

// lateOnly: scenarios offered in Late configurations only.
func lateOnly(s Scenario) bool { return s.T > 0 || (s.P == 1 && s.Q1 == 3 && s.Q2 >= 3) }

// PredictLeader computes who every honest node elects at (rh, round) when all ELECTION
// messages are delivered: the same exported functions the implementation uses.
func (w *World) PredictLeader(rh, round uint64) int {
	vs := w.ValSet()
	lp, _ := w.Nodes[0].ctl.LoadLastProposers(rh)
	var cands []bft.VRFCandidate
	for i, n := range w.Nodes {
		data := &lib.SortitionData{LastProposerAddresses: lp.Addresses, RootHeight: rh, Height: ChainHeight, Round: round,
			TotalValidators: vs.NumValidators, TotalPower: vs.TotalPower, VotingPower: w.Cfg.Powers[i]}
		out, _, is := bft.Sortition(&bft.SortitionParams{SortitionData: data, PrivateKey: n.Key})
		if is {
			cands = append(cands, bft.VRFCandidate{PublicKey: n.Key.PublicKey(), Out: out})
		}
	}
	data := &lib.SortitionData{LastProposerAddresses: lp.Addresses, RootHeight: rh, Height: ChainHeight, Round: round,
		TotalValidators: vs.NumValidators, TotalPower: vs.TotalPower}
	return w.IndexOf(bft.SelectProposerFromCandidates(cands, data, w.Vals))
}

// Info summarises what OpsFor needs.
type Info struct {
	Terminal   bool
	HasLock    bool
	NCerts     int
	LeaderStay int // leader if no bump
	LeaderBump int // leader after a bump
	Byz        int
	Late       bool
	ByzElect   bool // the adversary holds an election certificate of an earlier round of the current root height that names the Byzantine node
}

func (i Info) String() string {
	return fmt.Sprintf("%v,%v,%d,%d,%d,%d,%v", i.Terminal, i.HasLock, i.NCerts, i.LeaderStay, i.LeaderBump, i.Byz, i.ByzElect)
}

func ParseInfo(s string) Info {
	p := strings.Split(s, ",")
	if len(p) != 7 {
		return Info{}
	}
	a := func(x string) int { n, _ := strconv.Atoi(x); return n }
	return Info{Terminal: p[0] == "true", HasLock: p[1] == "true", NCerts: a(p[2]), LeaderStay: a(p[3]), LeaderBump: a(p[4]), Byz: a(p[5]), ByzElect: p[6] == "true"}
}

func (w *World) Info() Info {
	in := Info{Terminal: true, Byz: w.Cfg.Byz, NCerts: len(w.CertBlocks()), Late: w.Cfg.Late}
	var rh, round uint64
	for i, n := range w.Nodes {
		if w.Honest(i) && w.Live(i) {
			in.Terminal = false
		}
		if w.Live(i) {
			rh, round = n.BFT.RootHeight, n.BFT.Round
			if n.BFT.HighQC != nil {
				in.HasLock = true
			}
		}
	}
	if !in.Terminal {
		in.LeaderStay = w.PredictLeader(rh, round)
		in.LeaderBump = w.PredictLeader(rh+1, 0)
		in.ByzElect = w.oldElection(rh, round) != nil
	}
	return in
}

// ReducedMinQuorum adds the minimal-quorum PRECOMMIT round (honest leader) to the reduced alphabet (C15).
var ReducedMinQuorum bool

// EquivocationProfile selects, in the reduced alphabet, the equivocating Byzantine leader
// (L=4, produces real double-sign evidence) instead of the certificate re-proposing one (L=1,2).
var EquivocationProfile bool

// OpsFor prunes scenarios that cannot differ from a kept one in this state.
func OpsFor(in Info, reduced bool) []int {
	if in.Terminal {
		return nil
	}
	var ops []int
	for i, s := range AllScenarios {
		leader := in.LeaderStay
		if s.Bump {
			leader = in.LeaderBump
		}
		if in.Late && reduced {
			// Late configurations in the reduced alphabet spend their budget on timing, not on the leader's other tricks:
			// whole / blacked-out / PRECOMMIT-to-leader-only / COMMIT-to-nobody rounds, an honest-acting or re-proposing
			// Byzantine leader, each kind of leader message late, and the silent round that ends in a COMMIT to one node
			if s.V != 0 || s.E != 0 || s.L > 1 || s.J > 0 || s.U > 0 {
				continue
			}
			if !lateOnly(s) {
				switch [3]int{s.P, s.Q1, s.Q2} {
				case [3]int{0, 0, 0}, [3]int{1, 0, 0}, [3]int{0, 1, 0}, [3]int{0, 0, 1}:
				default:
					continue
				}
			} else if s.Q2 >= 3 && s.Q2-3 == in.Byz {
				continue
			}
		} else if lateOnly(s) {
			if !in.Late || (s.Q2 >= 3 && s.Q2-3 == in.Byz) {
				continue
			}
		} else if reduced {
			// the reduced alphabet keeps one representative per qualitatively different round outcome
			if s.V != 0 || s.E == 1 {
				continue
			}
			if EquivocationProfile && s.L != 0 && s.L != 4 && s.L != 7 {
				continue // C14 only needs the equivocating leader (it produces real double-sign evidence)
			}
			pq := [3]int{s.P, s.Q1, s.Q2}
			switch pq {
			case [3]int{0, 0, 0}, [3]int{1, 0, 0}, [3]int{0, 1, 0}, [3]int{0, 0, 1}:
			case [3]int{0, 2, 0}, [3]int{0, 4, 0}, [3]int{0, 2, 1}, [3]int{0, 4, 1}:
				// PRECOMMIT reaching a minimal quorum only: some honest nodes lock, another keeps an older lock (or none).
				// Liveness needs it (sixth-round seed C15: a holder of an older-root-height lock that never unlocks)
				if !ReducedMinQuorum || s.L != 0 {
					continue
				}
			default:
				// COMMIT reaching exactly one honest node (each choice of the node)
				if !(s.P == 0 && s.Q1 == 0 && s.Q2 >= 3 && s.Q2-3 != in.Byz) {
					continue
				}
			}
		}
		if s.E > 0 && !in.HasLock {
			continue
		}
		if in.Byz < 0 && (s.V > 0 || s.L > 0) {
			continue
		}
		if s.U == 0 && s.L > 0 && leader != in.Byz {
			continue
		}
		if s.U > 0 && (!in.ByzElect || leader == in.Byz || s.Bump) {
			continue
		}
		if s.L >= 1 && s.L <= 2 && s.L-1 >= in.NCerts {
			continue
		}
		if (s.L == 8 || s.J > 0) && in.NCerts == 0 {
			continue
		}
		if (s.L == 5 || s.L == 6) && (s.L-5 >= in.NCerts || reduced) {
			continue // (this test used to read s.L >= 5 and silently disabled the leader modes 7 and 8 that were added later)
		}
		if s.L > 0 && s.V > 0 {
			continue // the puppet already speaks for the Byzantine node
		}
		if s.V > 0 && leader == in.Byz && s.L == 0 {
			continue // an honest-acting Byzantine leader withholding its own vote = a leader that cannot certify; covered by Q1
		}
		ops = append(ops, i)
	}
	return ops
}

// Replay runs the scenario path on a fresh world.
func Replay(cfg Config, path []int, trace bool) (w *World, ok bool) {
	w = New(cfg)
	w.TraceOn = trace
	for _, op := range path {
		w.tracef("---- round scenario %s", AllScenarios[op])
		if !w.RunRound(AllScenarios[op]) {
			return w, false
		}
	}
	return w, true
}

// AgreementViol checks the C01 oracle on a finished execution.
func (w *World) AgreementViol(cfgName string, path []int) *mc.Viol {
	dc := w.DistinctCommits()
	if len(dc) <= 1 {
		return nil
	}
	var names []string
	for _, op := range path {
		names = append(names, AllScenarios[op].String())
	}
	var parts []string
	for k, nodes := range dc {
		parts = append(parts, fmt.Sprintf("block %s.. by nodes %v", k[:12], nodes))
	}
	return &mc.Viol{Sig: "C01:fork:" + w.forkClass(), What: fmt.Sprintf("config %s: honest nodes committed different blocks at one height: %s; scenario path %v", cfgName, strings.Join(parts, " vs "), names),
		Replay: map[string]any{"config": cfgName, "path": path, "scenarios": names}}
}

// forkClass names the mechanism: whether the conflicting commits carry different root heights.
func (w *World) forkClass() string {
	// root height at which each committed block was FIRST certified
	rhs := map[uint64]bool{}
	for _, c := range w.Commits {
		if !w.Honest(c.Node) {
			continue
		}
		for _, ct := range w.Certs {
			if hex.EncodeToString(ct.QC.BlockHash) == c.BlockHash {
				rhs[ct.QC.Header.RootHeight] = true
				break
			}
		}
	}
	if len(rhs) > 1 {
		return "across-root-height"
	}
	return "same-root-height"
}

// Exec is the BFS successor function.
func Exec(cfgName string, cfg Config, path []int) mc.ExecResult {
	w, ok := Replay(cfg, path, false)
	var res mc.ExecResult
	if !ok {
		return res
	}
	if v := w.AgreementViol(cfgName, path); v != nil {
		res.Viols = append(res.Viols, *v)
		return res // do not expand a forked state
	}
	res.OK, res.Key, res.Info = true, mc.Hash(w.StateKey()), w.Info().String()
	return res
}

// ---------------------------------------------------------------------------------------
// C15: synchronous tail from an adversarial prefix.

// Tail runs default rounds (everything delivered in time) with the Byzantine node silent
// (mode 0), honest (mode 1) or actively obstructing (mode 2) until an honest node commits; returns the rounds needed or -1.
func (w *World) Tail(mode, maxRounds int) int {
	// mode 2 counts only the rounds whose ELECTED leader is honest (the adversary may waste its own rounds,
	// that is bounded by the sortition); the total is capped so that the tail terminates
	total := maxRounds
	if mode >= 2 {
		total = 4 * maxRounds
	}
	counted := 0
	var startRound uint64
	for i, n := range w.Nodes {
		if w.Live(i) && n.BFT.Round > startRound {
			startRound = n.BFT.Round
		}
	}
	for r := 1; r <= total && counted < maxRounds; r++ {
		before := len(w.Commits)
		w.silent = mode == 0 && w.Cfg.Byz >= 0
		sc := Scenario{}
		counted++
		if mode >= 2 {
			// an ACTIVE adversary after GST: elected, it proposes and withholds its PRECOMMIT; not elected but
			// holding an election certificate of an earlier round, it usurps the round the same way; it spams;
			// mode 3: its election vote additionally reaches every elected leader first (lock veto)
			in := w.Info()
			sc.S = mode - 1
			switch {
			case in.LeaderStay == in.Byz:
				sc = Scenario{L: 3, Q1: 3, S: mode - 1}
				counted--
			case in.ByzElect:
				sc = Scenario{U: 1, L: 3, Q1: 3, S: mode - 1}
			}
		}
		if !w.RunRound(sc) {
			w.RunRound(Scenario{S: sc.S})
		}
		w.silent = false
		// "a bounded number of rounds" is about round NUMBERS too: in lockstep all nodes can jump to round 10^9 together
		// and still commit there after that round's timeouts (years); a node whose round number ran away did not converge
		for i, n := range w.Nodes {
			if w.Honest(i) && w.Live(i) && n.BFT.Round > startRound+uint64(total)+1 {
				return -1
			}
		}
		for _, c := range w.Commits[before:] {
			if w.Honest(c.Node) {
				if c.Round > startRound+uint64(total)+1 {
					return -1
				}
				if counted == 0 {
					return 1
				}
				return counted
			}
		}
	}
	return -1
}

// ---------------------------------------------------------------------------------------
// C14a: evidence soundness over the adversary's pool.

// EvidenceViols pairs every two certificates the adversary saw (both orders, same and
// different views, plus header re-targeting) and asks a real honest node to process them.
func (w *World) EvidenceViols(cfgName string, path []int) (viols []mc.Viol, pairs, implicated int) {
	judge := -1
	for i := range w.Nodes {
		if w.Honest(i) {
			judge = i
		}
	}
	if judge < 0 {
		return
	}
	b := w.Nodes[judge].BFT
	cp := func(q *lib.QuorumCertificate) *lib.QuorumCertificate {
		return &lib.QuorumCertificate{Header: q.Header.Copy(), BlockHash: q.BlockHash, ResultsHash: q.ResultsHash, ProposerKey: q.ProposerKey,
			Signature: &lib.AggregateSignature{Signature: q.Signature.Signature, Bitmap: q.Signature.Bitmap}}
	}
	try := func(a, c *lib.QuorumCertificate, what string) {
		pairs++
		ev := &bft.DoubleSignEvidence{VoteA: cp(a), VoteB: cp(c)}
		var ds []*lib.DoubleSigner
		func() {
			defer func() {
				if p := recover(); p != nil {
					viols = append(viols, mc.Viol{Sig: "C14:evidence-panic", What: fmt.Sprintf("ProcessDSE panicked on %s: %v", what, p)})
				}
			}()
			w.Nodes[judge].ctl.Lock()
			ds, _ = b.ProcessDSE(ev)
			w.Nodes[judge].ctl.Unlock()
		}()
		for _, d := range ds {
			idx := w.IndexOf(d.Id)
			implicated++
			truth := w.Signed[viewKey(ev.VoteA.Header)][idx]
			if len(truth) < 2 {
				viols = append(viols, mc.Viol{Sig: "C14:honest-implicated:" + what,
					What: fmt.Sprintf("config %s: ProcessDSE names validator %d (%s) as double signer for view %s although it signed %d payload(s) in that view; evidence kind=%s A=%s B=%s",
						cfgName, idx, hex.EncodeToString(d.Id[:6]), viewKey(ev.VoteA.Header), len(truth), what, qcStr(a), qcStr(c)),
					Replay: map[string]any{"config": cfgName, "path": path, "kind": what}})
			}
		}
	}
	for i, a := range w.AllQCs {
		for j, c := range w.AllQCs {
			if i == j {
				try(a, c, "identical")
				continue
			}
			kind := "cross-view"
			if a.Header.Equals(c.Header) {
				kind = "same-view"
			}
			try(a, c, kind)
			if kind == "same-view" && len(a.Signature.Bitmap) == len(c.Signature.Bitmap) {
				// B's bitmap padded with A's signers (signature bytes unchanged): must be refused, also right after the
				// genuine pair was processed by the same node
				p := cp(c)
				p.Signature.Bitmap = append([]byte{}, c.Signature.Bitmap...)
				for x := range p.Signature.Bitmap {
					p.Signature.Bitmap[x] |= a.Signature.Bitmap[x]
				}
				try(a, p, "padded-bitmap")
			}
			// re-target A's header to B's (the signature no longer matches and must be refused)
			if !a.Header.Equals(c.Header) {
				r := cp(a)
				r.Header = c.Header.Copy()
				try(r, c, "retargeted-header")
			}
		}
	}
	return
}

func qcStr(q *lib.QuorumCertificate) string {
	bh := "nil"
	if len(q.BlockHash) >= 4 {
		bh = hex.EncodeToString(q.BlockHash[:4])
	}
	return fmt.Sprintf("(%s %s bitmap=%x)", viewKey(q.Header), bh, q.Signature.Bitmap)
}

var _ = crypto.Hash

// ---------------------------------------------------------------------------------------
// C14a, committee sizes the BFS worlds do not have: attribution of double signers by position.

// AttributionViols builds, for a committee of n equal validators and every set S of one or two positions,
// genuine double-sign evidence in which exactly the validators of S signed both payloads of one view (vote A:
// payload X signed by everybody; vote B: payload Y signed by S only) and asks a real node to process it; the
// answer must name exactly S. It then re-sends the same two payloads with B's bitmap padded to everybody
// (signature bytes unchanged: must be refused, and must not implicate anybody even though the genuine pair was
// processed a moment ago on the same node).
// Positions listed in zero hold voting power 0 (a zero-stake member is in the quantifier of the committee properties): the
// bitmap positions of everybody behind them must still be the positions of the member list.
func AttributionViols(n int, zero ...int) (viols []mc.Viol, cases int) {
	powers := make([]uint64, n)
	for i := range powers {
		powers[i] = 1
	}
	for _, z := range zero {
		powers[z] = 0
	}
	w := New(Config{Powers: powers, Byz: -1, BaseRH: 2, Timeouts: [7]int{10, 10, 10, 10, 10, 10, 10}, KeepZero: true})
	b := w.Nodes[0].BFT
	vs := w.ValSet()
	view := &lib.View{NetworkId: NetworkID, ChainId: ChainID, Height: ChainHeight, RootHeight: 2, Round: 0, Phase: lib.Phase_PROPOSE_VOTE}
	mkErr := ""
	mk := func(salt int, signers []int) (out *lib.QuorumCertificate) {
		defer func() {
			if r := recover(); r != nil {
				// the multi-key has fewer positions than the member list and indexes out of range
				mkErr, out = fmt.Sprintf("building a certificate over the member list panics: %v", r), nil
			}
		}()
		blk, res := MakeBlock(0, 2, 0, salt)
		h, _ := new(lib.Block).BytesToBlockHash(blk)
		qc := &lib.QuorumCertificate{Header: view.Copy(), BlockHash: h, ResultsHash: res.Hash(), ProposerKey: w.Nodes[0].Key.PublicKey().Bytes()}
		mkey := vs.MultiKey.Copy()
		for _, i := range signers {
			m := &bft.Message{Qc: &lib.QuorumCertificate{Header: view.Copy(), BlockHash: h, ResultsHash: res.Hash(), ProposerKey: qc.ProposerKey}}
			if err := m.Sign(w.Nodes[i].Key); err != nil {
				panic(err)
			}
			if err := mkey.AddSigner(m.Signature.Signature, i); err != nil {
				// the member list has a position the committee's multi-key does not have: bitmap positions no longer name members
				mkErr = fmt.Sprintf("member %d of %d cannot be added as signer: %v", i, n, err)
				return nil
			}
		}
		sig, err := mkey.AggregateSignatures()
		if err != nil {
			mkErr = fmt.Sprintf("aggregation failed: %v", err)
			return nil
		}
		qc.Signature = &lib.AggregateSignature{Signature: sig, Bitmap: mkey.Bitmap()}
		return qc
	}
	all := make([]int, n)
	for i := range all {
		all[i] = i
	}
	full := mk(1, all)
	if full == nil {
		return []mc.Viol{{Sig: "C14:attribution:committee-positions-inconsistent", What: fmt.Sprintf("committee of %d (zero-power members at %v): %s", n, zero, mkErr),
			Replay: map[string]any{"attribution": n, "zero": zero}}}, 1
	}
	process := func(a, c *lib.QuorumCertificate) map[int]bool {
		w.Nodes[0].ctl.Lock()
		ds, _ := b.ProcessDSE(&bft.DoubleSignEvidence{VoteA: a, VoteB: c})
		w.Nodes[0].ctl.Unlock()
		got := map[int]bool{}
		for _, d := range ds {
			got[w.IndexOf(d.Id)] = true
		}
		return got
	}
	cpq := func(q *lib.QuorumCertificate) *lib.QuorumCertificate {
		return &lib.QuorumCertificate{Header: q.Header.Copy(), BlockHash: q.BlockHash, ResultsHash: q.ResultsHash, ProposerKey: q.ProposerKey,
			Signature: &lib.AggregateSignature{Signature: q.Signature.Signature, Bitmap: append([]byte{}, q.Signature.Bitmap...)}}
	}
	for i := 0; i < n; i++ {
		for j := i; j < n; j++ {
			S := []int{i}
			if j != i {
				S = append(S, j)
			}
			cases++
			part := mk(2, S)
			if part == nil {
				viols = append(viols, mc.Viol{Sig: "C14:attribution:committee-positions-inconsistent", What: fmt.Sprintf("committee of %d (zero-power members at %v): %s", n, zero, mkErr),
					Replay: map[string]any{"attribution": n, "zero": zero, "signers": S}})
				continue
			}
			got := process(cpq(full), cpq(part))
			want := map[int]bool{}
			for _, s := range S {
				want[s] = true
			}
			if fmt.Sprint(got) != fmt.Sprint(want) {
				viols = append(viols, mc.Viol{Sig: "C14:attribution:wrong-double-signers", What: fmt.Sprintf("committee of %d (zero-power members at %v): validators %v signed both payloads of one view, ProcessDSE names %v", n, zero, S, keysOf(got)),
					Replay: map[string]any{"attribution": n, "signers": S, "zero": zero}})
			}
			padded := cpq(part)
			padded.Signature.Bitmap = append([]byte{}, full.Signature.Bitmap...)
			if got := process(cpq(full), padded); len(got) != 0 {
				viols = append(viols, mc.Viol{Sig: "C14:attribution:padded-bitmap-accepted", What: fmt.Sprintf("committee of %d: after the genuine evidence against %v, the same payloads with the partial certificate's bitmap padded to everybody (signature unchanged) name %v", n, S, keysOf(got)),
					Replay: map[string]any{"attribution": n, "signers": S}})
			}
		}
	}
	return
}

func keysOf(m map[int]bool) []int {
	var out []int
	for k := range m {
		out = append(out, k)
	}
	sort.Ints(out)
	return out
}
