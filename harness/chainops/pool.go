package chainops

import (
	"bufio"
	"encoding/json"
	"fmt"
	"io"
	"os"
	"os/exec"
	"runtime"
	"sync/atomic"

	"verifharness/mc"
)

// WorkerPool keeps worker processes alive for the whole run. mc.ProcPool starts fresh workers
// for every BFS level; here a fresh process pays ~1 s before its first block (two ~50 MB
// signature-batch buffers have to be faulted in, see Exec), which at the quick tier's small
// levels was a third of all CPU time. The workers are the same `-worker` children speaking
// the same one-JSON-line-per-job protocol (mc.ServeWorker on their side), each strictly
// sequential (GOMAXPROCS=1) with one chain at a time; mc.ReplayBFS drives them through
// BFSConfig.Exec from as many goroutines as there are workers.
type WorkerPool struct {
	free    chan *wproc
	N       int
	Crashes int64
}

type wproc struct {
	cmd *exec.Cmd
	in  io.WriteCloser
	out *bufio.Reader
}

func NewWorkerPool(n int) *WorkerPool {
	if n <= 0 {
		n = runtime.NumCPU()
	}
	p := &WorkerPool{free: make(chan *wproc, n), N: n}
	for i := 0; i < n; i++ {
		p.free <- nil // spawned on first use
	}
	return p
}

func spawnWorker() (*wproc, error) {
	exe, err := os.Executable()
	if err != nil {
		return nil, err
	}
	cmd := exec.Command(exe, "-worker")
	cmd.Env = append(os.Environ(), "GOMAXPROCS=1")
	cmd.Stderr = io.Discard
	if os.Getenv("VERIF_WORKER_STDERR") != "" {
		cmd.Stderr = os.Stderr
	}
	in, err := cmd.StdinPipe()
	if err != nil {
		return nil, err
	}
	out, err := cmd.StdoutPipe()
	if err != nil {
		return nil, err
	}
	if err := cmd.Start(); err != nil {
		return nil, err
	}
	return &wproc{cmd: cmd, in: in, out: bufio.NewReaderSize(out, 1<<20)}, nil
}

func (w *wproc) kill() {
	if w == nil {
		return
	}
	w.in.Close()
	_ = w.cmd.Process.Kill()
	_ = w.cmd.Wait()
}

// Exec runs one path on some worker. A worker that dies is replaced and the job retried once
// on the fresh process (so that residue of an earlier job is not blamed on this one); a second
// death is reported as a violation of its own.
func (p *WorkerPool) Exec(tag string, path []int) mc.ExecResult {
	w := <-p.free
	defer func() { p.free <- w }()
	bz, _ := json.Marshal(mc.BFSJob{Tag: tag, Path: path})
	for attempt := 0; attempt < 2; attempt++ {
		if w == nil {
			var err error
			if w, err = spawnWorker(); err != nil {
				fmt.Fprintf(os.Stderr, "chainops: cannot spawn worker: %v\n", err)
				os.Exit(2)
			}
		}
		_, e1 := w.in.Write(append(bz, '\n'))
		var line []byte
		var e2 error
		if e1 == nil {
			line, e2 = w.out.ReadBytes('\n')
		}
		if e1 != nil || e2 != nil {
			w.kill()
			w = nil
			atomic.AddInt64(&p.Crashes, 1)
			continue
		}
		var r mc.ExecResult
		if e := json.Unmarshal(line, &r); e != nil {
			fmt.Fprintf(os.Stderr, "chainops: bad worker result: %v: %.200s\n", e, line)
			os.Exit(2)
		}
		return r
	}
	return mc.ExecResult{Viols: []mc.Viol{{Sig: "worker-crash", What: fmt.Sprintf("worker process died twice executing %s path %v", tag, path),
		Replay: map[string]any{"path": path, "tag": tag}}}}
}

// Close terminates all workers.
func (p *WorkerPool) Close() {
	for i := 0; i < p.N; i++ {
		(<-p.free).kill()
	}
}
