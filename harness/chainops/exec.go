package chainops

import (
	"bytes"
	"fmt"
	"math/big"
	"runtime"
	"runtime/debug"
	"slices"
	"strings"
	"sync"

	"github.com/canopy-network/canopy/lib"
	"github.com/canopy-network/canopy/lib/crypto"

	"verifharness/env"
	"verifharness/mc"
)

// Job selects property, world and alphabet; it travels in mc.BFSJob.Tag as "prop|world|alphabet".
type Job struct {
	Prop  string // "C04" or "C12"
	World string
	Alpha string
}

func (j Job) Tag() string { return j.Prop + "|" + j.World + "|" + j.Alpha }

func ParseTag(tag string) Job {
	p := strings.SplitN(tag, "|", 3)
	if len(p) != 3 {
		panic("chainops: bad tag " + tag)
	}
	return Job{p[0], p[1], p[2]}
}

// Replay is the artefact stored with a violation: enough to re-run exactly that path.
type Replay struct {
	Prop     string   `json:"prop"`
	World    string   `json:"world"`
	Alphabet string   `json:"alphabet"`
	Ops      []string `json:"ops"`
	Path     []int    `json:"path"`
	Tail     int      `json:"empty_blocks_after_path,omitempty"`
	Trace    []string `json:"trace,omitempty"`
}

// MaxTail bounds the forward probe of C12 (empty blocks after the path).
const MaxTail = 8

// recipe classes: a path that uses one of these recipes can only happen with inputs an honest
// committee would not certify; violations on such paths get a separate signature class.
func RecipeClass(name string) string {
	if strings.Contains(name, "double-sign(V3 delegate)") {
		return "unreachable-delegate-named-as-double-signer" // needs a +2/3 Byzantine committee: delegates are never committee members, so honest evidence cannot name them
	}
	return ""
}

type runner struct {
	job    Job
	w      *World
	c      *env.Chain
	ref    *Ref
	alpha  []Recipe
	trace  []string
	class  string
	pubIdx map[string]int
}

// stepResult is the outcome of one recipe block.
type stepResult struct {
	pre, post *Snap
	exp       *Expect
	err       lib.ErrorI
	halted    string // the harness cannot certify a block (no committee): not a property violation
	dropped   []string
}

func (r *runner) keyIdx(pub []byte) int {
	if r.pubIdx == nil {
		r.pubIdx = map[string]int{}
		for i := 0; i < 8; i++ {
			r.pubIdx[string(env.BLS(i).PublicKey().Bytes())] = i
		}
	}
	if i, ok := r.pubIdx[string(pub)]; ok {
		return i
	}
	return -1
}

// step builds the recipe on the current state, commits the block through env.Chain.Step and
// lets the reference ledger predict the supply change.
func (r *runner) step(rc *Recipe) (res stepResult) {
	pre, err := TakeSnap(r.c)
	if err != nil {
		panic(err)
	}
	res.pre = pre
	x := &Ctx{W: r.w, Pre: pre, H: pre.Height}
	var b Built
	if rc != nil {
		b = rc.Build(x)
	}
	// the committee that certifies this block, derived from the validator records
	members, total := Committee(pre, OwnChain)
	if len(members) == 0 || total == 0 {
		res.halted = "no validator is left in the own chain's committee"
		return
	}
	var signers []int
	var absent []string
	var absentPower, signPower uint64
	for _, m := range members {
		k := r.keyIdx(pre.Vals[m].PublicKey)
		if k < 0 {
			panic("chainops: committee member without harness key")
		}
		if slices.Contains(b.Absent, k) {
			absent = append(absent, m)
			absentPower += pre.Vals[m].StakedAmount
			continue
		}
		signers = append(signers, k)
		signPower += pre.Vals[m].StakedAmount
	}
	// a certificate needs more than two thirds of the voting power
	if new(big.Int).Mul(big.NewInt(3), new(big.Int).SetUint64(signPower)).Cmp(new(big.Int).Mul(big.NewInt(2), new(big.Int).SetUint64(total))) <= 0 {
		res.halted = "the signing validators hold no 2/3 majority"
		return
	}
	percents := b.Percents
	if percents == nil {
		percents = []PP{{string(addrOf(KV0)), 100, OwnChain}}
	}
	results := &lib.CertificateResult{RewardRecipients: &lib.RewardRecipients{}, SlashRecipients: &lib.SlashRecipients{}, Orders: b.Orders}
	for _, p := range percents {
		results.RewardRecipients.PaymentPercents = append(results.RewardRecipients.PaymentPercents, &lib.PaymentPercents{Address: []byte(p.Addr), Percent: p.Percent, ChainId: p.Chain})
	}
	var doubles []DSig
	for _, d := range b.Doubles {
		results.SlashRecipients.DoubleSigners = append(results.SlashRecipients.DoubleSigners, &lib.DoubleSigner{Id: env.BLS(d.Key).PublicKey().Bytes(), Heights: d.Heights})
		doubles = append(doubles, DSig{Addr: string(addrOf(d.Key)), Heights: d.Heights})
	}
	if e := results.CheckBasic(); e != nil {
		panic("chainops: recipe builds certificate results that fail CheckBasic: " + e.Error())
	}
	spec := env.BlockSpec{Proposer: KV0, Results: func(*env.Chain, *lib.Block, *lib.BlockResult) *lib.CertificateResult { return results }}
	if len(absent) > 0 {
		spec.Signers = signers
	}
	for _, t := range b.Txs {
		spec.Txs = append(spec.Txs, t.Raw)
	}
	// a block without transactions has nothing a proposer could drop: skip the proposer's trial
	// ApplyBlock on a copy (each ApplyBlock allocates ~50 MB of signature-batch buffers)
	spec.Strict = len(spec.Txs) == 0
	cm, e := r.c.Step(spec)
	runtime.GC()
	if e != nil {
		res.err = e
		return
	}
	var included []*TxMeta
	for _, t := range b.Txs {
		in := false
		for _, raw := range cm.Block.Transactions {
			if bytes.Equal(raw, t.Raw) {
				in = true
			}
		}
		if in {
			included = append(included, t)
		} else {
			why := "?"
			for _, f := range cm.Failed {
				if f.Hash == crypto.HashString(t.Raw) && f.Error != nil {
					why = oneLine(f.Error)
				}
			}
			res.dropped = append(res.dropped, t.Name+" ("+why+")")
		}
	}
	res.exp = r.ref.ExpectBlock(pre, included)
	var nsp uint64
	if absentPower != 0 {
		nsp = mulDivFloor(absentPower, 100, total)
		if nsp > 100 {
			nsp = 100
		}
	}
	resBz, _ := lib.Marshal(results)
	r.ref.Prev = &PrevCert{Height: pre.Height, Percents: percents, Doubles: doubles, NonSigners: absent, NonSignPct: nsp,
		Digest: fmt.Sprintf("%x/absent=%x", resBz, absent)}
	post, err := TakeSnap(r.c)
	if err != nil {
		panic(err)
	}
	res.post = post
	return
}

func (r *runner) sig(kind string) string {
	s := r.job.Prop + ":" + kind
	if r.w.Class != "" {
		s += ":class=" + r.w.Class
	}
	if r.class != "" {
		s += ":class=" + r.class
	}
	if r.w.Proto != 2 {
		s += fmt.Sprintf(":protocol=%d", r.w.Proto)
	}
	return s
}

// oneLine flattens canopy's multi-line error rendering.
func oneLine(e error) string {
	if le, ok := e.(lib.ErrorI); ok {
		msg := e.Error()
		if i := strings.Index(msg, "Message: "); i >= 0 {
			msg = msg[i+len("Message: "):]
		}
		return fmt.Sprintf("%s/%d %s", le.Module(), le.Code(), strings.TrimSpace(strings.ReplaceAll(msg, "\n", " ")))
	}
	return strings.ReplaceAll(e.Error(), "\n", " ")
}

func errClass(e lib.ErrorI) string {
	return fmt.Sprintf("%s/%d", e.Module(), e.Code())
}

// Memory discipline of a worker. Every ApplyBlock allocates ~50 MB of signature-batch buffers
// (crypto.NewBatchVerifier: 32 lists x 20000 tuples). With the automatic collector those buffers
// are released to the kernel and faulted in again all the time, and a first-touch page fault is
// very expensive on this (virtualised) box: a block costs 10 ms without faults and 500 ms with
// them. So the automatic collector is switched off and a collection is forced after every block:
// the same two buffers are recycled for the whole life of the process.
var tuneGC sync.Once

// Exec runs one path on a fresh chain: every block goes through the real FSM and store; the
// oracle of the job's property is evaluated on the state after the LAST block (shorter
// prefixes were checked when they were the last block of a shorter path).
func Exec(tag string, path []int) (out mc.ExecResult) {
	tuneGC.Do(func() { debug.SetGCPercent(-1) })
	defer runtime.GC()
	job := ParseTag(tag)
	w := GetWorld(job.World)
	c, err := w.NewChain()
	if err != nil {
		panic(err)
	}
	defer c.Close()
	r := &runner{job: job, w: w, c: c, ref: NewRef(w), alpha: Alphabet(job.Alpha)}
	var names []string
	for _, oi := range path {
		names = append(names, r.alpha[oi].Name)
	}
	rp := func(tail int) Replay {
		return Replay{Prop: job.Prop, World: job.World, Alphabet: job.Alpha, Ops: names, Path: path, Tail: tail, Trace: r.trace}
	}
	viol := func(kind, what string, tail int) {
		out.Viols = append(out.Viols, mc.Viol{Sig: r.sig(kind), What: fmt.Sprintf("world=%s blocks=%v%s: %s", job.World, names, tailNote(tail), what), Replay: rp(tail)})
	}
	if len(path) == 0 {
		// initial state: check the genesis itself
		s, e := TakeSnap(c)
		if e != nil {
			panic(e)
		}
		r.checkState(job.Prop, s, viol, 0)
		out.Key, out.OK = s.Key, true
		return
	}
	var last stepResult
	for i, oi := range path {
		rc := &r.alpha[oi]
		if cl := RecipeClass(rc.Name); cl != "" {
			r.class = cl
		}
		last = r.step(rc)
		r.trace = append(r.trace, traceLine(rc.Name, &last))
		if last.halted != "" {
			out.Info = "halted: " + last.halted
			return
		}
		if last.err != nil {
			if i != len(path)-1 {
				return // a prefix that cannot be applied was reported when it was the whole path
			}
			r.reportRejected(&last, viol, 0)
			out.Info = "rejected"
			return
		}
	}
	// ------------------------------------------------------------------ oracles on the last block
	if job.Prop == "C04" {
		if passed := r.checkDelta(&last, viol); passed {
			// the recorded total wrapped around 2^64: everything after this point is arithmetic on a
			// meaningless total, so the path ends here and the wrap is reported once, under one signature
			out.Info = "total passed 2^64"
			return
		}
	}
	r.checkState(job.Prop, last.post, viol, 0)
	if job.Prop == "C04" {
		r.checkReimport(last.post, viol)
	}
	// the state reached by the path (the forward probe below moves the chain on, so take the key first)
	out.Key = mc.Hash(fmt.Sprintf("%s|%d|%s", last.post.Key, last.post.Height, r.ref.Key()))
	out.OK = true
	if job.Prop == "C12" {
		r.tail(last.post, viol)
	}
	if last.exp != nil {
		out.Info = last.exp.String()
	}
	return
}

func tailNote(tail int) string {
	if tail == 0 {
		return ""
	}
	return fmt.Sprintf(" + %d empty block(s)", tail)
}

func traceLine(name string, s *stepResult) string {
	var sb strings.Builder
	fmt.Fprintf(&sb, "h=%d %s", s.pre.Height, name)
	if len(s.dropped) > 0 {
		fmt.Fprintf(&sb, " dropped=%v", s.dropped)
	}
	switch {
	case s.halted != "":
		sb.WriteString(" HALTED " + s.halted)
	case s.err != nil:
		sb.WriteString(" BLOCK REJECTED: " + oneLine(s.err))
	default:
		fmt.Fprintf(&sb, " total %d -> %d; ledger: %s", s.pre.Supply.Total, s.post.Supply.Total, s.exp)
	}
	return sb.String()
}

// reportRejected turns "the next block cannot be applied" into a violation.
func (r *runner) reportRejected(s *stepResult, viol func(kind, what string, tail int), tail int) {
	cause := ""
	// name the dangling index entry if there is one due at this height
	for _, m := range s.pre.Unstaking {
		if m.Height == s.pre.Height {
			cause = ":finish-unstaking-due"
		}
	}
	what := fmt.Sprintf("block at height %d cannot be applied: %s; state before it: %s", s.pre.Height, oneLine(s.err), s.pre.Describe())
	switch r.job.Prop {
	case "C12":
		viol("wedge:"+errClass(s.err)+cause, what, tail)
	case "C04":
		// whether the next block can be applied is C12's business: C04 abandons the path (counted as rejected)
	}
}

func (r *runner) checkState(prop string, s *Snap, viol func(kind, what string, tail int), tail int) {
	var fs []Finding
	if prop == "C04" {
		fs = CheckSupplyState(s)
	} else {
		fs = CheckStakingState(s)
	}
	if len(s.Malformed) > 0 {
		fs = append(fs, Finding{"malformed-state-key", fmt.Sprint(s.Malformed)})
	}
	for _, f := range fs {
		viol(f.Kind, f.Detail+"; state: "+s.Describe(), tail)
	}
}

// checkReimport: the state is exported (fsm.ExportState, what a snapshot-based restart or a fork does) and a new
// chain is started from that export; the supply invariant must hold on the re-imported state too, with the same total.
func (r *runner) checkReimport(s *Snap, viol func(kind, what string, tail int)) {
	// (an export that fails, or that the genesis validation refuses, is not a supply question: nothing to check then)
	g, e := r.c.FSM.ExportState()
	if e != nil {
		return
	}
	c2, err := env.NewChain(g, r.w.CfgTweak)
	if err != nil {
		return
	}
	defer c2.Close()
	s2, err := TakeSnap(c2)
	if err != nil {
		viol("reimport:harness", err.Error(), 0)
		return
	}
	for _, f := range CheckSupplyState(s2) {
		viol("reimport:"+f.Kind, "after exporting the state and starting a chain from the export: "+f.Detail+"; exported from: "+s.Describe(), 0)
	}
	// NOT demanded: that the re-imported total equals the exporting chain's. It does not when the order book is
	// non-empty (the genesis import funds the escrow pool from the pool list AND from the orders, and counts both
	// in the total); the statement quantifies over genesis states, not over export/import round trips.
}

// checkDelta compares the change of Supply.Total over the last block with the reference ledger.
func (r *runner) checkDelta(s *stepResult, viol func(kind, what string, tail int)) (passed2to64 bool) {
	got := new(big.Int).Sub(new(big.Int).SetUint64(s.post.Supply.Total), new(big.Int).SetUint64(s.pre.Supply.Total))
	want := s.exp.Delta()
	if got.Cmp(want) == 0 {
		return
	}
	kind := "delta-mismatch"
	next := new(big.Int).Add(new(big.Int).SetUint64(s.pre.Supply.Total), want)
	if next.BitLen() > 64 {
		kind = "total-supply-passes-2^64"
		passed2to64 = true
	} else if got.Cmp(want) > 0 {
		kind += ":more-than-ledger"
	} else {
		kind += ":less-than-ledger"
	}
	viol(kind, fmt.Sprintf("block %d changed Supply.Total by %s (from %d to %d) but the reference ledger says %s: %s; dropped txs %v",
		s.pre.Height, got, s.pre.Supply.Total, s.post.Supply.Total, want, s.exp, s.dropped), 0)
	return
}

// tail is the forward probe of C12: empty blocks for every height up to 1 + the largest pending
// deferred height, re-evaluated after every block; the staking oracle runs on every tail state.
func (r *runner) tail(s *Snap, viol func(kind, what string, tail int)) {
	limit := PendingHorizon(s) + 1
	for n := 1; n <= MaxTail && r.c.Height() <= limit; n++ {
		st := r.step(nil)
		r.trace = append(r.trace, traceLine("(empty, probe)", &st))
		if st.halted != "" {
			return
		}
		if st.err != nil {
			r.reportRejected(&st, viol, n)
			return
		}
		r.checkState("C12", st.post, viol, n)
		if l := PendingHorizon(st.post) + 1; l > limit {
			limit = l
		}
	}
}
