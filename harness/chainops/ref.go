package chainops

import (
	"fmt"
	"math/big"
	"slices"
	"sort"
	"strings"
)

// Reference ledger. It predicts, for one block, by how much the total supply must change:
//
//	delta = mint(height) + governance-approved DAO mints + faucet top-ups
//	        - slash burns (non-signers at the window end, double signers)
//	        - undistributed remainder of every reward pool that is paid out in this block
//
// from the block's INPUTS only: the state before the block (validator records, pool balances,
// parameters), the node's mint schedule, the certificate the harness built for the previous
// block (reward recipients, double signers, who signed), and the transactions that were
// included (their fee, what they add to reward pools, whether they are an approved DAO mint).
// The non-signer counters, the double-signer index and the accumulated reward percentages
// ("committee data") are carried by the ledger itself across blocks, not read from the state.
// Nothing here calls an FSM function; the arithmetic is re-derived from the protocol rules.

// PP is one reward recipient of a certificate.
type PP struct {
	Addr    string
	Percent uint64
	Chain   uint64
}

// DSig is one double-sign accusation of a certificate.
type DSig struct {
	Addr    string
	Heights []uint64
}

// PrevCert is what the harness put into the certificate of the previous block.
type PrevCert struct {
	Height     uint64
	Percents   []PP
	Doubles    []DSig
	NonSigners []string // committee members that did not sign
	NonSignPct uint64   // their share of the committee's voting power, floor, in percent
	Digest     string   // certificate results + absentees, rendered: part of the chain's state (the next block applies them)
}

type cdata struct {
	percents []PP
	samples  uint64
}

// Ref is the part of the reference ledger that persists across blocks.
type Ref struct {
	W       *World
	NonSign map[string]uint64 // address -> missed certificates in the running window (own chain)
	CData   map[uint64]*cdata
	CDOrder []uint64
	DSIndex map[string]bool // "addr|height" already punished
	Prev    *PrevCert
}

func NewRef(w *World) *Ref {
	return &Ref{W: w, NonSign: map[string]uint64{}, CData: map[uint64]*cdata{}, DSIndex: map[string]bool{}}
}

// Key renders the part of the chain's state that is NOT visible in the raw state scan, for the BFS
// state key: the double-signer index (lives in the indexer) and the certificate of the last block,
// whose results and signer bitmap the NEXT block's BeginBlock applies (lives in the block store).
func (r *Ref) Key() string {
	var ks []string
	for k := range r.DSIndex {
		ks = append(ks, fmt.Sprintf("%x", k))
	}
	sort.Strings(ks)
	pending := ""
	if r.Prev != nil {
		pending = r.Prev.Digest
	}
	return strings.Join(ks, ",") + "|pending:" + pending
}

// mval is the mini model of one validator record inside one block.
type mval struct {
	exists     bool
	stake      uint64
	compound   bool
	delegate   bool
	unstaking  bool
	paused     bool
	committees []uint64
}

// BlockModel follows the validator records through one block, as far as the reward
// classification (compounding or not) and the slash arithmetic need it.
type BlockModel struct {
	Vals    map[string]*mval
	MinVal  uint64
	MinDel  uint64
	tracker map[string]uint64 // slash percent already applied in this block (own chain), protocol 2
}

func modelFrom(pre *Snap) *BlockModel {
	m := &BlockModel{Vals: map[string]*mval{}, tracker: map[string]uint64{},
		MinVal: pre.Params.Validator.MinimumStakeForValidators, MinDel: pre.Params.Validator.MinimumStakeForDelegates}
	for k, v := range pre.Vals {
		m.Vals[k] = &mval{exists: true, stake: v.StakedAmount, compound: v.Compound, delegate: v.Delegate,
			unstaking: v.UnstakingHeight != 0, paused: v.MaxPausedHeight != 0, committees: slices.Clone(v.Committees)}
	}
	return m
}

func (m *BlockModel) get(a string) *mval {
	if v := m.Vals[a]; v != nil && v.exists {
		return v
	}
	return nil
}

// forceUnstakeBelowMin mirrors the rule "a validator whose stake is below the minimum begins unstaking".
func (m *BlockModel) forceUnstakeBelowMin(v *mval) {
	if v.unstaking {
		return
	}
	if (v.delegate && v.stake < m.MinDel) || (!v.delegate && v.stake < m.MinVal) {
		v.unstaking = true
		v.paused = false
	}
}

// TxMeta is what the ledger needs to know about one transaction the harness built.
type TxMeta struct {
	Name    string
	Raw     []byte
	Fee     uint64
	PoolAdd map[uint64]uint64   // tokens the transaction moves INTO reward pools (subsidy)
	DaoMint uint64              // approved DAO transfer with mint=true
	Faucet  uint64              // tokens the faucet must create for this send (0 unless the world has a faucet)
	Model   func(m *BlockModel) // effect on validator records, applied if the transaction was included
}

// Expect is the ledger's prediction for one block.
type Expect struct {
	Mint, DaoMint, Faucet, SlashBurn, RewardBurn uint64
	Notes                                        []string
}

func (e *Expect) Delta() *big.Int {
	d := new(big.Int)
	for _, x := range []uint64{e.Mint, e.DaoMint, e.Faucet} {
		d.Add(d, new(big.Int).SetUint64(x))
	}
	for _, x := range []uint64{e.SlashBurn, e.RewardBurn} {
		d.Sub(d, new(big.Int).SetUint64(x))
	}
	return d
}

func (e *Expect) String() string {
	return fmt.Sprintf("mint=%d dao-mint=%d faucet=%d slash-burn=%d reward-remainder-burn=%d [%s]", e.Mint, e.DaoMint, e.Faucet, e.SlashBurn, e.RewardBurn, strings.Join(e.Notes, "; "))
}

func mulDivFloor(a, b, c uint64) uint64 {
	if c == 0 {
		return 0
	}
	x := new(big.Int).Mul(new(big.Int).SetUint64(a), new(big.Int).SetUint64(b))
	return x.Div(x, new(big.Int).SetUint64(c)).Uint64()
}

// keep(x, pct) = floor(x*(100-pct)/100), the "reduce by a percentage" rule used for the DAO cut,
// the early-withdrawal penalty and slashes.
func keep(x, pct uint64) uint64 {
	switch {
	case pct >= 100 || x == 0:
		return 0
	case pct == 0:
		return x
	}
	return mulDivFloor(x, 100-pct, 100)
}

// Committee computes the consensus committee of a chain from validator records: not a delegate,
// not paused, not unstaking, registered for the chain; voting power = stake.
func Committee(s *Snap, chain uint64) (members []string, total uint64) {
	for _, k := range s.ValKeys {
		v := s.Vals[k]
		if v.Delegate || v.MaxPausedHeight != 0 || v.UnstakingHeight != 0 || !slices.Contains(v.Committees, chain) {
			continue
		}
		members = append(members, k)
		total += v.StakedAmount
	}
	return
}

// mintPlan returns the DAO cut, the per-committee mint and the subsidized committees for a block.
func (r *Ref) mintPlan(pre *Snap) (dao, per uint64, chains []uint64) {
	h := pre.Height
	if h <= 1 || r.W.BPH == 0 {
		return
	}
	halvings := h / r.W.BPH
	var total uint64
	if halvings < 64 {
		total = r.W.Mint >> halvings
	}
	// subsidized committees: those holding at least the threshold percentage of all stake, plus the own chain
	var staked uint64
	comm := map[uint64]uint64{}
	for _, k := range pre.ValKeys {
		v := pre.Vals[k]
		staked += v.StakedAmount
		for _, c := range v.Committees {
			comm[c] += v.StakedAmount
		}
	}
	for c, amt := range comm {
		if amt == 0 || staked == 0 {
			continue
		}
		pct := new(big.Int).Mul(new(big.Int).SetUint64(amt), big.NewInt(100))
		pct.Div(pct, new(big.Int).SetUint64(staked))
		if pct.Cmp(new(big.Int).SetUint64(pre.Params.Validator.StakePercentForSubsidizedCommittee)) >= 0 && !pre.Retired[c] {
			chains = append(chains, c)
		}
	}
	if !slices.Contains(chains, OwnChain) {
		chains = append(chains, OwnChain)
	}
	slices.Sort(chains)
	if total == 0 || len(chains) == 0 {
		return 0, 0, nil
	}
	after := keep(total, pre.Params.Governance.DaoRewardPercentage)
	dao = total - after
	per = after / uint64(len(chains))
	return
}

// slash applies one slash of pct percent by the own chain's committee to the model and returns the burn.
func (r *Ref) slash(m *BlockModel, pre *Snap, addr string, pct uint64, notes *[]string, why string) uint64 {
	v := m.get(addr)
	if v == nil {
		return 0
	}
	if r.W.Proto >= 2 {
		if !slices.Contains(v.committees, OwnChain) {
			return 0
		}
		max := pre.Params.Validator.MaxSlashPerCommittee
		done := m.tracker[addr]
		if done >= max {
			return 0
		}
		if done+pct >= max {
			pct = max - done
			if i := slices.Index(v.committees, OwnChain); i >= 0 {
				v.committees = slices.Delete(v.committees, i, i+1)
			}
		}
		m.tracker[addr] += pct
	}
	after := keep(v.stake, pct)
	burn := v.stake - after
	*notes = append(*notes, fmt.Sprintf("%s %s: stake %d -%d%% -> %d", why, keyName([]byte(addr)), v.stake, pct, after))
	if after == 0 {
		v.exists = false
		v.stake = 0
		return burn
	}
	v.stake = after
	m.forceUnstakeBelowMin(v)
	return burn
}

// ExpectBlock predicts the supply change of the block at height pre.Height and advances the
// ledger's persistent state. included are the transactions that made it into the block.
func (r *Ref) ExpectBlock(pre *Snap, included []*TxMeta) *Expect {
	e := &Expect{}
	m := modelFrom(pre)
	vp := pre.Params.Validator
	poolIn := map[uint64]uint64{}
	if pre.Height >= 2 {
		dao, per, chains := r.mintPlan(pre)
		e.Mint = dao + per*uint64(len(chains))
		for _, c := range chains {
			poolIn[c] += per
		}
		e.Notes = append(e.Notes, fmt.Sprintf("mint: dao %d + %d x %v", dao, per, chains))
		if p := r.Prev; p != nil {
			// non-signers: settle at the window end, then count the previous certificate's absentees
			if vp.NonSignWindow != 0 && pre.Height%vp.NonSignWindow == 0 {
				var bad []string
				for a, n := range r.NonSign {
					if n > vp.MaxNonSign {
						bad = append(bad, a)
					}
				}
				sort.Strings(bad)
				for _, a := range bad {
					// auto-pause (no token effect; a paused validator keeps its reward class)
					if v := m.get(a); v != nil && !v.paused && !v.unstaking && !v.delegate && (r.W.Proto < 2 || slices.Contains(v.committees, OwnChain)) {
						v.paused = true
					}
				}
				for _, a := range bad {
					e.SlashBurn += r.slash(m, pre, a, vp.NonSignSlashPercentage, &e.Notes, "non-sign slash")
				}
				r.NonSign = map[string]uint64{}
			}
			for _, a := range p.NonSigners {
				r.NonSign[a]++
			}
			for _, d := range p.Doubles {
				for _, h := range d.Heights {
					r.DSIndex[fmt.Sprintf("%s|%d", d.Addr, h)] = true
				}
			}
			for _, d := range p.Doubles {
				for range d.Heights {
					e.SlashBurn += r.slash(m, pre, d.Addr, vp.DoubleSignSlashPercentage, &e.Notes, "double-sign slash")
				}
			}
			// reward recipients of the previous certificate, reduced by the absent voting power
			cd := r.CData[OwnChain]
			if cd == nil {
				cd = &cdata{}
				r.CData[OwnChain] = cd
				r.CDOrder = append(r.CDOrder, OwnChain)
			}
			for _, pp := range p.Percents {
				pct := keepPct(pp.Percent, p.NonSignPct)
				if pp.Chain != OwnChain || pct == 0 {
					continue
				}
				found := false
				for i := range cd.percents {
					if cd.percents[i].Addr == pp.Addr {
						cd.percents[i].Percent += pct
						found = true
					}
				}
				if !found {
					cd.percents = append(cd.percents, PP{Addr: pp.Addr, Percent: pct, Chain: OwnChain})
				}
			}
			cd.samples++
		}
	}
	for _, t := range included {
		poolIn[OwnChain] += t.Fee
		for c, x := range t.PoolAdd {
			poolIn[c] += x
		}
		e.DaoMint += t.DaoMint
		e.Faucet += t.Faucet
		if t.Model != nil {
			t.Model(m)
		}
	}
	// end of block: every reward pool that has recipients is paid out, the rest is burned
	for _, c := range r.CDOrder {
		cd := r.CData[c]
		if len(cd.percents) == 0 {
			continue
		}
		pool := pre.Pools[c] + poolIn[c]
		var paid uint64
		for _, pp := range cd.percents {
			var full uint64
			if cd.samples != 0 {
				full = mulDivFloor(pp.Percent, pool, cd.samples*100)
			}
			early := keep(full, vp.EarlyWithdrawalPenalty)
			x := early
			if v := m.get(pp.Addr); v != nil && v.compound && !v.unstaking {
				x = full
				v.stake += full
			}
			paid += x
		}
		e.RewardBurn += pool - paid
		e.Notes = append(e.Notes, fmt.Sprintf("pool %d: %d to distribute over %d sample(s), paid %d", c, pool, cd.samples, paid))
		cd.percents, cd.samples = nil, 0
	}
	return e
}

// keepPct is the integer "reduce a percentage by a percentage" rule (plain uint64 arithmetic, values <= 100).
func keepPct(p, by uint64) uint64 {
	if by >= 100 || p == 0 {
		return 0
	}
	if by == 0 {
		return p
	}
	return p * (100 - by) / 100
}
