// Package chainops is the chain world shared by the C04 (token supply conservation) and
// C12 (staking bookkeeping / no self-wedging) checks: genesis states, the alphabet of
// block recipes, the independent reference ledger, the oracles and the per-path executor
// that runs inside a worker process (one real store+FSM per process).
package chainops

import (
	"encoding/hex"
	"fmt"
	"strings"

	"github.com/canopy-network/canopy/fsm"
	"github.com/canopy-network/canopy/lib"

	"verifharness/env"
)

// key indices (env.BLS(i))
const (
	KV0 = 0 // validator, dominant stake (> 2/3 of the committee power on its own), committees [1,2], compounding, custodial; always proposer and always signs
	KV1 = 1 // validator, non-custodial (output = KA5), not compounding, committee [1]
	KV2 = 2 // validator with the minimal stake (1): any slash rounds its stake to zero
	KV3 = 3 // delegate, committees [1,2], compounding
	KA4 = 4 // accounts
	KA5 = 5 // (also output address of V1)
	KA6 = 6 // (later stakes itself as a new validator)
	KA7 = 7 // (liquidity provider on chain 2, buyer of orders; later stakes itself as a new delegate)
)

const (
	OwnChain    = env.ChainID
	NestedChain = uint64(2)
)

// World fixes one genesis state, the node configuration and the constants recipes use.
type World struct {
	Name          string
	Proto         int    // protocol version active from genesis (1 or 2)
	Fee           uint64 // every fee parameter
	Mint          uint64 // Config.InitialTokensPerBlock
	BPH           uint64 // Config.BlocksPerHalvening
	MinOrd        uint64 // MinimumOrderSize
	MinValGenesis uint64 // MinimumStakeForValidators at genesis (0 = the default)
	MinValS       uint64 // value the "min stake up" recipe sets for validators (V2 < it <= V1)
	MinDelS       uint64 // ... for delegates (V3 < it)
	Faucet        int    // key index of the faucet account, -1 none
	NSWindow      uint64 // non-sign window (default 2)
	FreeSend      bool   // the send fee parameter is 0
	// Class is non-empty for a genesis no real network could have (violations found in it get a separate signature class).
	Class    string
	Accounts map[int]uint64
	Vals     []env.ValSpec
	Pools    []*fsm.Pool
}

func (w *World) sendFee() uint64 {
	if w.FreeSend {
		return 0
	}
	return w.Fee
}

func addrOf(k int) []byte { return env.Addr(env.BLS(k)).Bytes() }
func hx(b []byte) string  { return hex.EncodeToString(b) }

// keyName maps an address back to a readable name for traces.
func keyName(addr []byte) string {
	for i := 0; i < 8; i++ {
		if string(addrOf(i)) == string(addr) {
			if i <= 3 {
				return fmt.Sprintf("V%d", i)
			}
			return fmt.Sprintf("A%d", i)
		}
	}
	return hx(addr)[:8]
}

// GetWorld returns the world for a spec "<genesis>[/p1]" (default protocol 2).
func GetWorld(spec string) *World {
	name, proto := spec, 2
	if i := strings.IndexByte(spec, '/'); i >= 0 {
		name = spec[:i]
		if spec[i+1:] == "p1" {
			proto = 1
		}
	}
	w := &World{Name: spec, Proto: proto, Fee: 10, Mint: 1003, BPH: 4, MinOrd: 5, MinValS: 50, MinDelS: 600, Faucet: -1}
	lp := func(amount uint64) *fsm.Pool {
		return &fsm.Pool{Id: NestedChain + fsm.LiquidityPoolAddend, Amount: amount,
			Points: []*lib.PoolPoints{{Address: addrOf(KA7), Points: 100}}, TotalPoolPoints: 100}
	}
	smallVals := []env.ValSpec{
		{Key: KV0, Stake: 10000, Committees: []uint64{1, 2}, OutputKey: -1, Compound: true},
		{Key: KV1, Stake: 1000, Committees: []uint64{1}, OutputKey: KA5},
		{Key: KV2, Stake: 1, Committees: []uint64{1}, OutputKey: -1},
		{Key: KV3, Stake: 500, Committees: []uint64{1, 2}, OutputKey: -1, Delegate: true, Compound: true},
	}
	switch name {
	case "small", "faucet", "free", "longwin", "minstake":
		w.Accounts = map[int]uint64{KV0: 1000, KV1: 1000, KV2: 1000, KV3: 1000, KA4: 5000, KA5: 3000, KA6: 2000, KA7: 1000}
		w.Vals = smallVals
		w.Pools = []*fsm.Pool{{Id: lib.DAOPoolID, Amount: 100}, lp(1000)}
		if name == "faucet" {
			w.Faucet = KA7
		}
		if name == "longwin" {
			w.NSWindow = 5 // longer than the unstaking period (2): a validator can leave the chain INSIDE a non-sign window
		}
		if name == "minstake" {
			// a minimum validator stake in force from genesis, between V1's stake (1000) and what one double-sign slash
			// leaves of it (900): the slash itself starts V1's forced unstaking (SlashValidator's below-minimum branch)
			w.MinValGenesis = 950
		}
		if name == "free" {
			w.FreeSend = true // send fee 0 (all fees 0 would be an empty parameter object): a send touches only sender and recipient
		}
	case "dust":
		// balances 0/1(/2), fee 1, mint 3 per block: every division has a remainder, accounts hit zero constantly
		w.Fee, w.Mint, w.MinOrd, w.MinValS, w.MinDelS = 1, 3, 1, 2, 2
		w.Accounts = map[int]uint64{KV0: 1, KV1: 1, KV2: 1, KV3: 1, KA4: 2, KA5: 1, KA6: 2, KA7: 1}
		w.Vals = []env.ValSpec{
			{Key: KV0, Stake: 10, Committees: []uint64{1, 2}, OutputKey: -1, Compound: true},
			{Key: KV1, Stake: 2, Committees: []uint64{1}, OutputKey: KA5},
			{Key: KV2, Stake: 1, Committees: []uint64{1}, OutputKey: -1},
			{Key: KV3, Stake: 1, Committees: []uint64{1, 2}, OutputKey: -1, Delegate: true, Compound: true},
		}
		w.Pools = []*fsm.Pool{{Id: lib.DAOPoolID, Amount: 1}, lp(1)}
	case "nearmax":
		// one account holds 2^64-10^6, the total is 2^64-1500: the mint of the third block carries it past 2^64
		w.Class = "near-max-genesis"
		w.Accounts = map[int]uint64{KV0: 1000, KV1: 1000, KV2: 1000, KV3: 1000, KA4: ^uint64(0) - 1_000_000 + 1, KA5: 3000, KA6: 2000, KA7: 1000}
		w.Vals = smallVals
		// everything except A4 must add up to 10^6-1500
		rest := uint64(1_000_000 - 1500)
		used := uint64(1000*4+3000+2000+1000) + 10000 + 1000 + 1 + 500 + 1000
		w.Pools = []*fsm.Pool{{Id: lib.DAOPoolID, Amount: rest - used}, lp(1000)}
	default:
		panic("chainops: unknown world " + spec)
	}
	return w
}

// Genesis builds the genesis state of the world.
func (w *World) Genesis() *fsm.GenesisState {
	g := env.NewGenesis(w.Accounts, w.Vals, func(p *fsm.Params) {
		p.Consensus.ProtocolVersion = fsm.NewProtocolVersion(0, uint64(w.Proto))
		v := p.Validator
		v.UnstakingBlocks, v.DelegateUnstakingBlocks, v.MaxPauseBlocks = 2, 2, 3 // max-pause 3: a slash certified right after a pause lands BEFORE the max-pause height
		v.NonSignWindow, v.MaxNonSign = 2, 1
		if w.NSWindow != 0 {
			v.NonSignWindow = w.NSWindow
		}
		v.NonSignSlashPercentage, v.DoubleSignSlashPercentage, v.MaxSlashPerCommittee = 5, 10, 15
		v.MinimumOrderSize = w.MinOrd
		if w.MinValGenesis != 0 {
			v.MinimumStakeForValidators = w.MinValGenesis
		}
		f := p.Fee
		defer func() { f.SendFee = w.sendFee() }()
		f.SendFee, f.StakeFee, f.EditStakeFee, f.UnstakeFee, f.PauseFee, f.UnpauseFee = w.Fee, w.Fee, w.Fee, w.Fee, w.Fee, w.Fee
		f.ChangeParameterFee, f.DaoTransferFee, f.CertificateResultsFee, f.SubsidyFee = w.Fee, w.Fee, 0, w.Fee
		f.CreateOrderFee, f.EditOrderFee, f.DeleteOrderFee = w.Fee, w.Fee, w.Fee
		f.DexLimitOrderFee, f.DexLiquidityDepositFee, f.DexLiquidityWithdrawFee = w.Fee, w.Fee, w.Fee
	})
	g.Pools = w.Pools
	return g
}

// CfgTweak sets the mint schedule (node configuration, not governance) and the faucet.
func (w *World) CfgTweak(c *lib.Config) {
	c.InitialTokensPerBlock = w.Mint
	c.BlocksPerHalvening = w.BPH
	if w.Faucet >= 0 {
		c.FaucetAddress = hx(addrOf(w.Faucet))
	}
}

// NewChain starts a fresh node on this world's genesis.
func (w *World) NewChain() (*env.Chain, error) {
	return env.NewChain(w.Genesis(), w.CfgTweak)
}
