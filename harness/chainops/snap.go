package chainops

import (
	"crypto/sha256"
	"encoding/binary"
	"encoding/hex"
	"fmt"
	"sort"
	"strings"

	"github.com/canopy-network/canopy/fsm"
	"github.com/canopy-network/canopy/lib"

	"verifharness/env"
)

// Marker is one key of the unstaking (prefix 5) or paused (prefix 6) index.
type Marker struct {
	Height uint64
	Addr   string // raw address bytes
}

// Snap is the harness's own decoding of a full raw state scan (no FSM getters except
// the parameter reader): where tokens live, the validator records, the supply record,
// the deferred-action indices and the non-signer counters.
type Snap struct {
	Height     uint64 // height of the next block
	Accounts   map[string]uint64
	Pools      map[uint64]uint64
	Vals       map[string]*fsm.Validator
	ValKeys    []string // sorted
	Supply     *fsm.Supply
	Params     *fsm.Params
	Unstaking  []Marker
	Paused     []Marker
	NonSigners map[string]*fsm.NonSigner
	Retired    map[uint64]bool
	Orders     map[uint64][]*lib.SellOrder // per order book, key order
	Malformed  []string
	Key        string // hash of the complete raw dump
}

// segments splits a length-prefixed key (1 length byte per segment); ok=false if malformed.
func segments(k []byte) (segs [][]byte, ok bool) {
	for i := 0; i < len(k); {
		l := int(k[i])
		i++
		if i+l > len(k) {
			return nil, false
		}
		segs = append(segs, k[i:i+l])
		i += l
	}
	return segs, len(segs) > 0
}

// TakeSnap scans the whole state of the chain (committed state between blocks).
func TakeSnap(c *env.Chain) (*Snap, error) {
	kvs, err := env.RawState(c.FSM)
	if err != nil {
		return nil, err
	}
	s := &Snap{Height: c.Height(), Accounts: map[string]uint64{}, Pools: map[uint64]uint64{}, Vals: map[string]*fsm.Validator{},
		NonSigners: map[string]*fsm.NonSigner{}, Retired: map[uint64]bool{}, Orders: map[uint64][]*lib.SellOrder{}, Supply: &fsm.Supply{}}
	h := sha256.New()
	for _, kv := range kvs {
		fmt.Fprintf(h, "%x=%x\n", kv.K, kv.V)
		segs, ok := segments(kv.K)
		if !ok || len(segs[0]) != 1 {
			s.Malformed = append(s.Malformed, hex.EncodeToString(kv.K))
			continue
		}
		bad := func() { s.Malformed = append(s.Malformed, hex.EncodeToString(kv.K)) }
		switch segs[0][0] {
		case 1: // account
			a := new(fsm.Account)
			if len(segs) != 2 || lib.Unmarshal(kv.V, a) != nil {
				bad()
				continue
			}
			s.Accounts[string(segs[1])] = a.Amount
		case 2: // pool
			p := new(fsm.Pool)
			if len(segs) != 2 || len(segs[1]) != 8 || lib.Unmarshal(kv.V, p) != nil {
				bad()
				continue
			}
			s.Pools[binary.BigEndian.Uint64(segs[1])] = p.Amount
		case 3: // validator
			v := new(fsm.Validator)
			if len(segs) != 2 || lib.Unmarshal(kv.V, v) != nil {
				bad()
				continue
			}
			v.Address = append([]byte{}, segs[1]...)
			s.Vals[string(segs[1])] = v
			s.ValKeys = append(s.ValKeys, string(segs[1]))
		case 5, 6: // unstaking / paused index
			if len(segs) != 3 || len(segs[1]) != 8 {
				bad()
				continue
			}
			m := Marker{Height: binary.BigEndian.Uint64(segs[1]), Addr: string(segs[2])}
			if segs[0][0] == 5 {
				s.Unstaking = append(s.Unstaking, m)
			} else {
				s.Paused = append(s.Paused, m)
			}
		case 8: // non-signer counters
			ns := new(fsm.NonSigner)
			if len(segs) != 2 || lib.Unmarshal(kv.V, ns) != nil {
				bad()
				continue
			}
			s.NonSigners[string(segs[1])] = ns
		case 10: // supply
			if lib.Unmarshal(kv.V, s.Supply) != nil {
				bad()
			}
		case 13: // order book
			o := new(lib.SellOrder)
			if len(segs) != 3 || len(segs[1]) != 8 || lib.Unmarshal(kv.V, o) != nil {
				bad()
				continue
			}
			id := binary.BigEndian.Uint64(segs[1])
			s.Orders[id] = append(s.Orders[id], o)
		case 14: // retired committees
			if len(segs) == 2 && len(segs[1]) == 8 {
				s.Retired[binary.BigEndian.Uint64(segs[1])] = true
			}
		}
	}
	sort.Strings(s.ValKeys)
	s.Key = hex.EncodeToString(h.Sum(nil)[:16])
	p, e := c.FSM.GetParams()
	if e != nil {
		return nil, e
	}
	s.Params = p
	return s, nil
}

// Describe renders the token-relevant part of a snapshot for violation reports.
func (s *Snap) Describe() string {
	var sb strings.Builder
	fmt.Fprintf(&sb, "next-height=%d supply{total=%d staked=%d delegated=%d committees=%s delegations=%s}", s.Height, s.Supply.Total, s.Supply.Staked, s.Supply.DelegatedOnly,
		poolList(s.Supply.CommitteeStaked), poolList(s.Supply.CommitteeDelegatedOnly))
	sb.WriteString(" accounts{")
	var ak []string
	for a := range s.Accounts {
		ak = append(ak, a)
	}
	sort.Strings(ak)
	for _, a := range ak {
		fmt.Fprintf(&sb, "%s=%d ", keyName([]byte(a)), s.Accounts[a])
	}
	sb.WriteString("} pools{")
	var pk []uint64
	for p := range s.Pools {
		pk = append(pk, p)
	}
	sort.Slice(pk, func(i, j int) bool { return pk[i] < pk[j] })
	for _, p := range pk {
		fmt.Fprintf(&sb, "%d=%d ", p, s.Pools[p])
	}
	sb.WriteString("} validators{")
	for _, k := range s.ValKeys {
		v := s.Vals[k]
		fmt.Fprintf(&sb, "%s:stake=%d,committees=%v,delegate=%v,compound=%v,paused@%d,unstaking@%d ", keyName([]byte(k)), v.StakedAmount, v.Committees, v.Delegate, v.Compound, v.MaxPausedHeight, v.UnstakingHeight)
	}
	sb.WriteString("} unstaking-markers{")
	for _, m := range s.Unstaking {
		fmt.Fprintf(&sb, "%d:%s ", m.Height, keyName([]byte(m.Addr)))
	}
	sb.WriteString("} paused-markers{")
	for _, m := range s.Paused {
		fmt.Fprintf(&sb, "%d:%s ", m.Height, keyName([]byte(m.Addr)))
	}
	sb.WriteString("}")
	return sb.String()
}

func poolList(ps []*fsm.Pool) string {
	var sb strings.Builder
	sb.WriteString("[")
	for _, p := range ps {
		fmt.Fprintf(&sb, "%d:%d ", p.Id, p.Amount)
	}
	sb.WriteString("]")
	return sb.String()
}
