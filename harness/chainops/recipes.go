package chainops

import (
	"fmt"
	"slices"

	"github.com/canopy-network/canopy/fsm"
	"github.com/canopy-network/canopy/lib"

	"verifharness/env"
)

// Ctx is what a recipe sees when it builds the next block.
type Ctx struct {
	W   *World
	Pre *Snap // state before the block
	H   uint64
	n   uint64 // running salt so that two transactions of one block never collide
}

func (x *Ctx) bal(k int) uint64 { return x.Pre.Accounts[string(addrOf(k))] }
func (x *Ctx) val(k int) *fsm.Validator {
	return x.Pre.Vals[string(addrOf(k))]
}

// tx builds a signed transaction with harness-owned time (fsm.NewTransaction stamps wall-clock time).
func (x *Ctx) tx(name string, signer int, msg lib.MessageI, fee uint64) *TxMeta {
	a, err := lib.NewAny(msg)
	if err != nil {
		panic(err)
	}
	x.n++
	t := &lib.Transaction{MessageType: msg.Name(), Msg: a, CreatedHeight: x.H, Time: 1_700_000_000_000_000 + x.H*1000 + x.n,
		Fee: fee, NetworkId: env.NetworkID, ChainId: env.ChainID}
	if e := t.Sign(env.BLS(signer)); e != nil {
		panic(e)
	}
	raw, e := lib.Marshal(t)
	if e != nil {
		panic(e)
	}
	return &TxMeta{Name: name, Raw: raw, Fee: fee}
}

func (x *Ctx) send(name string, from, to int, amount uint64) *TxMeta {
	t := x.tx(fmt.Sprintf("%s: send %s->%s amount=%d", name, kn(from), kn(to), amount), from,
		&fsm.MessageSend{FromAddress: addrOf(from), ToAddress: addrOf(to), Amount: amount}, x.W.sendFee())
	if x.W.Faucet == from {
		// the faucet creates exactly what is missing for amount+fee (spendable balance = balance: no vesting in this world)
		if need := amount + x.W.Fee; need > x.bal(from) {
			t.Faucet = need - x.bal(from)
		}
	}
	return t
}

func kn(k int) string {
	if k <= 3 {
		return fmt.Sprintf("V%d", k)
	}
	return fmt.Sprintf("A%d", k)
}

func (x *Ctx) param(space, key string, value uint64, signer int, model func(m *BlockModel)) *TxMeta {
	a, err := lib.NewAny(&lib.UInt64Wrapper{Value: value})
	if err != nil {
		panic(err)
	}
	t := x.tx(fmt.Sprintf("change-parameter %s/%s=%d", space, key, value), signer,
		&fsm.MessageChangeParameter{ParameterSpace: space, ParameterKey: key, ParameterValue: a, StartHeight: 1, EndHeight: 5000, Signer: addrOf(signer)}, x.W.Fee)
	t.Model = model
	return t
}

func (x *Ctx) unstake(k int) *TxMeta {
	a := string(addrOf(k))
	t := x.tx("unstake "+kn(k), k, &fsm.MessageUnstake{Address: addrOf(k)}, x.W.Fee)
	t.Model = func(m *BlockModel) {
		if v := m.get(a); v != nil {
			v.unstaking, v.paused = true, false
		}
	}
	return t
}

func (x *Ctx) pause(k int) *TxMeta {
	a := string(addrOf(k))
	t := x.tx("pause "+kn(k), k, &fsm.MessagePause{Address: addrOf(k)}, x.W.Fee)
	t.Model = func(m *BlockModel) {
		if v := m.get(a); v != nil {
			v.paused = true
		}
	}
	return t
}

func (x *Ctx) unpause(k int) *TxMeta {
	a := string(addrOf(k))
	t := x.tx("unpause "+kn(k), k, &fsm.MessageUnpause{Address: addrOf(k)}, x.W.Fee)
	t.Model = func(m *BlockModel) {
		if v := m.get(a); v != nil {
			v.paused = false
		}
	}
	return t
}

func (x *Ctx) stake(k int, amount uint64, committees []uint64, delegate bool) *TxMeta {
	net := fmt.Sprintf("tcp://v%d", k)
	if delegate {
		net = ""
	}
	a := string(addrOf(k))
	t := x.tx(fmt.Sprintf("stake %s amount=%d committees=%v delegate=%v", kn(k), amount, committees, delegate), k,
		&fsm.MessageStake{PublicKey: env.BLS(k).PublicKey().Bytes(), Amount: amount, Committees: committees, NetAddress: net,
			OutputAddress: addrOf(k), Delegate: delegate, Compound: true}, x.W.Fee)
	t.Model = func(m *BlockModel) {
		m.Vals[a] = &mval{exists: true, stake: amount, compound: true, delegate: delegate, committees: slices.Clone(committees)}
	}
	return t
}

// editStake keeps output, compounding and net address; raises the stake by add and sets the committees.
func (x *Ctx) editStake(k int, add uint64, committees []uint64) *TxMeta {
	v := x.val(k)
	if v == nil {
		// build against a non-existent validator: the transaction must fail
		v = &fsm.Validator{Address: addrOf(k), Output: addrOf(k), NetAddress: "tcp://gone"}
	}
	net := v.NetAddress
	if v.Delegate {
		net = ""
	}
	amount := v.StakedAmount + add
	if amount == 0 {
		amount = 1
	}
	a := string(addrOf(k))
	t := x.tx(fmt.Sprintf("edit-stake %s amount=%d(+%d) committees=%v", kn(k), amount, add, committees), k,
		&fsm.MessageEditStake{Address: addrOf(k), Amount: amount, Committees: committees, NetAddress: net, OutputAddress: v.Output, Compound: v.Compound}, x.W.Fee)
	t.Model = func(m *BlockModel) {
		if mv := m.get(a); mv != nil {
			if amount > mv.stake {
				mv.stake = amount
			}
			mv.committees = slices.Clone(committees)
		}
	}
	return t
}

// Built is one block recipe instantiated on a state.
type Built struct {
	Txs      []*TxMeta
	Percents []PP   // nil: 100% to the proposer
	Doubles  []DKey // double-sign accusations carried by this block's certificate
	Orders   *lib.Orders
	Absent   []int // key indices that do not sign this block's certificate
}

// DKey names a double signer by key index.
type DKey struct {
	Key     int
	Heights []uint64
}

// Recipe is one letter of the alphabet.
type Recipe struct {
	Name    string
	Staking bool // member of the staking / slashing subset
	Build   func(x *Ctx) Built
}

func firstOrder(x *Ctx, locked bool) *lib.SellOrder {
	for _, o := range x.Pre.Orders[OwnChain] {
		if (o.BuyerReceiveAddress != nil) == locked {
			return o
		}
	}
	return nil
}

var ext20 = []byte("external-address-20b")

// Recipes is the complete alphabet. Names are stable (replay artefacts store names).
func Recipes() []Recipe {
	return []Recipe{
		// ---------------------------------------------------------------- staking / slashing subset
		{Name: "empty", Staking: true, Build: func(x *Ctx) Built { return Built{} }},
		{Name: "stake-new(A6 validator 2,[1,2]; A7 delegate all,[2])", Staking: true, Build: func(x *Ctx) Built {
			all := uint64(1)
			if b := x.bal(KA7); b > x.W.Fee {
				all = b - x.W.Fee
			}
			return Built{Txs: []*TxMeta{x.stake(KA6, 2, []uint64{1, 2}, false), x.stake(KA7, all, []uint64{2}, true)}}
		}},
		{Name: "edit-stake(V1 +10,[1,2]; V3 +0,[2])", Staking: true, Build: func(x *Ctx) Built {
			add := uint64(10)
			if x.W.Fee == 1 {
				add = 1
			}
			return Built{Txs: []*TxMeta{x.editStake(KV1, add, []uint64{1, 2}), x.editStake(KV3, 0, []uint64{2})}}
		}},
		{Name: "pause(V1,V2)", Staking: true, Build: func(x *Ctx) Built { return Built{Txs: []*TxMeta{x.pause(KV1), x.pause(KV2)}} }},
		{Name: "unpause(V1,V2)", Staking: true, Build: func(x *Ctx) Built { return Built{Txs: []*TxMeta{x.unpause(KV1), x.unpause(KV2)}} }},
		{Name: "unstake(V1)", Staking: true, Build: func(x *Ctx) Built { return Built{Txs: []*TxMeta{x.unstake(KV1)}} }},
		{Name: "unstake(V2)", Staking: true, Build: func(x *Ctx) Built { return Built{Txs: []*TxMeta{x.unstake(KV2)}} }},
		{Name: "unstake(V3 delegate)", Staking: true, Build: func(x *Ctx) Built { return Built{Txs: []*TxMeta{x.unstake(KV3)}} }},
		{Name: "cert:double-sign(V1,V2)", Staking: true, Build: func(x *Ctx) Built {
			return Built{Doubles: []DKey{{KV1, []uint64{x.H}}, {KV2, []uint64{x.H}}}}
		}},
		{Name: "cert:double-sign(V1 twice)", Staking: true, Build: func(x *Ctx) Built {
			return Built{Doubles: []DKey{{KV1, []uint64{x.H, x.H + 100000}}}}
		}},
		{Name: "cert:reward-split(A4 34,V1 33,V3 32)", Staking: true, Build: func(x *Ctx) Built {
			return Built{Percents: []PP{{string(addrOf(KA4)), 34, OwnChain}, {string(addrOf(KV1)), 33, OwnChain}, {string(addrOf(KV3)), 32, OwnChain}}}
		}},
		{Name: "cert:absent(V1,V2)", Staking: true, Build: func(x *Ctx) Built { return Built{Absent: []int{KV1, KV2}} }},
		{Name: "param:min-stake-up", Staking: true, Build: func(x *Ctx) Built {
			w := x.W
			return Built{Txs: []*TxMeta{
				x.param(fsm.ParamSpaceVal, fsm.ParamMinimumStakeForValidators, w.MinValS, KA4, func(m *BlockModel) {
					if w.MinValS > m.MinVal {
						m.MinVal = w.MinValS
						for _, v := range m.Vals {
							if v.exists {
								m.forceUnstakeBelowMin(v)
							}
						}
					}
				}),
				x.param(fsm.ParamSpaceVal, fsm.ParamMinimumStakeForDelegates, w.MinDelS, KA4, func(m *BlockModel) {
					if w.MinDelS > m.MinDel {
						m.MinDel = w.MinDelS
						for _, v := range m.Vals {
							if v.exists {
								m.forceUnstakeBelowMin(v)
							}
						}
					}
				}),
			}}
		}},
		{Name: "param:max-committees=1", Staking: true, Build: func(x *Ctx) Built {
			prevMax := x.Pre.Params.Validator.MaxCommittees
			keys := slices.Clone(x.Pre.ValKeys)
			return Built{Txs: []*TxMeta{x.param(fsm.ParamSpaceVal, fsm.ParamMaxCommittees, 1, KA4, func(m *BlockModel) {
				if prevMax <= 1 {
					return
				}
				// excess committees are dropped, the kept one rotates with a counter over the validators in key order
				// (validators created earlier in this block are scanned too; the scan is in address order)
				all := map[string]bool{}
				for _, k := range keys {
					all[k] = true
				}
				for k, v := range m.Vals {
					if v.exists {
						all[k] = true
					}
				}
				var order []string
				for k := range all {
					order = append(order, k)
				}
				slices.Sort(order)
				idx := 0
				for _, k := range order {
					v := m.get(k)
					if v == nil || len(v.committees) <= 1 {
						continue
					}
					v.committees = []uint64{v.committees[idx%len(v.committees)]}
					idx++
				}
			})}}
		}},
		{Name: "cert:double-sign(V3 delegate)", Staking: true, Build: func(x *Ctx) Built {
			return Built{Doubles: []DKey{{KV3, []uint64{x.H}}}}
		}},
		// ---------------------------------------------------------------- the rest of the 16 message types, amount edges
		{Name: "send(A4->A5 1; A5->A5 fee; A6->A7 all)", Build: func(x *Ctx) Built {
			all := uint64(1)
			if b := x.bal(KA6); b > x.W.Fee {
				all = b - x.W.Fee
			}
			return Built{Txs: []*TxMeta{x.send("one", KA4, KA5, 1), x.send("self", KA5, KA5, x.W.Fee), x.send("balance-fee", KA6, KA7, all)}}
		}},
		{Name: "send-edges(A4->A6 all+1; A5->A4 0; A7->A4 all)", Build: func(x *Ctx) Built {
			over := x.bal(KA4) - min(x.bal(KA4), x.W.Fee) + 1
			all := uint64(1)
			if b := x.bal(KA7); b > x.W.Fee {
				all = b - x.W.Fee
			}
			return Built{Txs: []*TxMeta{x.send("balance-fee+1", KA4, KA6, over), x.send("zero", KA5, KA4, 0), x.send("balance-fee", KA7, KA4, all)}}
		}},
		{Name: "subsidy(A4->pool1 fee; A5->pool2 1; A6->pool1 0)", Build: func(x *Ctx) Built {
			sub := func(from int, chain, amount uint64) *TxMeta {
				t := x.tx(fmt.Sprintf("subsidy %s->pool %d amount=%d", kn(from), chain, amount), from, &fsm.MessageSubsidy{Address: addrOf(from), ChainId: chain, Amount: amount}, x.W.Fee)
				t.PoolAdd = map[uint64]uint64{chain: amount}
				return t
			}
			return Built{Txs: []*TxMeta{sub(KA4, OwnChain, x.W.Fee), sub(KA5, NestedChain, 1), sub(KA6, OwnChain, 0)}}
		}},
		{Name: "dao-transfer(1 to A6; pool+1 to A6)", Build: func(x *Ctx) Built {
			dao := func(amount uint64) *TxMeta {
				return x.tx(fmt.Sprintf("dao-transfer amount=%d mint=false", amount), KA6, &fsm.MessageDAOTransfer{Address: addrOf(KA6), Amount: amount, StartHeight: 1, EndHeight: 5000}, x.W.Fee)
			}
			return Built{Txs: []*TxMeta{dao(1), dao(x.Pre.Pools[lib.DAOPoolID] + 1 + 2000)}}
		}},
		{Name: "dao-transfer-mint(7 to A6)", Build: func(x *Ctx) Built {
			t := x.tx("dao-transfer amount=7 mint=true", KA6, &fsm.MessageDAOTransfer{Address: addrOf(KA6), Amount: 7, Mint: true, StartHeight: 1, EndHeight: 5000}, x.W.Fee)
			t.DaoMint = 7
			return Built{Txs: []*TxMeta{t}}
		}},
		{Name: "order-create(A6 sells min on book 1)", Build: func(x *Ctx) Built {
			return Built{Txs: []*TxMeta{x.tx(fmt.Sprintf("create-order A6 amount=%d", x.W.MinOrd), KA6,
				&fsm.MessageCreateOrder{ChainId: OwnChain, AmountForSale: x.W.MinOrd, RequestedAmount: 3, SellerReceiveAddress: ext20, SellersSendAddress: addrOf(KA6)}, x.W.Fee)}}
		}},
		{Name: "order-edit(+1) / order-delete second", Build: func(x *Ctx) Built {
			var txs []*TxMeta
			os := x.Pre.Orders[OwnChain]
			if len(os) > 0 {
				o := os[0]
				txs = append(txs, x.tx(fmt.Sprintf("edit-order %x amount=%d", o.Id[:4], o.AmountForSale+1), KA6,
					&fsm.MessageEditOrder{OrderId: o.Id, ChainId: OwnChain, AmountForSale: o.AmountForSale + 1, RequestedAmount: 3, SellerReceiveAddress: ext20}, x.W.Fee))
			}
			if len(os) > 1 {
				o := os[1]
				txs = append(txs, x.tx(fmt.Sprintf("delete-order %x", o.Id[:4]), KA6, &fsm.MessageDeleteOrder{OrderId: o.Id, ChainId: OwnChain}, x.W.Fee))
			}
			return Built{Txs: txs}
		}},
		{Name: "order-delete(first)", Build: func(x *Ctx) Built {
			os := x.Pre.Orders[OwnChain]
			if len(os) == 0 {
				return Built{}
			}
			return Built{Txs: []*TxMeta{x.tx(fmt.Sprintf("delete-order %x", os[0].Id[:4]), KA6, &fsm.MessageDeleteOrder{OrderId: os[0].Id, ChainId: OwnChain}, x.W.Fee)}}
		}},
		{Name: "cert:orders(lock open / close locked)", Build: func(x *Ctx) Built {
			o := &lib.Orders{}
			if open := firstOrder(x, false); open != nil {
				o.LockOrders = append(o.LockOrders, &lib.LockOrder{OrderId: open.Id, ChainId: OwnChain, BuyerReceiveAddress: addrOf(KA5), BuyerSendAddress: ext20, BuyerChainDeadline: x.H + 50})
			}
			if locked := firstOrder(x, true); locked != nil {
				o.CloseOrders = append(o.CloseOrders, locked.Id)
			}
			return Built{Orders: o}
		}},
		{Name: "dex(A4 limit fee; A5 deposit 1; A7 withdraw 50%)", Build: func(x *Ctx) Built {
			return Built{Txs: []*TxMeta{
				x.tx("dex-limit-order A4", KA4, &fsm.MessageDexLimitOrder{ChainId: NestedChain, AmountForSale: x.W.Fee, RequestedAmount: 1, Address: addrOf(KA4)}, x.W.Fee),
				x.tx("dex-liquidity-deposit A5", KA5, &fsm.MessageDexLiquidityDeposit{ChainId: NestedChain, Amount: 1, Address: addrOf(KA5)}, x.W.Fee),
				x.tx("dex-liquidity-withdraw A7", KA7, &fsm.MessageDexLiquidityWithdraw{ChainId: NestedChain, Percent: 50, Address: addrOf(KA7)}, x.W.Fee),
			}}
		}},
		{Name: "param:dao-percent=50", Build: func(x *Ctx) Built {
			return Built{Txs: []*TxMeta{x.param(fsm.ParamSpaceGov, fsm.ParamDAORewardPercentage, 50, KA5, nil)}}
		}},
		{Name: "cert:absent(V1,V2)+reward(A4 1%)", Build: func(x *Ctx) Built {
			return Built{Absent: []int{KV1, KV2}, Percents: []PP{{string(addrOf(KA4)), 1, OwnChain}}}
		}},
		{Name: "send-beyond-balance(A7->A4 balance+5)", Build: func(x *Ctx) Built {
			// fails for lack of funds unless A7 is the configured faucet, which then mints exactly the missing 5+fee
			return Built{Txs: []*TxMeta{x.send("balance+5", KA7, KA4, x.bal(KA7)+5)}}
		}},
		{Name: "send-vesting(A4->A6 fee over 2 blocks)", Build: func(x *Ctx) Built {
			return Built{Txs: []*TxMeta{x.tx("vesting send A4->A6", KA4, &fsm.MessageSend{FromAddress: addrOf(KA4), ToAddress: addrOf(KA6), Amount: x.W.Fee,
				VestingStartHeight: x.H, VestingCliffHeight: x.H, VestingEndHeight: x.H + 2}, x.W.Fee)}}
		}},
		// vesting sends with FIXED terms: the second one (same block, and every later application of the recipe) tops up
		// the tranche the first one opened instead of replacing it (sixth-round seed C04: the top-up branch lost the amount)
		{Name: "send-vesting-fixed-terms(A4->A6 fee; A5->A6 1; 1/1/60)", Build: func(x *Ctx) Built {
			return Built{Txs: []*TxMeta{
				x.tx("vesting send A4->A6 fixed terms", KA4, &fsm.MessageSend{FromAddress: addrOf(KA4), ToAddress: addrOf(KA6), Amount: x.W.Fee,
					VestingStartHeight: 1, VestingCliffHeight: 1, VestingEndHeight: 60}, x.W.Fee),
				x.tx("vesting send A5->A6 fixed terms", KA5, &fsm.MessageSend{FromAddress: addrOf(KA5), ToAddress: addrOf(KA6), Amount: 1,
					VestingStartHeight: 1, VestingCliffHeight: 1, VestingEndHeight: 60}, x.W.Fee),
			}}
		}},
		// a block whose ONLY transaction sends from an account to itself: nothing else touches the account first
		{Name: "send-self-only(A5->A5 3)", Build: func(x *Ctx) Built {
			return Built{Txs: []*TxMeta{x.send("self", KA5, KA5, 3)}}
		}},
	}
}

// Alphabet selects recipes: "full", "staking", or a comma separated list of indices into Recipes().
func Alphabet(name string) []Recipe {
	all := Recipes()
	switch name {
	case "full":
		return all
	case "edge":
		// the recipes that push amounts against the 2^64 edge in the near-max world
		return Alphabet("empty|send-edges(A4->A6 all+1; A5->A4 0; A7->A4 all)|cert:reward-split(A4 34,V1 33,V3 32)|dao-transfer-mint(7 to A6)|subsidy(A4->pool1 fee; A5->pool2 1; A6->pool1 0)|cert:double-sign(V1,V2)")
	case "staking":
		var out []Recipe
		for _, r := range all {
			if r.Staking {
				out = append(out, r)
			}
		}
		return out
	}
	var out []Recipe
	for _, n := range splitNames(name) {
		found := false
		for _, r := range all {
			if r.Name == n {
				out = append(out, r)
				found = true
			}
		}
		if !found {
			panic("chainops: unknown recipe " + n)
		}
	}
	return out
}

func splitNames(s string) []string {
	var out []string
	cur := ""
	for i := 0; i < len(s); i++ {
		if s[i] == '|' {
			out = append(out, cur)
			cur = ""
			continue
		}
		cur += string(s[i])
	}
	if cur != "" {
		out = append(out, cur)
	}
	return out
}
