package chainops

import (
	"fmt"
	"strings"

	"verifharness/mc"
)

// Search is one replay-BFS: a world, an alphabet and a depth bound.
type Search struct {
	World string
	Alpha string
	Depth int
}

func Assumptions(prop string) []string {
	a := []string{
		"blocks are applied on the direct path (env.Chain.Step = what controller.CommitCertificate does: proposer ApplyBlock on a copy with failing transactions dropped, replica ApplyBlock, IndexQC, IndexBlock, Commit, fsm.New); mempool, p2p and bft are not in the loop",
		"certificates are really signed by the committee keys; the harness chooses reward recipients, double signers, order instructions and which members sign, and only builds results that pass CertificateResult.CheckBasic, are signed by more than 2/3 of the voting power and never repeat a (double signer, height) pair",
		"one own-root chain (chain id 1 = root chain id); nested-chain certificate-results transactions and DEX batch settlement are not driven (DEX and order messages are, at message level)",
		"governance proposals are approved by configuration (AcceptAllProposals, the node default)",
		"each world runs alone in its worker process; transaction timestamps are fixed by the harness (fsm.NewTransaction would stamp wall-clock time)",
		"the protobuf codec is trusted to decode the raw state scan",
	}
	if prop == "C04" {
		a = append(a, "the reference ledger (chainops/ref.go) is correct: mint schedule, DAO cut, subsidized committees, slash arithmetic incl. the per-block per-committee cap, reward split with early-withdrawal penalty and compounding class")
	}
	return a
}

// RunPlan executes the searches in order until the soft deadline and writes the evidence.
func RunPlan(r *mc.Run, prop string, plan []Search) {
	pool := NewWorkerPool(0)
	var rows []map[string]any
	union := map[string]map[string]bool{} // world -> distinct state keys over all searches
	var transitions int64
	var notContinued int64
	deepest := map[string]int{}
	for _, s := range plan {
		if r.Expired() {
			rows = append(rows, map[string]any{"world": s.World, "alphabet": s.Alpha, "depth_bound": s.Depth, "skipped": "deadline"})
			continue
		}
		alpha := Alphabet(s.Alpha)
		job := Job{Prop: prop, World: s.World, Alpha: s.Alpha}
		if union[s.World] == nil {
			union[s.World] = map[string]bool{}
		}
		u := union[s.World]
		var infoSamples []string
		st := mc.ReplayBFS(mc.BFSConfig{
			Tag: job.Tag(), NumOps: len(alpha), MaxDepth: s.Depth, OnViol: r.OnViol, Stop: r.Expired,
			// every path runs in a worker process (one chain per process); the pool outlives the BFS levels
			Workers: pool.N, Exec: func(path []int) mc.ExecResult { return pool.Exec(job.Tag(), path) },
			// a recipe that needs a certificate no honest committee would sign (separate signature class) is
			// explored as the last or second-to-last block of a path only, so that its class does not
			// spread over the rest of the search
			OpsFor: func(path []int, _ string) []int {
				for i, o := range path {
					if RecipeClass(alpha[o].Name) != "" && i < len(path)-1 {
						return nil
					}
				}
				ops := make([]int, len(alpha))
				for i := range ops {
					ops[i] = i
				}
				return ops
			},
			OnState: func(path []int, res *mc.ExecResult) {
				u[res.Key] = true
				if len(path) == s.Depth && len(infoSamples) < 2 && strings.Contains(res.Info, "slash ") {
					infoSamples = append(infoSamples, fmt.Sprintf("%v => %s", names(alpha, path), res.Info))
				}
			},
		})
		transitions += st.Transitions
		notContinued += st.Disabled
		if !st.Complete {
			r.Exhaustive = false
		}
		if st.DepthDone > deepest[s.World+"/"+s.Alpha] {
			deepest[s.World+"/"+s.Alpha] = st.DepthDone
		}
		rows = append(rows, map[string]any{"world": s.World, "alphabet": s.Alpha, "alphabet_size": len(alpha), "depth_bound": s.Depth,
			"depth_completed": st.DepthDone, "states": st.States, "transitions": st.Transitions, "new_states_per_depth": st.Frontier,
			"revisits": st.Revisits, "paths_ending_in_rejected_or_halted_block": st.Disabled, "complete": st.Complete})
		for _, p := range st.SamplePaths {
			r.AddSample(map[string]any{"world": s.World, "blocks": names(alpha, p)})
		}
		for _, x := range infoSamples {
			r.AddSample(map[string]any{"world": s.World, "ledger": x})
		}
		fmt.Printf("%s world=%s alphabet=%s(%d) depth=%d/%d states=%d transitions=%d new-per-depth=%v rejected/halted=%d complete=%v\n",
			prop, s.World, s.Alpha, len(alpha), st.DepthDone, s.Depth, st.States, st.Transitions, st.Frontier, st.Disabled, st.Complete)
	}
	states := 0
	perWorld := map[string]int{}
	for w, u := range union {
		states += len(u)
		perWorld[w] = len(u)
	}
	if states == 0 {
		states = 1
	}
	var rn []string
	for _, rc := range Recipes() {
		rn = append(rn, rc.Name)
	}
	cov := map[string]any{
		"states": states, "transitions": transitions, "traces_validated_against_impl": int(transitions),
		"explanation":               "a state is a distinct (full raw state, height, double-signer index) reached by some recipe sequence; a transition is one execution of a whole path on a fresh real store+FSM followed by the oracle on its last block; searches over the same world share their shallow levels, distinct states are counted once per world",
		"distinct_states_per_world": perWorld,
		"searches":                  rows,
		"paths_not_continued":       notContinued,
		"paths_not_continued_means": "the last block of the path could not be applied (reported as a wedge by C12, only counted by C04), the recorded total passed 2^64 (C04, reported), or the harness could not certify a block because the signing validators hold no 2/3 majority / the committee is empty (no violation)",
		"depth_completed":           deepest,
		"recipes":                   rn,
		"oracle":                    oracleText(prop),
		"not_covered":               notCovered,
	}
	if pool.Crashes > 0 {
		cov["worker_crashes"] = pool.Crashes
	}
	pool.Close()
	r.Finish(cov)
}

func names(alpha []Recipe, path []int) []string {
	var out []string
	for _, i := range path {
		out = append(out, alpha[i].Name)
	}
	return out
}

// DoReplay re-runs a stored violating path five times (same input must fail every time).
func DoReplay(r *mc.Run) {
	var rp Replay
	if err := r.LoadReplay(&rp); err != nil {
		fmt.Println("cannot load replay:", err)
		r.Finish(map[string]any{"states": 1, "transitions": 1, "traces_validated_against_impl": 0})
	}
	alpha := Alphabet(rp.Alphabet)
	var path []int
	for _, n := range rp.Ops {
		for i, a := range alpha {
			if a.Name == n {
				path = append(path, i)
				break
			}
		}
	}
	for i := 0; i < 5; i++ {
		res := Exec(Job{Prop: rp.Prop, World: rp.World, Alpha: rp.Alphabet}.Tag(), path)
		for _, v := range res.Viols {
			r.OnViol(v)
		}
		if i == 0 {
			if rep, ok := lastTrace(res); ok {
				for _, l := range rep {
					fmt.Println("  " + l)
				}
			}
		}
	}
	r.Finish(map[string]any{"states": 1, "transitions": len(path), "traces_validated_against_impl": 1})
}

func lastTrace(res mc.ExecResult) ([]string, bool) {
	for _, v := range res.Viols {
		if rp, ok := v.Replay.(Replay); ok {
			return rp.Trace, true
		}
	}
	return nil, false
}

func oracleText(prop string) []string {
	if prop == "C04" {
		return []string{
			"after the last block of every path, on a raw scan of the whole state: sum(accounts)+sum(pools)+sum(validator stakes) in big-int arithmetic == Supply.Total; no single amount > Supply.Total",
			"Supply.Total(after) - Supply.Total(before) == mint(height) + included DAO transfers with mint=true + faucet top-ups - slash burns - undistributed reward remainder, predicted by the reference ledger (chainops/ref.go) from the pre-state, the node's mint schedule, the previous certificate built by the harness and the transactions that were included",
			"the delta oracle is EXACT for every recipe of the alphabet; no recipe falls back to the weaker bound (mint - burns <= delta <= mint)",
		}
	}
	return []string{
		"after the last block of every path and after every block of the forward probe, on a raw scan: Supply.Staked, DelegatedOnly, CommitteeStaked[], CommitteeDelegatedOnly[] == sums over the validator records (no duplicate or zero-sum mismatch per committee id)",
		"every key under the unstaking prefix (5) names an existing validator whose UnstakingHeight is exactly the key's height, and every validator with UnstakingHeight != 0 has exactly that key; same for the paused prefix (6) and MaxPausedHeight; legacy committee/delegate index keys are not part of the oracle",
		"no wedge: from the state after every path, empty blocks are applied for every height up to 1 + the largest pending deferred height (unstaking markers, paused markers + the unstaking they start, end of the running non-sign window + the unstaking a slash may start), re-evaluated after every block, at most 8 blocks; a block the FSM refuses is a violation",
	}
}

var notCovered = []string{
	"nested-chain certificate results submitted as transactions (MessageCertificateResults), committee retirement, checkpoints",
	"DEX batch settlement (HandleDexBatch / remote batches / liveness fallback): only the three DEX messages themselves are applied",
	"order reset instructions; orders on other books than the own chain's",
	"RLP / nonce-based transactions, plugins, non-BLS signers (authorization and replay are C05/C06)",
	"committee size caps, more than one validator leaving the committee at once such that the committee becomes empty (the path ends there)",
	"the controller level: mempool, proposal validation, bft evidence collection (the harness builds certificates directly)",
	"governance parameters other than minimum stakes, max committees and the DAO percentage",
}
