package chainops

import (
	"fmt"
	"math/big"
	"sort"

	"github.com/canopy-network/canopy/fsm"
)

// Finding is one oracle failure: Kind is the canonical class, Detail the concrete numbers.
type Finding struct {
	Kind   string
	Detail string
}

// CheckSupplyState is the per-state part of C04: the recorded total equals the big-int sum of
// every account, pool and stake; no single amount exceeds the total.
func CheckSupplyState(s *Snap) []Finding {
	var out []Finding
	sum := new(big.Int)
	add := func(x uint64) { sum.Add(sum, new(big.Int).SetUint64(x)) }
	total := s.Supply.Total
	var over []string
	for a, x := range s.Accounts {
		add(x)
		if x > total {
			over = append(over, fmt.Sprintf("account %s=%d", keyName([]byte(a)), x))
		}
	}
	for id, x := range s.Pools {
		add(x)
		if x > total {
			over = append(over, fmt.Sprintf("pool %d=%d", id, x))
		}
	}
	for a, v := range s.Vals {
		add(v.StakedAmount)
		if v.StakedAmount > total {
			over = append(over, fmt.Sprintf("stake %s=%d", keyName([]byte(a)), v.StakedAmount))
		}
	}
	if sum.Cmp(new(big.Int).SetUint64(total)) != 0 {
		kind := "sum-mismatch"
		if sum.BitLen() > 64 {
			kind = "sum-exceeds-2^64"
		}
		out = append(out, Finding{kind, fmt.Sprintf("accounts+pools+stakes=%s but Supply.Total=%d (difference %s)", sum, total, new(big.Int).Sub(sum, new(big.Int).SetUint64(total)))})
	}
	if len(over) > 0 {
		sort.Strings(over)
		out = append(out, Finding{"amount-exceeds-total", fmt.Sprintf("%v exceed Supply.Total=%d", over, total)})
	}
	return out
}

// CheckStakingState is the per-state part of C12: tallies equal sums over validator records and
// the unstaking / paused markers correspond one-to-one to validators with exactly that height.
func CheckStakingState(s *Snap) []Finding {
	var out []Finding
	var staked, delegated uint64
	comm, deleg := map[uint64]uint64{}, map[uint64]uint64{}
	for _, k := range s.ValKeys {
		v := s.Vals[k]
		staked += v.StakedAmount
		if v.Delegate {
			delegated += v.StakedAmount
		}
		for _, c := range v.Committees {
			comm[c] += v.StakedAmount
			if v.Delegate {
				deleg[c] += v.StakedAmount
			}
		}
	}
	if s.Supply.Staked != staked {
		out = append(out, Finding{"tally:staked", fmt.Sprintf("Supply.Staked=%d, sum of validator stakes=%d", s.Supply.Staked, staked)})
	}
	if s.Supply.DelegatedOnly != delegated {
		out = append(out, Finding{"tally:delegated-only", fmt.Sprintf("Supply.DelegatedOnly=%d, sum of delegate stakes=%d", s.Supply.DelegatedOnly, delegated)})
	}
	cmpList := func(kind string, list []*fsm.Pool, want map[uint64]uint64) {
		got := map[uint64]uint64{}
		for _, p := range list {
			if _, dup := got[p.Id]; dup {
				out = append(out, Finding{kind + ":duplicate-entry", fmt.Sprintf("committee %d listed twice in %s", p.Id, poolList(list))})
			}
			got[p.Id] += p.Amount
		}
		ids := map[uint64]bool{}
		for id := range got {
			ids[id] = true
		}
		for id := range want {
			ids[id] = true
		}
		var bad []string
		for id := range ids {
			if got[id] != want[id] {
				bad = append(bad, fmt.Sprintf("committee %d: recorded %d, validators sum to %d", id, got[id], want[id]))
			}
		}
		if len(bad) > 0 {
			sort.Strings(bad)
			out = append(out, Finding{kind, fmt.Sprint(bad)})
		}
	}
	cmpList("tally:committee-staked", s.Supply.CommitteeStaked, comm)
	cmpList("tally:committee-delegated-only", s.Supply.CommitteeDelegatedOnly, deleg)

	markers := func(kind string, ms []Marker, field func(v *fsm.Validator) uint64) {
		seen := map[string]uint64{}
		for _, m := range ms {
			v := s.Vals[m.Addr]
			switch {
			case v == nil:
				out = append(out, Finding{kind + "-marker:no-validator", fmt.Sprintf("%s marker (height %d, %s) but no such validator", kind, m.Height, keyName([]byte(m.Addr)))})
			case field(v) != m.Height:
				out = append(out, Finding{kind + "-marker:height-differs", fmt.Sprintf("%s marker (height %d, %s) but the validator record says %d", kind, m.Height, keyName([]byte(m.Addr)), field(v))})
			}
			seen[m.Addr]++
		}
		for _, k := range s.ValKeys {
			if h := field(s.Vals[k]); h != 0 {
				found := false
				for _, m := range ms {
					if m.Addr == k && m.Height == h {
						found = true
					}
				}
				if !found {
					out = append(out, Finding{kind + "-validator:no-marker", fmt.Sprintf("validator %s has %s height %d but there is no marker at that height", keyName([]byte(k)), kind, h)})
				}
			}
		}
	}
	markers("unstaking", s.Unstaking, func(v *fsm.Validator) uint64 { return v.UnstakingHeight })
	markers("paused", s.Paused, func(v *fsm.Validator) uint64 { return v.MaxPausedHeight })
	return out
}

// PendingHorizon is the largest height at which something deferred is still due, seen from
// this state: unstaking and paused markers, a validator record's own deferred heights, the
// unstaking a max-pause will start, and the end of the running non-sign window.
func PendingHorizon(s *Snap) uint64 {
	h := s.Height - 1 // nothing pending: the probe is just the next block
	up := func(x uint64) {
		if x > h {
			h = x
		}
	}
	ub := s.Params.Validator.UnstakingBlocks
	if s.Params.Validator.DelegateUnstakingBlocks > ub {
		ub = s.Params.Validator.DelegateUnstakingBlocks
	}
	for _, m := range s.Unstaking {
		up(m.Height)
	}
	for _, m := range s.Paused {
		up(m.Height + ub)
	}
	for _, v := range s.Vals {
		up(v.UnstakingHeight)
		if v.MaxPausedHeight != 0 {
			up(v.MaxPausedHeight + ub)
		}
	}
	if len(s.NonSigners) > 0 {
		w := s.Params.Validator.NonSignWindow
		if w != 0 {
			end := (s.Height/w + 1) * w // next window end strictly after the current height
			if s.Height%w == 0 {
				end = s.Height
			}
			// a slash at the window end may start an unstaking
			up(end + ub)
		}
	}
	return h
}
