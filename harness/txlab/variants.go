package txlab

import (
	"bytes"
	"fmt"
	"math/big"
	"sort"

	"github.com/canopy-network/canopy/lib/crypto"
	ethTypes "github.com/ethereum/go-ethereum/core/types"
)

// Xform is one wire-level transformation of an encoded lib.Transaction. Apply edits the
// tree in place and reports whether it was applicable.
type Xform struct {
	Class   string // canonical class of the transformation (part of a finding signature)
	Desc    string
	Control bool // a control: the result must be REJECTED for a reason other than replay protection
	Apply   func(m *Msg) bool
}

// Variant is a byte string produced by one or two transformations.
type Variant struct {
	Classes []string
	Desc    string
	Control bool
	Raw     []byte
}

func (v Variant) ClassKey() string {
	c := append([]string{}, v.Classes...)
	sort.Strings(c)
	s := c[0]
	for _, x := range c[1:] {
		s += "+" + x
	}
	return s
}

func insertInOrder(m *Msg, f *Field) {
	for i, x := range m.Fields {
		if x.Num > f.Num {
			m.Fields = append(m.Fields[:i], append([]*Field{f}, m.Fields[i:]...)...)
			return
		}
	}
	m.Fields = append(m.Fields, f)
}

func permutations(n int) [][]int {
	var out [][]int
	var rec func(cur []int, used []bool)
	rec = func(cur []int, used []bool) {
		if len(cur) == n {
			out = append(out, append([]int{}, cur...))
			return
		}
		for i := 0; i < n; i++ {
			if !used[i] {
				used[i] = true
				rec(append(cur, i), used)
				used[i] = false
			}
		}
	}
	rec(nil, make([]bool, n))
	return out
}

func subsets(items []uint64, maxSize int) [][]uint64 {
	var out [][]uint64
	var rec func(start int, cur []uint64)
	rec = func(start int, cur []uint64) {
		if len(cur) >= 2 {
			out = append(out, append([]uint64{}, cur...))
		}
		if len(cur) == maxSize {
			return
		}
		for i := start; i < len(items); i++ {
			rec(i+1, append(cur, items[i]))
		}
	}
	rec(0, nil)
	return out
}

// permute rearranges the (first) occurrences of the chosen field numbers among the
// positions they occupy.
func permute(m *Msg, chosen []uint64, perm []int) bool {
	pos := make([]int, len(chosen))
	for i, n := range chosen {
		if pos[i] = m.Index(n); pos[i] < 0 {
			return false
		}
	}
	sorted := append([]int{}, pos...)
	sort.Ints(sorted)
	orig := make([]*Field, len(sorted))
	for i, p := range sorted {
		orig[i] = m.Fields[p]
	}
	for i, p := range sorted {
		m.Fields[p] = orig[perm[i]]
	}
	return true
}

// XformOpts selects the size of the alphabet.
type XformOpts struct {
	Thorough bool
	Kind     string      // signing kind of the base transaction (for key / signature forms)
	ExtraSig [][2][]byte // additional (public key, signature) pairs over the same content (e.g. multisig with one more cosigner)
}

// Xforms is the fixed transformation alphabet, instantiated for a concrete base encoding.
func Xforms(base *Msg, o XformOpts) []Xform {
	var xs []Xform
	add := func(class, desc string, control bool, f func(m *Msg) bool) {
		xs = append(xs, Xform{Class: class, Desc: desc, Control: control, Apply: f})
	}
	name := func(n uint64) string { return TxFieldName[n] }

	// 1. explicit default (zero) encoding of every absent scalar field
	for _, n := range append(append([]uint64{}, TxVarintFields...), TxStringFields...) {
		n := n
		if base.Get(n) != nil {
			continue
		}
		wt := WTVarint
		for _, s := range TxStringFields {
			if s == n {
				wt = WTBytes
			}
		}
		add("explicit-zero-field", "explicit zero "+name(n)+" in field order", false, func(m *Msg) bool {
			if m.Get(n) != nil {
				return false
			}
			insertInOrder(m, &Field{Num: n, WT: wt})
			return true
		})
		add("explicit-zero-field", "explicit zero "+name(n)+" appended", false, func(m *Msg) bool {
			if m.Get(n) != nil {
				return false
			}
			m.Fields = append(m.Fields, &Field{Num: n, WT: wt})
			return true
		})
	}
	// 2. re-ordered top-level fields
	var present []uint64
	for _, f := range base.Fields {
		present = append(present, f.Num)
	}
	var chosenSets [][]uint64
	if o.Thorough {
		chosenSets = subsets(present, 4)
	} else {
		var four []uint64
		for _, n := range []uint64{2, 3, 4, 5} {
			if base.Get(n) != nil {
				four = append(four, n)
			}
		}
		chosenSets = [][]uint64{four}
	}
	for _, set := range chosenSets {
		set := set
		for _, perm := range permutations(len(set)) {
			perm := perm
			id := true
			for i, p := range perm {
				if i != p {
					id = false
				}
			}
			if id {
				continue
			}
			// in thorough mode only full-cycle-free duplicates matter; byte-level de-duplication removes repeats
			add("reorder-fields", fmt.Sprintf("fields %v rearranged by %v", set, perm), false, func(m *Msg) bool { return permute(m, set, perm) })
		}
	}
	add("reorder-fields", "all top-level fields reversed", false, func(m *Msg) bool {
		for i, j := 0, len(m.Fields)-1; i < j; i, j = i+1, j-1 {
			m.Fields[i], m.Fields[j] = m.Fields[j], m.Fields[i]
		}
		return len(m.Fields) > 1
	})
	for _, path := range [][]uint64{{3}, {2}} {
		path := path
		add("reorder-nested-fields", fmt.Sprintf("fields inside %s swapped", name(path[0])), false, func(m *Msg) bool {
			s := m.At(path)
			if s == nil || len(s.Fields) < 2 {
				return false
			}
			s.Fields[0], s.Fields[1] = s.Fields[1], s.Fields[0]
			return true
		})
	}
	// 3. non-minimal varints: values, lengths, tags (top level and nested)
	for _, f := range base.Fields {
		n := f.Num
		if f.WT == WTVarint {
			for _, pad := range []int{1, 9} {
				pad := pad
				add("nonminimal-varint-value", fmt.Sprintf("%s value with %d redundant continuation byte(s)", name(n), pad), false, func(m *Msg) bool {
					x := m.Get(n)
					if x == nil || minimalLen(x.Varint)+pad > 10 {
						return false
					}
					x.ValPad = pad
					return true
				})
			}
		}
		if f.WT == WTBytes {
			add("nonminimal-varint-length", name(n)+" length with a redundant continuation byte", false, func(m *Msg) bool {
				x := m.Get(n)
				if x == nil {
					return false
				}
				x.LenPad = 1
				return true
			})
		}
		add("nonminimal-varint-tag", name(n)+" tag with a redundant continuation byte", false, func(m *Msg) bool {
			x := m.Get(n)
			if x == nil {
				return false
			}
			x.TagPad = 1
			return true
		})
	}
	for _, path := range [][]uint64{{3}, {2}} {
		for _, sub := range []uint64{1, 2} {
			path, sub := path, sub
			add("nonminimal-varint-length-nested", fmt.Sprintf("%s.%d length with a redundant continuation byte", name(path[0]), sub), false, func(m *Msg) bool {
				s := m.At(path)
				if s == nil || s.Get(sub) == nil {
					return false
				}
				s.Get(sub).LenPad = 1
				return true
			})
			add("nonminimal-varint-tag-nested", fmt.Sprintf("%s.%d tag with a redundant continuation byte", name(path[0]), sub), false, func(m *Msg) bool {
				s := m.At(path)
				if s == nil || s.Get(sub) == nil {
					return false
				}
				s.Get(sub).TagPad = 1
				return true
			})
		}
	}
	// 4. a scalar field repeated (same value; and an overridden different earlier value)
	for _, f := range base.Fields {
		n := f.Num
		if f.Sub != nil {
			continue
		}
		add("repeat-scalar-field", name(n)+" repeated with the same value (adjacent)", false, func(m *Msg) bool {
			i := m.Index(n)
			if i < 0 {
				return false
			}
			c := m.Fields[i].Clone()
			m.Fields = append(m.Fields[:i+1], append([]*Field{c}, m.Fields[i+1:]...)...)
			return true
		})
		add("repeat-scalar-field", name(n)+" repeated with the same value (appended)", false, func(m *Msg) bool {
			i := m.Index(n)
			if i < 0 {
				return false
			}
			m.Fields = append(m.Fields, m.Fields[i].Clone())
			return true
		})
		add("repeat-scalar-field-last-wins", name(n)+" preceded by an occurrence with another value (the last one wins)", false, func(m *Msg) bool {
			i := m.Index(n)
			if i < 0 {
				return false
			}
			c := m.Fields[i].Clone()
			if c.WT == WTVarint {
				c.Varint += 7
			} else {
				c.Bytes = append(c.Bytes, 'z')
			}
			m.Fields = append(m.Fields[:i], append([]*Field{c}, m.Fields[i:]...)...)
			return true
		})
	}
	for _, sub := range []uint64{1, 2} {
		sub := sub
		add("repeat-scalar-field-nested", fmt.Sprintf("signature.%d repeated with the same value", sub), false, func(m *Msg) bool {
			s := m.At([]uint64{3})
			if s == nil || s.Get(sub) == nil {
				return false
			}
			s.Fields = append(s.Fields, s.Get(sub).Clone())
			return true
		})
	}
	// 5. an embedded message split into two occurrences that protobuf merges
	for _, n := range TxMsgFields {
		n := n
		for _, swapped := range []bool{false, true} {
			swapped := swapped
			add("split-embedded-message", fmt.Sprintf("%s split into two occurrences (second half first=%v)", name(n), swapped), false, func(m *Msg) bool {
				i := m.Index(n)
				if i < 0 || m.Fields[i].Sub == nil || len(m.Fields[i].Sub.Fields) < 2 {
					return false
				}
				a, b := m.Fields[i].Clone(), m.Fields[i].Clone()
				a.Sub.Fields, b.Sub.Fields = a.Sub.Fields[:1], b.Sub.Fields[1:]
				if swapped {
					a, b = b, a
				}
				m.Fields = append(m.Fields[:i], append([]*Field{a, b}, m.Fields[i+1:]...)...)
				return true
			})
		}
		add("split-embedded-message", name(n)+" followed by an empty second occurrence", false, func(m *Msg) bool {
			i := m.Index(n)
			if i < 0 {
				return false
			}
			m.Fields = append(m.Fields, &Field{Num: n, WT: WTBytes, Sub: &Msg{}})
			return true
		})
	}
	// 6. alternative public-key encodings that canopy maps to the same address
	if sigm := base.At([]uint64{3}); sigm != nil && sigm.Get(1) != nil {
		for _, alt := range AltPubKeys(sigm.Get(1).Bytes) {
			alt := alt
			add("pubkey-encoding:"+alt.Name, "public key re-encoded: "+alt.Name, false, func(m *Msg) bool {
				s := m.At([]uint64{3})
				if s == nil || s.Get(1) == nil {
					return false
				}
				s.Get(1).Bytes = alt.Bytes
				return true
			})
		}
		// 7. alternative signature forms
		if sigm.Get(2) != nil {
			for _, alt := range AltSignatures(o.Kind, sigm.Get(2).Bytes) {
				alt := alt
				add("signature-form:"+alt.Name, "signature re-encoded: "+alt.Name, alt.Control, func(m *Msg) bool {
					s := m.At([]uint64{3})
					if s == nil || s.Get(2) == nil {
						return false
					}
					s.Get(2).Bytes = alt.Bytes
					return true
				})
			}
		}
		for i, ps := range o.ExtraSig {
			ps := ps
			add("multisig-add-cosigner", fmt.Sprintf("same content, aggregate extended by a further member of the account (#%d)", i), false, func(m *Msg) bool {
				s := m.At([]uint64{3})
				if s == nil || s.Get(1) == nil || s.Get(2) == nil {
					return false
				}
				s.Get(1).Bytes, s.Get(2).Bytes = ps[0], ps[1]
				return true
			})
		}
	}
	// 8. controls: unknown fields, wrong wire type
	add("control-unknown-field", "unknown varint field 15 appended", true, func(m *Msg) bool {
		m.Fields = append(m.Fields, &Field{Num: 15, WT: WTVarint, Varint: 1})
		return true
	})
	add("control-unknown-field", "unknown bytes field 11 appended", true, func(m *Msg) bool {
		m.Fields = append(m.Fields, &Field{Num: 11, WT: WTBytes, Bytes: []byte("x")})
		return true
	})
	add("control-unknown-field", "unknown field inside signature", true, func(m *Msg) bool {
		s := m.At([]uint64{3})
		if s == nil {
			return false
		}
		s.Fields = append(s.Fields, &Field{Num: 3, WT: WTVarint, Varint: 1})
		return true
	})
	add("control-wrong-wire-type", "created_height as fixed64", true, func(m *Msg) bool {
		x := m.Get(4)
		if x == nil {
			return false
		}
		v := x.Varint
		x.WT, x.Fixed = WTFixed64, []byte{byte(v), byte(v >> 8), byte(v >> 16), byte(v >> 24), byte(v >> 32), byte(v >> 40), byte(v >> 48), byte(v >> 56)}
		return true
	})
	// 9. controls: a change inside Any.value (the signature covers these bytes verbatim)
	anyValue := func(class, desc string, f func(inner *Msg) bool) {
		add(class, desc, true, func(m *Msg) bool {
			a := m.At([]uint64{2})
			if a == nil || a.Get(2) == nil {
				return false
			}
			inner, err := Parse(a.Get(2).Bytes, nil, "")
			if err != nil || !f(inner) {
				return false
			}
			a.Get(2).Bytes = inner.Encode()
			return true
		})
	}
	anyValue("control-any-value-reencoded", "message re-encoded with an explicit zero field 15... (unknown to the message)", func(in *Msg) bool {
		in.Fields = append(in.Fields, &Field{Num: 15, WT: WTVarint})
		return true
	})
	anyValue("control-any-value-reencoded", "message re-encoded with a non-minimal tag on its first field", func(in *Msg) bool {
		if len(in.Fields) == 0 {
			return false
		}
		in.Fields[0].TagPad = 1
		return true
	})
	anyValue("control-any-value-reencoded", "message fields reversed", func(in *Msg) bool {
		if len(in.Fields) < 2 {
			return false
		}
		for i, j := 0, len(in.Fields)-1; i < j; i, j = i+1, j-1 {
			in.Fields[i], in.Fields[j] = in.Fields[j], in.Fields[i]
		}
		return true
	})
	anyValue("control-any-value-changed", "first bytes field of the message altered", func(in *Msg) bool {
		for _, f := range in.Fields {
			if f.WT == WTBytes && len(f.Bytes) > 0 {
				f.Bytes[len(f.Bytes)-1] ^= 1
				return true
			}
		}
		return false
	})
	return xs
}

// Representatives keeps the first transformation of every class.
func Representatives(xs []Xform) []Xform {
	seen := map[string]bool{}
	var out []Xform
	for _, x := range xs {
		if !seen[x.Class] {
			seen[x.Class] = true
			out = append(out, x)
		}
	}
	return out
}

// safeApply treats a transformation that cannot cope with the tree an earlier one produced as not applicable.
func safeApply(x Xform, m *Msg) (ok bool) {
	defer func() {
		if recover() != nil {
			ok = false
		}
	}()
	return x.Apply(m)
}

// Generate applies every transformation (depth 1) and every ordered pair first x second
// (depth 2) to the base encoding; results equal to the base or to an earlier result are dropped.
func Generate(baseRaw []byte, first, second []Xform) (d1, d2 []Variant, err error) {
	base, err := Parse(baseRaw, TxSchema, "")
	if err != nil {
		return nil, nil, err
	}
	if !bytes.Equal(base.Encode(), baseRaw) {
		return nil, nil, fmt.Errorf("walker does not round-trip the base encoding")
	}
	seen := map[string]bool{string(baseRaw): true}
	for _, x := range first {
		t := base.Clone()
		if !safeApply(x, t) {
			continue
		}
		raw := t.Encode()
		if seen[string(raw)] {
			continue
		}
		seen[string(raw)] = true
		d1 = append(d1, Variant{Classes: []string{x.Class}, Desc: x.Desc, Control: x.Control, Raw: raw})
	}
	for i, x := range first {
		for j, y := range second {
			if x.Class == y.Class && x.Desc == y.Desc {
				continue
			}
			_ = i
			_ = j
			t := base.Clone()
			if !safeApply(x, t) {
				break
			}
			// re-parse so that the second transformation sees the tree the first one produced
			t2, e := Parse(t.Encode(), TxSchema, "")
			if e != nil {
				// the first transformation made the nested structure unparsable for the walker (e.g. split
				// messages are fine, wrong wire types are not): apply the second on the in-memory tree
				t2 = t
			} else {
				copyPads(t, t2)
			}
			if !safeApply(y, t2) {
				continue
			}
			raw := t2.Encode()
			if seen[string(raw)] {
				continue
			}
			seen[string(raw)] = true
			d2 = append(d2, Variant{Classes: []string{x.Class, y.Class}, Desc: x.Desc + " ; then " + y.Desc, Control: x.Control || y.Control, Raw: raw})
		}
	}
	return
}

// copyPads is a no-op placeholder: Parse already recovers paddings from the bytes.
func copyPads(_, _ *Msg) {}

// NamedBytes is an alternative encoding.
type NamedBytes struct {
	Name    string
	Bytes   []byte
	Control bool
}

var (
	blsP, _     = new(big.Int).SetString("1a0111ea397fe69a4b1ba7b6434bacd764774b84f38512bf6730d2a0f6b0f6241eabfffeb153ffffb9feffffffffaaab", 16)
	secpN, _    = new(big.Int).SetString("fffffffffffffffffffffffffffffffebaaedce6af48a03bbfd25e8cd0364141", 16)
	ed25519L, _ = new(big.Int).SetString("1000000000000000000000000000000014def9dea2f79cd65812631a5cf5d3ed", 16)
)

// AltPubKeys proposes other byte strings for a public key and keeps those that canopy's
// own NewPublicKeyFromBytes maps to the SAME address (this is the definition of the
// transformation class, not an oracle).
func AltPubKeys(pub []byte) []NamedBytes {
	orig, err := crypto.NewPublicKeyFromBytes(pub)
	if err != nil {
		return nil
	}
	var cands []NamedBytes
	switch len(pub) {
	case crypto.ETHSECP256K1PubKeySize:
		cands = append(cands, NamedBytes{Name: "eth-64-to-65-bytes", Bytes: append([]byte{4}, pub...)})
		cands = append(cands, NamedBytes{Name: "eth-64-to-65-bytes-hybrid-prefix", Bytes: append([]byte{6 + pub[63]&1}, pub...)})
	case crypto.ETHSECP256K1PubKeySize + 1:
		cands = append(cands, NamedBytes{Name: "eth-65-to-64-bytes", Bytes: pub[1:]})
	case crypto.BLS12381PubKeySize:
		x := new(big.Int).SetBytes(pub)
		flags := new(big.Int).Rsh(x, 381)
		x.And(x, new(big.Int).Sub(new(big.Int).Lsh(big.NewInt(1), 381), big.NewInt(1)))
		x.Add(x, blsP)
		if x.BitLen() <= 381 {
			x.Or(x, flags.Lsh(flags, 381))
			cands = append(cands, NamedBytes{Name: "bls-x-plus-p", Bytes: x.FillBytes(make([]byte, 48))})
		}
	case crypto.Ed25519PubKeySize, crypto.SECP256K1PubKeySize:
	default:
		// serialized MultiPublicKey: other protobuf encodings of the same key set / bitmap / threshold
		if m, e := Parse(pub, nil, ""); e == nil {
			mut := func(name string, f func(t *Msg) bool) {
				t := m.Clone()
				if f(t) {
					cands = append(cands, NamedBytes{Name: "multisig-key-" + name, Bytes: t.Encode()})
				}
			}
			mut("nonminimal-threshold", func(t *Msg) bool {
				if t.Get(3) == nil {
					return false
				}
				t.Get(3).ValPad = 1
				return true
			})
			mut("nonminimal-bitmap-length", func(t *Msg) bool {
				if t.Get(2) == nil {
					return false
				}
				t.Get(2).LenPad = 1
				return true
			})
			mut("bitmap-first", func(t *Msg) bool {
				i := t.Index(2)
				if i <= 0 {
					return false
				}
				f := t.Fields[i]
				t.Fields = append([]*Field{f}, append(t.Fields[:i], t.Fields[i+1:]...)...)
				return true
			})
			mut("bitmap-repeated", func(t *Msg) bool {
				if t.Get(2) == nil {
					return false
				}
				t.Fields = append(t.Fields, t.Get(2).Clone())
				return true
			})
			mut("unknown-field", func(t *Msg) bool {
				t.Fields = append(t.Fields, &Field{Num: 9, WT: WTVarint, Varint: 1})
				return true
			})
		}
	}
	var out []NamedBytes
	for _, c := range cands {
		if bytes.Equal(c.Bytes, pub) {
			continue
		}
		k, e := crypto.NewPublicKeyFromBytes(c.Bytes)
		if e != nil || !bytes.Equal(k.Address().Bytes(), orig.Address().Bytes()) {
			continue
		}
		out = append(out, c)
	}
	return out
}

// AltSignatures proposes other byte strings for a signature of the same content.
func AltSignatures(kind string, sig []byte) []NamedBytes {
	var out []NamedBytes
	switch kind {
	case KSECP, KETH:
		if len(sig) != 64 {
			return nil
		}
		r, s := sig[:32], new(big.Int).SetBytes(sig[32:])
		flipped := append(append([]byte{}, r...), new(big.Int).Sub(secpN, s).FillBytes(make([]byte, 32))...)
		out = append(out,
			NamedBytes{Name: "ecdsa-65-bytes-v0", Bytes: append(append([]byte{}, sig...), 0)},
			NamedBytes{Name: "ecdsa-65-bytes-v1", Bytes: append(append([]byte{}, sig...), 1)},
			NamedBytes{Name: "ecdsa-s-negated", Bytes: flipped},
			NamedBytes{Name: "ecdsa-s-negated-65-bytes", Bytes: append(append([]byte{}, flipped...), 1)},
		)
	case KED:
		if len(sig) != 64 {
			return nil
		}
		le := append([]byte{}, sig[32:]...)
		for i, j := 0, len(le)-1; i < j; i, j = i+1, j-1 {
			le[i], le[j] = le[j], le[i]
		}
		s := new(big.Int).SetBytes(le)
		s.Add(s, ed25519L)
		if s.BitLen() <= 256 {
			be := s.FillBytes(make([]byte, 32))
			for i, j := 0, len(be)-1; i < j; i, j = i+1, j-1 {
				be[i], be[j] = be[j], be[i]
			}
			out = append(out, NamedBytes{Name: "ed25519-s-plus-l", Bytes: append(append([]byte{}, sig[:32]...), be...)})
		}
	case KRLP, KRLPV2:
		// the signature field holds the raw Ethereum transaction: negate s and flip the parity of v
		var tx ethTypes.Transaction
		if err := tx.UnmarshalBinary(sig); err != nil || tx.Type() != ethTypes.LegacyTxType {
			return nil
		}
		v, r, s := tx.RawSignatureValues()
		v2 := new(big.Int).Set(v)
		if new(big.Int).Mod(new(big.Int).Sub(v, big.NewInt(35)), big.NewInt(2)).Sign() == 0 {
			v2.Add(v2, big.NewInt(1))
		} else {
			v2.Sub(v2, big.NewInt(1))
		}
		alt := ethTypes.NewTx(&ethTypes.LegacyTx{Nonce: tx.Nonce(), GasPrice: tx.GasPrice(), Gas: tx.Gas(), To: tx.To(), Value: tx.Value(), Data: tx.Data(),
			V: v2, R: r, S: new(big.Int).Sub(secpN, s)})
		if raw, err := alt.MarshalBinary(); err == nil {
			out = append(out, NamedBytes{Name: "eth-tx-s-negated-v-flipped", Bytes: raw})
		}
	}
	return out
}
