// Package txlab is the shared transaction laboratory of the C05 (authorization) and C06
// (replay) harnesses: a protobuf wire-format walker / re-encoder that is independent of the
// product's codec, signer abstractions for every supported key kind (incl. BLS account
// multisig and Ethereum RLP wrappers), deterministic builders for all 16 message types, a
// principal-rich genesis, and a probe that applies one block on a COPY of the chain's FSM
// and returns the full raw state for diffing.
package txlab

import (
	"errors"
	"fmt"
)

// Wire types.
const (
	WTVarint  = 0
	WTFixed64 = 1
	WTBytes   = 2
	WTFixed32 = 5
)

// Field is one occurrence of a field on the wire. Pad counts are extra (redundant)
// continuation bytes added to the varint that encodes the tag / the value / the length.
type Field struct {
	Num    uint64
	WT     int
	Varint uint64 // WTVarint
	Fixed  []byte // WTFixed32 / WTFixed64
	Bytes  []byte // WTBytes payload (ignored on encode when Sub != nil)
	Sub    *Msg   // parsed embedded message (optional)
	TagPad int
	ValPad int
	LenPad int
}

// Msg is an ordered list of field occurrences.
type Msg struct{ Fields []*Field }

func appendVarint(b []byte, v uint64, pad int) []byte {
	for v >= 0x80 {
		b = append(b, byte(v)|0x80)
		v >>= 7
	}
	if pad <= 0 {
		return append(b, byte(v))
	}
	b = append(b, byte(v)|0x80)
	for i := 0; i < pad-1; i++ {
		b = append(b, 0x80)
	}
	return append(b, 0x00)
}

func readVarint(b []byte) (v uint64, n int, err error) {
	var shift uint
	for i := 0; i < len(b) && i < 10; i++ {
		v |= uint64(b[i]&0x7f) << shift
		if b[i] < 0x80 {
			return v, i + 1, nil
		}
		shift += 7
	}
	return 0, 0, errors.New("bad varint")
}

// minimalLen is the length of the minimal varint encoding of v.
func minimalLen(v uint64) int {
	n := 1
	for v >= 0x80 {
		v >>= 7
		n++
	}
	return n
}

// Parse walks one message. subs lists the field numbers to be parsed recursively as
// embedded messages, keyed by path ("" = top level, "3" = inside field 3, "2.2" ...).
func Parse(b []byte, schema map[string][]uint64, path string) (*Msg, error) {
	m := &Msg{}
	for len(b) > 0 {
		tag, n, err := readVarint(b)
		if err != nil {
			return nil, err
		}
		f := &Field{Num: tag >> 3, WT: int(tag & 7), TagPad: n - minimalLen(tag)}
		b = b[n:]
		switch f.WT {
		case WTVarint:
			v, n, err := readVarint(b)
			if err != nil {
				return nil, err
			}
			f.Varint, f.ValPad = v, n-minimalLen(v)
			b = b[n:]
		case WTFixed64:
			if len(b) < 8 {
				return nil, errors.New("short fixed64")
			}
			f.Fixed, b = append([]byte{}, b[:8]...), b[8:]
		case WTFixed32:
			if len(b) < 4 {
				return nil, errors.New("short fixed32")
			}
			f.Fixed, b = append([]byte{}, b[:4]...), b[4:]
		case WTBytes:
			l, n, err := readVarint(b)
			if err != nil {
				return nil, err
			}
			f.LenPad = n - minimalLen(l)
			b = b[n:]
			if uint64(len(b)) < l {
				return nil, errors.New("short bytes")
			}
			f.Bytes, b = append([]byte{}, b[:l]...), b[l:]
			for _, s := range schema[path] {
				if s == f.Num {
					p := fmt.Sprint(f.Num)
					if path != "" {
						p = path + "." + p
					}
					sub, err := Parse(f.Bytes, schema, p)
					if err != nil {
						return nil, err
					}
					f.Sub = sub
				}
			}
		default:
			return nil, fmt.Errorf("unsupported wire type %d", f.WT)
		}
		m.Fields = append(m.Fields, f)
	}
	return m, nil
}

// Encode serializes exactly what the tree says (order, repetitions, padding).
func (m *Msg) Encode() []byte {
	var b []byte
	for _, f := range m.Fields {
		b = appendVarint(b, f.Num<<3|uint64(f.WT), f.TagPad)
		switch f.WT {
		case WTVarint:
			b = appendVarint(b, f.Varint, f.ValPad)
		case WTFixed64, WTFixed32:
			b = append(b, f.Fixed...)
		case WTBytes:
			p := f.Bytes
			if f.Sub != nil {
				p = f.Sub.Encode()
			}
			b = appendVarint(b, uint64(len(p)), f.LenPad)
			b = append(b, p...)
		}
	}
	return b
}

func (f *Field) Clone() *Field {
	c := *f
	c.Fixed = append([]byte(nil), f.Fixed...)
	c.Bytes = append([]byte(nil), f.Bytes...)
	if f.Sub != nil {
		c.Sub = f.Sub.Clone()
	}
	return &c
}

func (m *Msg) Clone() *Msg {
	c := &Msg{}
	for _, f := range m.Fields {
		c.Fields = append(c.Fields, f.Clone())
	}
	return c
}

// Get returns the LAST occurrence of field num (protobuf scalar semantics) or nil.
func (m *Msg) Get(num uint64) *Field {
	var r *Field
	for _, f := range m.Fields {
		if f.Num == num {
			r = f
		}
	}
	return r
}

// Index returns the index of the first occurrence of num or -1.
func (m *Msg) Index(num uint64) int {
	for i, f := range m.Fields {
		if f.Num == num {
			return i
		}
	}
	return -1
}

// At resolves a dotted path of field numbers to the embedded message it designates
// ("" = m itself). It returns nil when a step is missing or not parsed.
func (m *Msg) At(path []uint64) *Msg {
	cur := m
	for _, p := range path {
		f := cur.Get(p)
		if f == nil || f.Sub == nil {
			return nil
		}
		cur = f.Sub
	}
	return cur
}

// TxSchema tells Parse which length-delimited fields of lib.Transaction are embedded
// messages: 2 = google.protobuf.Any, 3 = Signature. Any.value (2.2) is NOT descended into by
// default: it is an opaque byte string to the Transaction codec.
var TxSchema = map[string][]uint64{"": {2, 3}}

// Field kinds of lib.Transaction (tx.proto), used by the generators.
var (
	TxVarintFields = []uint64{4, 5, 6, 8, 9, 10} // created_height,time,fee,network_id,chain_id,nonce
	TxStringFields = []uint64{1, 7}              // message_type, memo
	TxMsgFields    = []uint64{2, 3}              // msg (Any), signature
	TxFieldName    = map[uint64]string{1: "message_type", 2: "msg", 3: "signature", 4: "created_height", 5: "time", 6: "fee", 7: "memo", 8: "network_id", 9: "chain_id", 10: "nonce"}
)
