package txlab

import (
	"fmt"
	"math/big"

	"github.com/canopy-network/canopy/fsm"
	"github.com/canopy-network/canopy/lib"
	ethCommon "github.com/ethereum/go-ethereum/common"
	ethTypes "github.com/ethereum/go-ethereum/core/types"
	"google.golang.org/protobuf/proto"
)

// MsgTypes lists the 16 message types in a fixed order.
var MsgTypes = []string{
	fsm.MessageSendName, fsm.MessageStakeName, fsm.MessageEditStakeName, fsm.MessageUnstakeName, fsm.MessagePauseName, fsm.MessageUnpauseName,
	fsm.MessageChangeParameterName, fsm.MessageDAOTransferName, fsm.MessageCertificateResultsName, fsm.MessageSubsidyName,
	fsm.MessageCreateOrderName, fsm.MessageEditOrderName, fsm.MessageDeleteOrderName,
	fsm.MessageDexLimitOrderName, fsm.MessageDexLiquidityDepositName, fsm.MessageDexLiquidityWithdrawName,
}

// RLPTypes are the message types an Ethereum wrapper can carry.
var RLPTypes = map[string]string{
	fsm.MessageSendName: "", fsm.MessageStakeName: fsm.StakeSelector, fsm.MessageEditStakeName: fsm.EditStakeSelector, fsm.MessageUnstakeName: fsm.UnstakeSelector,
	fsm.MessageCreateOrderName: fsm.CreateOrderSelector, fsm.MessageEditOrderName: fsm.EditOrderSelector, fsm.MessageDeleteOrderName: fsm.DeleteOrderSelector,
	fsm.MessageSubsidyName: fsm.SubsidySelector,
}

// TxOpts are the envelope fields of a transaction.
type TxOpts struct {
	Created uint64
	Time    uint64
	Fee     uint64
	Memo    string
	Net     uint64
	Chain   uint64
	Nonce   uint64
	// EVMChain, when non-zero, is the Ethereum chain id an RLP wrapper is signed for (instead of the one derived from Net/Chain)
	EVMChain uint64
}

// Unsigned assembles the envelope around a message (deterministic: no clock).
func Unsigned(msg lib.MessageI, o TxOpts) *lib.Transaction {
	a, err := lib.NewAny(msg)
	if err != nil {
		panic(err)
	}
	return &lib.Transaction{MessageType: msg.Name(), Msg: a, CreatedHeight: o.Created, Time: o.Time, Fee: o.Fee, Memo: o.Memo, NetworkId: o.Net, ChainId: o.Chain, Nonce: o.Nonce}
}

// SignNative signs the envelope the way an honest client does (signature over the
// canonical encoding of everything but the signature) and returns the canonical bytes.
func SignNative(tx *lib.Transaction, s *Signer, positions []int) []byte {
	sb, err := tx.GetSignBytes()
	if err != nil {
		panic(err)
	}
	pub, sig := s.SignAs(sb, positions)
	tx.Signature = &lib.Signature{PublicKey: pub, Signature: sig}
	return MustMarshal(tx)
}

func MustMarshal(m proto.Message) []byte {
	b, err := lib.Marshal(m)
	if err != nil {
		panic(err)
	}
	return b
}

// WrapRLP builds what an Ethereum wallet + canopy's RPC produce: a signed Ethereum
// legacy-type transaction whose chain id encodes (network, chain, domain) and whose data
// is selector || proto(message) (or a plain value transfer for `send`), wrapped by the
// product's own RLP translation (that IS the honest client for this kind).
func WrapRLP(msg lib.MessageI, s *Signer, v2 bool, o TxOpts) (raw []byte, tx *lib.Transaction, err error) {
	key := s.ECDSA()
	if key == nil {
		return nil, nil, fmt.Errorf("signer %s has no ecdsa key", s.Name)
	}
	var evmChain uint64
	if v2 {
		var ok bool
		if evmChain, ok = fsm.CanopyIdsToEVMChainIdV2(o.Chain, o.Net); !ok {
			return nil, nil, fmt.Errorf("ids do not fit the v2 layout")
		}
	} else {
		evmChain = fsm.CanopyIdsToEVMChainId(o.Chain, o.Net)
	}
	if o.EVMChain != 0 {
		evmChain = o.EVMChain
	}
	nonce := o.Created
	if v2 {
		nonce = o.Nonce
	}
	var to ethCommon.Address
	var data []byte
	value := new(big.Int)
	switch m := msg.(type) {
	case *fsm.MessageSend:
		to = ethCommon.BytesToAddress(m.ToAddress)
		value = fsm.UpscaleTo18Decimals(m.Amount)
	default:
		sel, ok := RLPTypes[msg.Name()]
		if !ok {
			return nil, nil, fmt.Errorf("type %s cannot be RLP wrapped", msg.Name())
		}
		switch msg.Name() {
		case fsm.MessageSubsidyName:
			to = ethCommon.HexToAddress(fsm.CNPYContractAddress)
		case fsm.MessageStakeName, fsm.MessageEditStakeName, fsm.MessageUnstakeName:
			to = ethCommon.HexToAddress(fsm.StakedCNPYContractAddress)
		default:
			to = ethCommon.HexToAddress(fsm.SwapCNPYContractAddress)
		}
		selBz, e := lib.StringToBytes(sel)
		if e != nil {
			return nil, nil, e
		}
		data = append(selBz, MustMarshal(msg)...)
	}
	// fee = gas * gasPrice / 1e12 ; gas doubles as the pseudo timestamp entropy
	etx := ethTypes.NewTx(&ethTypes.LegacyTx{Nonce: nonce, GasPrice: big.NewInt(1_000_000_000_000), Gas: o.Fee, To: &to, Value: value, Data: data})
	signed, e := ethTypes.SignTx(etx, ethTypes.LatestSignerForChainID(new(big.Int).SetUint64(evmChain)), key)
	if e != nil {
		return nil, nil, e
	}
	rlp, e := signed.MarshalBinary()
	if e != nil {
		return nil, nil, e
	}
	var le lib.ErrorI
	if v2 {
		tx, le = fsm.RLPToCanopyTransactionV2(rlp)
	} else {
		tx, le = fsm.RLPToCanopyTransaction(rlp)
	}
	if le != nil && o.EVMChain != 0 {
		// the product's own converter refuses this chain id; an attacker assembles the envelope by hand: the envelope of
		// the twin signed for the assigned chain id, carrying THIS signed payload
		o2 := o
		o2.EVMChain = 0
		_, twin, e2 := WrapRLP(msg, s, v2, o2)
		if e2 != nil {
			return nil, nil, e2
		}
		twin.Signature.Signature = rlp
		return MustMarshal(twin), twin, nil
	}
	if le != nil {
		return nil, nil, le
	}
	return MustMarshal(tx), tx, nil
}
