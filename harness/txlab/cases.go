package txlab

// The case space shared by C05 and C06: a grid point (message type, signing kind, target
// object, signer role, mode) is turned into a signed transaction together with the reference
// verdict (who may authorize it, whether its signature is valid by construction).

import (
	"bytes"
	"fmt"

	"github.com/canopy-network/canopy/fsm"
	"github.com/canopy-network/canopy/lib"
	"github.com/canopy-network/canopy/lib/crypto"

	"verifharness/env"
)

const (
	ModeHonest = "honest"
	ModeForge  = "forge-owner-pubkey" // stranger puts the OWNER's public key on the wire, signs with its own key
	ModeClaim  = "claim-proposer"     // certificateResults only: QC.ProposerKey replaced by the signer's key after the committee signed
	ModeWire   = "wire-special-field" // the fields canopy fills in itself (Signer, OrderId, ProposalHash) are set on the wire BEFORE signing: Signer := another account, OrderId := another seller's order
	FeeDefault = uint64(10000)
	BaseTime   = uint64(1_750_000_000_000_000)
)

// CaseID identifies one grid point (and, with Tamper, one tampered variant of it).
type CaseID struct {
	Msg    string `json:"msg"`
	Kind   string `json:"kind"`
	Target string `json:"target"`
	Role   string `json:"role"`
	Mode   string `json:"mode"`
	Tamper string `json:"tamper,omitempty"`
}

func (c CaseID) String() string {
	s := fmt.Sprintf("%s/%s/%s/%s/%s", c.Msg, c.Kind, c.Target, c.Role, c.Mode)
	if c.Tamper != "" {
		s += "/" + c.Tamper
	}
	return s
}

// built is a constructed case with the reference verdict.
type Built struct {
	ID       CaseID
	Raw      []byte
	WireAddr []byte    // address of the public key that is on the wire (who the chain will believe signed)
	Actual   *Signer   // who really produced the signature
	Auth     []*Signer // reference: principals whose keys may authorize this message in this state
	SigValid bool      // by construction: signature made by the wire key (threshold met) over exactly this content
	NA       string
}

func (b *Built) Authorized() bool {
	for _, a := range b.Auth {
		if bytes.Equal(a.Addr, b.WireAddr) {
			return true
		}
	}
	return false
}

type MsgPlan struct {
	Msg    lib.MessageI
	Auth   []*Signer
	Owner  *Signer
	Output *Signer
	QC     *lib.QuorumCertificate
}

// plan builds the message of a grid point and the reference authorized set. `self` is the
// signer when the message format forces sender = signer (plain RLP transfers).
func Plan(l *Lab, id CaseID, self *Signer) (*MsgPlan, string) {
	w := l.W
	base := BaseKind(id.Kind)
	p := w.P[base]
	isBLS := base == KBLS
	val := func() (addr []byte, op, out *Signer, exists bool) {
		switch id.Target {
		case "fresh":
			return p[PN].Addr, p[PN], p[POUT], false
		case "custodial":
			if id.Msg == fsm.MessageUnpauseName && isBLS {
				return p[PVCP].Addr, p[PVCP], p[PVCP], true
			}
			return p[PVC].Addr, p[PVC], p[PVC], true
		default:
			if id.Msg == fsm.MessageUnpauseName && isBLS {
				return p[PVNP].Addr, p[PVNP], p[POUT], true
			}
			return p[PVN].Addr, p[PVN], p[POUT], true
		}
	}
	order := func() (oid []byte, seller *Signer) {
		switch id.Target {
		case "order-open":
			return w.OrderID(base, "open"), p[PA]
		case "order-locked":
			return w.OrderID(base, "locked"), p[PA]
		}
		return w.OrderID(base, "does-not-exist"), nil
	}
	a := p[PA]
	pl := &MsgPlan{Owner: a, Output: p[POUT], Auth: []*Signer{a}}
	committees, netAddr := []uint64{w.ChainID}, "tcp://edited"
	if !isBLS {
		committees, netAddr = []uint64{RemoteChain}, ""
	}
	switch id.Msg {
	case fsm.MessageSendName:
		from := a
		if self != nil {
			from = self
			pl.Auth, pl.Owner = []*Signer{self}, self
		}
		pl.Msg = &fsm.MessageSend{FromAddress: from.Addr, ToAddress: w.Recipient, Amount: 1000}
	case fsm.MessageStakeName:
		if id.Target == "fresh" {
			n, out := p[PN], p[POUT]
			pl.Msg = &fsm.MessageStake{PublicKey: n.Pub, Amount: Stake, Committees: committees, NetAddress: netAddr, OutputAddress: out.Addr, Delegate: !isBLS, Compound: true}
			pl.Owner, pl.Output, pl.Auth = n, out, []*Signer{n, out}
		} else {
			vc := p[PVC]
			pl.Msg = &fsm.MessageStake{PublicKey: vc.Pub, Amount: Stake, Committees: committees, NetAddress: netAddr, OutputAddress: vc.Addr, Delegate: !isBLS, Compound: true}
			pl.Owner, pl.Output, pl.Auth = vc, vc, []*Signer{vc}
		}
	case fsm.MessageEditStakeName:
		addr, op, out, exists := val()
		newOut := out.Addr
		if id.Target == "noncustodial-redirect" {
			newOut = p[PX].Addr
		}
		pl.Msg = &fsm.MessageEditStake{Address: addr, Amount: Stake + 1000, Committees: committees, NetAddress: netAddr, OutputAddress: newOut, Compound: false}
		pl.Owner, pl.Output, pl.Auth = op, out, nil
		if exists {
			pl.Auth = []*Signer{op, out}
			if id.Target == "noncustodial-redirect" {
				// the stake and its rewards belong to the output address: only that address may name a new
				// output ("no stake is redirected by a transaction its owner's authorized keys did not sign")
				pl.Auth = []*Signer{out}
			}
		}
	case fsm.MessageUnstakeName, fsm.MessagePauseName, fsm.MessageUnpauseName:
		addr, op, out, exists := val()
		switch id.Msg {
		case fsm.MessageUnstakeName:
			pl.Msg = &fsm.MessageUnstake{Address: addr}
		case fsm.MessagePauseName:
			pl.Msg = &fsm.MessagePause{Address: addr}
		default:
			pl.Msg = &fsm.MessageUnpause{Address: addr}
		}
		pl.Owner, pl.Output, pl.Auth = op, out, nil
		if exists {
			pl.Auth = []*Signer{op, out}
		}
	case fsm.MessageChangeParameterName:
		v, _ := lib.NewAny(&lib.UInt64Wrapper{Value: 10001})
		pl.Msg = &fsm.MessageChangeParameter{ParameterSpace: fsm.ParamSpaceFee, ParameterKey: fsm.ParamSendFee, ParameterValue: v, StartHeight: 1, EndHeight: 1000, Signer: a.Addr}
	case fsm.MessageDAOTransferName:
		pl.Msg = &fsm.MessageDAOTransfer{Address: a.Addr, Amount: 5000, StartHeight: 1, EndHeight: 1000}
	case fsm.MessageCertificateResultsName:
		c0 := w.Committee(0)
		qc, err := RemoteQC(l, c0.Pub)
		if err != nil {
			return nil, "cannot build certificate: " + err.Error()
		}
		pl.Msg, pl.QC = &fsm.MessageCertificateResults{Qc: qc}, qc
		pl.Owner, pl.Auth = c0, []*Signer{c0}
		if !isBLS {
			pl.Owner = nil
		}
	case fsm.MessageSubsidyName:
		pl.Msg = &fsm.MessageSubsidy{Address: a.Addr, ChainId: RemoteChain, Amount: 7000}
	case fsm.MessageCreateOrderName:
		pl.Msg = &fsm.MessageCreateOrder{ChainId: RemoteChain, AmountForSale: OrderAmount, RequestedAmount: 500, SellerReceiveAddress: w.Recipient, SellersSendAddress: a.Addr}
	case fsm.MessageEditOrderName:
		oid, seller := order()
		pl.Msg = &fsm.MessageEditOrder{OrderId: oid, ChainId: RemoteChain, AmountForSale: OrderAmount + 1_000_000_000, RequestedAmount: 600, SellerReceiveAddress: w.Recipient}
		pl.Auth = nil
		if seller != nil {
			pl.Auth = []*Signer{seller}
		}
	case fsm.MessageDeleteOrderName:
		oid, seller := order()
		pl.Msg = &fsm.MessageDeleteOrder{OrderId: oid, ChainId: RemoteChain}
		pl.Auth = nil
		if seller != nil {
			pl.Auth = []*Signer{seller}
		}
	case fsm.MessageDexLimitOrderName:
		pl.Msg = &fsm.MessageDexLimitOrder{ChainId: RemoteChain, AmountForSale: 1000, RequestedAmount: 10, Address: a.Addr}
	case fsm.MessageDexLiquidityDepositName:
		pl.Msg = &fsm.MessageDexLiquidityDeposit{ChainId: RemoteChain, Amount: 1000, Address: a.Addr}
	case fsm.MessageDexLiquidityWithdrawName:
		pl.Msg = &fsm.MessageDexLiquidityWithdraw{ChainId: RemoteChain, Percent: 10, Address: a.Addr}
	default:
		return nil, "unknown message"
	}
	return pl, ""
}

// remoteQC builds a certificate of the nested chain signed by its whole committee.
func RemoteQC(l *Lab, proposerKey []byte) (*lib.QuorumCertificate, error) {
	rootHeight := l.C.Height() - 1
	vs, err := l.C.FSM.LoadCommittee(RemoteChain, rootHeight)
	if err != nil {
		return nil, err
	}
	results := &lib.CertificateResult{
		RewardRecipients: &lib.RewardRecipients{PaymentPercents: []*lib.PaymentPercents{{Address: env.Addr(env.BLS(0)).Bytes(), Percent: 100, ChainId: RemoteChain}}},
		SlashRecipients:  &lib.SlashRecipients{},
	}
	resBz, err := lib.Marshal(results)
	if err != nil {
		return nil, err
	}
	qc := &lib.QuorumCertificate{
		Header:      &lib.View{NetworkId: l.W.NetworkID, ChainId: RemoteChain, Height: 1, RootHeight: rootHeight, Phase: lib.Phase_PRECOMMIT_VOTE},
		Results:     results,
		ResultsHash: crypto.Hash(resBz),
		BlockHash:   crypto.Hash([]byte("verif-remote-block")),
		ProposerKey: proposerKey,
	}
	sb := qc.SignBytes()
	mk := vs.MultiKey.Copy()
	for i, v := range vs.ValidatorSet.ValidatorSet {
		k := env.KeyForPub(v.PublicKey)
		if k == nil {
			return nil, fmt.Errorf("no key for committee member")
		}
		if e := mk.AddSigner(k.Sign(sb), i); e != nil {
			return nil, e
		}
	}
	sig, e := mk.AggregateSignatures()
	if e != nil {
		return nil, e
	}
	qc.Signature = &lib.AggregateSignature{Signature: sig, Bitmap: mk.Bitmap()}
	return qc, nil
}

func ResolveRole(l *Lab, id CaseID, pl *MsgPlan) *Signer {
	base := BaseKind(id.Kind)
	p := l.W.P[base]
	switch id.Role {
	case "owner":
		return pl.Owner
	case "output":
		return pl.Output
	case "otherval":
		return p[PVO]
	case "stranger":
		return p[PX]
	case "seller":
		return p[PA]
	case "nonseller":
		return p[PS2]
	case "proposer":
		if base == KBLS {
			return l.W.Committee(0)
		}
	case "nonproposer":
		if base == KBLS {
			return l.W.Committee(1)
		}
	}
	return nil
}

// build constructs the signed transaction of a grid point.
// MemoOverride, when set, is the memo of every natively signed transaction Build makes.
var MemoOverride string

func Build(l *Lab, id CaseID, seq uint64) *Built {
	b := &Built{ID: id}
	base := BaseKind(id.Kind)
	isRLP := id.Kind == KRLP || id.Kind == KRLPV2
	if isRLP {
		if _, ok := RLPTypes[id.Msg]; !ok {
			b.NA = "message type cannot be RLP wrapped"
			return b
		}
		if id.Mode != ModeHonest {
			b.NA = "mode not expressible for RLP (the key is recovered from the signature)"
			return b
		}
	}
	if id.Mode == ModeClaim && id.Msg != fsm.MessageCertificateResultsName {
		b.NA = "claim-proposer applies to certificateResults only"
		return b
	}
	// first pass without self to find the signer, second pass when the format forces sender=signer
	pl, na := Plan(l, id, nil)
	if na != "" {
		b.NA = na
		return b
	}
	signer := ResolveRole(l, id, pl)
	if signer == nil {
		b.NA = "role has no principal of this key kind"
		return b
	}
	if isRLP && id.Msg == fsm.MessageSendName {
		pl, _ = Plan(l, id, signer)
	}
	if isRLP && id.Msg == fsm.MessageStakeName {
		// an Ethereum wrapper cannot carry a non-delegate (BLS) stake for an eth key
		pl.Msg.(*fsm.MessageStake).Delegate = true
	}
	b.Actual, b.Auth = signer, pl.Auth
	o := TxOpts{Created: l.C.Height(), Time: BaseTime + seq, Fee: FeeDefault + seq%97, Net: l.W.NetworkID, Chain: l.W.ChainID}
	if MemoOverride != "" && !isRLP {
		o.Memo = MemoOverride // e.g. the memo "RLP" on a natively signed transaction (legal, and it selects other code paths)
	}
	if id.Mode == ModeClaim {
		// the signer re-labels itself as the certificate's proposer (committee signature untouched)
		pl.QC.ProposerKey = signer.Pub
	}
	if id.Mode == ModeWire {
		victim, foreignOrder := l.W.P[base][PA].Addr, l.W.OrderID(base, "other")
		switch m := pl.Msg.(type) {
		case *fsm.MessageStake:
			m.Signer = victim
		case *fsm.MessageEditStake:
			m.Signer = victim
		case *fsm.MessageCreateOrder:
			m.OrderId = foreignOrder
		case *fsm.MessageDexLimitOrder:
			m.OrderId = foreignOrder
		case *fsm.MessageDexLiquidityDeposit:
			m.OrderId = foreignOrder
		case *fsm.MessageDexLiquidityWithdraw:
			m.OrderId = foreignOrder
		case *fsm.MessageChangeParameter:
			m.ProposalHash = "00ff"
		case *fsm.MessageDAOTransfer:
			m.ProposalHash = "00ff"
		default:
			b.NA = "message has no field that canopy fills in"
			return b
		}
	}
	switch {
	case isRLP:
		o.Fee = FeeDefault + seq%9973 // gas doubles as time entropy in the wrapper
		o.Created = l.C.Height()
		raw, _, err := WrapRLP(pl.Msg, signer, id.Kind == KRLPV2, o)
		if err != nil {
			b.NA = "wrap: " + err.Error()
			return b
		}
		b.Raw, b.WireAddr, b.SigValid = raw, signer.Addr, true
	default:
		tx := Unsigned(pl.Msg, o)
		pos := MsPositions(id.Kind)
		b.Raw = SignNative(tx, signer, pos)
		b.WireAddr = signer.Addr
		b.SigValid = id.Kind != KMS1 // one cosigner of a 2-of-3 account is below the threshold
		if id.Mode == ModeForge {
			if pl.Owner == nil || bytes.Equal(pl.Owner.Addr, signer.Addr) {
				b.NA = "no distinct owner to impersonate"
				return b
			}
			// keep the stranger's signature, present the owner's public key
			tx.Signature.PublicKey = pl.Owner.Pub
			if base == "ms" {
				// same bitmap as the forged cosigner set so that only the keys differ
				pub, _ := pl.Owner.SignAs([]byte("x"), pos)
				tx.Signature.PublicKey = pub
			}
			b.Raw, b.WireAddr, b.SigValid = MustMarshal(tx), pl.Owner.Addr, false
		}
	}
	return b
}
