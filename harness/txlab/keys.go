package txlab

import (
	"crypto/ecdsa"
	"fmt"

	"github.com/canopy-network/canopy/lib/crypto"
	"github.com/drand/kyber"

	"verifharness/env"
)

// Key kinds.
const (
	KBLS   = "bls"
	KED    = "ed25519"
	KSECP  = "secp256k1"
	KETH   = "eth"
	KMS1   = "ms2of3x1" // BLS account multisig, threshold 2 of 3, ONE member signs (below threshold)
	KMS2   = "ms2of3x2"
	KMS3   = "ms2of3x3"
	KRLP   = "rlp"   // Ethereum RLP wrapper, legacy domain (memo "RLP")
	KRLPV2 = "rlpv2" // Ethereum RLP wrapper, nonce domain (memo "RLP.V2")
)

// BaseKind maps a signing kind onto the kind of the principal that owns the key.
func BaseKind(kind string) string {
	switch kind {
	case KMS1, KMS2, KMS3:
		return "ms"
	case KRLP, KRLPV2:
		return KETH
	}
	return kind
}

// Signer is a principal able to sign: it has one address, the public-key bytes it puts on
// the wire, and a signing function.
type Signer struct {
	Name string
	Kind string // base kind: bls | ed25519 | secp256k1 | eth | ms
	Addr []byte
	Pub  []byte // canonical wire public key (for ms: all three members enabled)
	Priv crypto.PrivateKeyI
	// multisig
	Members   []int // BLS key indices
	Threshold uint32
}

// Single wraps a plain key.
func Single(name, kind string, k crypto.PrivateKeyI) *Signer {
	return &Signer{Name: name, Kind: kind, Addr: k.PublicKey().Address().Bytes(), Pub: k.PublicKey().Bytes(), Priv: k}
}

// KeyOf returns the idx-th deterministic key of a single-key kind.
func KeyOf(kind string, idx int) crypto.PrivateKeyI {
	switch kind {
	case KBLS:
		return env.BLS(idx)
	case KED:
		return env.ED(idx)
	case KSECP:
		return env.SECP(idx)
	case KETH:
		return env.ETH(idx)
	}
	panic("no single key for kind " + kind)
}

func points(members []int) []kyber.Point {
	var ps []kyber.Point
	for _, m := range members {
		p, err := crypto.BytesToBLS12381Point(env.BLS(m).PublicKey().Bytes())
		if err != nil {
			panic(err)
		}
		ps = append(ps, p)
	}
	return ps
}

// Multi builds a t-of-n BLS account-authorization multisig principal.
func Multi(name string, members []int, threshold uint32) *Signer {
	mk, err := crypto.NewAccountAuthMultiBLSFromPoints(points(members), nil, threshold)
	if err != nil {
		panic(err)
	}
	all := mk.Copy()
	for i := range members {
		if e := all.AddSigner([]byte{1}, i); e != nil {
			panic(e)
		}
	}
	return &Signer{Name: name, Kind: "ms", Addr: mk.Address().Bytes(), Pub: all.Bytes(), Members: members, Threshold: threshold}
}

// SignAs produces (public key bytes, signature bytes) over msg. For a multisig principal
// `positions` selects which members sign (nil = the first Threshold members).
func (s *Signer) SignAs(msg []byte, positions []int) (pub, sig []byte) {
	if s.Kind != "ms" {
		return s.Pub, s.Priv.Sign(msg)
	}
	mk, err := crypto.NewAccountAuthMultiBLSFromPoints(points(s.Members), nil, s.Threshold)
	if err != nil {
		panic(err)
	}
	if positions == nil {
		for i := 0; i < int(s.Threshold); i++ {
			positions = append(positions, i)
		}
	}
	for _, p := range positions {
		if e := mk.AddSigner(env.BLS(s.Members[p]).Sign(msg), p); e != nil {
			panic(e)
		}
	}
	agg, err := mk.AggregateSignatures()
	if err != nil {
		panic(fmt.Sprintf("aggregate: %v", err))
	}
	return mk.Bytes(), agg
}

// ECDSA exposes the raw secp256k1 key of an eth / secp principal (for RLP signing and
// for the signature-malleation transformations).
func (s *Signer) ECDSA() *ecdsa.PrivateKey {
	switch k := s.Priv.(type) {
	case *crypto.ETHSECP256K1PrivateKey:
		return k.PrivateKey
	case *crypto.SECP256K1PrivateKey:
		return k.PrivateKey
	}
	return nil
}

// MsPositions returns the member positions that sign for a multisig signing kind.
func MsPositions(kind string) []int {
	switch kind {
	case KMS1:
		return []int{0}
	case KMS2:
		return []int{0, 1}
	case KMS3:
		return []int{0, 1, 2}
	}
	return nil
}
