package txlab

import (
	"strings"
)

// ShortErr compresses a canopy error text ("\nModule: x\nCode: n\nMessage: m") to "x/n:m".
func ShortErr(s string) string {
	if s == "" {
		return ""
	}
	var mod, code, msg string
	for _, ln := range strings.Split(s, "\n") {
		ln = strings.TrimSpace(ln)
		switch {
		case strings.HasPrefix(ln, "Module:"):
			mod = strings.TrimSpace(strings.TrimPrefix(ln, "Module:"))
		case strings.HasPrefix(ln, "Code:"):
			code = strings.TrimSpace(strings.TrimPrefix(ln, "Code:"))
		case strings.HasPrefix(ln, "Message:"):
			msg = strings.TrimSpace(strings.TrimPrefix(ln, "Message:"))
		}
	}
	if mod == "" && code == "" {
		if len(s) > 80 {
			s = s[:80]
		}
		return strings.ReplaceAll(s, "\n", " ")
	}
	if len(msg) > 60 {
		msg = msg[:60]
	}
	return mod + "/" + code + ":" + msg
}

// ErrClass drops variable parts (hex strings, numbers after ':') so that outcomes can be counted.
func ErrClass(s string) string {
	s = ShortErr(s)
	if i := strings.Index(s, ":"); i >= 0 {
		head, msg := s[:i], s[i+1:]
		var sb strings.Builder
		for _, w := range strings.Fields(msg) {
			if len(w) >= 16 && isHex(w) {
				w = "<hex>"
			}
			sb.WriteString(w)
			sb.WriteByte(' ')
		}
		return head + ":" + strings.TrimSpace(sb.String())
	}
	return s
}

func isHex(w string) bool {
	w = strings.TrimPrefix(w, "0x")
	for _, c := range w {
		if !(c >= '0' && c <= '9' || c >= 'a' && c <= 'f' || c >= 'A' && c <= 'F') {
			return false
		}
	}
	return true
}
