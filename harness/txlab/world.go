package txlab

import (
	"bytes"
	"context"
	"crypto/sha256"
	"encoding/hex"
	"fmt"
	"sort"

	"github.com/canopy-network/canopy/fsm"
	"github.com/canopy-network/canopy/lib"
	"github.com/canopy-network/canopy/lib/crypto"

	"verifharness/env"
)

// Principal names (per key kind).
const (
	PA   = "A"   // plain funded account: sender / seller / liquidity provider / proposal signer
	POUT = "OUT" // output address of the non-custodial validators
	PVC  = "VC"  // operator of the custodial validator (output = itself)
	PVN  = "VN"  // operator of the non-custodial validator (output = OUT)
	PVCP = "VCP" // operator of a paused custodial validator   (BLS kind only)
	PVNP = "VNP" // operator of a paused non-custodial validator (BLS kind only)
	PVO  = "VO"  // operator of another, unrelated validator
	PX   = "X"   // funded stranger
	PS2  = "S2"  // seller of another order
	PN   = "N"   // funded key that is not yet a validator (stake target)
)

var principalOrder = []string{PA, POUT, PVC, PVN, PVCP, PVNP, PVO, PX, PS2, PN}

// BaseKinds are the kinds of principals that exist in the world.
var BaseKinds = []string{KBLS, KED, KSECP, KETH, "ms"}

const (
	RemoteChain = uint64(2) // the nested chain whose committee, order book and liquidity pool exist
	Funds       = uint64(10_000_000_000_000)
	Stake       = uint64(5_000_000_000)
	OrderAmount = uint64(2_000_000_000)
)

// OrderSpec is a genesis sell order.
type OrderSpec struct {
	Id     []byte
	Seller string // principal name
	Kind   string
	Locked bool
}

// ValInfo is what the reference knows about a genesis validator.
type ValInfo struct {
	Operator, Output *Signer
	Paused           bool
	Delegate         bool
}

// World is the static description of the genesis state: who owns what. The reference
// oracles read ownership from here, never from the product's authorization code.
type World struct {
	P         map[string]map[string]*Signer // kind -> principal -> signer
	Vals      map[string]*ValInfo           // hex validator address -> info
	Orders    map[string]*OrderSpec         // hex order id -> spec
	Recipient []byte                        // an address nobody holds a key for
	ChainID   uint64
	NetworkID uint64
	ByAddr    map[string]*Signer
	Vesting map[string][4]uint64 // genesis vesting tranches (see SetVesting)
}

func orderID(kind, which string) []byte {
	h := sha256.Sum256([]byte("verif-order-" + kind + "-" + which))
	return h[:20]
}

// NewWorld builds the principal table (deterministic).
// Vesting (optional) gives genesis accounts a vesting tranche: address -> {amount, start, cliff, end}.
// Set it before Genesis / NewLab.
func (w *World) SetVesting(addr []byte, amount, start, cliff, end uint64) {
	if w.Vesting == nil {
		w.Vesting = map[string][4]uint64{}
	}
	w.Vesting[string(addr)] = [4]uint64{amount, start, cliff, end}
}

func NewWorld() *World {
	w := &World{P: map[string]map[string]*Signer{}, Vals: map[string]*ValInfo{}, Orders: map[string]*OrderSpec{}, ByAddr: map[string]*Signer{},
		ChainID: env.ChainID, NetworkID: env.NetworkID}
	r := sha256.Sum256([]byte("verif-recipient"))
	w.Recipient = r[:20]
	for _, kind := range BaseKinds {
		w.P[kind] = map[string]*Signer{}
		for i, name := range principalOrder {
			if (name == PVCP || name == PVNP) && kind != KBLS {
				continue
			}
			var s *Signer
			switch kind {
			case KBLS:
				s = Single(kind+":"+name, kind, env.BLS(8+i))
			case "ms":
				s = Multi(kind+":"+name, []int{20 + 3*i, 21 + 3*i, 22 + 3*i}, 2)
			default:
				s = Single(kind+":"+name, kind, KeyOf(kind, i))
			}
			w.P[kind][name] = s
			w.ByAddr[hex.EncodeToString(s.Addr)] = s
		}
		p := w.P[kind]
		deleg := kind != KBLS
		w.Vals[hex.EncodeToString(p[PVC].Addr)] = &ValInfo{Operator: p[PVC], Output: p[PVC], Delegate: deleg}
		w.Vals[hex.EncodeToString(p[PVN].Addr)] = &ValInfo{Operator: p[PVN], Output: p[POUT], Delegate: deleg}
		w.Vals[hex.EncodeToString(p[PVO].Addr)] = &ValInfo{Operator: p[PVO], Output: p[PVO], Delegate: deleg}
		if kind == KBLS {
			w.Vals[hex.EncodeToString(p[PVCP].Addr)] = &ValInfo{Operator: p[PVCP], Output: p[PVCP], Paused: true}
			w.Vals[hex.EncodeToString(p[PVNP].Addr)] = &ValInfo{Operator: p[PVNP], Output: p[POUT], Paused: true}
		}
		for _, o := range []*OrderSpec{
			{Id: orderID(kind, "open"), Seller: PA, Kind: kind},
			{Id: orderID(kind, "locked"), Seller: PA, Kind: kind, Locked: true},
			{Id: orderID(kind, "other"), Seller: PS2, Kind: kind},
		} {
			w.Orders[hex.EncodeToString(o.Id)] = o
		}
	}
	// the two committee members of both chains (BLS 0 = block proposer and certificate proposer)
	for i := 0; i < 2; i++ {
		s := Single(fmt.Sprintf("bls:C%d", i), KBLS, env.BLS(i))
		w.ByAddr[hex.EncodeToString(s.Addr)] = s
		w.Vals[hex.EncodeToString(s.Addr)] = &ValInfo{Operator: s, Output: s}
	}
	return w
}

// Committee returns the i-th committee member (0 = proposer).
func (w *World) Committee(i int) *Signer {
	return w.ByAddr[hex.EncodeToString(env.Addr(env.BLS(i)).Bytes())]
}

func (w *World) OrderID(kind, which string) []byte { return orderID(kind, which) }

// Genesis renders the world as a genesis state.
func (w *World) Genesis(tweak func(*fsm.Params)) *fsm.GenesisState {
	g := &fsm.GenesisState{Time: 1_700_000_000_000_000, Params: fsm.DefaultParams()}
	g.Params.Consensus.RootChainId = w.ChainID
	if tweak != nil {
		tweak(g.Params)
	}
	both := []uint64{w.ChainID, RemoteChain}
	for i := 0; i < 2; i++ {
		k := env.BLS(i)
		g.Accounts = append(g.Accounts, &fsm.Account{Address: env.Addr(k).Bytes(), Amount: Funds})
		g.Validators = append(g.Validators, &fsm.Validator{Address: env.Addr(k).Bytes(), PublicKey: k.PublicKey().Bytes(), NetAddress: fmt.Sprintf("tcp://c%d", i),
			StakedAmount: 100 * Stake, Committees: both, Output: env.Addr(k).Bytes()})
	}
	lp := &fsm.Pool{Id: RemoteChain + fsm.LiquidityPoolAddend, Amount: 1_000_000_000}
	book := &lib.OrderBook{ChainId: RemoteChain}
	for _, kind := range BaseKinds {
		p := w.P[kind]
		for _, name := range principalOrder {
			s, ok := p[name]
			if !ok {
				continue
			}
			acc := &fsm.Account{Address: s.Addr, Amount: Funds}
			if v, ok := w.Vesting[string(s.Addr)]; ok {
				acc.VestingAmount, acc.VestingStartHeight, acc.VestingCliffHeight, acc.VestingEndHeight = v[0], v[1], v[2], v[3]
			}
			g.Accounts = append(g.Accounts, acc)
		}
		val := func(op, out *Signer, paused uint64) {
			v := &fsm.Validator{Address: op.Addr, PublicKey: op.Pub, StakedAmount: Stake, Output: out.Addr, MaxPausedHeight: paused}
			if kind == KBLS {
				v.NetAddress, v.Committees = "tcp://"+op.Name, []uint64{w.ChainID}
			} else {
				v.Delegate, v.Committees = true, []uint64{RemoteChain}
			}
			g.Validators = append(g.Validators, v)
		}
		val(p[PVC], p[PVC], 0)
		val(p[PVN], p[POUT], 0)
		val(p[PVO], p[PVO], 0)
		if kind == KBLS {
			val(p[PVCP], p[PVCP], 4000)
			val(p[PVNP], p[POUT], 4000)
		}
		lp.Points = append(lp.Points, &lib.PoolPoints{Address: p[PA].Addr, Points: 100})
		lp.TotalPoolPoints += 100
		for _, which := range []string{"open", "locked", "other"} {
			o := w.Orders[hex.EncodeToString(orderID(kind, which))]
			so := &lib.SellOrder{Id: o.Id, Committee: RemoteChain, AmountForSale: OrderAmount, RequestedAmount: 1000,
				SellerReceiveAddress: w.Recipient, SellersSendAddress: p[o.Seller].Addr}
			if o.Locked {
				so.BuyerSendAddress, so.BuyerReceiveAddress, so.BuyerChainDeadline = w.Recipient, w.Recipient, 1_000_000
			}
			book.Orders = append(book.Orders, so)
		}
	}
	g.Pools = append(g.Pools, &fsm.Pool{Id: lib.DAOPoolID, Amount: Funds}, lp)
	g.OrderBooks = &lib.OrderBooks{OrderBooks: []*lib.OrderBook{book}}
	return g
}

// Lab is a chain plus its world.
type Lab struct {
	W *World
	C *env.Chain
}

// NewLab creates the chain and commits `empty` empty blocks (so that the replay filter,
// which is skipped below height 2, is active).
func NewLab(w *World, empty int, tweak func(*fsm.Params), cfg ...func(*lib.Config)) (*Lab, error) {
	c, err := env.NewChain(w.Genesis(tweak), cfg...)
	if err != nil {
		return nil, err
	}
	l := &Lab{W: w, C: c}
	for i := 0; i < empty; i++ {
		if _, e := c.Step(env.BlockSpec{Proposer: 0}); e != nil {
			c.Close()
			return nil, fmt.Errorf("empty block %d: %v", i, e)
		}
	}
	return l, nil
}

func (l *Lab) Close() { l.C.Close() }

// ProbeResult is the outcome of applying one candidate block on a copy of the FSM.
type ProbeResult struct {
	Err      string   // ApplyBlock error (whole block refused)
	Failed   []string // per failed tx: error text
	Included int
	State    []env.KV
}

// ProbeBlock applies a block with the given transactions to a COPY of the FSM with proposer
// semantics (exactly the first half of env.Chain.Step) and returns the resulting raw state.
// Nothing is committed; the chain is unchanged.
func (l *Lab) ProbeBlock(txs [][]byte, strict bool) *ProbeResult {
	c := l.C
	cp, err := c.FSM.Copy()
	if err != nil {
		return &ProbeResult{Err: "copy: " + err.Error()}
	}
	defer cp.Discard()
	lastQC, err := c.LastQC()
	if err != nil {
		return &ProbeResult{Err: "lastqc: " + err.Error()}
	}
	blk := &lib.Block{
		BlockHeader:  &lib.BlockHeader{Time: 1_700_000_000_000_000 + c.Height()*1_000_000, ProposerAddress: env.Addr(env.BLS(0)).Bytes(), LastQuorumCertificate: lastQC},
		Transactions: txs,
	}
	if lastQC != nil {
		if err = cp.Store().(lib.StoreI).IndexQC(lastQC); err != nil {
			return &ProbeResult{Err: "indexqc: " + err.Error()}
		}
	}
	_, res, err := cp.ApplyBlock(context.Background(), blk, !strict)
	r := &ProbeResult{}
	if err != nil {
		r.Err = err.Error()
		return r
	}
	for _, f := range res.Failed {
		r.Failed = append(r.Failed, f.Error.Error())
	}
	r.Included = res.Count
	kv, err := env.RawState(cp)
	if err != nil {
		r.Err = "rawstate: " + err.Error()
		return r
	}
	r.State = kv
	return r
}

// ProbeSingle runs one transaction through FSM.ApplyTransaction with a nil batch verifier
// (the one-by-one signature path) on a copy, wrapped in a store transaction the way
// ApplyTransactions does; it returns the raw state afterwards (the untouched state when the
// transaction failed) and the raw state of an untouched copy.
func (l *Lab) ProbeSingle(tx []byte) (after []env.KV, errText string) {
	cp, err := l.C.FSM.Copy()
	if err != nil {
		return nil, "copy: " + err.Error()
	}
	defer cp.Discard()
	orig := cp.Store().(lib.StoreI)
	txn, err := cp.TxnWrap()
	if err != nil {
		return nil, "txnwrap: " + err.Error()
	}
	func() {
		defer func() {
			if p := recover(); p != nil {
				errText = fmt.Sprintf("panic: %v", p)
			}
		}()
		_, _, e := cp.ApplyTransaction(0, tx, crypto.HashString(tx), nil)
		if e != nil {
			errText = e.Error()
		}
	}()
	if errText != "" {
		cp.ResetCaches()
		cp.SetStore(orig)
	} else {
		if e := txn.Flush(); e != nil {
			return nil, "flush: " + e.Error()
		}
		cp.SetStore(orig)
	}
	kv, err := env.RawState(cp)
	if err != nil {
		return nil, "rawstate: " + err.Error()
	}
	return kv, errText
}

// CheckTxSingle is the mempool-style admission verdict: FSM.CheckTx with the transaction
// hash and a nil batch verifier on a copy.
func (l *Lab) CheckTxSingle(tx []byte) (errText string) {
	cp, err := l.C.FSM.Copy()
	if err != nil {
		return "copy: " + err.Error()
	}
	defer cp.Discard()
	defer func() {
		if p := recover(); p != nil {
			errText = fmt.Sprintf("panic: %v", p)
		}
	}()
	if _, e := cp.CheckTx(tx, crypto.HashString(tx), nil); e != nil {
		return e.Error()
	}
	return ""
}

// CurrentState is the raw state of an untouched copy (baseline of ProbeSingle).
func (l *Lab) CurrentState() []env.KV {
	kv, err := env.RawState(l.C.FSM)
	if err != nil {
		panic(err)
	}
	return kv
}

// Change is one differing key.
type Change struct {
	Key      []byte
	Old, New []byte // nil = absent
}

// Diff lists the keys whose value differs between two raw states.
func Diff(a, b []env.KV) []Change {
	am := map[string][]byte{}
	for _, kv := range a {
		am[string(kv.K)] = kv.V
	}
	var out []Change
	seen := map[string]bool{}
	for _, kv := range b {
		seen[string(kv.K)] = true
		if old, ok := am[string(kv.K)]; !ok {
			out = append(out, Change{Key: kv.K, New: kv.V})
		} else if !bytes.Equal(old, kv.V) {
			out = append(out, Change{Key: kv.K, Old: old, New: kv.V})
		}
	}
	for _, kv := range a {
		if !seen[string(kv.K)] {
			out = append(out, Change{Key: kv.K, Old: kv.V})
		}
	}
	sort.Slice(out, func(i, j int) bool { return string(out[i].Key) < string(out[j].Key) })
	return out
}

// DiffDigest is a short canonical rendering of a diff (for outcome counting / evidence).
func DiffDigest(d []Change) string {
	if len(d) == 0 {
		return ""
	}
	h := sha256.New()
	for _, c := range d {
		fmt.Fprintf(h, "%x|%x|%x\n", c.Key, c.Old, c.New)
	}
	return hex.EncodeToString(h.Sum(nil)[:8])
}

// DescribeDiff renders a diff for humans: accounts / pools / validators / orders decoded.
func DescribeDiff(d []Change, w *World) []string {
	var out []string
	name := func(addr []byte) string {
		if s, ok := w.ByAddr[hex.EncodeToString(addr)]; ok {
			return s.Name
		}
		if bytes.Equal(addr, w.Recipient) {
			return "recipient"
		}
		return hex.EncodeToString(addr)
	}
	for _, c := range d {
		segs := safeSegs(c.Key)
		if len(segs) == 0 || len(segs[0]) != 1 {
			out = append(out, fmt.Sprintf("key %x changed", c.Key))
			continue
		}
		switch segs[0][0] {
		case 1:
			o, n := new(fsm.Account), new(fsm.Account)
			_ = lib.Unmarshal(c.Old, o)
			_ = lib.Unmarshal(c.New, n)
			out = append(out, fmt.Sprintf("account %s: %d -> %d (nonce %d -> %d)", name(segs[len(segs)-1]), o.Amount, n.Amount, o.Nonce, n.Nonce))
		case 2:
			o, n := new(fsm.Pool), new(fsm.Pool)
			_ = lib.Unmarshal(c.Old, o)
			_ = lib.Unmarshal(c.New, n)
			out = append(out, fmt.Sprintf("pool %d: %d -> %d", n.Id|o.Id, o.Amount, n.Amount))
		case 3:
			o, n := new(fsm.Validator), new(fsm.Validator)
			_ = lib.Unmarshal(c.Old, o)
			_ = lib.Unmarshal(c.New, n)
			out = append(out, fmt.Sprintf("validator %s: stake %d -> %d, output %s -> %s, paused %d -> %d, unstaking %d -> %d, present %v -> %v", name(segs[len(segs)-1]),
				o.StakedAmount, n.StakedAmount, name(o.Output), name(n.Output), o.MaxPausedHeight, n.MaxPausedHeight, o.UnstakingHeight, n.UnstakingHeight, c.Old != nil, c.New != nil))
		case 13:
			o, n := new(lib.SellOrder), new(lib.SellOrder)
			_ = lib.Unmarshal(c.Old, o)
			_ = lib.Unmarshal(c.New, n)
			out = append(out, fmt.Sprintf("order %x: amount %d -> %d, seller %s -> %s, present %v -> %v", segs[len(segs)-1], o.AmountForSale, n.AmountForSale, name(o.SellersSendAddress), name(n.SellersSendAddress), c.Old != nil, c.New != nil))
		default:
			out = append(out, fmt.Sprintf("prefix %d key %x changed", segs[0][0], c.Key))
		}
	}
	return out
}

func safeSegs(k []byte) (segs [][]byte) {
	defer func() {
		if recover() != nil {
			segs = nil
		}
	}()
	return lib.DecodeLengthPrefixed(k)
}

// KeySegments exposes the length-prefixed segments of a state key.
func KeySegments(k []byte) [][]byte { return safeSegs(k) }
