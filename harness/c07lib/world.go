// Package c07lib is the shared world of the C07 (atomicity) harness: a genesis with a
// second committee, deterministic transaction builders, a certificate-results (nested
// chain) certificate builder and the proposer / replica block paths written out step by
// step the way controller.CheckMempool / controller.CommitCertificate perform them.
package c07lib

import (
	"bytes"
	"context"
	"fmt"
	"math"
	"sort"
	"strings"

	"github.com/canopy-network/canopy/fsm"
	"github.com/canopy-network/canopy/lib"
	"github.com/canopy-network/canopy/lib/crypto"

	"verifharness/env"
)

const (
	Chain2    = uint64(2)
	BaseTime  = uint64(1_700_000_000_000_000)
	Fee       = uint64(10000)
	DAOStart  = uint64(50_000_000)
	NumFunded = 40 // BLS keys 0..NumFunded-1 have accounts
)

// Genesis builds the C07 world. blockSizeExtra>0 shrinks the block to MaxBlockHeaderSize+extra bytes of transactions.
func Genesis(blockSizeExtra uint64) *fsm.GenesisState {
	acc := map[int]uint64{}
	for i := 0; i < NumFunded; i++ {
		acc[i] = 1_000_000_000
	}
	vals := []env.ValSpec{}
	for i := 0; i < 4; i++ {
		// non-compounding, so that end-block rewards go through the account and pool caches
		vals = append(vals, env.ValSpec{Key: i, Stake: 1_000_000, Committees: []uint64{env.ChainID, Chain2}, OutputKey: -1, Compound: i%2 == 1})
	}
	g := env.NewGenesis(acc, vals, func(p *fsm.Params) {
		p.Consensus.ProtocolVersion = fsm.NewProtocolVersion(0, 2)
		if blockSizeExtra > 0 {
			p.Consensus.BlockSize = lib.MaxBlockHeaderSize + blockSizeExtra
		}
		p.Validator.NonSignWindow = 2
		p.Validator.MaxNonSign = 0
		p.Validator.NonSignSlashPercentage = 10
		p.Validator.DoubleSignSlashPercentage = 10
		p.Validator.MaxSlashPerCommittee = 15
		p.Validator.UnstakingBlocks = 30
		p.Validator.MinimumOrderSize = 10
		p.Fee.CertificateResultsFee = Fee
		p.Fee.DexLiquidityDepositFee = Fee
	})
	g.Pools = append(g.Pools, &fsm.Pool{Id: lib.DAOPoolID, Amount: DAOStart})
	return g
}

// MkTx builds a transaction with a deterministic timestamp (fsm.NewTransaction uses the wall clock).
func MkTx(key crypto.PrivateKeyI, msg lib.MessageI, fee, createdHeight, t uint64, memo string) []byte {
	return MkTxOn(key, msg, fee, createdHeight, t, memo, env.ChainID)
}

// MkTxOn is MkTx for an arbitrary chain id.
func MkTxOn(key crypto.PrivateKeyI, msg lib.MessageI, fee, createdHeight, t uint64, memo string, chainId uint64) []byte {
	a, err := lib.NewAny(msg)
	if err != nil {
		panic(err)
	}
	tx := &lib.Transaction{MessageType: msg.Name(), Msg: a, CreatedHeight: createdHeight, Time: t, Fee: fee, Memo: memo,
		NetworkId: env.NetworkID, ChainId: chainId}
	if e := tx.Sign(key); e != nil {
		panic(e)
	}
	bz, e := lib.Marshal(tx)
	if e != nil {
		panic(e)
	}
	return bz
}

func Send(from, to int, amount, h, t uint64) []byte {
	return MkTx(env.BLS(from), &fsm.MessageSend{FromAddress: env.Addr(env.BLS(from)).Bytes(), ToAddress: env.Addr(env.BLS(to)).Bytes(), Amount: amount}, Fee, h, t, "")
}

func Stake(key int, amount uint64, committees []uint64, h, t uint64) []byte {
	k := env.BLS(key)
	return MkTx(k, &fsm.MessageStake{PublicKey: k.PublicKey().Bytes(), Amount: amount, Committees: committees, NetAddress: fmt.Sprintf("tcp://v%d", key),
		OutputAddress: env.Addr(k).Bytes(), Compound: true}, Fee, h, t, "")
}

func EditStake(key int, amount uint64, committees []uint64, h, t uint64) []byte {
	k := env.BLS(key)
	return MkTx(k, &fsm.MessageEditStake{Address: env.Addr(k).Bytes(), Amount: amount, Committees: committees, NetAddress: fmt.Sprintf("tcp://v%d", key),
		OutputAddress: env.Addr(k).Bytes(), Compound: key%2 == 1}, Fee, h, t, "")
}

func DAOTransfer(key int, amount uint64, mint bool, h, t uint64) []byte {
	k := env.BLS(key)
	return MkTx(k, &fsm.MessageDAOTransfer{Address: env.Addr(k).Bytes(), Amount: amount, Mint: mint, StartHeight: 1, EndHeight: 10000}, Fee, h, t, "")
}

// CertSpec describes a certificate-results transaction for committee Chain2.
type CertSpec struct {
	ChainHeight   uint64 // height of the nested chain the certificate speaks about
	RootHeight    uint64
	Proposer      int
	NonSigners    int // number of committee members (from the end of the set) that do not sign
	DoubleSigners []*lib.DoubleSigner
	Checkpoint    *lib.Checkpoint
	RewardTo      int
}

// CertResultsTx builds a MessageCertificateResults transaction whose certificate is really
// signed by the Chain2 committee as of RootHeight on chain c.
func CertResultsTx(c *env.Chain, s CertSpec, h, t uint64) ([]byte, lib.ErrorI) {
	vs, err := c.FSM.LoadCommittee(Chain2, s.RootHeight)
	if err != nil {
		return nil, err
	}
	results := &lib.CertificateResult{
		RewardRecipients: &lib.RewardRecipients{PaymentPercents: []*lib.PaymentPercents{{Address: env.Addr(env.BLS(s.RewardTo)).Bytes(), Percent: 100, ChainId: env.ChainID}}},
		SlashRecipients:  &lib.SlashRecipients{DoubleSigners: s.DoubleSigners},
		Checkpoint:       s.Checkpoint,
	}
	resBz, err := lib.Marshal(results)
	if err != nil {
		return nil, err
	}
	qc := &lib.QuorumCertificate{
		Header:      &lib.View{NetworkId: env.NetworkID, ChainId: Chain2, Height: s.ChainHeight, RootHeight: s.RootHeight, Phase: lib.Phase_PRECOMMIT_VOTE},
		Results:     results,
		ResultsHash: crypto.Hash(resBz),
		BlockHash:   crypto.Hash([]byte(fmt.Sprintf("nested-block-%d", s.ChainHeight))),
		ProposerKey: env.BLS(s.Proposer).PublicKey().Bytes(),
	}
	sb := qc.SignBytes()
	mk := vs.MultiKey.Copy()
	n := len(vs.ValidatorSet.ValidatorSet)
	for i, v := range vs.ValidatorSet.ValidatorSet {
		if i >= n-s.NonSigners {
			continue
		}
		k := env.KeyForPub(v.PublicKey)
		if k == nil {
			return nil, lib.NewError(lib.CodeInvalidArgument, lib.ConsensusModule, "harness: no key for committee-2 member")
		}
		if e := mk.AddSigner(k.Sign(sb), i); e != nil {
			return nil, lib.NewError(lib.CodeInvalidArgument, lib.ConsensusModule, e.Error())
		}
	}
	sig, e := mk.AggregateSignatures()
	if e != nil {
		return nil, lib.NewError(lib.CodeInvalidArgument, lib.ConsensusModule, e.Error())
	}
	qc.Signature = &lib.AggregateSignature{Signature: sig, Bitmap: mk.Bitmap()}
	return MkTx(env.BLS(s.Proposer), &fsm.MessageCertificateResults{Qc: qc}, Fee, h, t, ""), nil
}

// ---------------------------------------------------------------------------------------
// proposer path

// Proposal is the outcome of the proposer path on a throw-away copy of the FSM.
type Proposal struct {
	Header  *lib.BlockHeader
	Res     *lib.ApplyBlockResults
	State   []env.KV // raw state of the copy after ApplyBlock (pending writes included)
	Err     lib.ErrorI
	RawTxs  [][]byte // what was submitted
	Kept    [][]byte // r.Txs
	LastQC  *lib.QuorumCertificate
	BlkTime uint64
	Index   string // indexer observations of the copy (double signers, latest Chain2 checkpoint), pending writes included
}

func BlockTime(h uint64) uint64 { return BaseTime + h*1_000_000 }

// ProposeOnCopy does what Mempool.CheckMempool does with the mempool FSM: ApplyBlock with
// allowOversize on a Copy of the chain's FSM. The copy is discarded; the chain is untouched.
func ProposeOnCopy(c *env.Chain, txs [][]byte, proposer int, wantState bool) *Proposal {
	p := &Proposal{RawTxs: txs, BlkTime: BlockTime(c.Height())}
	cp, err := c.FSM.Copy()
	if err != nil {
		p.Err = err
		return p
	}
	defer cp.Discard()
	lastQC, err := c.LastQC()
	if err != nil {
		p.Err = err
		return p
	}
	p.LastQC = lastQC
	blk := &lib.Block{
		BlockHeader:  &lib.BlockHeader{Time: p.BlkTime, ProposerAddress: env.Addr(env.BLS(proposer)).Bytes(), LastQuorumCertificate: lastQC},
		Transactions: append([][]byte{}, txs...),
	}
	if lastQC != nil {
		if err = cp.Store().(lib.StoreI).IndexQC(lastQC); err != nil {
			p.Err = err
			return p
		}
	}
	p.Header, p.Res, p.Err = cp.ApplyBlock(context.Background(), blk, true)
	if p.Err != nil {
		return p
	}
	p.Kept = p.Res.Txs
	if wantState {
		if p.State, p.Err = env.RawState(cp); p.Err != nil {
			return p
		}
		p.Index, p.Err = IndexObs(cp.Store().(lib.StoreI))
	}
	return p
}

// IndexObs renders the indexer content that transactions can write: double signers and the latest Chain2 checkpoint.
func IndexObs(st lib.StoreI) (string, lib.ErrorI) {
	ds, err := st.GetDoubleSigners()
	if err != nil {
		return "", err
	}
	var lines []string
	for _, d := range ds {
		hs := append([]uint64{}, d.Heights...)
		sort.Slice(hs, func(i, j int) bool { return hs[i] < hs[j] })
		lines = append(lines, fmt.Sprintf("ds %x %v", d.Id, hs))
	}
	sort.Strings(lines)
	cp, err := st.GetMostRecentCheckpoint(Chain2)
	if err != nil {
		return "", err
	}
	return fmt.Sprintf("%s|cp %d %x", strings.Join(lines, ";"), cp.Height, cp.BlockHash), nil
}

// ---------------------------------------------------------------------------------------
// replica path, mirroring controller.CommitCertificate / ApplyAndValidateBlock /
// CheckAndSetLastCertificate (non-syncing) on the chain's main FSM.

type Stage string

// ReplicaApply performs CheckAndSetLastCertificate + ApplyBlock(false) + failed-tx check + header hash
// comparison on the main FSM and leaves the FSM DIRTY (the caller decides: commit or Reset).
func ReplicaApply(c *env.Chain, blk *lib.Block) (*lib.BlockResult, lib.ErrorI) {
	candidate := blk.BlockHeader
	if candidate.Height > 1 {
		last, err := c.FSM.LoadCertificateHashesOnly(candidate.Height - 1)
		if err != nil {
			return nil, err
		}
		if !candidate.LastQuorumCertificate.EqualPayloads(last) {
			return nil, lib.ErrInvalidLastQuorumCertificate()
		}
		lq := candidate.LastQuorumCertificate
		vs, err := c.FSM.LoadCommittee(c.Cfg.ChainId, lq.Header.RootHeight)
		if err != nil {
			return nil, err
		}
		partial, err := lq.Check(vs, 0, &lib.View{Height: candidate.Height - 1, RootHeight: lq.Header.RootHeight, NetworkId: uint64(c.Cfg.P2PConfig.NetworkID), ChainId: c.Cfg.ChainId}, true)
		if err != nil {
			return nil, err
		}
		if partial {
			return nil, lib.ErrNoMaj23()
		}
		if err = c.FSM.Store().(lib.StoreI).IndexQC(lq); err != nil {
			return nil, err
		}
	}
	compare, res, err := c.FSM.ApplyBlock(context.Background(), blk, false)
	if err != nil {
		return nil, err
	}
	if len(res.Failed) != 0 {
		return nil, lib.ErrFailedTransactions()
	}
	h, err := compare.SetHash()
	if err != nil {
		return nil, err
	}
	if !bytes.Equal(h, candidate.Hash) {
		return nil, lib.ErrUnequalBlockHash()
	}
	return &lib.BlockResult{BlockHeader: candidate, Transactions: res.Results, Events: res.Events}, nil
}

// ReplicaCommit is CommitCertificate: Reset, apply+validate, IndexQC, IndexBlock, Commit, fsm.New;
// on any error the deferred Reset of the controller is performed.
// failAfter (test seam of the harness, not of canopy) aborts after the named stage as if the
// next step had returned an error: "" (none) | "index-qc" | "index-block".
func ReplicaCommit(c *env.Chain, blk *lib.Block, proposer int, results *lib.CertificateResult, failAfter Stage) (root []byte, err lib.ErrorI) {
	st := c.FSM.Store().(lib.StoreI)
	committed := false
	defer func() {
		if !committed {
			c.FSM.Reset()
		}
	}()
	c.FSM.Reset()
	br, err := ReplicaApply(c, blk)
	if err != nil {
		return nil, err
	}
	if results == nil {
		results = env.DefaultResults(c, blk, br)
	}
	qc, err := c.MakeQC(blk, results, proposer, nil, 0)
	if err != nil {
		return nil, err
	}
	if err = st.IndexQC(qc); err != nil {
		return nil, err
	}
	if failAfter == "index-qc" {
		return nil, lib.NewError(lib.CodeInvalidArgument, lib.ConsensusModule, "harness: abort after IndexQC")
	}
	if err = st.IndexBlock(br); err != nil {
		return nil, err
	}
	if failAfter == "index-block" {
		return nil, lib.NewError(lib.CodeInvalidArgument, lib.ConsensusModule, "harness: abort after IndexBlock")
	}
	root, err = st.Commit()
	if err != nil {
		return nil, err
	}
	committed = true
	c.FSM, err = fsm.New(c.Cfg, st, nil, nil, c.Log)
	if err != nil {
		return nil, err
	}
	c.Committed[blk.BlockHeader.Height] = &env.Committed{Height: blk.BlockHeader.Height, Block: blk, BlockResult: br, QC: qc, Root: root}
	return root, nil
}

// BlockFromProposal assembles the block a proposer would broadcast.
func BlockFromProposal(p *Proposal) *lib.Block {
	return &lib.Block{BlockHeader: p.Header, Transactions: append([][]byte{}, p.Kept...)}
}

var _ = uint64(math.MaxUint64)
