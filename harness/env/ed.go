package env

import "crypto/ed25519"

func edFromSeed(seed []byte) []byte { return ed25519.NewKeyFromSeed(seed) }
