package env

import (
	"bytes"
	"context"

	"github.com/canopy-network/canopy/fsm"
	"github.com/canopy-network/canopy/lib"
)

// Additions for C20 (two chain worlds — a root chain and a nested chain — driven
// sequentially inside one process). Nothing here changes the behaviour of Step/CommitBlock.

// StepOpts are the extra inputs a NESTED chain's block needs on the direct path.
type StepOpts struct {
	// RootDex is what controller.ValidateProposal / CommitCertificate hand to
	// FSM.SetRootDexCache before ApplyBlock (the root chain's locked batch for this committee
	// as of the root height the proposal was built on). nil = nothing cached.
	RootDex *lib.DexBatch
	// View overrides the certificate header (a nested chain's RootHeight is a ROOT chain height).
	View *lib.View
	// Committee overrides the validator set that signs the certificate (a nested chain's
	// committee lives on the root chain).
	Committee *lib.ValidatorSet
}

// PrimeBlockCache makes the process-wide block LRU (store.blockCache, keyed by height only)
// answer LoadBlock(Height()-1) with THIS chain's block. Needed when two chains take turns in
// one process: whichever chain indexed a height last owns that LRU slot. Uses only the public
// IndexBlock (which refreshes the LRU slot) followed by Reset (which drops the pending index write).
func (c *Chain) PrimeBlockCache() lib.ErrorI {
	h := c.Height() - 1
	var br *lib.BlockResult
	if cm := c.Committed[h]; cm != nil {
		br = &lib.BlockResult{BlockHeader: cm.BlockResult.BlockHeader, Transactions: cm.BlockResult.Transactions, Events: cm.BlockResult.Events}
	} else {
		// no block yet: what the indexer returns on a miss is an empty header; LoadBlock(0) asks for height 1
		br = &lib.BlockResult{BlockHeader: &lib.BlockHeader{Height: 1}}
	}
	if err := c.Store.IndexBlock(br); err != nil {
		c.FSM.Reset()
		return err
	}
	c.FSM.Reset()
	return nil
}

// StepX is Step with nested-chain inputs: the root dex cache is set before BOTH ApplyBlocks
// (proposer copy and replica), exactly where controller.ProduceProposal/ValidateProposal and
// CommitCertificate call SetRootDexCache, and the certificate may carry a root-chain view and
// be signed by a root-chain committee.
func (c *Chain) StepX(s BlockSpec, o StepOpts) (*Committed, lib.ErrorI) {
	var blk *lib.Block
	var failed []*lib.FailedTx
	var err lib.ErrorI
	if s.Strict {
		// replica semantics only (what ValidateProposal / CommitCertificate do): a failing tx fails the block
		lastQC, e := c.LastQC()
		if e != nil {
			return nil, e
		}
		t := s.Time
		if t == 0 {
			t = 1_700_000_000_000_000 + c.Height()*1_000_000
		}
		blk = &lib.Block{BlockHeader: &lib.BlockHeader{Time: t, ProposerAddress: Addr(BLS(s.Proposer)).Bytes(), LastQuorumCertificate: lastQC}, Transactions: s.Txs}
	} else {
		c.FSM.Reset()
		c.FSM.SetRootDexCache(o.RootDex) // Copy() hands the same pointer to the proposer's copy
		var res *lib.ApplyBlockResults
		blk, res, err = c.Propose(s)
		if err != nil {
			c.FSM.Reset()
			return nil, err
		}
		failed = res.Failed
	}
	// --- replica side: mirror of CommitBlock with the cache restored after Reset
	c.FSM.Reset()
	c.FSM.SetRootDexCache(o.RootDex)
	st := c.FSM.Store().(lib.StoreI)
	if blk.BlockHeader.LastQuorumCertificate != nil {
		if err = st.IndexQC(blk.BlockHeader.LastQuorumCertificate); err != nil {
			c.FSM.Reset()
			return nil, err
		}
	}
	proposed := blk.BlockHeader
	hdr, ares, err := c.FSM.ApplyBlock(context.Background(), blk, false)
	if err != nil {
		c.FSM.Reset()
		return nil, err
	}
	if len(ares.Failed) != 0 {
		c.FSM.Reset()
		return nil, lib.ErrFailedTransactions()
	}
	if len(proposed.Hash) != 0 && !bytes.Equal(proposed.Hash, hdr.Hash) {
		c.FSM.Reset()
		return nil, lib.ErrUnequalBlockHash()
	}
	blk.BlockHeader = hdr
	br := &lib.BlockResult{BlockHeader: hdr, Transactions: ares.Results, Events: ares.Events}
	rf := s.Results
	if rf == nil {
		rf = DefaultResults
	}
	results := rf(c, blk, br)
	vs := o.Committee
	if vs == nil {
		v, e := c.Committee()
		if e != nil {
			c.FSM.Reset()
			return nil, e
		}
		vs = &v
	}
	view := o.View
	if view == nil {
		view = &lib.View{NetworkId: uint64(c.Cfg.P2PConfig.NetworkID), ChainId: c.Cfg.ChainId, Height: hdr.Height, RootHeight: hdr.Height, Round: s.Round, Phase: lib.Phase_PRECOMMIT_VOTE}
	}
	qc, err := MakeQC(*vs, view, blk, results, BLS(s.Proposer).PublicKey().Bytes(), s.Signers)
	if err != nil {
		c.FSM.Reset()
		return nil, err
	}
	if err = st.IndexQC(qc); err != nil {
		c.FSM.Reset()
		return nil, err
	}
	if err = st.IndexBlock(br); err != nil {
		c.FSM.Reset()
		return nil, err
	}
	root, err := st.Commit()
	if err != nil {
		c.FSM.Reset()
		return nil, err
	}
	c.FSM, err = fsm.New(c.Cfg, st, nil, nil, c.Log)
	if err != nil {
		return nil, err
	}
	cm := &Committed{Height: hdr.Height, Block: blk, BlockResult: br, QC: qc, Root: root, Failed: failed}
	c.Committed[hdr.Height] = cm
	return cm, nil
}

// IsFailedTxs reports whether err is the "block contains a failing transaction" error of the strict path.
func IsFailedTxs(err lib.ErrorI) bool {
	return err != nil && err.Code() == lib.ErrFailedTransactions().Code() && err.Module() == lib.ErrFailedTransactions().Module()
}

// StepFast commits the next block with ONE ApplyBlock when every transaction succeeds (replica
// semantics, Strict) and falls back to the proposer path (failing txs dropped, then replica
// semantics) when one fails. The committed block is the same either way; only the proposer's
// private dry run is skipped.
func (c *Chain) StepFast(s BlockSpec, o *StepOpts) (*Committed, lib.ErrorI) {
	s.Strict = true
	var cm *Committed
	var err lib.ErrorI
	if o != nil {
		cm, err = c.StepX(s, *o)
	} else {
		cm, err = c.Step(s)
	}
	if err == nil || !IsFailedTxs(err) {
		return cm, err
	}
	s.Strict = false
	if o != nil {
		return c.StepX(s, *o)
	}
	return c.Step(s)
}
