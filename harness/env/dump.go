package env

import (
	"crypto/sha256"
	"encoding/hex"
	"fmt"
	"math/big"
	"sort"
	"strings"

	"github.com/canopy-network/canopy/fsm"
	"github.com/canopy-network/canopy/lib"
)

// KV is one raw state entry.
type KV struct{ K, V []byte }

// RawState scans every key/value pair visible through the FSM's store (pending writes included).
func RawState(sm *fsm.StateMachine) ([]KV, lib.ErrorI) {
	it, err := sm.Iterator(nil)
	if err != nil {
		return nil, err
	}
	defer it.Close()
	var out []KV
	for ; it.Valid(); it.Next() {
		out = append(out, KV{append([]byte{}, it.Key()...), append([]byte{}, it.Value()...)})
	}
	sort.Slice(out, func(i, j int) bool { return string(out[i].K) < string(out[j].K) })
	return out, nil
}

// DumpState renders the raw state as a canonical string; StateKey is its hash.
func DumpState(sm *fsm.StateMachine) (string, lib.ErrorI) {
	kvs, err := RawState(sm)
	if err != nil {
		return "", err
	}
	var sb strings.Builder
	for _, kv := range kvs {
		fmt.Fprintf(&sb, "%x=%x\n", kv.K, kv.V)
	}
	return sb.String(), nil
}

func StateKey(sm *fsm.StateMachine) (string, lib.ErrorI) {
	d, err := DumpState(sm)
	if err != nil {
		return "", err
	}
	h := sha256.Sum256([]byte(d))
	return hex.EncodeToString(h[:16]), nil
}

// Ledger is the token-level view of a state.
type Ledger struct {
	Accounts   map[string]uint64 // hex address -> amount
	Pools      map[uint64]uint64
	Stakes     map[string]uint64 // hex validator address -> stake
	Supply     *fsm.Supply
	SumAll     *big.Int // accounts + pools + stakes
	Validators []*fsm.Validator
}

// ReadLedger extracts accounts, pools, validators and the supply record from the state.
func ReadLedger(sm *fsm.StateMachine) (*Ledger, lib.ErrorI) {
	l := &Ledger{Accounts: map[string]uint64{}, Pools: map[uint64]uint64{}, Stakes: map[string]uint64{}, SumAll: new(big.Int)}
	accs, err := sm.GetAccounts()
	if err != nil {
		return nil, err
	}
	for _, a := range accs {
		l.Accounts[hex.EncodeToString(a.Address)] = a.Amount
		l.SumAll.Add(l.SumAll, new(big.Int).SetUint64(a.Amount))
	}
	pools, err := sm.GetPools()
	if err != nil {
		return nil, err
	}
	for _, p := range pools {
		l.Pools[p.Id] = p.Amount
		l.SumAll.Add(l.SumAll, new(big.Int).SetUint64(p.Amount))
	}
	vals, err := sm.GetValidators()
	if err != nil {
		return nil, err
	}
	l.Validators = vals
	for _, v := range vals {
		l.Stakes[hex.EncodeToString(v.Address)] = v.StakedAmount
		l.SumAll.Add(l.SumAll, new(big.Int).SetUint64(v.StakedAmount))
	}
	if l.Supply, err = sm.GetSupply(); err != nil {
		return nil, err
	}
	return l, nil
}
