package env

import (
	"bytes"
	"testing"
	"time"

	"github.com/canopy-network/canopy/fsm"
	"github.com/canopy-network/canopy/lib"
)

// Driver self-test: three nodes, two blocks, propose -> validate -> certify -> commit (cached and
// replay) -> serve -> sync. Run alone: go test -tags verif -run NodeSmoke ./env/
func TestNodeSmoke(t *testing.T) {
	g := NewGenesis(map[int]uint64{0: 1_000_000_000, 1: 1_000_000_000, 10: 5_000_000},
		[]ValSpec{{Key: 0, Stake: 1_000_000, OutputKey: -1}, {Key: 1, Stake: 1_000_000, OutputKey: -1}, {Key: 2, Stake: 1_000_000, OutputKey: -1}, {Key: 3, Stake: 1_000_000, OutputKey: -1}}, nil)
	a, err := NewNode(g, NodeOpts{Name: "A", Key: 0})
	if err != nil {
		t.Fatal(err)
	}
	defer a.Close()
	b, err := NewNode(g, NodeOpts{Name: "B", Key: 1})
	if err != nil {
		t.Fatal(err)
	}
	defer b.Close()
	c, err := NewNode(g, NodeOpts{Name: "C", Key: 2})
	if err != nil {
		t.Fatal(err)
	}
	defer c.Close()
	for blk := 0; blk < 3; blk++ {
		t0 := time.Now()
		tx, e := fsm.NewSendTransaction(BLS(10), Addr(BLS(11)), 1000+uint64(blk), NetworkID, ChainID, 10000, a.Height(), "")
		if e != nil {
			t.Fatal(e)
		}
		bz, _ := lib.Marshal(tx)
		for i, e := range a.SubmitTxs(bz) {
			if e != nil {
				t.Fatalf("submit %d: %v", i, e)
			}
		}
		p, e := a.Propose()
		if e != nil {
			t.Fatalf("propose: %v", e)
		}
		if len(p.Block.Transactions) != 1 {
			t.Fatalf("block %d has %d txs", blk, len(p.Block.Transactions))
		}
		if _, e = b.ValidateProposal(p, 0, blk%2 == 0); e != nil {
			t.Fatalf("validate: %v", e)
		}
		qc, e := a.Certify(p, 0, []int{0, 1, 2}, 0)
		if e != nil {
			t.Fatal(e)
		}
		if e = b.CommitViaPeerBlock(qc, false); e != nil {
			t.Fatalf("B commit: %v", e)
		}
		if e = a.CommitViaPeerBlock(qc, false); e != nil {
			t.Fatalf("A commit: %v", e)
		}
		ha, _ := a.LastHeader()
		hb, _ := b.LastHeader()
		if !bytes.Equal(ha.Hash, hb.Hash) || !bytes.Equal(ha.Hash, p.Block.BlockHeader.Hash) {
			t.Fatalf("hash mismatch")
		}
		t.Logf("block %d committed in %v (rc=%d) calls=%v", blk+1, time.Since(t0), p.RCBuildHeight, a.RC.Calls)
	}
	for h := uint64(1); h < a.Height(); h++ {
		msg, e := a.Serve(h)
		if e != nil {
			t.Fatal(e)
		}
		msg, e = WireCopy(msg)
		if e != nil {
			t.Fatal(e)
		}
		if e = c.HandlePeerBlock(msg, true); e != nil {
			t.Fatalf("C sync %d: %v", h, e)
		}
	}
	if e := b.Restart(); e != nil {
		t.Fatal(e)
	}
	hb, _ := b.LastHeader()
	hc, _ := c.LastHeader()
	if !bytes.Equal(hb.Hash, hc.Hash) || b.Height() != c.Height() {
		t.Fatalf("C/B mismatch")
	}
}
