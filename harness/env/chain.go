package env

import (
	"bytes"
	"context"
	"encoding/json"
	"fmt"
	"os"
	"path/filepath"

	"github.com/canopy-network/canopy/fsm"
	"github.com/canopy-network/canopy/lib"
	"github.com/canopy-network/canopy/lib/crypto"
	"github.com/canopy-network/canopy/store"
)

// Chain is one node driven on the "direct path": exactly the store/FSM calls that
// controller.CommitCertificate performs (CheckAndSetLastCertificate's IndexQC, ApplyBlock,
// IndexQC, IndexBlock, Commit, fsm.New) without mempool, p2p or bft around them.
type Chain struct {
	Cfg       lib.Config
	Dir       string
	Store     *store.Store
	FSM       *fsm.StateMachine
	Log       lib.LoggerI
	Committed map[uint64]*Committed // by block height
	ownDir    bool
}

// Committed records what was committed at a height.
type Committed struct {
	Height      uint64
	Block       *lib.Block
	BlockResult *lib.BlockResult
	QC          *lib.QuorumCertificate
	Root        []byte // state root returned by store.Commit
	Failed      []*lib.FailedTx
}

const (
	ChainID   = uint64(1)
	NetworkID = uint64(1)
)

// BaseConfig returns a config for an in-memory node with its data dir at dir.
func BaseConfig(dir string) lib.Config {
	c := lib.DefaultConfig()
	c.DataDirPath = dir
	c.ChainId = ChainID
	c.P2PConfig.NetworkID = NetworkID
	c.StoreConfig.InMemory = true
	c.RunVDF = false
	c.LazyMempoolCheckFrequencyS = 0
	return c
}

// ValSpec describes a genesis validator.
type ValSpec struct {
	Key        int // BLS key index (operator)
	Stake      uint64
	Committees []uint64
	Delegate   bool
	OutputKey  int // BLS key index of the output address; -1 = same as operator
	Compound   bool
	MaxPaused  uint64
	Unstaking  uint64
}

// NewGenesis builds a genesis state: accounts[i] funds BLS(i)'s address.
func NewGenesis(accounts map[int]uint64, vals []ValSpec, tweak func(p *fsm.Params)) *fsm.GenesisState {
	g := &fsm.GenesisState{Time: 1_700_000_000_000_000, Params: fsm.DefaultParams()}
	g.Params.Consensus.RootChainId = ChainID
	if tweak != nil {
		tweak(g.Params)
	}
	idx := make([]int, 0, len(accounts))
	for i := range accounts {
		idx = append(idx, i)
	}
	sortInts(idx)
	for _, i := range idx {
		g.Accounts = append(g.Accounts, &fsm.Account{Address: Addr(BLS(i)).Bytes(), Amount: accounts[i]})
	}
	for _, v := range vals {
		out := v.Key
		if v.OutputKey >= 0 {
			out = v.OutputKey
		}
		cs := v.Committees
		if cs == nil {
			cs = []uint64{ChainID}
		}
		g.Validators = append(g.Validators, &fsm.Validator{
			Address: Addr(BLS(v.Key)).Bytes(), PublicKey: BLS(v.Key).PublicKey().Bytes(), NetAddress: fmt.Sprintf("tcp://v%d", v.Key),
			StakedAmount: v.Stake, Committees: cs, Output: Addr(BLS(out)).Bytes(), Delegate: v.Delegate, Compound: v.Compound,
			MaxPausedHeight: v.MaxPaused, UnstakingHeight: v.Unstaking,
		})
	}
	return g
}

func sortInts(a []int) {
	for i := 1; i < len(a); i++ {
		for j := i; j > 0 && a[j] < a[j-1]; j-- {
			a[j], a[j-1] = a[j-1], a[j]
		}
	}
}

// NewChain creates a fresh in-memory node from a genesis state.
func NewChain(g *fsm.GenesisState, cfgTweak ...func(*lib.Config)) (*Chain, error) {
	dir, err := os.MkdirTemp("", "verif-chain-")
	if err != nil {
		return nil, err
	}
	bz, err := json.Marshal(g)
	if err != nil {
		return nil, err
	}
	if err = os.WriteFile(filepath.Join(dir, lib.GenesisFilePath), bz, 0o644); err != nil {
		return nil, err
	}
	cfg := BaseConfig(dir)
	for _, t := range cfgTweak {
		t(&cfg)
	}
	log := lib.NewNullLogger()
	st, e := store.NewStoreInMemory(log, cfg)
	if e != nil {
		return nil, e
	}
	sm, e := fsm.New(cfg, st, nil, nil, log)
	if e != nil {
		return nil, e
	}
	return &Chain{Cfg: cfg, Dir: dir, Store: st.(*store.Store), FSM: sm, Log: log, Committed: map[uint64]*Committed{}, ownDir: true}, nil
}

// Close releases the store and removes the temp dir.
func (c *Chain) Close() {
	func() {
		defer func() { _ = recover() }()
		_ = c.Store.Close()
	}()
	if c.ownDir {
		_ = os.RemoveAll(c.Dir)
	}
}

// Height is the height of the next block.
func (c *Chain) Height() uint64 { return c.FSM.Height() }

// BlockSpec describes the next block.
type BlockSpec struct {
	Txs      [][]byte
	Proposer int // BLS key index of the proposer
	Time     uint64
	// Results builds the certificate results for this block (default: 100% reward to the proposer).
	Results func(c *Chain, blk *lib.Block, br *lib.BlockResult) *lib.CertificateResult
	// Signers are BLS key indices that sign the certificate (nil = whole committee).
	Signers []int
	Round   uint64
	// Strict applies the txs with allowOversize=false directly (replica semantics: a failing tx fails the block).
	Strict bool
}

// LastQC returns the certificate to embed as LastQuorumCertificate of the next block.
func (c *Chain) LastQC() (*lib.QuorumCertificate, lib.ErrorI) {
	if c.Height() <= 1 {
		return nil, nil
	}
	return c.FSM.LoadCertificateHashesOnly(c.Height() - 1)
}

// Committee returns the committee in force for the next block (own-root chain: state as of now).
func (c *Chain) Committee() (lib.ValidatorSet, lib.ErrorI) {
	return c.FSM.LoadCommittee(c.Cfg.ChainId, c.Height())
}

// DefaultResults pays 100% of the committee reward to the proposer.
func DefaultResults(c *Chain, blk *lib.Block, _ *lib.BlockResult) *lib.CertificateResult {
	return &lib.CertificateResult{
		RewardRecipients: &lib.RewardRecipients{PaymentPercents: []*lib.PaymentPercents{{Address: blk.BlockHeader.ProposerAddress, Percent: 100, ChainId: c.Cfg.ChainId}}},
		SlashRecipients:  &lib.SlashRecipients{},
	}
}

// Propose builds the next block the way a proposer does: ApplyBlock with allowOversize on a
// COPY of the FSM (failing txs are dropped), returning the block with its final header.
func (c *Chain) Propose(s BlockSpec) (*lib.Block, *lib.ApplyBlockResults, lib.ErrorI) {
	cp, err := c.FSM.Copy()
	if err != nil {
		return nil, nil, err
	}
	defer cp.Discard()
	lastQC, err := c.LastQC()
	if err != nil {
		return nil, nil, err
	}
	t := s.Time
	if t == 0 {
		t = 1_700_000_000_000_000 + c.Height()*1_000_000
	}
	blk := &lib.Block{
		BlockHeader:  &lib.BlockHeader{Time: t, ProposerAddress: Addr(BLS(s.Proposer)).Bytes(), LastQuorumCertificate: lastQC},
		Transactions: s.Txs,
	}
	if lastQC != nil {
		if err = cp.Store().(lib.StoreI).IndexQC(lastQC); err != nil {
			return nil, nil, err
		}
	}
	hdr, res, err := cp.ApplyBlock(context.Background(), blk, true)
	if err != nil {
		return nil, nil, err
	}
	blk.BlockHeader = hdr
	return blk, res, nil
}

// MakeQC builds a commit certificate for blk signed by the given committee members.
func (c *Chain) MakeQC(blk *lib.Block, results *lib.CertificateResult, proposer int, signers []int, round uint64) (*lib.QuorumCertificate, lib.ErrorI) {
	vs, err := c.Committee()
	if err != nil {
		return nil, err
	}
	return MakeQC(vs, &lib.View{NetworkId: uint64(c.Cfg.P2PConfig.NetworkID), ChainId: c.Cfg.ChainId, Height: blk.BlockHeader.Height,
		RootHeight: blk.BlockHeader.Height, Round: round, Phase: lib.Phase_PRECOMMIT_VOTE}, blk, results, BLS(proposer).PublicKey().Bytes(), signers)
}

// MakeQC signs (view, block hash, results hash, proposer key) with the listed BLS key
// indices (nil = every member of vs) and aggregates with the true bitmap.
func MakeQC(vs lib.ValidatorSet, view *lib.View, blk *lib.Block, results *lib.CertificateResult, proposerKey []byte, signers []int) (*lib.QuorumCertificate, lib.ErrorI) {
	blkBz, err := lib.Marshal(blk)
	if err != nil {
		return nil, err
	}
	resBz, err := lib.Marshal(results)
	if err != nil {
		return nil, err
	}
	qc := &lib.QuorumCertificate{Header: view, Results: results, ResultsHash: crypto.Hash(resBz), Block: blkBz, BlockHash: blk.BlockHeader.Hash, ProposerKey: proposerKey}
	sb := qc.SignBytes()
	mk := vs.MultiKey.Copy()
	want := map[string]bool{}
	for _, s := range signers {
		want[string(BLS(s).PublicKey().Bytes())] = true
	}
	for i, v := range vs.ValidatorSet.ValidatorSet {
		if signers != nil && !want[string(v.PublicKey)] {
			continue
		}
		k := KeyForPub(v.PublicKey)
		if k == nil {
			return nil, lib.NewError(lib.CodeInvalidArgument, lib.ConsensusModule, "harness: no private key for committee member")
		}
		if e := mk.AddSigner(k.Sign(sb), i); e != nil {
			return nil, lib.NewError(lib.CodeInvalidArgument, lib.ConsensusModule, e.Error())
		}
	}
	sig, e := mk.AggregateSignatures()
	if e != nil {
		return nil, lib.NewError(lib.CodeInvalidArgument, lib.ConsensusModule, e.Error())
	}
	qc.Signature = &lib.AggregateSignature{Signature: sig, Bitmap: mk.Bitmap()}
	return qc, nil
}

// KeyForPub finds the deterministic BLS key (index < 64) with this public key.
func KeyForPub(pub []byte) crypto.PrivateKeyI {
	for i := 0; i < 64; i++ {
		if bytes.Equal(BLS(i).PublicKey().Bytes(), pub) {
			return BLS(i)
		}
	}
	return nil
}

// Step proposes, certifies and commits the next block. Proposer semantics by default
// (failing transactions are dropped from the block, as CheckMempool does).
func (c *Chain) Step(s BlockSpec) (*Committed, lib.ErrorI) {
	var blk *lib.Block
	var failed []*lib.FailedTx
	if s.Strict {
		lastQC, err := c.LastQC()
		if err != nil {
			return nil, err
		}
		t := s.Time
		if t == 0 {
			t = 1_700_000_000_000_000 + c.Height()*1_000_000
		}
		blk = &lib.Block{BlockHeader: &lib.BlockHeader{Time: t, ProposerAddress: Addr(BLS(s.Proposer)).Bytes(), LastQuorumCertificate: lastQC}, Transactions: s.Txs}
	} else {
		b, res, err := c.Propose(s)
		if err != nil {
			return nil, err
		}
		blk, failed = b, res.Failed
	}
	return c.CommitBlock(blk, s, failed)
}

// CommitBlock validates blk on the main FSM with replica semantics and commits it.
func (c *Chain) CommitBlock(blk *lib.Block, s BlockSpec, failed []*lib.FailedTx) (*Committed, lib.ErrorI) {
	c.FSM.Reset()
	st := c.FSM.Store().(lib.StoreI)
	if blk.BlockHeader.LastQuorumCertificate != nil {
		if err := st.IndexQC(blk.BlockHeader.LastQuorumCertificate); err != nil {
			c.FSM.Reset()
			return nil, err
		}
	}
	proposed := blk.BlockHeader
	hdr, res, err := c.FSM.ApplyBlock(context.Background(), blk, false)
	if err != nil {
		c.FSM.Reset()
		return nil, err
	}
	if len(res.Failed) != 0 {
		c.FSM.Reset()
		return nil, lib.ErrFailedTransactions()
	}
	if len(proposed.Hash) != 0 && !bytes.Equal(proposed.Hash, hdr.Hash) {
		c.FSM.Reset()
		return nil, lib.ErrUnequalBlockHash()
	}
	blk.BlockHeader = hdr
	br := &lib.BlockResult{BlockHeader: hdr, Transactions: res.Results, Events: res.Events}
	rf := s.Results
	if rf == nil {
		rf = DefaultResults
	}
	results := rf(c, blk, br)
	qc, err := c.MakeQC(blk, results, s.Proposer, s.Signers, s.Round)
	if err != nil {
		c.FSM.Reset()
		return nil, err
	}
	if err = st.IndexQC(qc); err != nil {
		c.FSM.Reset()
		return nil, err
	}
	if err = st.IndexBlock(br); err != nil {
		c.FSM.Reset()
		return nil, err
	}
	root, err := st.Commit()
	if err != nil {
		c.FSM.Reset()
		return nil, err
	}
	c.FSM, err = fsm.New(c.Cfg, st, nil, nil, c.Log)
	if err != nil {
		return nil, err
	}
	cm := &Committed{Height: hdr.Height, Block: blk, BlockResult: br, QC: qc, Root: root, Failed: failed}
	c.Committed[hdr.Height] = cm
	return cm, nil
}
