package env

import (
	"bytes"
	"context"
	"encoding/json"
	"fmt"
	"math"
	"os"
	"path/filepath"
	"reflect"
	"slices"
	"sync"
	"sync/atomic"
	"time"
	"unsafe"

	"github.com/allegro/bigcache/v3"
	"github.com/canopy-network/canopy/bft"
	"github.com/canopy-network/canopy/controller"
	"github.com/canopy-network/canopy/fsm"
	"github.com/canopy-network/canopy/lib"
	"github.com/canopy-network/canopy/lib/crypto"
	"github.com/canopy-network/canopy/store"
)

// Node is a controller-level node: a real controller.Controller (controller.New) on a real
// in-memory store.Store + fsm.StateMachine built from an env genesis, with the root-chain
// manager replaced by MockRC (own-root chain: the root chain is the node's own FSM).
// Nothing is started (no p2p sockets, no bft goroutine, no mempool timer): the harness calls
// the controller's exported entry points in the order the bft/p2p listeners would.
//
// What the harness does by hand because bft.Start never runs:
//   - Consensus.ValidatorSet / CommitteeData / View.Height are refreshed before every
//     proposal or validation (bft.RefreshRootChainInfo does this at every new height);
//   - Consensus.BlockResult is set from ValidateProposal's result (bft.StartProposeVotePhase);
//   - the governance vote mode: controller.currentProposalVoteConfig() returns APPROVE_LIST
//     only while time.Now() < bft.deadlineMs, a value that only bft.Start writes. With
//     bft.Start not running deadlineMs==0 and the `deadline != 0 &&` guard short-circuits
//     before the clock is read: the mode is REJECT_ALL, deterministically. NodeOpts.ApproveList
//     stores math.MaxInt64 into that (unexported) atomic instead, which makes the mode
//     APPROVE_LIST for every clock value. Either way the wall clock never decides anything.
//
// Process-wide state: store.blockCache (LRU keyed by height only) and crypto.SignatureCache
// are shared by every node in the process. A world with several nodes must call
// (*Node).Enter() whenever it switches from one node to another; it purges both so that a
// node can only see what its own database holds. One world per process (mc worker).
type Node struct {
	Name string
	Cfg  lib.Config
	Dir  string
	Ctrl *controller.Controller
	RC   *MockRC
	Log  lib.LoggerI
	Key  int
	Opts NodeOpts

	ownDir bool
}

// NodeOpts configures NewNode.
type NodeOpts struct {
	Name string
	// Key is the BLS key index of the node's validator identity.
	Key int
	// ApproveList selects the governance vote mode used for proposals/validations:
	// false = REJECT_ALL, true = APPROVE_LIST (proposals.json in the data dir).
	ApproveList bool
	// Proposals is written to <datadir>/proposals.json (nil = no file).
	Proposals fsm.GovProposals
	// Cfg tweaks the node config before anything is built.
	Cfg func(*lib.Config)
	// Checkpoints is written to <datadir>/checkpoints.json: chainId -> height -> block hash.
	Checkpoints map[uint64]map[uint64]lib.HexBytes
}

var currentNode *Node

var smallSigCache sync.Once

// PurgeProcessCaches empties the process-wide block LRU and signature cache. The first call
// replaces canopy's 1024-shard signature cache (whose Reset re-allocates every shard,
// ~15 ms) by an instance with the same semantics and 16 shards, so that a purge is cheap.
func PurgeProcessCaches() {
	smallSigCache.Do(func() {
		c, err := bigcache.New(context.Background(), bigcache.Config{Shards: 16, LifeWindow: time.Hour, CleanWindow: 0,
			MaxEntriesInWindow: 4096, MaxEntrySize: 1000, HardMaxCacheSize: 64, Verbose: false})
		if err != nil {
			panic(err)
		}
		crypto.SignatureCache = c
	})
	store.VerifC09PurgeBlockCache()
	_ = crypto.SignatureCache.Reset()
}

// Enter must be called before a different node of the same process is used (role switch).
func (n *Node) Enter() {
	if currentNode != n {
		PurgeProcessCaches()
		currentNode = n
	}
}

// NewNode builds a node at genesis.
func NewNode(g *fsm.GenesisState, o NodeOpts) (*Node, error) {
	dir, err := os.MkdirTemp("", "verif-node-")
	if err != nil {
		return nil, err
	}
	bz, err := json.Marshal(g)
	if err != nil {
		return nil, err
	}
	if err = os.WriteFile(filepath.Join(dir, lib.GenesisFilePath), bz, 0o644); err != nil {
		return nil, err
	}
	if o.Proposals != nil {
		if e := o.Proposals.SaveToFile(dir); e != nil {
			return nil, e
		}
	}
	if o.Checkpoints != nil {
		cb, _ := json.Marshal(o.Checkpoints)
		if err = os.WriteFile(filepath.Join(dir, "checkpoints.json"), cb, 0o644); err != nil {
			return nil, err
		}
	}
	cfg := BaseConfig(dir)
	if o.Cfg != nil {
		o.Cfg(&cfg)
	}
	n := &Node{Name: o.Name, Cfg: cfg, Dir: dir, Log: lib.NewNullLogger(), Key: o.Key, Opts: o, ownDir: true}
	n.Enter()
	st, e := store.NewStoreInMemory(n.Log, cfg)
	if e != nil {
		return nil, e
	}
	if e = n.boot(st); e != nil {
		return nil, e
	}
	return n, nil
}

// boot builds fsm + controller on a store (fresh or re-opened).
func (n *Node) boot(st lib.StoreI) lib.ErrorI {
	sm, e := fsm.New(n.Cfg, st, nil, nil, n.Log)
	if e != nil {
		return e
	}
	ctrl, e := controller.New(sm, n.Cfg, BLS(n.Key), nil, n.Log)
	if e != nil {
		return e
	}
	n.Ctrl = ctrl
	n.RC = &MockRC{node: n}
	ctrl.RCManager = n.RC
	if n.Opts.ApproveList {
		setDeadline(ctrl.Consensus, math.MaxInt64)
	}
	// controller.Start(): the first mempool check happens as soon as root-chain info is
	// available, before any listener runs (it also installs Mempool.stop, which
	// CommitCertificate calls unconditionally on a non-syncing node)
	reset := ctrl.SetFSMInConsensusModeForProposals()
	e = ctrl.Mempool.CheckMempool()
	reset()
	return e
}

// setDeadline writes bft.BFT.deadlineMs (unexported atomic.Int64; only bft.Start writes it in production).
func setDeadline(b *bft.BFT, v int64) {
	f := reflect.ValueOf(b).Elem().FieldByName("deadlineMs")
	if !f.IsValid() {
		panic("harness: bft.BFT.deadlineMs not found (canopy changed)")
	}
	(*atomic.Int64)(unsafe.Pointer(f.UnsafeAddr())).Store(v)
}

// Restart drops every in-memory layer of canopy (store object with its pending batch and
// caches, FSM, mempool, controller, the process-wide caches) and rebuilds them from the
// node's database, as a process restart does. pebble itself stays open (its durability is
// C09's subject; the in-memory store cannot be re-opened from outside the store package).
func (n *Node) Restart() lib.ErrorI {
	old := n.Store()
	db := old.DB()
	n.Ctrl.Mempool.FSM.Discard()
	old.Discard()
	currentNode = nil
	n.Enter()
	st, e := store.NewStoreWithDB(n.Cfg, db, nil, n.Log)
	if e != nil {
		return e
	}
	return n.boot(st)
}

// Close releases the store and removes the data dir.
func (n *Node) Close() {
	func() {
		defer func() { _ = recover() }()
		n.Ctrl.Mempool.FSM.Discard()
	}()
	func() {
		defer func() { _ = recover() }()
		_ = n.Store().Close()
	}()
	if n.ownDir {
		_ = os.RemoveAll(n.Dir)
	}
	if currentNode == n {
		currentNode = nil
	}
}

func (n *Node) FSM() *fsm.StateMachine { return n.Ctrl.FSM }
func (n *Node) Store() *store.Store    { return n.Ctrl.FSM.Store().(*store.Store) }

// Height is the height of the next block.
func (n *Node) Height() uint64 { return n.Ctrl.FSM.Height() }

// Committee returns the validator set the controller would load for rootHeight.
func (n *Node) Committee(rootHeight uint64) (lib.ValidatorSet, lib.ErrorI) {
	return n.Ctrl.LoadCommittee(n.Ctrl.LoadRootChainId(n.Height()), rootHeight)
}

// refreshBFT mirrors bft.RefreshRootChainInfo + NewHeight bookkeeping that the controller paths read.
func (n *Node) refreshBFT() lib.ErrorI {
	c := n.Ctrl
	b := c.Consensus
	b.Height = c.ChainHeight()
	b.RootHeight = c.RootChainHeight()
	vs, e := c.LoadCommittee(c.LoadRootChainId(b.Height), b.RootHeight)
	if e != nil {
		return e
	}
	b.ValidatorSet = vs
	cd, e := c.LoadCommitteeData()
	if e != nil {
		return e
	}
	b.CommitteeData = cd
	return nil
}

// SubmitTxs hands each transaction to Mempool.HandleTransactions on its own (a batch is
// rejected as a whole when one member is malformed) and returns the per-tx error.
func (n *Node) SubmitTxs(txs ...[]byte) []lib.ErrorI {
	n.Enter()
	out := make([]lib.ErrorI, len(txs))
	for i, tx := range txs {
		out[i] = n.Ctrl.Mempool.HandleTransactions(tx)
	}
	return out
}

// MempoolTxs lists what the mempool currently holds.
func (n *Node) MempoolTxs() [][]byte { return n.Ctrl.Mempool.GetTransactions(math.MaxUint64) }

// Proposal is what ProduceProposal returned.
type Proposal struct {
	RCBuildHeight uint64
	BlockBytes    []byte
	Block         *lib.Block
	Results       *lib.CertificateResult
	Evidence      *bft.ByzantineEvidence
}

// Propose runs controller.ProduceProposal (never call on a node whose Syncing() flag is set:
// CommitCertificate does not refresh the mempool FSM while syncing).
func (n *Node) Propose(evidence ...*bft.DoubleSignEvidence) (*Proposal, lib.ErrorI) {
	return n.ProposeVDF(nil, evidence...)
}

// GoodVDF computes a (tiny) valid verifiable-delay proof over the hash of the node's last certified block, the
// seed controller.ProduceProposal / ApplyAndValidateBlock verify it against.
func (n *Node) GoodVDF(iterations int) (*crypto.VDF, lib.ErrorI) {
	last, e := n.Ctrl.FSM.LoadCertificateHashesOnly(n.Ctrl.FSM.Height() - 1)
	if e != nil {
		return nil, e
	}
	out, proof := crypto.GenerateVDF(last.BlockHash, iterations, nil)
	return &crypto.VDF{Proof: proof, Output: out, Iterations: uint64(iterations)}, nil
}

// ProposeVDF is Propose with the VDF the bft module would hand to the leader (nil = none).
func (n *Node) ProposeVDF(vdf *crypto.VDF, evidence ...*bft.DoubleSignEvidence) (*Proposal, lib.ErrorI) {
	n.Enter()
	if n.Ctrl.Syncing().Load() {
		return nil, lib.NewError(lib.CodeInvalidArgument, lib.ConsensusModule, "harness: Propose on a syncing node")
	}
	if e := n.refreshBFT(); e != nil {
		return nil, e
	}
	be := &bft.ByzantineEvidence{DSE: bft.NewDSE(evidence)}
	rc, blkBz, res, e := n.Ctrl.ProduceProposal(be, vdf)
	if e != nil {
		return nil, e
	}
	blk := new(lib.Block)
	if e = lib.Unmarshal(blkBz, blk); e != nil {
		return nil, e
	}
	return &Proposal{RCBuildHeight: rc, BlockBytes: blkBz, Block: blk, Results: res, Evidence: be}, nil
}

// View builds the header of a certificate for the node's next height.
func (n *Node) View(rootHeight, round uint64, phase lib.Phase) *lib.View {
	return &lib.View{NetworkId: n.Cfg.NetworkID, ChainId: n.Cfg.ChainId, Height: n.Height(), RootHeight: rootHeight, Round: round, Phase: phase}
}

// ProposalQC is the (unsigned) certificate a leader's PROPOSE message carries.
func ProposalQC(p *Proposal, view *lib.View, proposerKey []byte) *lib.QuorumCertificate {
	return &lib.QuorumCertificate{Header: view, Results: p.Results, ResultsHash: p.Results.Hash(), Block: p.BlockBytes,
		BlockHash: p.Block.BlockHeader.Hash, ProposerKey: proposerKey}
}

// Certify builds the commit certificate (phase PRECOMMIT_VOTE, RootHeight = rcBuildHeight)
// for a proposal, signed by signers (BLS key indices; nil = the whole committee in force at
// that root height according to THIS node).
func (n *Node) Certify(p *Proposal, proposer int, signers []int, round uint64) (*lib.QuorumCertificate, lib.ErrorI) {
	n.Enter()
	vs, e := n.Committee(p.RCBuildHeight)
	if e != nil {
		return nil, e
	}
	view := &lib.View{NetworkId: n.Cfg.NetworkID, ChainId: n.Cfg.ChainId, Height: p.Block.BlockHeader.Height, RootHeight: p.RCBuildHeight, Round: round, Phase: lib.Phase_PRECOMMIT_VOTE}
	return SignQC(vs, &lib.QuorumCertificate{Header: view, Results: p.Results, ResultsHash: p.Results.Hash(), Block: p.BlockBytes,
		BlockHash: p.Block.BlockHeader.Hash, ProposerKey: BLS(proposer).PublicKey().Bytes()}, signers)
}

var (
	pubIndexOnce sync.Once
	pubIndex     map[string]crypto.PrivateKeyI
)

// keyForPubFast is KeyForPub with the 64 public keys derived once per process.
func keyForPubFast(pub []byte) crypto.PrivateKeyI {
	pubIndexOnce.Do(func() {
		pubIndex = map[string]crypto.PrivateKeyI{}
		for i := 0; i < 64; i++ {
			pubIndex[string(BLS(i).PublicKey().Bytes())] = BLS(i)
		}
	})
	return pubIndex[string(pub)]
}

// SignQC signs qc.SignBytes() with the listed BLS key indices (nil = every member of vs)
// and attaches the aggregate with its true bitmap. qc is modified and returned.
func SignQC(vs lib.ValidatorSet, qc *lib.QuorumCertificate, signers []int) (*lib.QuorumCertificate, lib.ErrorI) {
	sb := qc.SignBytes()
	mk := vs.MultiKey.Copy()
	want := map[string]bool{}
	for _, s := range signers {
		want[string(BLS(s).PublicKey().Bytes())] = true
	}
	for i, v := range vs.ValidatorSet.ValidatorSet {
		if signers != nil && !want[string(v.PublicKey)] {
			continue
		}
		k := keyForPubFast(v.PublicKey)
		if k == nil {
			return nil, lib.NewError(lib.CodeInvalidArgument, lib.ConsensusModule, "harness: no private key for committee member")
		}
		if e := mk.AddSigner(k.Sign(sb), i); e != nil {
			return nil, lib.NewError(lib.CodeInvalidArgument, lib.ConsensusModule, e.Error())
		}
	}
	sig, e := mk.AggregateSignatures()
	if e != nil {
		return nil, lib.NewError(lib.CodeInvalidArgument, lib.ConsensusModule, e.Error())
	}
	qc.Signature = &lib.AggregateSignature{Signature: sig, Bitmap: mk.Bitmap()}
	return qc, nil
}

// Validate runs controller.ValidateProposal on a leader's PROPOSE certificate. With
// keep=true the result is stored in Consensus.BlockResult exactly as
// bft.StartProposeVotePhase does, so that a following HandlePeerBlock of the same block
// commits with the cached result; with keep=false the FSM is reset (bft.RoundInterrupt).
func (n *Node) Validate(rcBuildHeight uint64, qc *lib.QuorumCertificate, evidence *bft.ByzantineEvidence, keep bool) (*lib.BlockResult, lib.ErrorI) {
	n.Enter()
	if e := n.refreshBFT(); e != nil {
		return nil, e
	}
	if evidence == nil {
		evidence = &bft.ByzantineEvidence{DSE: bft.NewDSE()}
	}
	br, e := n.Ctrl.ValidateProposal(rcBuildHeight, qc, evidence)
	if e != nil || !keep {
		n.RoundInterrupt()
		return br, e
	}
	n.Ctrl.Consensus.BlockResult = br
	return br, nil
}

// RoundInterrupt runs the real bft.RoundInterrupt (what the replica does when a proposal is refused or a
// phase times out): it forgets the cached block result and resets the FSM; its pacemaker message goes to
// the node's own inbox, which nobody reads here.
func (n *Node) RoundInterrupt() {
	n.Enter()
	n.Ctrl.Lock()
	n.Ctrl.Consensus.RoundInterrupt()
	n.Ctrl.Unlock()
}

// ValidateProposal is Validate for a Proposal object (PROPOSE-phase certificate, round 0).
func (n *Node) ValidateProposal(p *Proposal, proposer int, keep bool) (*lib.BlockResult, lib.ErrorI) {
	view := &lib.View{NetworkId: n.Cfg.NetworkID, ChainId: n.Cfg.ChainId, Height: p.Block.BlockHeader.Height, RootHeight: p.RCBuildHeight, Phase: lib.Phase_ELECTION_VOTE}
	return n.Validate(p.RCBuildHeight, ProposalQC(p, view, BLS(proposer).PublicKey().Bytes()), p.Evidence, keep)
}

// CommitViaPeerBlock feeds a block message to controller.HandlePeerBlock. syncing selects
// both the function argument and the controller's Syncing() flag (Sync() sets the flag for
// the whole catch-up and processQueue passes true).
func (n *Node) CommitViaPeerBlock(qc *lib.QuorumCertificate, syncing bool) lib.ErrorI {
	return n.HandlePeerBlock(&lib.BlockMessage{ChainId: n.Cfg.ChainId, BlockAndCertificate: qc, Time: 1_700_000_000_000_000}, syncing)
}

// HandlePeerBlock is the raw entry point.
func (n *Node) HandlePeerBlock(msg *lib.BlockMessage, syncing bool) lib.ErrorI {
	n.Enter()
	n.Ctrl.Syncing().Store(syncing)
	n.Store().SetSyncing(syncing)
	n.Ctrl.Lock()
	_, e := n.Ctrl.HandlePeerBlock(msg, syncing)
	n.Ctrl.Unlock()
	// a new height forgets the cached result (bft.NewHeight -> b.BlockResult = nil on reset); a refused
	// peer block does not end the round, so the cached result of the block under consensus stays
	if e == nil {
		n.Ctrl.Consensus.BlockResult = nil
	}
	return e
}

// Serve returns what ListenForBlockRequests sends for a height: LoadCertificate(height)
// wrapped by SendBlock into a BlockMessage.
func (n *Node) Serve(height uint64) (*lib.BlockMessage, lib.ErrorI) {
	n.Enter()
	qc, e := n.Ctrl.LoadCertificate(height)
	if e != nil {
		return nil, e
	}
	return &lib.BlockMessage{ChainId: n.Cfg.ChainId, MaxHeight: n.Ctrl.FSM.Height(), TotalVdfIterations: n.Ctrl.FSM.TotalVDFIterations(), BlockAndCertificate: qc}, nil
}

// WireCopy returns msg after a marshal/unmarshal round trip (what the receiver of a p2p message holds).
func WireCopy(msg *lib.BlockMessage) (*lib.BlockMessage, lib.ErrorI) {
	bz, e := lib.Marshal(msg)
	if e != nil {
		return nil, e
	}
	out := new(lib.BlockMessage)
	if e = lib.Unmarshal(bz, out); e != nil {
		return nil, e
	}
	return out, nil
}

// StateRoot returns the state root recorded in the last committed block header and the height of that block.
func (n *Node) LastHeader() (*lib.BlockHeader, lib.ErrorI) {
	if n.Height() <= 1 {
		return nil, nil
	}
	br, e := n.Ctrl.FSM.LoadBlock(n.Height() - 1)
	if e != nil {
		return nil, e
	}
	return br.BlockHeader, nil
}

// ---------------------------------------------------------------------------------------
// MockRC: lib.RCManagerI answered from the node's own FSM/database (own-root chain). Each
// method mirrors the RPC handler the production RCManager reaches through its HTTP client
// (cmd/rpc/query.go); cmd/rpc itself cannot be imported offline.
//
// NOTE the interface declares GetValidatorSet(rootChainId, height, id) but the production
// implementation (cmd/rpc/sock.go) and the only caller (controller.LoadCommittee) use
// (rootChainId, id, rootHeight): the second argument is the chain id, the third the height.

type MockRC struct {
	node *Node
	// Txs records transactions submitted through Transaction().
	Txs []lib.TransactionI
	// Calls counts calls per method (coverage reporting).
	Calls map[string]int
}

func (m *MockRC) hit(name string) {
	if m.Calls == nil {
		m.Calls = map[string]int{}
	}
	m.Calls[name]++
}

func (m *MockRC) root() *fsm.StateMachine { return m.node.Ctrl.FSM }

// at runs f on a read-only FSM at height (0 / beyond the tip = latest), as readOnlyStateFromHeightParams does.
func (m *MockRC) at(height uint64, f func(sm *fsm.StateMachine) lib.ErrorI) lib.ErrorI {
	root := m.root()
	sm, e := root.TimeMachine(height)
	if e != nil {
		return lib.ErrTimeMachine(e)
	}
	if sm != root {
		defer sm.Discard()
	}
	return f(sm)
}

// indexer runs f on a fresh store over the node's database, as Server.setupStore does.
func (m *MockRC) indexer(f func(st *store.Store) lib.ErrorI) lib.ErrorI {
	st, e := store.NewStoreWithDB(m.node.Cfg, m.node.Store().DB(), nil, m.node.Log)
	if e != nil {
		return e
	}
	defer st.Discard()
	return f(st)
}

func (m *MockRC) Publish(uint64, *lib.RootChainInfo) { m.hit("Publish") }
func (m *MockRC) ChainIds() []uint64                 { m.hit("ChainIds"); return nil }

func (m *MockRC) GetHeight(uint64) uint64 { m.hit("GetHeight"); return m.root().Height() }

func (m *MockRC) GetRootChainInfo(_, chainId uint64) (*lib.RootChainInfo, lib.ErrorI) {
	m.hit("GetRootChainInfo")
	return m.root().LoadRootChainInfo(chainId, 0)
}

func (m *MockRC) GetValidatorSet(_, id, rootHeight uint64) (vs lib.ValidatorSet, err lib.ErrorI) {
	m.hit("GetValidatorSet")
	err = m.at(rootHeight, func(sm *fsm.StateMachine) (e lib.ErrorI) {
		members, e := sm.GetCommitteeMembers(id)
		if e != nil {
			return e
		}
		// the client rebuilds the set from the wire form (cmd/rpc/client.go ValidatorSet)
		vs, e = lib.NewValidatorSet(members.ValidatorSet)
		return e
	})
	return
}

func (m *MockRC) GetLotteryWinner(_, height, id uint64) (w *lib.LotteryWinner, err lib.ErrorI) {
	m.hit("GetLotteryWinner")
	err = m.at(height, func(sm *fsm.StateMachine) (e lib.ErrorI) { w, e = sm.LotteryWinner(id); return })
	return
}

func (m *MockRC) GetOrders(_, rootHeight, id uint64) (b *lib.OrderBook, err lib.ErrorI) {
	m.hit("GetOrders")
	err = m.at(rootHeight, func(sm *fsm.StateMachine) (e lib.ErrorI) { b, e = sm.GetOrderBook(id); return })
	return
}

func (m *MockRC) GetOrder(_, height uint64, orderId string, chainId uint64) (o *lib.SellOrder, err lib.ErrorI) {
	m.hit("GetOrder")
	id, err := lib.StringToBytes(orderId)
	if err != nil {
		return nil, err
	}
	err = m.at(height, func(sm *fsm.StateMachine) (e lib.ErrorI) { o, e = sm.GetOrder(id, chainId); return })
	return
}

func (m *MockRC) GetDexBatch(_, height, committee uint64, withPoints bool) (b *lib.DexBatch, err lib.ErrorI) {
	m.hit("GetDexBatch")
	err = m.at(height, func(sm *fsm.StateMachine) (e lib.ErrorI) { b, e = sm.GetDexBatch(committee, true, withPoints); return })
	return
}

func (m *MockRC) IsValidDoubleSigner(_, height uint64, address string) (*bool, lib.ErrorI) {
	m.hit("IsValidDoubleSigner")
	a, err := lib.StringToBytes(address)
	if err != nil {
		return nil, err
	}
	var out bool
	err = m.indexer(func(st *store.Store) lib.ErrorI {
		h := height
		if h == 0 {
			h = st.Version() - 1
		}
		// last-certificate look-ahead of the RPC handler
		qc, e := st.GetQCByHeight(st.Version() - 1)
		if e != nil {
			return e
		}
		if qc.Results != nil && qc.Results.SlashRecipients != nil {
			for _, ds := range qc.Results.SlashRecipients.DoubleSigners {
				pk, e2 := crypto.NewPublicKeyFromBytes(ds.Id)
				if e2 != nil {
					continue
				}
				if bytes.Equal(pk.Address().Bytes(), a) && slices.Contains(ds.Heights, h) {
					out = false
					return nil
				}
			}
		}
		out, e = st.IsValidDoubleSigner(a, h)
		return e
	})
	if err != nil {
		return nil, err
	}
	return &out, nil
}

func (m *MockRC) GetMinimumEvidenceHeight(_, rootHeight uint64) (*uint64, lib.ErrorI) {
	m.hit("GetMinimumEvidenceHeight")
	var out uint64
	err := m.at(rootHeight, func(sm *fsm.StateMachine) (e lib.ErrorI) { out, e = sm.LoadMinimumEvidenceHeight(); return })
	if err != nil {
		return nil, err
	}
	return &out, nil
}

func (m *MockRC) GetCheckpoint(_, height, id uint64) (hash lib.HexBytes, err lib.ErrorI) {
	m.hit("GetCheckpoint")
	err = m.indexer(func(st *store.Store) (e lib.ErrorI) {
		h := height
		if h == 0 {
			h = st.Version() - 1
		}
		hash, e = st.GetCheckpoint(id, h)
		return
	})
	return
}

func (m *MockRC) Transaction(_ uint64, tx lib.TransactionI) (*string, lib.ErrorI) {
	m.hit("Transaction")
	m.Txs = append(m.Txs, tx)
	bz, err := lib.Marshal(tx)
	if err != nil {
		return nil, err
	}
	h := crypto.HashString(bz)
	return &h, nil
}

var _ lib.RCManagerI = (*MockRC)(nil)

// Describe is used in error messages.
func (n *Node) String() string {
	return fmt.Sprintf("node %s (key %d, height %d)", n.Name, n.Key, n.Height())
}
