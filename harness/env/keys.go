// Package env holds the trusted environment models shared by the chain-world harnesses:
// deterministic keys, genesis construction, a direct-path chain driver (ApplyBlock +
// IndexQC + IndexBlock + Commit, i.e. what controller.CommitCertificate does), a mock
// root-chain manager and full state dumps.
package env

import (
	"crypto/sha256"
	"encoding/binary"
	"sync"

	"github.com/canopy-network/canopy/lib/crypto"
)

func seed(kind string, i int) []byte {
	var b [8]byte
	binary.BigEndian.PutUint64(b[:], uint64(i))
	h := sha256.Sum256(append([]byte("verif-"+kind+"-"), b[:]...))
	return h[:]
}

var (
	keyMu   sync.Mutex
	blsKeys = map[int]crypto.PrivateKeyI{}
)

// BLS returns the i-th deterministic BLS12-381 key wrapped in a memoizing signer
// (BLS signing is a pure function of (key,msg), so memoization preserves semantics).
func BLS(i int) crypto.PrivateKeyI {
	keyMu.Lock()
	defer keyMu.Unlock()
	if k, ok := blsKeys[i]; ok {
		return k
	}
	s := seed("bls", i)
	s[0] &= 0x3f // keep the scalar below the group order
	k, err := crypto.BytesToBLS12381PrivateKey(s)
	if err != nil {
		panic(err)
	}
	mk := &MemoKey{PrivateKeyI: k, memo: map[string][]byte{}}
	blsKeys[i] = mk
	return mk
}

// MemoKey memoizes Sign.
type MemoKey struct {
	crypto.PrivateKeyI
	mu   sync.Mutex
	memo map[string][]byte
}

func (m *MemoKey) Sign(msg []byte) []byte {
	m.mu.Lock()
	if s, ok := m.memo[string(msg)]; ok {
		m.mu.Unlock()
		return s
	}
	m.mu.Unlock()
	s := m.PrivateKeyI.Sign(msg)
	m.mu.Lock()
	m.memo[string(msg)] = s
	m.mu.Unlock()
	return s
}

// ED returns the i-th deterministic ed25519 key.
func ED(i int) crypto.PrivateKeyI {
	s := seed("ed25519", i)
	// ed25519 private key = seed || public; derive through the std constructor
	return crypto.BytesToED25519Private(edFromSeed(s))
}

// SECP returns the i-th deterministic secp256k1 key.
func SECP(i int) crypto.PrivateKeyI {
	k, err := crypto.BytesToSECP256K1Private(seed("secp", i))
	if err != nil {
		panic(err)
	}
	return k
}

// ETH returns the i-th deterministic ethereum-style secp256k1 key.
func ETH(i int) crypto.PrivateKeyI {
	k, err := crypto.BytesToEthSECP256K1Private(seed("eth", i))
	if err != nil {
		panic(err)
	}
	return k
}

// Addr is shorthand for the address of a key.
func Addr(k crypto.PrivateKeyI) crypto.AddressI { return k.PublicKey().Address() }
