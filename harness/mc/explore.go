package mc

import (
	"fmt"
	"runtime"
	"sort"
	"sync"
	"sync/atomic"
)

// ---------------------------------------------------------------------------------------
// (a) choice-sequence DFS: the execution is a function of a finite choice sequence.

// Chooser is handed to the body; every n-way environment decision goes through Choose.
type Chooser struct {
	prefix []int
	Trace  []int // choices actually taken
	Arity  []int // arity of every choice point
	Dev    int   // number of non-zero choices (deviations from the default answer)
}

// NewChooser returns a chooser that replays prefix and answers 0 afterwards (replay of one recorded schedule).
func NewChooser(prefix []int) *Chooser { return &Chooser{prefix: append([]int{}, prefix...)} }

// Choose returns the next scripted choice (replaying the prefix) or 0 (the default).
func (c *Chooser) Choose(n int) int {
	if n <= 0 {
		panic("mc: Choose(n<=0)")
	}
	i := len(c.Trace)
	v := 0
	if i < len(c.prefix) {
		v = c.prefix[i]
		if v >= n {
			panic(fmt.Sprintf("mc: replay divergence at point %d: scripted %d, arity %d (undetected nondeterminism)", i, v, n))
		}
	}
	c.Trace = append(c.Trace, v)
	c.Arity = append(c.Arity, n)
	if v != 0 {
		c.Dev++
	}
	return v
}

// ChoiceStats summarises an ExploreChoices run.
type ChoiceStats struct {
	Executions int64
	MaxPoints  int
	Complete   bool // false if stopped by the stop callback
}

// ExploreChoices runs body for every choice sequence in lexicographic order (sequential).
// maxDev<0: unbounded; otherwise only sequences with at most maxDev non-zero choices
// (deviation bounding). stop is polled between executions.
func ExploreChoices(body func(c *Chooser), maxDev int, stop func() bool) ChoiceStats {
	return exploreFrom(nil, 0, body, maxDev, stop)
}

// exploreFrom explores the subtree below prefix; choices at index < fixed are never changed.
func exploreFrom(prefix []int, fixed int, body func(c *Chooser), maxDev int, stop func() bool) ChoiceStats {
	st := ChoiceStats{Complete: true}
	cur := append([]int{}, prefix...)
	for {
		if stop != nil && stop() {
			st.Complete = false
			return st
		}
		c := &Chooser{prefix: cur}
		body(c)
		st.Executions++
		if len(c.Trace) > st.MaxPoints {
			st.MaxPoints = len(c.Trace)
		}
		if len(c.Trace) < len(cur) {
			panic(fmt.Sprintf("mc: replay divergence: execution took %d choices, prefix has %d", len(c.Trace), len(cur)))
		}
		// find the last point that can be incremented within the deviation budget
		next := -1
		for i := len(c.Trace) - 1; i >= fixed; i-- {
			if c.Trace[i]+1 >= c.Arity[i] {
				continue
			}
			if maxDev >= 0 {
				dev := 0
				for j := 0; j < i; j++ {
					if c.Trace[j] != 0 {
						dev++
					}
				}
				if dev+1 > maxDev {
					continue
				}
			}
			next = i
			break
		}
		if next < 0 {
			return st
		}
		cur = append(append([]int{}, c.Trace[:next]...), c.Trace[next]+1)
	}
}

// ExploreChoicesParallel shards the choice tree over workers: it first enumerates all
// prefixes of length splitDepth (sequentially, by running the body), then explores each
// subtree in its own goroutine. newBody must return an independent body per worker.
func ExploreChoicesParallel(newBody func() func(c *Chooser), maxDev, splitDepth, workers int, stop func() bool) ChoiceStats {
	if workers <= 0 {
		workers = runtime.NumCPU()
	}
	// collect distinct prefixes of length<=splitDepth that are leaves or cut points
	type job struct{ prefix []int }
	var jobs []job
	probe := newBody()
	var total ChoiceStats
	total.Complete = true
	seen := map[string]bool{}
	exploreFrom(nil, 0, func(c *Chooser) {
		// wrap: run body but record only first splitDepth choices
		probe(c)
		n := splitDepth
		if len(c.Trace) < n {
			n = len(c.Trace)
		}
		k := fmt.Sprint(c.Trace[:n])
		if !seen[k] {
			seen[k] = true
			jobs = append(jobs, job{append([]int{}, c.Trace[:n]...)})
		}
		// truncate so that the enumeration only varies the first splitDepth points
		c.Trace = c.Trace[:n]
		c.Arity = c.Arity[:n]
	}, maxDev, stop)
	var wg sync.WaitGroup
	ch := make(chan job)
	var execs int64
	var maxPts int64
	var incomplete int32
	for w := 0; w < workers; w++ {
		wg.Add(1)
		go func() {
			defer wg.Done()
			body := newBody()
			for j := range ch {
				s := exploreFrom(j.prefix, len(j.prefix), body, maxDev, stop)
				atomic.AddInt64(&execs, s.Executions)
				for {
					m := atomic.LoadInt64(&maxPts)
					if int64(s.MaxPoints) <= m || atomic.CompareAndSwapInt64(&maxPts, m, int64(s.MaxPoints)) {
						break
					}
				}
				if !s.Complete {
					atomic.StoreInt32(&incomplete, 1)
				}
			}
		}()
	}
	for _, j := range jobs {
		ch <- j
	}
	close(ch)
	wg.Wait()
	total.Executions = execs
	total.MaxPoints = int(maxPts)
	total.Complete = incomplete == 0
	return total
}

// ---------------------------------------------------------------------------------------
// (c) replay-BFS over operation sequences (explicit-state; a state is identified with the
// shortest operation sequence reaching it because live objects cannot be cloned).

// ExecResult is what executing one operation path yields: the canonical key of the state
// reached (OK=false: the last operation is not enabled / the path is abandoned) and any
// violations seen on the way.
type ExecResult struct {
	Key   string `json:"k"`
	OK    bool   `json:"ok"`
	Viols []Viol `json:"v,omitempty"`
	// Info is handed back to BFSConfig.OpsFor when this state is expanded (e.g. which
	// operations are meaningful here), so that the coordinator need not know the state.
	Info string `json:"i,omitempty"`
}

// BFSJob is the wire form of one successor computation.
type BFSJob struct {
	Tag  string `json:"t"`
	Path []int  `json:"p"`
}

// BFSConfig describes one search. Exec must build a fresh instance, replay path and
// return the canonical key of the state reached. With Pool set, the work is done by
// worker processes (whose handler must route BFSJob.Tag to the same Exec).
type BFSConfig struct {
	Tag      string
	NumOps   int
	MaxDepth int
	Workers  int
	Pool     *ProcPool
	Exec     func(path []int) ExecResult
	OnViol   func(v Viol)
	Stop     func() bool
	// OpsFor optionally restricts the operations tried from a state (by its path and the Info its Exec returned).
	OpsFor func(path []int, info string) []int
	// OnState is called once for every new distinct state (path that first reached it, its result).
	OnState func(path []int, r *ExecResult)
	// MaxFrontier, if >0, truncates each level's frontier (reported as incomplete).
	MaxFrontier int
}

type BFSStats struct {
	States      int   // distinct state keys (incl. the initial state)
	Transitions int64 // Exec calls with at least one operation
	DepthDone   int   // deepest level whose successors were all computed
	Frontier    []int // number of new states per depth
	Complete    bool
	SamplePaths [][]int
	Disabled    int64
	Revisits    int64 // transitions that led to an already known state
	Crashes     int64
}

func ReplayBFS(cfg BFSConfig) BFSStats {
	if cfg.Workers <= 0 {
		cfg.Workers = runtime.NumCPU()
	}
	st := BFSStats{Complete: true}
	run := func(paths [][]int) ([]*ExecResult, []bool) {
		if cfg.Pool != nil {
			jobs := make([]BFSJob, len(paths))
			for i, p := range paths {
				jobs[i] = BFSJob{cfg.Tag, p}
			}
			return Map[BFSJob, ExecResult](cfg.Pool, jobs, cfg.Stop)
		}
		results := make([]*ExecResult, len(paths))
		ParallelFor(len(paths), cfg.Workers, cfg.Stop, func(i int) {
			r := cfg.Exec(paths[i])
			results[i] = &r
		})
		return results, make([]bool, len(paths))
	}
	rr, _ := run([][]int{{}})
	if rr[0] == nil {
		st.Complete = false
		return st
	}
	for _, v := range rr[0].Viols {
		cfg.OnViol(v)
	}
	seen := map[string]bool{rr[0].Key: true}
	frontier := [][]int{{}}
	infos := map[string]string{"": rr[0].Info}
	pk := func(p []int) string { return fmt.Sprint(p) }
	infos[pk([]int{})] = rr[0].Info
	if cfg.OnState != nil {
		cfg.OnState([]int{}, rr[0])
	}
	st.Frontier = append(st.Frontier, 1)
	for depth := 0; depth < cfg.MaxDepth && len(frontier) > 0; depth++ {
		var paths [][]int
		for _, p := range frontier {
			ops := []int(nil)
			if cfg.OpsFor != nil {
				ops = cfg.OpsFor(p, infos[pk(p)])
			} else {
				for o := 0; o < cfg.NumOps; o++ {
					ops = append(ops, o)
				}
			}
			for _, o := range ops {
				paths = append(paths, append(append([]int{}, p...), o))
			}
		}
		results, crashed := run(paths)
		var nf [][]int
		missing := false
		for i, r := range results {
			if crashed[i] {
				st.Crashes++
				st.Transitions++
				cfg.OnViol(Viol{Sig: "worker-crash", What: fmt.Sprintf("worker process died twice executing path %v", paths[i]), Replay: map[string]any{"path": paths[i], "tag": cfg.Tag}})
				continue
			}
			if r == nil {
				missing = true
				continue
			}
			st.Transitions++
			for _, v := range r.Viols {
				cfg.OnViol(v)
			}
			if !r.OK {
				st.Disabled++
				continue
			}
			if seen[r.Key] {
				st.Revisits++
				continue
			}
			seen[r.Key] = true
			nf = append(nf, paths[i])
			infos[pk(paths[i])] = r.Info
			if cfg.OnState != nil {
				cfg.OnState(paths[i], r)
			}
		}
		if missing {
			st.Complete = false
			st.States = len(seen)
			return st
		}
		st.DepthDone = depth + 1
		st.Frontier = append(st.Frontier, len(nf))
		sort.Slice(nf, func(a, b int) bool { return lessPath(nf[a], nf[b]) })
		if cfg.MaxFrontier > 0 && len(nf) > cfg.MaxFrontier {
			nf = nf[:cfg.MaxFrontier]
			st.Complete = false
		}
		frontier = nf
		if len(nf) > 0 && len(st.SamplePaths) < 4 {
			st.SamplePaths = append(st.SamplePaths, nf[len(nf)/2])
		}
	}
	st.States = len(seen)
	return st
}

func lessPath(a, b []int) bool {
	for i := 0; i < len(a) && i < len(b); i++ {
		if a[i] != b[i] {
			return a[i] < b[i]
		}
	}
	return len(a) < len(b)
}

// ParallelFor runs f(i) for i in [0,n) over workers goroutines, polling stop.
// It returns the number of indices actually processed.
func ParallelFor(n, workers int, stop func() bool, f func(i int)) int {
	if workers <= 0 {
		workers = runtime.NumCPU()
	}
	var next int64 = -1
	var done int64
	var wg sync.WaitGroup
	for w := 0; w < workers; w++ {
		wg.Add(1)
		go func() {
			defer wg.Done()
			for {
				i := atomic.AddInt64(&next, 1)
				if int(i) >= n {
					return
				}
				if stop != nil && stop() {
					return
				}
				f(int(i))
				atomic.AddInt64(&done, 1)
			}
		}()
	}
	wg.Wait()
	return int(done)
}
