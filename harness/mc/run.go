// Package mc holds the shared explorer cores, the evidence writer and the
// violation / known-finding plumbing used by every per-property harness.
package mc

import (
	"encoding/json"
	"flag"
	"fmt"
	"os"
	"path/filepath"
	"sort"
	"strconv"
	"strings"
	"sync"
	"time"
)

// Root returns the /verif directory (overridable for vp-run snapshots).
func Root() string {
	if r := os.Getenv("VERIF_ROOT"); r != "" {
		return r
	}
	return "/verif"
}

// KnownFinding is one entry of KNOWN_FINDINGS.json (committed, never written at run time).
type KnownFinding struct {
	Property  string `json:"property"`
	Status    string `json:"status"` // "known" suppresses; "fixed" suppresses nothing
	Signature string `json:"signature"`
	What      string `json:"what"`
	Commit    string `json:"commit,omitempty"`
}

// Run is the per-invocation context of one check.
type Run struct {
	ID     string
	Tier   string
	Seed   int64
	Level  string
	Replay string // path of a replay artefact when invoked with --replay

	start    time.Time
	deadline time.Time
	expired  bool

	mu          sync.Mutex
	violations  int
	violSigs    map[string]bool
	known       []KnownFinding
	knownHit    map[string]int
	Assumptions []string
	Samples     []any
	Extra       map[string]any
	Exhaustive  bool
	notes       []string
	outOfScope  map[string]int
}

// Start parses the common flags. budgets are the internal soft deadlines per tier.
func Start(id, level string, quickBudget, thoroughBudget time.Duration) *Run {
	tier := flag.String("tier", "quick", "quick|thorough")
	replay := flag.String("replay", "", "replay artefact")
	budget := flag.Duration("budget", 0, "override internal soft deadline")
	flag.Parse()
	if t := os.Getenv("VERIF_TIER"); t != "" && !isFlagSet("tier") {
		*tier = t
	}
	if *tier != "quick" && *tier != "thorough" {
		fmt.Fprintf(os.Stderr, "bad tier %q\n", *tier)
		os.Exit(2)
	}
	seed := int64(0)
	if s := os.Getenv("VERIF_SEED"); s != "" {
		seed, _ = strconv.ParseInt(s, 10, 64)
	}
	r := &Run{ID: id, Tier: *tier, Seed: seed, Level: level, Replay: *replay, start: time.Now(),
		violSigs: map[string]bool{}, knownHit: map[string]int{}, Extra: map[string]any{}, Exhaustive: true}
	b := quickBudget
	if *tier == "thorough" {
		b = thoroughBudget
	}
	if *budget > 0 {
		b = *budget
	}
	r.deadline = r.start.Add(b)
	r.loadKnown()
	return r
}

func isFlagSet(name string) bool {
	set := false
	flag.Visit(func(f *flag.Flag) {
		if f.Name == name {
			set = true
		}
	})
	return set
}

func (r *Run) Quick() bool { return r.Tier == "quick" }

// Expired reports whether the internal soft deadline has passed; a check that
// observes this stops exploring, records exhaustive=false and still exits 0.
func (r *Run) Expired() bool {
	if time.Now().After(r.deadline) {
		r.mu.Lock()
		r.expired = true
		r.Exhaustive = false
		r.mu.Unlock()
		return true
	}
	return false
}

// ExpiredFrac is Expired for a part of a check that may only use the first frac of the soft
// deadline (a later part needs the rest). Hitting it marks the run non-exhaustive as well.
func (r *Run) ExpiredFrac(frac float64) bool {
	total := r.deadline.Sub(r.start)
	if time.Since(r.start) > time.Duration(float64(total)*frac) {
		r.mu.Lock()
		r.expired = true
		r.Exhaustive = false
		r.mu.Unlock()
		return true
	}
	return false
}

func (r *Run) Note(format string, a ...any) {
	s := fmt.Sprintf(format, a...)
	r.mu.Lock()
	r.notes = append(r.notes, s)
	r.mu.Unlock()
	fmt.Println("NOTE: " + s)
}

func (r *Run) loadKnown() {
	bz, err := os.ReadFile(filepath.Join(Root(), "KNOWN_FINDINGS.json"))
	if err != nil {
		return
	}
	var all []KnownFinding
	if err := json.Unmarshal(bz, &all); err != nil {
		fmt.Fprintf(os.Stderr, "KNOWN_FINDINGS.json unreadable: %v\n", err)
		os.Exit(2)
	}
	for _, k := range all {
		if k.Property == r.ID && k.Status == "known" {
			r.known = append(r.known, k)
		}
	}
}

// Violation records one violation. signature is the canonical description of the failing
// input / history class; if KNOWN_FINDINGS.json lists it (status "known") a KNOWN-FINDING
// line is printed once and the run does not fail. Otherwise a replay artefact is written
// and a VIOLATION line printed (once per signature).
func (r *Run) Violation(signature, what string, replay any) {
	r.mu.Lock()
	defer r.mu.Unlock()
	// Convention: a class that can only be produced with inputs OUTSIDE the property's
	// quantifier (and that no production path can produce) is tagged ":class=unreachable";
	// the property does not speak about it, so it is recorded as information, never as an alarm.
	if strings.Contains(signature, ":class=unreachable") {
		if r.outOfScope == nil {
			r.outOfScope = map[string]int{}
		}
		if r.outOfScope[signature] == 0 {
			fmt.Printf("OUT-OF-SCOPE (information only): %s\n", signature)
		}
		r.outOfScope[signature]++
		return
	}
	for _, k := range r.known {
		if k.Signature == signature {
			if r.knownHit[signature] == 0 {
				fmt.Printf("KNOWN-FINDING: property=%s %s [%s]\n", r.ID, k.What, signature)
			}
			r.knownHit[signature]++
			return
		}
	}
	r.violations++
	if r.violSigs[signature] {
		return
	}
	r.violSigs[signature] = true
	if r.Replay != "" {
		// replaying an artefact: report, never overwrite artefacts
		fmt.Printf("VIOLATION property=%s replay=%s\n", r.ID, r.Replay)
		fmt.Printf("  signature: %s\n  what: %s\n", signature, what)
		return
	}
	dir := filepath.Join(Root(), "replays")
	_ = os.MkdirAll(dir, 0o755)
	path := filepath.Join(dir, fmt.Sprintf("%s-%d.json", r.ID, len(r.violSigs)))
	art := map[string]any{"property": r.ID, "signature": signature, "what": what, "replay": replay, "tier": r.Tier}
	bz, _ := json.MarshalIndent(art, "", " ")
	_ = os.WriteFile(path, bz, 0o644)
	fmt.Printf("VIOLATION property=%s replay=%s\n", r.ID, path)
	fmt.Printf("  signature: %s\n  what: %s\n", signature, what)
}

func (r *Run) Violations() int {
	r.mu.Lock()
	defer r.mu.Unlock()
	return r.violations
}

// AddSample keeps up to 6 written-out cases for the evidence file.
func (r *Run) AddSample(s any) {
	r.mu.Lock()
	defer r.mu.Unlock()
	if len(r.Samples) < 6 {
		r.Samples = append(r.Samples, s)
	}
}

// Finish writes /verif/evidence/<id>.json and exits 0 / 1.
func (r *Run) Finish(cov map[string]any) {
	r.mu.Lock()
	wall := time.Since(r.start).Seconds()
	if cov == nil {
		cov = map[string]any{}
	}
	for k, v := range r.Extra {
		if _, ok := cov[k]; !ok {
			cov[k] = v
		}
	}
	if _, ok := cov["samples"]; !ok {
		cov["samples"] = r.Samples
	}
	if _, ok := cov["exhaustive"]; !ok {
		cov["exhaustive"] = r.Exhaustive
	} else if !r.Exhaustive {
		cov["exhaustive"] = false
	}
	if r.expired {
		cov["deadline_hit"] = true
	}
	if len(r.notes) > 0 {
		cov["notes"] = r.notes
	}
	kh := []string{}
	for s, n := range r.knownHit {
		kh = append(kh, fmt.Sprintf("%s x%d", s, n))
	}
	sort.Strings(kh)
	if len(kh) > 0 {
		cov["known_findings_reproduced"] = kh
	}
	if len(r.outOfScope) > 0 {
		cov["out_of_scope_classes_observed"] = r.outOfScope
	}
	ev := map[string]any{
		"property_id": r.ID, "tier": r.Tier, "seed": r.Seed, "level": r.Level,
		"coverage": cov, "assumptions": r.Assumptions, "wall_s": wall, "violations": r.violations,
	}
	viol := r.violations
	r.mu.Unlock()
	if r.Replay == "" {
		dir := filepath.Join(Root(), "evidence")
		_ = os.MkdirAll(dir, 0o755)
		bz, _ := json.MarshalIndent(ev, "", " ")
		tmp := filepath.Join(dir, r.ID+".json.tmp")
		_ = os.WriteFile(tmp, bz, 0o644)
		_ = os.Rename(tmp, filepath.Join(dir, r.ID+".json"))
	}
	fmt.Printf("RESULT property=%s tier=%s violations=%d wall=%.1fs exhaustive=%v\n", r.ID, r.Tier, viol, wall, cov["exhaustive"])
	if viol > 0 {
		os.Exit(1)
	}
	os.Exit(0)
}

// LoadReplay reads the "replay" member of an artefact written by Violation into v.
func (r *Run) LoadReplay(v any) error {
	bz, err := os.ReadFile(r.Replay)
	if err != nil {
		return err
	}
	var art struct {
		Replay json.RawMessage `json:"replay"`
	}
	if err := json.Unmarshal(bz, &art); err != nil {
		return err
	}
	return json.Unmarshal(art.Replay, v)
}

// OnViol adapts a worker-reported violation.
func (r *Run) OnViol(v Viol) { r.Violation(v.Sig, v.What, v.Replay) }
