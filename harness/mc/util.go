package mc

import (
	"crypto/sha256"
	"encoding/hex"
)

// Hash shortens a canonical state dump to a fixed-size key.
func Hash(s string) string {
	h := sha256.Sum256([]byte(s))
	return hex.EncodeToString(h[:16])
}
