package mc

import (
	"bufio"
	"encoding/json"
	"fmt"
	"io"
	"os"
	"os/exec"
	"runtime"
	"sync"
	"sync/atomic"
)

// Worker processes. canopy keeps process-wide state (pooled pebble batches that the store
// closes more than once, the block LRU, the signature cache); simulated nodes that run
// concurrently inside one process contaminate each other through it. Explorers therefore
// shard work over child processes of the same binary (`-worker`), each strictly
// sequential (GOMAXPROCS=1), speaking one JSON line per job over stdin/stdout.

// Viol is a violation found by a worker; the parent turns it into Run.Violation.
type Viol struct {
	Sig    string `json:"sig"`
	What   string `json:"what"`
	Replay any    `json:"replay,omitempty"`
}

// IsWorker reports whether this process was started as a worker child.
func IsWorker() bool {
	for _, a := range os.Args[1:] {
		if a == "-worker" || a == "--worker" {
			return true
		}
	}
	return false
}

// ServeWorker runs the worker loop: one JSON job per input line, one JSON result per output line.
// It never returns.
func ServeWorker[J any, R any](handler func(job J) R) {
	in := bufio.NewReaderSize(os.Stdin, 1<<20)
	out := bufio.NewWriterSize(os.Stdout, 1<<20)
	// anything the code under test prints must not corrupt the protocol
	realOut := os.Stdout
	os.Stdout = os.Stderr
	out = bufio.NewWriterSize(realOut, 1<<20)
	for {
		line, err := in.ReadBytes('\n')
		if len(line) > 0 {
			var j J
			if e := json.Unmarshal(line, &j); e != nil {
				fmt.Fprintf(os.Stderr, "worker: bad job: %v\n", e)
				os.Exit(3)
			}
			res := handler(j)
			bz, e := json.Marshal(res)
			if e != nil {
				fmt.Fprintf(os.Stderr, "worker: bad result: %v\n", e)
				os.Exit(3)
			}
			out.Write(bz)
			out.WriteByte('\n')
			out.Flush()
		}
		if err != nil {
			os.Exit(0)
		}
	}
}

type procWorker struct {
	cmd *exec.Cmd
	in  io.WriteCloser
	out *bufio.Reader
}

// ProcPool is a set of worker children.
type ProcPool struct {
	n       int
	args    []string
	Crashes int64
}

func NewProcPool(n int, args ...string) *ProcPool {
	if n <= 0 {
		n = runtime.NumCPU()
	}
	return &ProcPool{n: n, args: args}
}

func (p *ProcPool) spawn() (*procWorker, error) {
	exe, err := os.Executable()
	if err != nil {
		return nil, err
	}
	cmd := exec.Command(exe, append([]string{"-worker"}, p.args...)...)
	cmd.Env = append(os.Environ(), "GOMAXPROCS=1")
	cmd.Stderr = io.Discard
	if os.Getenv("VERIF_WORKER_STDERR") != "" {
		cmd.Stderr = os.Stderr
	}
	in, err := cmd.StdinPipe()
	if err != nil {
		return nil, err
	}
	out, err := cmd.StdoutPipe()
	if err != nil {
		return nil, err
	}
	if err := cmd.Start(); err != nil {
		return nil, err
	}
	return &procWorker{cmd: cmd, in: in, out: bufio.NewReaderSize(out, 1<<20)}, nil
}

func (w *procWorker) kill() {
	if w == nil {
		return
	}
	w.in.Close()
	_ = w.cmd.Process.Kill()
	_ = w.cmd.Wait()
}

// Map runs every job on some worker and returns the results in job order. A nil result
// means the job was not run (stop) ; crashed[i] is set when the worker died on job i
// (after one retry on a fresh worker, so that a crash caused by an earlier job's residue
// is not blamed on this one).
func Map[J any, R any](p *ProcPool, jobs []J, stop func() bool) (results []*R, crashed []bool) {
	results = make([]*R, len(jobs))
	crashed = make([]bool, len(jobs))
	var next int64 = -1
	var wg sync.WaitGroup
	n := p.n
	if n > len(jobs) {
		n = len(jobs)
	}
	for i := 0; i < n; i++ {
		wg.Add(1)
		go func() {
			defer wg.Done()
			var w *procWorker
			defer func() { w.kill() }()
			for {
				idx := int(atomic.AddInt64(&next, 1))
				if idx >= len(jobs) {
					return
				}
				if stop != nil && stop() {
					return
				}
				bz, _ := json.Marshal(jobs[idx])
				for attempt := 0; attempt < 2; attempt++ {
					if w == nil {
						var err error
						if w, err = p.spawn(); err != nil {
							fmt.Fprintf(os.Stderr, "mc: cannot spawn worker: %v\n", err)
							os.Exit(2)
						}
					}
					_, e1 := w.in.Write(append(bz, '\n'))
					var line []byte
					var e2 error
					if e1 == nil {
						line, e2 = w.out.ReadBytes('\n')
					}
					if e1 != nil || e2 != nil {
						w.kill()
						w = nil
						atomic.AddInt64(&p.Crashes, 1)
						if attempt == 1 {
							crashed[idx] = true
						}
						continue
					}
					var r R
					if e := json.Unmarshal(line, &r); e != nil {
						fmt.Fprintf(os.Stderr, "mc: bad worker result: %v: %.200s\n", e, line)
						os.Exit(2)
					}
					results[idx] = &r
					break
				}
			}
		}()
	}
	wg.Wait()
	return
}
