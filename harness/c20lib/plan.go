package c20lib

import (
	"fmt"
	"os"
	"strings"
	"time"
)

var Assumptions = []string{
	"direct path: blocks are applied by exactly the store/FSM calls of controller.CommitCertificate (env.Chain); mempool, p2p and bft are not in the loop",
	"the harness is the committee: certificates are really signed (BLS, true bitmap) by the validators staked for the committee in the root chain's state, but their RESULTS are crafted by the harness (part A) or built by a line-by-line mirror of controller.HandleDex (part B)",
	"Transaction.Time is chosen by the harness (fsm.NewTransaction uses the wall clock) so that order ids (tx hash prefix) are a function of the recipe path",
	"a recipe whose block leaves the observed state unchanged (rejected tx, no-op certificate) is checked but not expanded: its successors equal those of its source state up to block height",
	"each world runs alone and sequentially in its worker process; part B's two chains take turns in one process and the process-wide block LRU (keyed by height only) is re-primed with the stepping chain's own previous block before every block (env.Chain.PrimeBlockCache)",
	"amounts, reserves and depths are the stated bounded sets; values outside them (and uint64 overflow of the total supply, property C04) are not explored",
}

var Wiring = map[string]any{
	"part_A":                            "one own-root chain; key 0 is the only validator, staked for committees 1 and 2. mode tx: sell orders in the book of nested chain id 2, committee instructions in a certificate-results TRANSACTION (QC for chain 2 signed by committee 2 as staked on the root chain at the QC's root height, block stripped, tx signed by the QC's proposer) -> HandleMessageCertificateResults -> HandleCertificateResults -> HandleCommitteeSwaps(orders,2). mode own: sell orders in the chain's own book (id 1), instructions in the results of the block's own certificate (BlockSpec.Results), applied by the next block's BeginBlock -> HandleCertificateResults -> HandleCommitteeSwaps(orders,1); this path bypasses CertificateResult.CheckBasic/checkOrders so duplicates inside one list reach the handler. Both paths are faithful; ProcessRootChainOrderBook (how an honest committee derives the instructions from lock/close memo transactions) is not in the loop - the harness is an arbitrary committee.",
	"part_A_entitlement":                "read from fsm/message.go and fsm/swap.go: create and edit-up debit order.SellersSendAddress; edit-down refunds the difference and delete refunds AmountForSale to SellersSendAddress; close pays AmountForSale to the order's BuyerReceiveAddress (the lock in force; with lock+close in one certificate the lock of that certificate, because locks are applied before closes); reset pays nobody",
	"part_B":                            "root chain R (id 1, own root) and nested chain N (id 2, root id 1), two real FSMs on real stores in ONE worker process, stepped strictly in turn. One recipe = one tick = N block then R block. N block: FSM.SetRootDexCache(R.FSM.GetDexBatch(2,true) through its JSON form = what RCManager.GetDexBatch returns) before ApplyBlock, as controller.ProduceProposal/ValidateProposal/CommitCertificate do; results of the block built by a mirror of controller.HandleDex on the post-apply FSM (DexBatch = N's locked batch, RootDexBatch = the root snapshot, with pool points and LivenessFallback when falling back); certificate with a root-chain RootHeight signed by committee 2 as staked on R. R block: certificate-results tx made from N's certificate of this tick (unless dropped), then the R-side user tx.",
	"part_B_block_lru":                  "store.blockCache is process-wide and keyed by height only, and both chains pass through the same heights: without care N's LoadBlock(h-1) (last-block hash in the header, pseudo-random order of swap execution) returns R's block. Before every block the harness re-primes the LRU slot of height-1 with the stepping chain's own block (env.Chain.PrimeBlockCache: public IndexBlock, which refreshes the slot, then Reset, which drops the pending index write). No repo hook was added.",
	"part_B_deviations_from_controller": "the locked batch is re-sent with every N certificate (controller: every lib.TriggerModuloBlocks=5 blocks) - with the drop recipe every real delivery schedule is a sub-schedule; the liveness fallback may be signalled as soon as N's locked batch is one block old and unanswered (controller: lib.LivenessFallbackBlocks=60 blocks, on a trigger block); the certificate-results tx is placed before the user tx in R's block",
	"blocks":                            "env.Chain.StepFast: one ApplyBlock with replica semantics when every tx succeeds, otherwise the proposer path (failing txs dropped on a copy) followed by the replica path - the committed block is the same",
}

var NotCovered = []string{
	"mempool, p2p, bft and the real controller (its HandleSwaps/HandleDex/SendCertificateResultsTx are mirrored, not executed); ProcessRootChainOrderBook/ParseBlockForLockAndCloseOrders (honest derivation of lock/close/reset from memo transactions)",
	"the provider cap is explored in ONE configuration (10^6 x 10^6, lowest holder 100 points, four deposit sizes); ties between equally funded newcomers and more than one newcomer per batch are not; the 250-orders-per-block settlement cap, batches of more than 2 orders, more than 2 open sell orders / 2 sellers, order amounts other than {min-1,min,min+1,10^6}",
	"fairness of LP point minting (how many points a deposit earns): the property only fixes the sum of points and the share bound of withdrawals, so the mutant 'deposit points computed after the pool update' is NOT caught",
	"the pseudo-random execution order of swaps inside a batch is whatever the previous block hash yields on the explored path; other orders are not enumerated",
	"stale root view combined with a user transaction or with the fallback in the same tick; re-ordered (older-after-newer) certificate-results transactions",
	"uint64 overflow of pools/supply (property C04); reserves other than the four stated pairs; paths longer than the depth bound",
}

// CapsLabel marks the configurations that run in the build with small DEX batch capacities (SmallCaps = deposits,
// withdrawals, orders per batch as printed by -capsinfo). The label is part of the configuration name, after '#'.
const (
	CapsLabel = "#small-batch-caps"
	SmallCaps = "2 2 2 1"
)

// RunFn is what main hands to Plan: run one BFS.
type RunFn func(part, cfg string, depth int, names func(p []int) []string, numOps int, opsFor func(path []int, info string) []int, share float64)

// Plan lays out the searches of a tier in priority order; the soft deadline cuts the tail
// (reported as exhaustive=false with the depth completed per search).
//
// Sizing (measured with GOMAXPROCS=1 on a warmed-up worker): part A ~8 ms per block, part B
// ~25 ms per tick (two blocks, two scans); a world costs ~5 ms (A) / ~12 ms (B incl. warm-up
// block) to create. Quick is sized for ~1000 core-seconds, thorough for ~20000.
func Plan(thorough bool, run RunFn) {
	only := os.Getenv("C20_ONLY")
	alphaA := AAlphabet(thorough)
	namesA := func(p []int) []string {
		var n []string
		for _, i := range p {
			n = append(n, alphaA[i].String())
		}
		return n
	}
	alphaB := BAlphabet(thorough)
	namesB := func(p []int) []string {
		var n []string
		for _, i := range p {
			n = append(n, alphaB[i].String())
		}
		return n
	}
	// part A: full alphabet up to fullDepth, then only settlement recipes (certificates, deletes,
	// edits of #0) for the last step - the "exactly once" questions live there
	aOps := func(fullDepth int) func(path []int, info string) []int {
		base := AOpsFor(thorough)
		return func(path []int, info string) []int {
			ops := base(path, info)
			if len(path) < fullDepth {
				return ops
			}
			var out []int
			for _, i := range ops {
				o := alphaA[i]
				if o.Kind == "cert" || o.Kind == "delete" || (o.Kind == "edit" && o.K == 0 && o.Amt == AMin) {
					out = append(out, i)
				}
			}
			return out
		}
	}
	share := 0.0 // max fraction of the tier budget the next searches may take each (0 = no cap)
	A := func(mode string, depth, fullDepth int) {
		if only == "" || only == "A" {
			run("A", mode, depth, namesA, len(alphaA), aOps(fullDepth), share)
		}
	}
	// part B: full alphabet up to fullDepth, then only pipeline recipes (let the pipeline drain)
	bOps := func(fullDepth int) func(path []int, info string) []int {
		return func(path []int, _ string) []int {
			var out []int
			for i, o := range alphaB {
				if o.Kind == "pair2" {
					continue // small-capacity build only (bOpsCaps)
				}
				if len(path) < fullDepth || o.Chain == "" {
					out = append(out, i)
				}
			}
			return out
		}
	}
	bOpsCaps := func(fullDepth int) func(path []int, info string) []int {
		return func(path []int, _ string) []int {
			var out []int
			for i, o := range alphaB {
				if len(path) < fullDepth || o.Chain == "" {
					out = append(out, i)
				}
			}
			return out
		}
	}
	B := func(cfg string, depth, fullDepth int) {
		if only == "" || only == "B" {
			run("B", cfg, depth, namesB, len(alphaB), bOps(fullDepth), share)
		}
	}
	// directed slice around the liveness fallback (needs 4-5 ticks, beyond the full-alphabet depth of
	// the quick tier): [user op][tick|drop][fallback|fallback+drop|drop|tick][tick] and
	// [drop][N-side user op][drop|tick][fallback|fallback+drop][tick]
	isEnv := func(o BOp, kinds ...string) bool {
		for _, k := range kinds {
			if o.Kind == k {
				return true
			}
		}
		return false
	}
	fams := [][]func(o BOp) bool{
		{func(o BOp) bool { return o.Chain != "" }, func(o BOp) bool { return isEnv(o, "tick", "drop") },
			func(o BOp) bool { return isEnv(o, "fallback", "fallback+drop", "drop", "tick") }, func(o BOp) bool { return isEnv(o, "tick") }},
		{func(o BOp) bool { return isEnv(o, "drop") }, func(o BOp) bool { return o.Chain == "N" }, func(o BOp) bool { return isEnv(o, "drop", "tick") },
			func(o BOp) bool { return isEnv(o, "fallback", "fallback+drop") }, func(o BOp) bool { return isEnv(o, "tick") }},
	}
	famOps := func(path []int, _ string) []int {
		var out []int
		for i, o := range alphaB {
			ok := false
			if o.Kind == "pair2" {
				continue
			}
			for _, f := range fams {
				if len(path) >= len(f) {
					continue
				}
				match := true
				for j, pi := range path {
					if !f[j](alphaB[pi]) {
						match = false
						break
					}
				}
				if match && f[len(path)](o) {
					ok = true
				}
			}
			if ok {
				out = append(out, i)
			}
		}
		return out
	}
	// provider-cap configuration: its own alphabet; full alphabet for the first fullDepth ticks, then the pipeline drains
	alphaC := CappedAlphabet()
	namesC := func(p []int) []string {
		var n []string
		for _, i := range p {
			n = append(n, alphaC[i].String())
		}
		return n
	}
	C := func(depth, fullDepth int) {
		if only == "" || only == "B" || only == "C" {
			run("B", "1e6x1e6-capped", depth, namesC, len(alphaC), func(path []int, _ string) []int {
				var out []int
				for i, o := range alphaC {
					if len(path) < fullDepth || o.Kind == "tick" || o.Kind == "drop" {
						out = append(out, i)
					}
				}
				return out
			}, share)
		}
	}
	// the same configuration in the small-batch-caps build: the branches that keep what does not fit in a full batch
	CS := func(depth, fullDepth int) {
		share := share
		if !thorough {
			share = 0.3 // a second set of worker processes has to warm up: never more than a third of the quick budget
		}
		if only == "" || only == "B" || only == "C" || only == "CS" {
			run("B", "1e6x1e6-capped"+CapsLabel, depth, namesC, len(alphaC), func(path []int, _ string) []int {
				var out []int
				for i, o := range alphaC {
					if len(path) < fullDepth || o.Kind == "tick" || o.Kind == "drop" {
						out = append(out, i)
					}
				}
				return out
			}, share)
		}
	}
	BS := func(cfg string, depth, fullDepth int) {
		if only == "" || only == "B" || only == "CS" {
			run("B", cfg+CapsLabel, depth, namesB, len(alphaB), bOpsCaps(fullDepth), share)
		}
	}
	F := func(cfg string) {
		if only == "" || only == "B" || only == "F" {
			run("B", cfg+"#fallback-slice", 5, namesB, len(alphaB), famOps, share)
		}
	}
	if !thorough {
		// breadth first (cheap, survives a loaded box), then deeper; a deeper search of the same
		// (part,config) subsumes the shallower one in the evidence
		A("tx", 2, 2)
		F("1e3x1e3")
		F("1e3x1e3-nolp") // seeded liquidity, no liquidity provider: the root's point list is empty when the fallback fires
		B("1e3x1e3", 2, 2)
		C(3, 1)
		CS(3, 3)
		A("own", 2, 2)
		B("2p63x2p63", 2, 2)
		B("1x2p62", 2, 2)
		B("1x1", 2, 2)
		B("1e3x1e3-nolp", 2, 2)
		BS("1e3x1e3", 2, 2)
		A("tx", 3, 3)
		A("own", 3, 3)
		C(4, 2)
		B("1e3x1e3", 3, 3)
		A("own", 4, 3) // the path on which duplicates inside one list reach the handler: create, create, lock, settle
		A("tx", 4, 3)
		B("2p63x2p63", 3, 3)
		B("1x2p62", 3, 3)
		B("1x1", 3, 3)
		B("1e3x1e3", 4, 3)
		CS(4, 3)
		return
	}
	// thorough: breadth first as well; no single search may take more than a quarter of the budget
	share = 0.25
	F("1e3x1e3")
	F("2p63x2p63")
	F("1x2p62")
	F("1x1")
	F("1e3x1e3-nolp")
	A("tx", 4, 4)
	for _, c := range BConfigs {
		if !c.Capped {
			B(c.Name, 3, 3)
		}
	}
	C(4, 2)
	CS(4, 3)
	BS("1e3x1e3", 3, 3)
	A("own", 4, 4)
	B("1e3x1e3", 4, 3)
	A("tx", 5, 4)
	B("1e3x1e3", 4, 4)
	B("2p63x2p63", 4, 3)
	B("1x2p62", 4, 3)
	B("1x1", 4, 4)
	A("own", 5, 4)
	B("1e3x1e3", 5, 4)
	C(5, 3)
	CS(5, 4)
	A("tx", 5, 5)
}

// PathA maps recipe names back to alphabet indices (replay artefacts store names).
func PathA(ops []string) []int {
	alpha := AAlphabet(true)
	var p []int
	for _, n := range ops {
		for i, a := range alpha {
			if a.String() == n {
				p = append(p, i)
				break
			}
		}
	}
	return p
}

func PathB(cfg string, ops []string) []int {
	alpha := AlphaFor(cfg, true)
	var p []int
	for _, n := range ops {
		for i, a := range alpha {
			if a.String() == n {
				p = append(p, i)
				break
			}
		}
	}
	return p
}

var Probes = []func(){probeA, probeB}

func probeB() {
	alpha := BAlphabet(true)
	find := func(s string) int {
		for i, a := range alpha {
			if a.String() == s {
				return i
			}
		}
		panic("no recipe " + s)
	}
	Debug = os.Getenv("C20_DEBUG") != ""
	if seq := os.Getenv("C20_SEQ"); seq != "" {
		// one named sequence on one configuration: C20_CFG=<config> C20_SEQ="recipe;recipe;..."
		cfg := os.Getenv("C20_CFG")
		p := PathB(cfg, strings.Split(seq, ";"))
		res := ExecB(cfg, true, p)
		fmt.Printf("probeB cfg=%s %v (%d recipes resolved) -> ok=%v key=%s viols=%d\n", cfg, seq, len(p), res.OK, res.Key, len(res.Viols))
		for _, v := range res.Viols {
			if v.Sig != "stat" {
				fmt.Printf("   %s: %s\n", v.Sig, v.What)
			}
		}
		return
	}
	if os.Getenv("C20_CFG") == "1e6x1e6-capped" {
		alpha = CappedAlphabet()
		for _, seq := range [][]string{
			{"tick", "tick"},
			{"depositN(Q,small)", "tick", "tick", "tick"},
			{"depositN(Q,split)", "tick", "tick", "tick"},
			{"depositN(Q,split-big)", "tick", "tick", "tick"},
			{"depositR(Q,split)", "tick", "tick", "tick"},
			{"depositN(Q)", "tick", "tick", "tick"},
			{"withdrawN(P,100%)", "tick", "depositN(Q,small)", "tick", "tick"},
		} {
			var p []int
			for _, s := range seq {
				p = append(p, find(s))
			}
			t0 := time.Now()
			res := ExecB("1e6x1e6-capped", true, p)
			fmt.Printf("probeB cfg=capped %v -> ok=%v key=%s viols=%d (%.1f ms)\n", seq, res.OK, res.Key, len(res.Viols), float64(time.Since(t0).Microseconds())/1000)
			for _, v := range res.Viols {
				fmt.Printf("   %s: %s\n", v.Sig, v.What)
			}
		}
		return
	}
	for _, cfg := range BConfigs {
		if f := os.Getenv("C20_CFG"); (f != "" && f != cfg.Name) || cfg.Capped {
			continue
		}
		for _, seq := range [][]string{
			{},
			{"tick", "tick"},
			{"orderN(large,at)", "tick", "tick"},
			{"orderR(large,at)", "tick", "tick"},
			{"ordersN(large/at+large/above)", "tick", "tick"},
			{"depositN(Q)", "tick", "withdrawN(Q,100%)", "tick"},
			{"withdrawR(P,50%)", "tick", "tick"},
			{"orderN(large,at)", "drop", "fallback", "tick"},
		} {
			var p []int
			for _, s := range seq {
				p = append(p, find(s))
			}
			t0 := time.Now()
			res := ExecB(cfg.Name, true, p)
			fmt.Printf("probeB cfg=%s %v -> ok=%v key=%s viols=%d (%.1f ms)\n", cfg.Name, seq, res.OK, res.Key, len(res.Viols), float64(time.Since(t0).Microseconds())/1000)
			for _, v := range res.Viols {
				fmt.Printf("   %s: %s\n", v.Sig, v.What)
			}
		}
	}
}

func probeA() {
	alpha := AAlphabet(false)
	find := func(s string) int {
		for i, a := range alpha {
			if a.String() == s {
				return i
			}
		}
		panic("no recipe " + s)
	}
	for _, mode := range []string{"tx", "own"} {
		for _, seq := range [][]string{
			{"create(S1,10)", "cert[lock(#0,B1)]", "cert[close(#0)]"},
			{"create(S1,1000000)", "edit(#0,10)", "delete(#0)"},
			{"create(S1,10)", "create(S2,11)", "cert[lock(#0,B1),close(#0)]", "cert[close(#0),close(#1)]"},
			{"create(S1,10)", "cert[lock(#0,B1)]", "cert[lock(#0,B2)]", "cert[reset(#0),close(#0)]"},
		} {
			var p []int
			for _, s := range seq {
				p = append(p, find(s))
			}
			t0 := time.Now()
			res := ExecA(mode, false, p)
			fmt.Printf("probeA mode=%s %v -> ok=%v key=%s viols=%d (%.1f ms)\n", mode, seq, res.OK, res.Key, len(res.Viols), float64(time.Since(t0).Microseconds())/1000)
			for _, v := range res.Viols {
				fmt.Printf("   %s: %s\n", v.Sig, v.What)
			}
		}
	}
}

func init() { Probes = append(Probes, probeTiming) }

func probeTiming() {
	alpha := AAlphabet(false)
	_ = alpha
	for rep := 0; rep < 3; rep++ {
		t0 := time.Now()
		n := 0
		for i := 0; i < 20; i++ {
			ExecA("tx", false, []int{0, 20, 22, 1})
			n += 4
		}
		fmt.Printf("timing: %d steps (20 worlds) wall %.1f ms => %.2f ms/step incl. world creation\n", n, float64(time.Since(t0).Microseconds())/1000, float64(time.Since(t0).Microseconds())/1000/float64(n))
	}
}
