package c20lib

import (
	"fmt"
	"os"
	"time"
)

var Assumptions = []string{
	"direct path: blocks are applied by exactly the store/FSM calls of controller.CommitCertificate (env.Chain); mempool, p2p and bft are not in the loop",
	"the harness is the committee: certificates are really signed (BLS, true bitmap) by the validators staked for the committee in the root chain's state, but their RESULTS are crafted by the harness (part A) or built by a line-by-line mirror of controller.HandleDex (part B)",
	"Transaction.Time is chosen by the harness (fsm.NewTransaction uses the wall clock) so that order ids (tx hash prefix) are a function of the recipe path",
	"a recipe whose block leaves the observed state unchanged (rejected tx, no-op certificate) is checked but not expanded: its successors equal those of its source state up to block height",
	"each world runs alone and sequentially in its worker process; part B's two chains take turns in one process and the process-wide block LRU (keyed by height only) is re-primed with the stepping chain's own previous block before every block (env.Chain.PrimeBlockCache)",
	"amounts, reserves and depths are the stated bounded sets; values outside them (and uint64 overflow of the total supply, property C04) are not explored",
}

var Wiring = map[string]any{}

var NotCovered = []string{}

// RunFn is what main hands to Plan: run one BFS.
type RunFn func(part, cfg string, depth int, names func(p []int) []string, numOps int, opsFor func(path []int, info string) []int, maxFrontier int)

// Plan lays out the searches of a tier.
func Plan(thorough bool, run RunFn) {
	alphaA := AAlphabet(thorough)
	namesA := func(p []int) []string {
		var n []string
		for _, i := range p {
			n = append(n, alphaA[i].String())
		}
		return n
	}
	dA := 4
	if thorough {
		dA = 5
	}
	if os.Getenv("C20_ONLY") != "B" {
		for _, mode := range []string{"tx", "own"} {
			run("A", mode, dA, namesA, len(alphaA), nil, 0)
		}
	}
	if os.Getenv("C20_ONLY") == "A" {
		return
	}
	alphaB := BAlphabet(thorough)
	namesB := func(p []int) []string {
		var n []string
		for _, i := range p {
			n = append(n, alphaB[i].String())
		}
		return n
	}
	dB := 3
	if thorough {
		dB = 4
	}
	for _, cfg := range BConfigs {
		run("B", cfg.Name, dB, namesB, len(alphaB), nil, 0)
	}
}

// PathA maps recipe names back to alphabet indices (replay artefacts store names).
func PathA(ops []string) []int {
	alpha := AAlphabet(true)
	var p []int
	for _, n := range ops {
		for i, a := range alpha {
			if a.String() == n {
				p = append(p, i)
				break
			}
		}
	}
	return p
}

func PathB(cfg string, ops []string) []int {
	alpha := BAlphabet(true)
	var p []int
	for _, n := range ops {
		for i, a := range alpha {
			if a.String() == n {
				p = append(p, i)
				break
			}
		}
	}
	return p
}

var Probes = []func(){probeA, probeB}

func probeB() {
	alpha := BAlphabet(true)
	find := func(s string) int {
		for i, a := range alpha {
			if a.String() == s {
				return i
			}
		}
		panic("no recipe " + s)
	}
	Debug = os.Getenv("C20_DEBUG") != ""
	for _, cfg := range BConfigs {
		if f := os.Getenv("C20_CFG"); f != "" && f != cfg.Name {
			continue
		}
		for _, seq := range [][]string{
			{},
			{"tick", "tick"},
			{"orderN(large,at)", "tick", "tick"},
			{"orderR(large,at)", "tick", "tick"},
			{"ordersN(large/at+large/above)", "tick", "tick"},
			{"depositN(Q)", "tick", "withdrawN(Q,100%)", "tick"},
			{"withdrawR(P,50%)", "tick", "tick"},
			{"orderN(large,at)", "drop", "fallback", "tick"},
		} {
			var p []int
			for _, s := range seq {
				p = append(p, find(s))
			}
			t0 := time.Now()
			res := ExecB(cfg.Name, true, p)
			fmt.Printf("probeB cfg=%s %v -> ok=%v key=%s viols=%d (%.1f ms)\n", cfg.Name, seq, res.OK, res.Key, len(res.Viols), float64(time.Since(t0).Microseconds())/1000)
			for _, v := range res.Viols {
				fmt.Printf("   %s: %s\n", v.Sig, v.What)
			}
		}
	}
}

func probeA() {
	alpha := AAlphabet(false)
	find := func(s string) int {
		for i, a := range alpha {
			if a.String() == s {
				return i
			}
		}
		panic("no recipe " + s)
	}
	for _, mode := range []string{"tx", "own"} {
		for _, seq := range [][]string{
			{"create(S1,10)", "cert[lock(#0,B1)]", "cert[close(#0)]"},
			{"create(S1,1000000)", "edit(#0,10)", "delete(#0)"},
			{"create(S1,10)", "create(S2,11)", "cert[lock(#0,B1),close(#0)]", "cert[close(#0),close(#1)]"},
			{"create(S1,10)", "cert[lock(#0,B1)]", "cert[lock(#0,B2)]", "cert[reset(#0),close(#0)]"},
		} {
			var p []int
			for _, s := range seq {
				p = append(p, find(s))
			}
			t0 := time.Now()
			res := ExecA(mode, false, p)
			fmt.Printf("probeA mode=%s %v -> ok=%v key=%s viols=%d (%.1f ms)\n", mode, seq, res.OK, res.Key, len(res.Viols), float64(time.Since(t0).Microseconds())/1000)
			for _, v := range res.Viols {
				fmt.Printf("   %s: %s\n", v.Sig, v.What)
			}
		}
	}
}

func init() { Probes = append(Probes, probeTiming) }

func probeTiming() {
	alpha := AAlphabet(false)
	_ = alpha
	for rep := 0; rep < 3; rep++ {
		t0 := time.Now()
		n := 0
		for i := 0; i < 20; i++ {
			ExecA("tx", false, []int{0, 20, 22, 1})
			n += 4
		}
		fmt.Printf("timing: %d steps (20 worlds) wall %.1f ms => %.2f ms/step incl. world creation\n", n, float64(time.Since(t0).Microseconds())/1000, float64(time.Since(t0).Microseconds())/1000/float64(n))
	}
}
