package c20lib

import (
	"bufio"
	"encoding/json"
	"fmt"
	"io"
	"os"
	"os/exec"
	"runtime"
	"sync"

	"verifharness/mc"
)

// Pool is a set of PERSISTENT worker children speaking the mc worker protocol (one JSON job per
// line, served by mc.ServeWorker in the child). mc.ProcPool starts fresh children for every
// Map call, i.e. for every BFS level; a canopy world allocates ~66 MB per ApplyBlock
// (crypto.NewBatchVerifier) and a fresh process spends seconds of CPU growing its heap before it
// reaches the steady state, so C20 keeps its children alive across levels and configurations.
// Each child is strictly sequential (GOMAXPROCS=1) and runs one world at a time.
type Pool struct {
	Exe     string // worker executable ("" = this executable)
	n       int
	free    chan *poolProc
	mu      sync.Mutex
	all     []*poolProc
	Crashes int64
}

type poolProc struct {
	cmd *exec.Cmd
	in  io.WriteCloser
	out *bufio.Reader
}

func NewPool(n int) *Pool {
	if n <= 0 {
		n = runtime.NumCPU()
	}
	p := &Pool{n: n, free: make(chan *poolProc, n)}
	for i := 0; i < n; i++ {
		p.free <- nil // spawned lazily
	}
	return p
}

func (p *Pool) N() int { return p.n }

func (p *Pool) spawn() (*poolProc, error) {
	exe := p.Exe
	if exe == "" {
		var err error
		if exe, err = os.Executable(); err != nil {
			return nil, err
		}
	}
	cmd := exec.Command(exe, "-worker")
	cmd.Env = append(os.Environ(), "GOMAXPROCS=1")
	cmd.Stderr = io.Discard
	if os.Getenv("VERIF_WORKER_STDERR") != "" {
		cmd.Stderr = os.Stderr
	}
	in, err := cmd.StdinPipe()
	if err != nil {
		return nil, err
	}
	out, err := cmd.StdoutPipe()
	if err != nil {
		return nil, err
	}
	if err = cmd.Start(); err != nil {
		return nil, err
	}
	w := &poolProc{cmd: cmd, in: in, out: bufio.NewReaderSize(out, 1<<20)}
	p.mu.Lock()
	p.all = append(p.all, w)
	p.mu.Unlock()
	return w, nil
}

func (w *poolProc) kill() {
	if w == nil {
		return
	}
	w.in.Close()
	_ = w.cmd.Process.Kill()
	_ = w.cmd.Wait()
}

// Exec runs one BFS job on some child. A child that dies is replaced and the job retried once
// (so that residue of an earlier job is not blamed on this one); a second death is reported.
func (p *Pool) Exec(tag string, path []int) mc.ExecResult {
	w := <-p.free
	defer func() { p.free <- w }()
	bz, _ := json.Marshal(mc.BFSJob{Tag: tag, Path: path})
	for attempt := 0; attempt < 2; attempt++ {
		if w == nil {
			var err error
			if w, err = p.spawn(); err != nil {
				fmt.Fprintf(os.Stderr, "c20: cannot spawn worker: %v\n", err)
				os.Exit(2)
			}
		}
		_, e1 := w.in.Write(append(bz, '\n'))
		var line []byte
		var e2 error
		if e1 == nil {
			line, e2 = w.out.ReadBytes('\n')
		}
		if e1 != nil || e2 != nil {
			w.kill()
			w = nil
			p.mu.Lock()
			p.Crashes++
			p.mu.Unlock()
			continue
		}
		var r mc.ExecResult
		if e := json.Unmarshal(line, &r); e != nil {
			fmt.Fprintf(os.Stderr, "c20: bad worker result: %v: %.200s\n", e, line)
			os.Exit(2)
		}
		return r
	}
	return mc.ExecResult{Viols: []mc.Viol{{Sig: "worker-crash", What: fmt.Sprintf("worker process died twice executing %s path %v", tag, path), Replay: map[string]any{"tag": tag, "path": path}}}}
}

func (p *Pool) Close() {
	p.mu.Lock()
	defer p.mu.Unlock()
	for _, w := range p.all {
		w.kill()
	}
}
