package c20lib

import (
	"bytes"
	"fmt"
	"sort"
	"strings"

	"github.com/canopy-network/canopy/fsm"
	"github.com/canopy-network/canopy/lib"
	"github.com/canopy-network/canopy/lib/crypto"

	"verifharness/env"
	"verifharness/mc"
)

// ---------------------------------------------------------------------------------------
// Part A — order book.
//
// One own-root chain (chain id 1). Key 0 is the only validator and is staked for committees
// 1 and 2, so the harness can sign certificates for both. Two delivery paths of committee
// instructions are explored (one BFS each):
//
//   mode "tx"  : sell orders live in the book of the NESTED chain id 2; lock/reset/close
//                instructions arrive as a certificate-results transaction
//                (fsm.MessageCertificateResults, QC for chain 2 signed by committee 2 as staked on
//                the root chain, tx signed by the QC's proposer) -> HandleMessageCertificateResults
//                -> HandleCertificateResults -> HandleCommitteeSwaps(orders, 2).
//   mode "own" : sell orders live in the chain's own book (id 1); instructions ride in the
//                results of the block's own certificate (BlockSpec.Results) and are applied by the
//                NEXT block's BeginBlock -> HandleCertificateResults -> HandleCommitteeSwaps(orders, 1).
//                This path bypasses CertificateResult.CheckBasic / checkOrders (the FSM loads the
//                certificate from its own index), so duplicates inside one list reach the handler.
//
// Entitlement (read from fsm/message.go and fsm/swap.go): edit-down refunds the difference and
// delete refunds AmountForSale to order.SellersSendAddress; close pays AmountForSale to the
// order's BuyerReceiveAddress (set by the lock that is in force); reset pays nobody.

const (
	AMin = uint64(10)        // Validator.MinimumOrderSize in the part-A genesis
	ABig = uint64(1_000_000) // "big"
	// fees (distinct so that a mis-attributed fee shows up)
	aFeeCreate = uint64(3)
	aFeeEdit   = uint64(5)
	aFeeDelete = uint64(7)

	kV, kS1, kS2, kB1, kB2 = 0, 1, 2, 3, 4
)

var aTracked = []int{kS1, kS2, kB1, kB2}

type AIns struct {
	Typ   string `json:"typ"`   // lock | reset | close
	K     int    `json:"k"`     // index into the sorted list of ever-created ids; -1 = an id that never existed
	Buyer int    `json:"buyer"` // lock: key index of the buyer receive address
}

type AOp struct {
	Kind   string `json:"kind"` // create | edit | delete | deleteOther | cert
	Seller int    `json:"seller,omitempty"`
	Amt    uint64 `json:"amt,omitempty"`
	K      int    `json:"k"`
	Ins    []AIns `json:"ins,omitempty"`
}

func (o AOp) String() string {
	switch o.Kind {
	case "create":
		return fmt.Sprintf("create(S%d,%d)", o.Seller, o.Amt)
	case "edit":
		return fmt.Sprintf("edit(#%d,%d)", o.K, o.Amt)
	case "delete":
		return fmt.Sprintf("delete(#%d)", o.K)
	case "deleteOther":
		return fmt.Sprintf("deleteByNonOwner(#%d)", o.K)
	}
	var p []string
	for _, in := range o.Ins {
		t := fmt.Sprintf("#%d", in.K)
		if in.K < 0 {
			t = "unknown"
		}
		if in.Typ == "lock" {
			p = append(p, fmt.Sprintf("lock(%s,B%d)", t, in.Buyer-kB1+1))
		} else {
			p = append(p, fmt.Sprintf("%s(%s)", in.Typ, t))
		}
	}
	return "cert[" + strings.Join(p, ",") + "]"
}

// AAlphabet is the recipe alphabet of part A.
func AAlphabet(thorough bool) []AOp {
	var a []AOp
	for _, s := range []int{kS1, kS2} {
		for _, amt := range []uint64{AMin, AMin + 1, ABig} {
			a = append(a, AOp{Kind: "create", Seller: s, Amt: amt})
		}
	}
	a = append(a, AOp{Kind: "create", Seller: kS1, Amt: AMin - 1}) // below the minimum: must move nothing
	for k := 0; k < 2; k++ {
		for _, amt := range []uint64{AMin, AMin + 1, ABig} {
			a = append(a, AOp{Kind: "edit", K: k, Amt: amt})
		}
	}
	a = append(a, AOp{Kind: "edit", K: 0, Amt: AMin - 1})
	for k := 0; k < 2; k++ {
		a = append(a, AOp{Kind: "delete", K: k})
	}
	a = append(a, AOp{Kind: "deleteOther", K: 0})
	cert := func(ins ...AIns) { a = append(a, AOp{Kind: "cert", Ins: ins}) }
	for k := 0; k < 2; k++ {
		cert(AIns{"lock", k, kB1})
		cert(AIns{"reset", k, 0})
		cert(AIns{"close", k, 0})
	}
	cert(AIns{"lock", 0, kB2})                                              // a second buyer: lock of a locked order
	cert(AIns{"lock", 0, kB1}, AIns{"reset", 0, 0})                         // lock + reset
	cert(AIns{"reset", 0, 0}, AIns{"close", 0, 0})                          // reset + close (conflict)
	cert(AIns{"lock", 0, kB1}, AIns{"close", 0, 0})                         // lock + close in one certificate
	cert(AIns{"close", 0, 0}, AIns{"close", 0, 0})                          // close twice
	cert(AIns{"lock", 0, kB1}, AIns{"lock", 0, kB2})                        // two locks of one order
	cert(AIns{"reset", 0, 0}, AIns{"reset", 0, 0})                          // reset twice
	cert(AIns{"close", 0, 0}, AIns{"close", 1, 0})                          // two different closes
	cert(AIns{"lock", -1, kB1}, AIns{"reset", -1, 0}, AIns{"close", -1, 0}) // unknown id everywhere
	if thorough {
		cert(AIns{"lock", 1, kB2})
		cert(AIns{"lock", 0, kB1}, AIns{"lock", 1, kB2}, AIns{"close", 0, 0}, AIns{"close", 1, 0})
		cert(AIns{"reset", 1, 0}, AIns{"close", 1, 0})
	}
	return a
}

// aOrder is one order as found by the raw scan of the order-book prefix.
type aOrder struct {
	Book uint64
	O    *lib.SellOrder
}

type aScan struct {
	Orders map[string]aOrder // by hex id
	Escrow map[uint64]uint64 // book -> escrow pool amount
	Bal    map[int]uint64
}

func scanA(sm *fsm.StateMachine) *aScan {
	s := &aScan{Orders: map[string]aOrder{}, Escrow: map[uint64]uint64{}, Bal: map[int]uint64{}}
	for _, b := range []uint64{1, 2} {
		for _, kv := range rawPrefix(sm, fsm.OrderBookPrefix(b)) {
			o := new(lib.SellOrder)
			if err := lib.Unmarshal(kv.V, o); err != nil {
				panic(err)
			}
			s.Orders[hx(o.Id)] = aOrder{Book: b, O: o}
		}
		s.Escrow[b] = poolAmount(sm, b+fsm.EscrowPoolAddend)
	}
	for _, k := range aTracked {
		s.Bal[k] = balance(sm, addr(k))
	}
	return s
}

func (s *aScan) dump(sb *strings.Builder) {
	ids := make([]string, 0, len(s.Orders))
	for id := range s.Orders {
		ids = append(ids, id)
	}
	sort.Strings(ids)
	for _, id := range ids {
		o := s.Orders[id]
		fmt.Fprintf(sb, "O%d:%s a=%d r=%d s=%x rcv=%x snd=%x dl=%d|", o.Book, id, o.O.AmountForSale, o.O.RequestedAmount, o.O.SellersSendAddress, o.O.BuyerReceiveAddress, o.O.BuyerSendAddress, o.O.BuyerChainDeadline)
	}
	fmt.Fprintf(sb, "E1=%d E2=%d", s.Escrow[1], s.Escrow[2])
	for _, k := range aTracked {
		fmt.Fprintf(sb, " b%d=%d", k, s.Bal[k])
	}
}

// aLedger is the harness-side history of one order id.
type aLedger struct {
	Id     []byte
	Seller int
	In     uint64 // paid into escrow by the seller (create + edit-up)
	Out    uint64 // paid out of escrow (edit-down + delete to the seller, close to the buyer)
	Closed bool   // the order has left the book
	Buyer  []byte // receive address of the lock in force ("" = unlocked)
}

type AReplay struct {
	Part string   `json:"part"`
	Mode string   `json:"mode"`
	Ops  []string `json:"ops"`
	Path []int    `json:"path"`
}

type aWorld struct {
	mode    string
	book    uint64
	c       *env.Chain
	led     map[string]*aLedger
	ids     []string // sorted hex ids ever created
	uses    map[string]int
	nestedH uint64
	stats   []string
}

func aGenesis() *fsm.GenesisState {
	return env.NewGenesis(map[int]uint64{
		kV:  1_000,
		kS1: ABig + AMin + 1 + 100, // big plus one small order plus fees; big+big does not fit
		kS2: ABig + 50,
	}, []env.ValSpec{{Key: kV, Stake: 1_000_000, Committees: []uint64{1, 2}, OutputKey: -1}}, func(p *fsm.Params) {
		p.Validator.MinimumOrderSize = AMin
		p.Fee.CreateOrderFee, p.Fee.EditOrderFee, p.Fee.DeleteOrderFee = aFeeCreate, aFeeEdit, aFeeDelete
	})
}

func newAWorld(mode string) (*aWorld, error) {
	c, err := env.NewChain(aGenesis())
	if err != nil {
		return nil, err
	}
	w := &aWorld{mode: mode, book: 2, c: c, led: map[string]*aLedger{}, uses: map[string]int{}}
	if mode == "own" {
		w.book = 1
	}
	return w, nil
}

func (w *aWorld) target(k int) []byte {
	if k < 0 || k >= len(w.ids) {
		if k < 0 {
			return crypto.Hash([]byte("c20-unknown-order"))[:20]
		}
		return nil
	}
	return w.led[w.ids[k]].Id
}

// orders builds the lib.Orders of a certificate; ok=false when an instruction targets an order
// index that does not exist yet (recipe not enabled).
func (w *aWorld) orders(op AOp) (*lib.Orders, bool) {
	o := &lib.Orders{}
	for _, in := range op.Ins {
		id := w.target(in.K)
		if id == nil {
			return nil, false
		}
		switch in.Typ {
		case "lock":
			o.LockOrders = append(o.LockOrders, &lib.LockOrder{OrderId: id, ChainId: w.book, BuyerReceiveAddress: addr(in.Buyer),
				BuyerSendAddress: []byte(fmt.Sprintf("extern-send-%d", in.Buyer)), BuyerChainDeadline: 1_000_000})
		case "reset":
			o.ResetOrders = append(o.ResetOrders, id)
		case "close":
			o.CloseOrders = append(o.CloseOrders, id)
		}
	}
	return o, true
}

// certTx wraps instructions into a certificate-results transaction for nested chain 2.
func (w *aWorld) certTx(orders *lib.Orders, dex *lib.DexBatch) ([]byte, lib.ErrorI) {
	return CertResultsTx(w.c, 2, &w.nestedH, &lib.CertificateResult{
		RewardRecipients: &lib.RewardRecipients{PaymentPercents: []*lib.PaymentPercents{{Address: addr(kV), Percent: 100, ChainId: 2}}},
		SlashRecipients:  &lib.SlashRecipients{}, Orders: orders, DexBatch: dex,
	})
}

// CertResultsTx builds what controller.SendCertificateResultsTx submits to the root chain: the
// nested chain's certificate (block stripped), signed by the nested committee as staked on the
// root chain at the certificate's root height, wrapped in a tx signed by the QC's proposer.
func CertResultsTx(root *env.Chain, nested uint64, nestedH *uint64, results *lib.CertificateResult) ([]byte, lib.ErrorI) {
	*nestedH++
	rootH := root.Height() - 1
	if rootH == 0 {
		rootH = 1
	}
	vs, err := root.FSM.LoadCommittee(nested, rootH)
	if err != nil {
		return nil, err
	}
	blk := &lib.Block{BlockHeader: &lib.BlockHeader{Height: *nestedH, Hash: crypto.Hash([]byte(fmt.Sprintf("nested-%d-%d", nested, *nestedH)))}}
	qc, err := env.MakeQC(vs, &lib.View{NetworkId: env.NetworkID, ChainId: nested, Height: *nestedH, RootHeight: rootH, Phase: lib.Phase_PRECOMMIT_VOTE},
		blk, results, env.BLS(kV).PublicKey().Bytes(), nil)
	if err != nil {
		return nil, err
	}
	qc.Block = nil
	return Tx(env.BLS(kV), &fsm.MessageCertificateResults{Qc: qc}, env.ChainID, 0, *nestedH, ""), nil
}

// step executes one recipe. enabled=false: the recipe refers to something that does not exist.
func (w *aWorld) step(op AOp, names []string, path []int) (enabled bool, changed bool, viols []mc.Viol) {
	rp := AReplay{Part: "A", Mode: w.mode, Ops: names, Path: path}
	bad := func(kind, what string) {
		viols = append(viols, viol("C20:orderbook:"+kind+":path="+w.mode, fmt.Sprintf("mode=%s after %v: %s", w.mode, names, what), rp))
	}
	before := scanA(w.c.FSM)
	var txs [][]byte
	fees := map[int]uint64{}
	var results func(c *env.Chain, blk *lib.Block, br *lib.BlockResult) *lib.CertificateResult
	var tx []byte
	var signer int
	var fee uint64
	var createdId string
	var ownOrders *lib.Orders
	switch op.Kind {
	case "create":
		key := fmt.Sprintf("create/%d/%d", op.Seller, op.Amt)
		w.uses[key]++
		signer, fee = op.Seller, aFeeCreate
		tx = Tx(env.BLS(op.Seller), &fsm.MessageCreateOrder{ChainId: w.book, AmountForSale: op.Amt, RequestedAmount: op.Amt * 2,
			SellerReceiveAddress: []byte("extern-seller-recv-addr"), SellersSendAddress: addr(op.Seller)}, env.ChainID, fee, uint64(w.uses[key]), "")
		createdId = hx(TxOrderId(tx))
	case "edit", "delete", "deleteOther":
		id := w.target(op.K)
		if id == nil {
			return false, false, nil
		}
		l := w.led[hx(id)]
		signer = l.Seller
		key := fmt.Sprintf("%s/%s/%d", op.Kind, hx(id), op.Amt)
		w.uses[key]++
		switch op.Kind {
		case "edit":
			fee = aFeeEdit
			tx = Tx(env.BLS(signer), &fsm.MessageEditOrder{OrderId: id, ChainId: w.book, AmountForSale: op.Amt, RequestedAmount: op.Amt * 3,
				SellerReceiveAddress: []byte("extern-seller-recv-addr")}, env.ChainID, fee, uint64(w.uses[key]), "")
		case "deleteOther":
			signer = kS1 + kS2 - l.Seller
			fallthrough
		default:
			fee = aFeeDelete
			tx = Tx(env.BLS(signer), &fsm.MessageDeleteOrder{OrderId: id, ChainId: w.book}, env.ChainID, fee, uint64(w.uses[key]), "")
		}
	case "cert":
		o, ok := w.orders(op)
		if !ok {
			return false, false, nil
		}
		if w.mode == "tx" {
			t, err := w.certTx(o, nil)
			if err != nil {
				bad("harness-error", "cannot build certificate tx: "+err.Error())
				return true, false, viols
			}
			tx, signer, fee = t, kV, 0
		} else {
			ownOrders = o
			results = func(c *env.Chain, blk *lib.Block, br *lib.BlockResult) *lib.CertificateResult {
				r := env.DefaultResults(c, blk, br)
				r.Orders = ownOrders
				return r
			}
		}
	}
	if tx != nil {
		txs = append(txs, tx)
	}
	cm, err := w.c.StepFast(env.BlockSpec{Txs: txs, Proposer: kV, Results: results}, nil)
	if err != nil {
		bad("block-failed", "block could not be committed: "+err.Error())
		return true, false, viols
	}
	txIn := tx != nil && included(cm, tx)
	if txIn {
		fees[signer] += fee
	}
	if ownOrders != nil {
		// the instructions are applied by the next block's BeginBlock
		if _, err = w.c.StepFast(env.BlockSpec{Proposer: kV}, nil); err != nil {
			bad("block-failed", "block applying the certificate results could not be committed: "+err.Error())
			return true, false, viols
		}
	}
	after := scanA(w.c.FSM)

	// ---- oracle, from the two raw scans and the balance differences only ---------------
	// (1) escrow pool(chain) == sum of AmountForSale over that chain's open orders
	for _, b := range []uint64{1, 2} {
		sum := bi(0)
		for _, o := range after.Orders {
			if o.Book == b {
				sum.Add(sum, bi(o.O.AmountForSale))
			}
		}
		if sum.Cmp(bi(after.Escrow[b])) != 0 {
			bad("escrow-ne-open-orders", fmt.Sprintf("escrow pool of chain %d holds %d but its open orders sum to %s", b, after.Escrow[b], sum))
		}
	}
	// (2) balance differences net of fees, attributed to the order(s) the block touched
	delta := map[int]int64{}
	for _, k := range aTracked {
		delta[k] = int64(after.Bal[k]) + int64(fees[k]) - int64(before.Bal[k])
	}
	expect := map[string]int64{} // hex address -> expected change
	isCloseTarget := func(id []byte) bool {
		for _, in := range op.Ins {
			if in.Typ == "close" && bytes.Equal(w.target(in.K), id) {
				return true
			}
		}
		return false
	}
	lockInCert := func(id []byte) []byte {
		for _, in := range op.Ins {
			if in.Typ == "lock" && bytes.Equal(w.target(in.K), id) {
				return addr(in.Buyer)
			}
		}
		return nil
	}
	allIds := map[string]bool{}
	for id := range before.Orders {
		allIds[id] = true
	}
	for id := range after.Orders {
		allIds[id] = true
	}
	outcome := "none"
	for id := range allIds {
		bo, wasOpen := before.Orders[id]
		ao, isOpen := after.Orders[id]
		switch {
		case !wasOpen && isOpen:
			if id != createdId || !txIn {
				bad("order-appeared", fmt.Sprintf("order %s appeared without a create", id))
				continue
			}
			outcome = "created"
			expect[hx(ao.O.SellersSendAddress)] -= int64(ao.O.AmountForSale)
			w.led[id] = &aLedger{Id: ao.O.Id, Seller: op.Seller, In: ao.O.AmountForSale}
			w.ids = append(w.ids, id)
			sort.Strings(w.ids)
		case wasOpen && !isOpen:
			l := w.led[id]
			amt := bo.O.AmountForSale
			var to []byte
			switch {
			case (op.Kind == "delete" || op.Kind == "deleteOther") && txIn && bytes.Equal(w.target(op.K), bo.O.Id):
				if op.Kind == "deleteOther" {
					bad("unauthorized-delete", fmt.Sprintf("order %s was deleted by a non-owner", id))
				}
				to, outcome = bo.O.SellersSendAddress, "deleted"
			case op.Kind == "cert" && isCloseTarget(bo.O.Id):
				to = bo.O.BuyerReceiveAddress
				outcome = "closed"
				if to == nil {
					to, outcome = lockInCert(bo.O.Id), "locked+closed"
				}
				if to == nil {
					bad("close-of-unlocked", fmt.Sprintf("order %s left the book through a close although no lock was in force", id))
				}
			default:
				bad("order-vanished", fmt.Sprintf("order %s (amount %d) left the book under %s", id, amt, op))
			}
			if to != nil {
				expect[hx(to)] += int64(amt)
			}
			l.Out += amt
			l.Closed = true
		case wasOpen && isOpen:
			a0, a1 := bo.O.AmountForSale, ao.O.AmountForSale
			l := w.led[id]
			if a0 != a1 {
				if !(op.Kind == "edit" && txIn && bytes.Equal(w.target(op.K), bo.O.Id)) {
					bad("amount-changed", fmt.Sprintf("order %s changed its amount %d -> %d under %s", id, a0, a1, op))
				}
				outcome = "edited"
				expect[hx(bo.O.SellersSendAddress)] += int64(a0) - int64(a1)
				if a1 > a0 {
					l.In += a1 - a0
				} else {
					l.Out += a0 - a1
				}
			}
			// a lock in force may only be lifted (reset), never replaced
			if bo.O.BuyerReceiveAddress != nil && ao.O.BuyerReceiveAddress != nil && !bytes.Equal(bo.O.BuyerReceiveAddress, ao.O.BuyerReceiveAddress) {
				bad("lock-overwritten", fmt.Sprintf("order %s was locked for %x and is now locked for %x", id, bo.O.BuyerReceiveAddress, ao.O.BuyerReceiveAddress))
			}
			switch {
			case bo.O.BuyerReceiveAddress == nil && ao.O.BuyerReceiveAddress != nil:
				outcome = "locked"
			case bo.O.BuyerReceiveAddress != nil && ao.O.BuyerReceiveAddress == nil:
				outcome = "reset"
			}
			l.Buyer = ao.O.BuyerReceiveAddress
		}
	}
	for _, k := range aTracked {
		want := expect[hx(addr(k))]
		delete(expect, hx(addr(k)))
		if delta[k] != want {
			bad("wrong-payout", fmt.Sprintf("account of key %d changed by %d (net of fees), entitled change is %d; op %s", k, delta[k], want, op))
		}
	}
	for a, v := range expect {
		if v != 0 {
			bad("wrong-payout", fmt.Sprintf("address %s is entitled to %d but is not a tracked party", a, v))
		}
	}
	// tracked accounts and escrow pools form a closed system (fees aside)
	tot := int64(0)
	for _, k := range aTracked {
		tot += delta[k]
	}
	for _, b := range []uint64{1, 2} {
		tot += int64(after.Escrow[b]) - int64(before.Escrow[b])
	}
	if tot != 0 {
		bad("escrow-leak", fmt.Sprintf("sellers + buyers + escrow pools changed by %d in total", tot))
	}
	// (3) whole-history ledger: every order's escrow is paid out exactly once
	for id, l := range w.led {
		o, open := after.Orders[id]
		switch {
		case open && l.Closed:
			bad("order-reappeared", fmt.Sprintf("order %s is in the book again after it was paid out", id))
		case open && l.In-l.Out != o.O.AmountForSale:
			bad("ledger-mismatch", fmt.Sprintf("order %s: paid in %d, paid out %d, but the book says %d", id, l.In, l.Out, o.O.AmountForSale))
		case !open && l.In != l.Out:
			bad("paid-not-once", fmt.Sprintf("order %s left the book with %d paid in and %d paid out", id, l.In, l.Out))
		}
	}
	if tx != nil && !txIn {
		outcome = "tx-rejected"
	}
	w.stats = append(w.stats, op.Kind+":"+outcome)
	var sb1, sb2 strings.Builder
	before.dump(&sb1)
	after.dump(&sb2)
	return true, sb1.String() != sb2.String(), viols
}

func (w *aWorld) key() string {
	var sb strings.Builder
	scanA(w.c.FSM).dump(&sb)
	for _, id := range w.ids {
		l := w.led[id]
		fmt.Fprintf(&sb, "|L%s:%d/%d/%v", id, l.In, l.Out, l.Closed)
	}
	return sb.String()
}

// ExecA replays one recipe path of part A on a fresh chain.
func ExecA(mode string, thorough bool, path []int) (res mc.ExecResult) {
	alpha := AAlphabet(thorough)
	w, err := newAWorld(mode)
	if err != nil {
		res.Viols = append(res.Viols, viol("C20:harness", "cannot create chain: "+err.Error(), nil))
		return
	}
	defer w.c.Close()
	names := make([]string, 0, len(path))
	changed := true
	for i, oi := range path {
		names = append(names, alpha[oi].String())
		en, ch, v := w.step(alpha[oi], names, path[:i+1])
		if i == len(path)-1 {
			res.Viols = append(res.Viols, v...)
		}
		if !en {
			return
		}
		changed = ch
	}
	if len(w.stats) > 0 {
		res.Viols = append(res.Viols, mc.Viol{Sig: "stat", What: "A/" + mode + "/" + w.stats[len(w.stats)-1]})
	}
	if len(res.Viols) > 1 || (len(res.Viols) == 1 && res.Viols[0].Sig != "stat") {
		return // do not expand a violating state
	}
	if !changed {
		return // stuttering step: checked, but its successors equal those of its source
	}
	res.Key, res.OK, res.Info = mc.Hash(w.key()), true, fmt.Sprint(len(w.ids))
	return
}

// AOpsFor drops the recipes that cannot be enabled in a state with n ever-created orders (they
// would be rejected as "not enabled" after a full replay of the prefix).
func AOpsFor(thorough bool) func(path []int, info string) []int {
	alpha := AAlphabet(thorough)
	need := make([]int, len(alpha))
	for i, o := range alpha {
		switch o.Kind {
		case "edit", "delete", "deleteOther":
			need[i] = o.K + 1
		case "cert":
			for _, in := range o.Ins {
				if in.K+1 > need[i] {
					need[i] = in.K + 1
				}
			}
		}
	}
	return func(_ []int, info string) []int {
		n := 0
		fmt.Sscan(info, &n)
		var ops []int
		for i := range alpha {
			if need[i] <= n {
				ops = append(ops, i)
			}
		}
		return ops
	}
}
