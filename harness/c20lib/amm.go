package c20lib

import (
	"bytes"
	"encoding/hex"
	"encoding/json"
	"fmt"
	"math/big"
	"sort"
	"strings"

	"github.com/canopy-network/canopy/fsm"
	"github.com/canopy-network/canopy/lib"
	"github.com/canopy-network/canopy/lib/crypto"

	"verifharness/env"
	"verifharness/mc"
)

// ---------------------------------------------------------------------------------------
// Part B — AMM pipeline between a root chain R (id 1, own root) and a nested chain N (id 2,
// root chain id 1). Both are real fsm.StateMachine instances on real stores, stepped in turn
// inside one worker process.
//
// One recipe = one TICK = one N block followed by one R block:
//
//   N block H : before ApplyBlock the harness does what controller.ProduceProposal /
//               ValidateProposal / CommitCertificate do: FSM.SetRootDexCache(R's locked batch for
//               committee 2 as served by the RPC handler, i.e. R.FSM.GetDexBatch(2,true), passed
//               through its JSON form). N's BeginBlock then runs HandleCertificateResults(QC(H-1),nil)
//               -> HandleDexBatch(isNested) -> HandleRemoteDexBatch. The results of block H are
//               built by a mirror of controller.HandleDex on the post-apply FSM: DexBatch = N's
//               locked batch (trigger block), RootDexBatch = the same root snapshot (with pool
//               points and the LivenessFallback flag when falling back). The certificate has a
//               root-chain RootHeight and is signed by committee 2 as staked on R.
//   R block   : carries the certificate-results transaction made from N's certificate of this
//               tick (block stripped, tx signed by the proposer) unless the recipe drops it, then
//               the R-side user transaction. HandleMessageCertificateResults ->
//               HandleCertificateResults -> HandleDexBatch(2, results, false).
//
// Environment recipes: tick (both directions delivered), drop (N->R certificate tx lost = a
// skipped rotation), stale (N does not see R's newest locked batch = a skipped rotation the
// other way), fallback (N signals the liveness fallback; executed by N's next block; the
// certificate of the signalling block still reaches R), fallback+drop (the same with that
// certificate lost: the root chain really is not taking N's certificates).

const (
	kA, kP, kQ = 1, 2, 3 // trader, genesis liquidity provider, newcomer liquidity provider
)

var bTracked = []int{kA, kP, kQ}

var deadAddress, _ = hex.DecodeString(strings.Repeat("dead", 10))

type BCfg struct {
	Name   string
	RR, RN uint64 // genesis reserves: R's pool of R-token (pool id 2+LiquidityPoolAddend on R), N's pool of N-token (1+LiquidityPoolAddend on N)
	// NoLP: the pools hold seeded liquidity but nobody ever provided liquidity: no point holders, total points 0
	NoLP bool
	// Capped: the pools already hold lib.MaxLiquidityProviders point holders (dead address, P and
	// fillers of fillerPoints points each), so every new provider goes through handleCappedBatchDeposit:
	// rejected (escrow returned) or admitted by force-withdrawing the lowest holder
	Capped bool
}

const (
	fillerPoints  = 100
	fillerTracked = 8 // the first fillers are the eviction candidates; their balances are observed
)

func fillerAddr(i int) []byte {
	a := bytes.Repeat([]byte{0xF1}, 20)
	a[18], a[19] = byte(i>>8), byte(i)
	return a
}

func isFiller(a []byte) bool { return len(a) == 20 && bytes.Equal(a[:18], bytes.Repeat([]byte{0xF1}, 18)) }

var BConfigs = []BCfg{
	{"1e3x1e3", 1000, 1000, false, false},
	{"1x1", 1, 1, false, false},
	{"1x2p62", 1, 1 << 62, false, false},
	{"2p63x2p63", 1 << 63, 1 << 63, false, false},
	{"1e3x1e3-nolp", 1000, 1000, true, false},
	{"1e6x1e6-capped", 1_000_000, 1_000_000, false, true},
}

func bCfgByName(n string) BCfg {
	for _, c := range BConfigs {
		if c.Name == n {
			return c
		}
	}
	panic("unknown config " + n)
}

type BOp struct {
	Kind  string `json:"kind"` // order | pair | deposit | withdraw | tick | drop | stale | fallback
	Chain string `json:"chain,omitempty"`
	Who   int    `json:"who,omitempty"`
	Amt   string `json:"amt,omitempty"` // one | large
	Req   string `json:"req,omitempty"` // at | below | above
	Pct   uint64 `json:"pct,omitempty"`
}

func (o BOp) String() string {
	who := map[int]string{kA: "A", kP: "P", kQ: "Q"}[o.Who]
	switch o.Kind {
	case "order":
		return fmt.Sprintf("order%s(%s,%s)", o.Chain, o.Amt, o.Req)
	case "pair":
		return fmt.Sprintf("orders%s(large/at+large/above)", o.Chain)
	case "pair2":
		return fmt.Sprintf("orders%s(large/half+large/half)", o.Chain)
	case "deposit":
		if o.Amt != "" {
			return fmt.Sprintf("deposit%s(%s,%s)", o.Chain, who, o.Amt)
		}
		return fmt.Sprintf("deposit%s(%s)", o.Chain, who)
	case "withdraw":
		return fmt.Sprintf("withdraw%s(%s,%d%%)", o.Chain, who, o.Pct)
	}
	return o.Kind
}

// BAlphabet is the recipe alphabet of part B (the same for every reserve configuration).
func BAlphabet(thorough bool) []BOp {
	a := []BOp{
		{Kind: "tick"}, {Kind: "drop"}, {Kind: "stale"}, {Kind: "fallback"}, {Kind: "fallback+drop"},
		{Kind: "order", Chain: "N", Amt: "large", Req: "at"},
		{Kind: "order", Chain: "N", Amt: "large", Req: "below"},
		{Kind: "order", Chain: "N", Amt: "one", Req: "at"},
		{Kind: "order", Chain: "R", Amt: "large", Req: "at"},
		{Kind: "order", Chain: "R", Amt: "large", Req: "above"},
		{Kind: "order", Chain: "R", Amt: "one", Req: "at"},
		{Kind: "pair", Chain: "N"},
		{Kind: "deposit", Chain: "N", Who: kQ},
		{Kind: "deposit", Chain: "R", Who: kQ},
		{Kind: "withdraw", Chain: "N", Who: kP, Pct: 1},
		{Kind: "withdraw", Chain: "N", Who: kP, Pct: 100},
		{Kind: "withdraw", Chain: "R", Who: kP, Pct: 50},
		{Kind: "withdraw", Chain: "R", Who: kP, Pct: 100},
		// two orders in one block that BOTH clear their limit (half of the quoted amount): offered only in the small-capacity
		// build, where a batch settles one order per block (lib.MaxOrdersSettledPerBlock overlaid to 1)
		{Kind: "pair2", Chain: "N"},
		{Kind: "pair2", Chain: "R"},
	}
	if thorough {
		a = append(a,
			BOp{Kind: "order", Chain: "N", Amt: "large", Req: "above"},
			BOp{Kind: "order", Chain: "R", Amt: "large", Req: "below"},
			BOp{Kind: "pair", Chain: "R"},
			BOp{Kind: "deposit", Chain: "R", Who: kP},
			BOp{Kind: "withdraw", Chain: "N", Who: kP, Pct: 50},
			BOp{Kind: "withdraw", Chain: "R", Who: kP, Pct: 1},
			BOp{Kind: "withdraw", Chain: "N", Who: kQ, Pct: 100},
		)
	}
	return a
}

// CappedAlphabet is the recipe alphabet of the provider-cap configuration. Deposit amounts: the pool
// holds 10^6 on both sides with 10^6 points, so a one-sided deposit of d mints about d/2 points and the
// lowest holder has fillerPoints=100: "small" (150 -> ~74 points) is rejected, "split" (two deposits of
// 60 by the same newcomer in one batch -> ~59 points) is rejected as ONE provider, "split-big" (two of
// 150 -> ~149 points) and the default large deposit out-rank the lowest holder, who is force-withdrawn.
func CappedAlphabet() []BOp {
	return []BOp{
		{Kind: "tick"}, {Kind: "drop"}, {Kind: "fallback"},
		{Kind: "deposit", Chain: "N", Who: kQ, Amt: "small"},
		{Kind: "deposit", Chain: "N", Who: kQ, Amt: "split"},
		{Kind: "deposit", Chain: "N", Who: kQ, Amt: "split-big"},
		{Kind: "deposit", Chain: "N", Who: kQ},
		{Kind: "deposit", Chain: "R", Who: kQ, Amt: "small"},
		{Kind: "deposit", Chain: "R", Who: kQ, Amt: "split"},
		{Kind: "deposit", Chain: "R", Who: kQ, Amt: "split-big"},
		{Kind: "deposit", Chain: "N", Who: kP, Amt: "small"},
		{Kind: "withdraw", Chain: "N", Who: kP, Pct: 100},
		{Kind: "order", Chain: "N", Amt: "large", Req: "at"},
	}
}

// AlphaFor is the recipe alphabet of a part-B configuration.
func AlphaFor(cfgName string, thorough bool) []BOp {
	if bCfgByName(strings.SplitN(cfgName, "#", 2)[0]).Capped {
		return CappedAlphabet()
	}
	return BAlphabet(thorough)
}

// refDY is the harness's own statement of the constant-product output with the 1% input fee,
// rounded down. It is used to pick "at / just below / just above" limits, never as an oracle.
func refDY(x, y, dX uint64) uint64 {
	in := new(big.Int).Mul(bi(dX), big.NewInt(990))
	num := new(big.Int).Mul(in, bi(y))
	den := new(big.Int).Add(new(big.Int).Mul(bi(x), big.NewInt(1000)), in)
	if den.Sign() == 0 {
		return 0
	}
	q := num.Div(num, den)
	if !q.IsUint64() {
		return ^uint64(0)
	}
	return q.Uint64()
}

type bChain struct {
	name        string
	id, counter uint64
	c           *env.Chain
	capped      bool
}

type bScan struct {
	Liq    *fsm.Pool
	Hold   uint64
	Locked *lib.DexBatch // nil = key absent
	Next   *lib.DexBatch
	Bal    map[int]uint64
	Fill   map[string]uint64 // capped configuration: balances of the first fillers (hex address)
}

func scanB(ch *bChain) *bScan {
	sm := ch.c.FSM
	s := &bScan{Liq: &fsm.Pool{}, Bal: map[int]uint64{}}
	get := func(k []byte) []byte {
		v, err := sm.Get(k)
		if err != nil {
			panic(err)
		}
		return v
	}
	if bz := get(fsm.KeyForPool(ch.counter + fsm.LiquidityPoolAddend)); bz != nil {
		if err := lib.Unmarshal(bz, s.Liq); err != nil {
			panic(err)
		}
	}
	if bz := get(fsm.KeyForPool(ch.counter + fsm.HoldingPoolAddend)); bz != nil {
		p := new(fsm.Pool)
		if err := lib.Unmarshal(bz, p); err != nil {
			panic(err)
		}
		s.Hold = p.Amount
	}
	if bz := get(fsm.KeyForLockedBatch(ch.counter)); bz != nil {
		s.Locked = new(lib.DexBatch)
		if err := lib.Unmarshal(bz, s.Locked); err != nil {
			panic(err)
		}
	}
	if bz := get(fsm.KeyForNextBatch(ch.counter)); bz != nil {
		s.Next = new(lib.DexBatch)
		if err := lib.Unmarshal(bz, s.Next); err != nil {
			panic(err)
		}
	}
	for _, k := range bTracked {
		s.Bal[k] = balance(sm, addr(k))
	}
	if ch.capped {
		s.Fill = map[string]uint64{}
		for i := 0; i < fillerTracked; i++ {
			s.Fill[hx(fillerAddr(i))] = balance(sm, fillerAddr(i))
		}
	}
	return s
}

func batchOps(b *lib.DexBatch) int {
	if b == nil {
		return 0
	}
	return len(b.Orders) + len(b.Deposits) + len(b.Withdrawals)
}

func dumpBatch(sb *strings.Builder, tag string, b *lib.DexBatch) {
	if b == nil {
		fmt.Fprintf(sb, "%s:nil|", tag)
		return
	}
	fmt.Fprintf(sb, "%s:ps=%d cps=%d empty=%v O[", tag, b.PoolSize, b.CounterPoolSize, b.IsEmpty())
	for _, o := range b.Orders {
		fmt.Fprintf(sb, "%s/%d/%d/%s,", short(o.Address), o.AmountForSale, o.RequestedAmount, short(o.OrderId))
	}
	sb.WriteString("]D[")
	for _, d := range b.Deposits {
		fmt.Fprintf(sb, "%s/%d/%s,", short(d.Address), d.Amount, short(d.OrderId))
	}
	sb.WriteString("]W[")
	for _, x := range b.Withdrawals {
		fmt.Fprintf(sb, "%s/%d/%s,", short(x.Address), x.Percent, short(x.OrderId))
	}
	fmt.Fprintf(sb, "]R%v|", b.Receipts)
}

func (s *bScan) dump(sb *strings.Builder, tag string) {
	fmt.Fprintf(sb, "%s liq=%d tot=%d P[", tag, s.Liq.Amount, s.Liq.TotalPoolPoints)
	pp := append([]*lib.PoolPoints{}, s.Liq.Points...)
	sort.Slice(pp, func(i, j int) bool { return bytes.Compare(pp[i].Address, pp[j].Address) < 0 })
	untouched := 0
	for _, p := range pp {
		if isFiller(p.Address) && p.Points == fillerPoints {
			untouched++
			continue
		}
		fmt.Fprintf(sb, "%s=%d,", short(p.Address), p.Points)
	}
	if untouched > 0 {
		fmt.Fprintf(sb, "fillers=%d,", untouched)
	}
	fmt.Fprintf(sb, "] hold=%d ", s.Hold)
	dumpBatch(sb, "L", s.Locked)
	dumpBatch(sb, "N", s.Next)
	for _, k := range bTracked {
		fmt.Fprintf(sb, " b%d=%d", k, s.Bal[k])
	}
	for i := 0; i < fillerTracked && s.Fill != nil; i++ {
		if v := s.Fill[hx(fillerAddr(i))]; v != 0 {
			fmt.Fprintf(sb, " f%d=%d", i, v)
		}
	}
	sb.WriteString("\n")
}

// bItem is the harness-side history of one escrowed DEX operation (limit order or deposit).
type bItem struct {
	Id          string
	Kind        string // order | deposit
	Origin      string // chain it was submitted on
	Addr        []byte
	Amount      uint64
	Requested   uint64
	State       string // pending | absorbed | refunded
	OriginDY    uint64 // what the origin chain was told the counter chain paid (receipt)
	CounterSeen bool   // the counter chain has executed the batch containing it
	CounterPaid uint64 // what the counter chain actually credited
	Judged      bool
}

type BReplay struct {
	Part   string   `json:"part"`
	Config string   `json:"config"`
	Ops    []string `json:"ops"`
	Path   []int    `json:"path"`
}

type bWorld struct {
	cfg             BCfg
	R, N            *bChain
	rootSnap        *lib.DexBatch // R's locked batch for committee 2 as N currently sees it
	lastRootInQC    *lib.DexBatch // RootDexBatch of N's last certificate (gate and fallback input of N's next block)
	pendingFallback bool
	fallbackEver    bool
	syncStreak      int
	warmup          bool
	items           map[string]*bItem
	once            map[string]bool // chain:kind:id -> an LP operation already took effect on that chain
	uses            map[string]int
	stats           []string
	names           []string
	path            []int
	viols           []mc.Viol
}

func isqrtProd(a, b uint64) uint64 {
	return new(big.Int).Sqrt(new(big.Int).Mul(bi(a), bi(b))).Uint64()
}

func (cfg BCfg) large(ch string) uint64 {
	r := cfg.RR
	if ch == "N" {
		r = cfg.RN
	}
	if r/8 == 0 {
		return 1
	}
	return r / 8
}

func bGenesis(cfg BCfg, ch string) *fsm.GenesisState {
	r, counter, committees := cfg.RR, uint64(2), []uint64{1, 2}
	if ch == "N" {
		r, counter, committees = cfg.RN, 1, []uint64{2}
	}
	g := env.NewGenesis(map[int]uint64{kV: 1_000, kA: r/4 + 4, kP: r/8 + 4, kQ: r/4 + 4},
		[]env.ValSpec{{Key: kV, Stake: 1_000_000, Committees: committees, OutputKey: -1}}, nil)
	L := isqrtProd(cfg.RR, cfg.RN)
	p := &fsm.Pool{Id: counter + fsm.LiquidityPoolAddend, Amount: r}
	if L/2 > 0 {
		p.Points = []*lib.PoolPoints{{Address: deadAddress, Points: L - L/2}, {Address: addr(kP), Points: L / 2}}
	} else {
		p.Points = []*lib.PoolPoints{{Address: deadAddress, Points: L}}
	}
	p.TotalPoolPoints = L
	if cfg.NoLP {
		p.Points, p.TotalPoolPoints = nil, 0
	}
	if cfg.Capped {
		n := lib.MaxLiquidityProviders - 2
		rest := L - L/10 - uint64(n)*fillerPoints
		p.Points = []*lib.PoolPoints{{Address: deadAddress, Points: rest}, {Address: addr(kP), Points: L / 10}}
		for i := 0; i < n; i++ {
			p.Points = append(p.Points, &lib.PoolPoints{Address: fillerAddr(i), Points: fillerPoints})
		}
	}
	g.Pools = append(g.Pools, p)
	return g
}

func newBWorld(cfg BCfg) (*bWorld, error) {
	rc, err := env.NewChain(bGenesis(cfg, "R"))
	if err != nil {
		return nil, err
	}
	nc, err := env.NewChain(bGenesis(cfg, "N"), func(c *lib.Config) { c.ChainId = 2 })
	if err != nil {
		rc.Close()
		return nil, err
	}
	w := &bWorld{cfg: cfg, R: &bChain{"R", 1, 2, rc, cfg.Capped}, N: &bChain{"N", 2, 1, nc, cfg.Capped}, items: map[string]*bItem{}, uses: map[string]int{}, once: map[string]bool{}}
	return w, nil
}

func (w *bWorld) close() { w.R.c.Close(); w.N.c.Close() }

func (w *bWorld) bad(kind, what string) {
	w.viols = append(w.viols, viol("C20:amm:"+kind, fmt.Sprintf("reserves=%s after %v: %s", w.cfg.Name, w.names, what),
		BReplay{Part: "B", Config: w.cfg.Name, Ops: w.names, Path: w.path}))
}

// snapshotRoot is RCManager.GetDexBatch(rootChainId, rcBuildHeight, committee=2, withPoints): the
// RPC handler calls FSM.GetDexBatch(id, true, points) and the answer travels as JSON.
func (w *bWorld) snapshotRoot(withPoints bool) *lib.DexBatch {
	b, err := w.R.c.FSM.GetDexBatch(2, true, withPoints)
	if err != nil {
		panic(err)
	}
	return jsonTrip(b)
}

func jsonTrip(b *lib.DexBatch) *lib.DexBatch {
	if b == nil {
		return nil
	}
	bz, e := json.Marshal(b)
	if e != nil {
		panic(e)
	}
	out := new(lib.DexBatch)
	if e = json.Unmarshal(bz, out); e != nil {
		panic(e)
	}
	return out
}

func canonicalHash(b *lib.DexBatch) []byte {
	c := b.Copy()
	c.LivenessFallback = false
	return c.Hash()
}

type bUserTx struct {
	tx    []byte
	kind  string
	who   int
	amt   uint64
	req   uint64
	chain string
}

// userTxs builds the user transactions of a recipe.
func (w *bWorld) userTxs(op BOp, sr, sn *bScan) []bUserTx {
	if op.Chain == "" {
		return nil
	}
	ch, own, other := w.R, sr, sn
	if op.Chain == "N" {
		ch, own, other = w.N, sn, sr
	}
	// per-recipe running number; the recipe name also goes into the memo because two recipes may
	// produce byte-identical messages under degenerate reserves
	nonce := func(key string) uint64 { w.uses[key]++; return uint64(w.uses[key]) }
	large := w.cfg.large(op.Chain)
	mk := func(who int, amtClass, reqClass string) bUserTx {
		dX := uint64(1)
		if amtClass == "large" {
			dX = large
		}
		ref := refDY(own.Liq.Amount, other.Liq.Amount, dX)
		req := ref
		switch reqClass {
		case "below":
			if req > 1 {
				req--
			}
		case "above":
			req++
		case "half":
			req = req / 2
		}
		if req == 0 {
			req = 1
		}
		key := fmt.Sprintf("order/%s/%s/%s", op.Chain, amtClass, reqClass)
		tx := Tx(env.BLS(who), &fsm.MessageDexLimitOrder{ChainId: ch.counter, AmountForSale: dX, RequestedAmount: req, Address: addr(who)}, ch.id, 0, nonce(key), key)
		return bUserTx{tx, "order", who, dX, req, op.Chain}
	}
	switch op.Kind {
	case "order":
		return []bUserTx{mk(kA, op.Amt, op.Req)}
	case "pair":
		return []bUserTx{mk(kA, "large", "at"), mk(kA, "large", "above")}
	case "pair2":
		return []bUserTx{mk(kA, "large", "half"), mk(kA, "large", "half")}
	case "deposit":
		amts := []uint64{large}
		switch op.Amt {
		case "small":
			amts = []uint64{150}
		case "split":
			amts = []uint64{60, 60}
		case "split-big":
			amts = []uint64{150, 150}
		}
		var out []bUserTx
		for i, amt := range amts {
			key := fmt.Sprintf("deposit/%s/%d/%s/%d", op.Chain, op.Who, op.Amt, i)
			if op.Amt == "" {
				key = fmt.Sprintf("deposit/%s/%d", op.Chain, op.Who)
			}
			tx := Tx(env.BLS(op.Who), &fsm.MessageDexLiquidityDeposit{ChainId: ch.counter, Amount: amt, Address: addr(op.Who)}, ch.id, 0, nonce(key), key)
			out = append(out, bUserTx{tx, "deposit", op.Who, amt, 0, op.Chain})
		}
		return out
	case "withdraw":
		key := fmt.Sprintf("withdraw/%s/%d/%d", op.Chain, op.Who, op.Pct)
		tx := Tx(env.BLS(op.Who), &fsm.MessageDexLiquidityWithdraw{ChainId: ch.counter, Percent: op.Pct, Address: addr(op.Who)}, ch.id, 0, nonce(key), key)
		return []bUserTx{{tx, "withdraw", op.Who, 0, 0, op.Chain}}
	}
	return nil
}

// nResults mirrors controller.HandleDex (plus the reward recipients CalculateRewardRecipients
// would produce for a lone proposer) on N's post-apply state.
func (w *bWorld) nResults(fallback bool, flagged *bool) func(c *env.Chain, blk *lib.Block, br *lib.BlockResult) *lib.CertificateResult {
	return func(c *env.Chain, blk *lib.Block, br *lib.BlockResult) *lib.CertificateResult {
		res := &lib.CertificateResult{
			RewardRecipients: &lib.RewardRecipients{PaymentPercents: []*lib.PaymentPercents{
				{Address: blk.BlockHeader.ProposerAddress, Percent: 100, ChainId: 1},
				{Address: blk.BlockHeader.ProposerAddress, Percent: 100, ChainId: 2}}},
			SlashRecipients: &lib.SlashRecipients{},
		}
		sm := c.FSM
		batch, err := sm.GetDexBatch(1, true)
		if err != nil {
			panic(err)
		}
		bal, err := sm.GetPoolBalance(1 + fsm.LiquidityPoolAddend)
		if err != nil {
			panic(err)
		}
		if bal == 0 {
			return res
		}
		trigger := false
		if !batch.IsEmpty() {
			// controller: (height-lockedHeight) % lib.TriggerModuloBlocks == 0. The harness re-sends on
			// every block; the "drop" recipe removes deliveries, so every real schedule is a sub-schedule.
			trigger = true
			res.DexBatch = batch.Copy()
		}
		// controller: fallback once the batch has been locked for >= lib.LivenessFallbackBlocks (60);
		// the harness lets the explorer choose it as soon as the batch is older than this block.
		live := fallback && trigger && !batch.IsEmpty() && batch.LockedHeight < sm.Height()
		if w.rootSnap == nil {
			return res // RCManager error: HandleDex logs and leaves RootDexBatch unset
		}
		if live {
			// second RPC read, this time with pool points (same root height => same batch)
			withPts := w.snapshotRootLike(w.rootSnap)
			res.RootDexBatch = withPts
		} else {
			res.RootDexBatch = jsonTrip(w.rootSnap)
		}
		res.RootDexBatch.LivenessFallback = live
		*flagged = live
		return res
	}
}

// snapshotRootLike re-reads the root batch with points at the root height the snapshot was taken
// at. Points only change when R executes a batch, which also changes the locked batch; if the
// snapshot is stale the points of that older root height are not reconstructed — the recipe
// alphabet never combines "stale" with "fallback", so the two reads always see the same height.
func (w *bWorld) snapshotRootLike(snap *lib.DexBatch) *lib.DexBatch {
	p := w.snapshotRoot(true)
	out := jsonTrip(snap)
	out.PoolPoints, out.TotalPoolPoints = p.PoolPoints, p.TotalPoolPoints
	return out
}

type bBlockCtx struct {
	ch           *bChain
	before       *bScan
	after        *bScan
	cm           *env.Committed
	user         []bUserTx
	delivered    *lib.DexBatch
	fallbackExec bool
}

func (w *bWorld) addExpect(m map[string]*big.Int, a []byte, v uint64, sign int64) {
	k := hx(a)
	if m[k] == nil {
		m[k] = new(big.Int)
	}
	d := bi(v)
	if sign < 0 {
		d.Neg(d)
	}
	m[k].Add(m[k], d)
}

// analyze applies the per-block oracles to one block of one chain.
func (w *bWorld) analyze(ctx *bBlockCtx) {
	X, b, a := ctx.ch, ctx.before, ctx.after
	tag := "chain " + X.name + ": "
	expect := map[string]*big.Int{}
	outcome := []string{}
	dispose := func(id []byte, kind, how string, amount uint64) *bItem {
		it := w.items[hx(id)]
		if it == nil {
			w.bad("unknown-item", tag+fmt.Sprintf("%s %x was %s but the harness never saw it being escrowed", kind, id, how))
			return nil
		}
		if it.State != "pending" {
			w.bad("disposed-twice", tag+fmt.Sprintf("%s %s (amount %d) is %s again; it was already %s", kind, it.Id, it.Amount, how, it.State))
		}
		if it.Origin != X.name {
			w.bad("wrong-chain", tag+fmt.Sprintf("%s %s of chain %s settled on chain %s", kind, it.Id, it.Origin, X.name))
		}
		if amount != it.Amount {
			w.bad("wrong-amount", tag+fmt.Sprintf("%s %s escrowed %d but %d is being %s", kind, it.Id, it.Amount, amount, how))
		}
		it.State = how
		return it
	}
	// liveness fallback: refunds every order and deposit of N's locked batch (no events are emitted)
	if ctx.fallbackExec && ctx.delivered != nil && b.Liq.Amount != 0 {
		outcome = append(outcome, "fallback-executed")
		if b.Locked != nil {
			for _, o := range b.Locked.Orders {
				if it := dispose(o.OrderId, "order", "refunded", o.AmountForSale); it != nil {
					w.addExpect(expect, it.Addr, it.Amount, +1)
				}
			}
			for _, d := range b.Locked.Deposits {
				if it := dispose(d.OrderId, "deposit", "refunded", d.Amount); it != nil {
					w.addExpect(expect, it.Addr, it.Amount, +1)
				}
			}
		}
	}
	// walk the DEX events of the block in emission order, tracking the local reserve y, the
	// mirrored counter reserve x and the point table
	y := bi(b.Liq.Amount)
	total := bi(b.Liq.TotalPoolPoints)
	pts := map[string]*big.Int{}
	for _, p := range b.Liq.Points {
		pts[hx(p.Address)] = bi(p.Points)
	}
	if ctx.fallbackExec && ctx.delivered != nil && b.Liq.Amount != 0 {
		// HandleLivenessFallback replaces the point table by the root chain's
		total = bi(ctx.delivered.TotalPoolPoints)
		pts = map[string]*big.Int{}
		for _, p := range ctx.delivered.PoolPoints {
			pts[hx(p.Address)] = bi(p.Points)
		}
	}
	var x *big.Int
	if ctx.delivered != nil {
		x = bi(ctx.delivered.PoolSize)
	}
	var remotePaid []uint64
	nRemoteSwaps, nRemoteLP := 0, 0
	for _, ev := range ctx.cm.BlockResult.Events {
		switch m := ev.Msg.(type) {
		case *lib.Event_DexSwap:
			s := m.DexSwap
			if s.LocalOrigin {
				how := "refunded"
				if s.Success {
					how = "absorbed"
				}
				it := dispose(s.OrderId, "order", how, s.SoldAmount)
				if it == nil {
					continue
				}
				outcome = append(outcome, "own-order-"+how)
				if s.Success {
					it.OriginDY = s.BoughtAmount
					y.Add(y, bi(s.SoldAmount))
					if x != nil {
						x.Sub(x, bi(s.BoughtAmount))
					}
				} else {
					w.addExpect(expect, it.Addr, it.Amount, +1)
				}
			} else {
				nRemoteSwaps++
				if x == nil {
					w.bad("swap-without-batch", tag+"a remote swap executed although no counter-chain batch was delivered")
					continue
				}
				if !s.Success {
					outcome = append(outcome, "swap-failed")
					if s.BoughtAmount != 0 {
						w.bad("failed-swap-paid", tag+fmt.Sprintf("failed swap reports a payout of %d", s.BoughtAmount))
					}
					remotePaid = append(remotePaid, 0)
					continue
				}
				outcome = append(outcome, "swap-executed")
				dX, dY := bi(s.SoldAmount), bi(s.BoughtAmount)
				// a swap never pays out more than the reserve
				if dY.Cmp(y) > 0 {
					w.bad("swap-payout-exceeds-reserve", tag+fmt.Sprintf("swap of %s pays %s out of a reserve of %s", dX, dY, y))
				}
				// ... nor lowers the product of the reserves
				k0 := new(big.Int).Mul(x, y)
				x1, y1 := new(big.Int).Add(x, dX), new(big.Int).Sub(y, dY)
				if k1 := new(big.Int).Mul(x1, y1); k1.Cmp(k0) < 0 {
					w.bad("swap-lowers-product", tag+fmt.Sprintf("swap (x=%s,y=%s) + dX=%s -> dY=%s gives (x'=%s,y'=%s): x'y'=%s < xy=%s", x, y, dX, dY, x1, y1, k1, k0))
				}
				x, y = x1, y1
				w.addExpect(expect, ev.Address, s.BoughtAmount, +1)
				remotePaid = append(remotePaid, s.BoughtAmount)
			}
		case *lib.Event_DexLiquidityWithdrawal:
			wd := m.DexLiquidityWithdrawal
			outcome = append(outcome, "withdraw-executed")
			if k := X.name + ":withdraw:" + hx(wd.OrderId); w.once[k] {
				w.bad(twice(ctx, "withdrawal-executed-twice"), tag+fmt.Sprintf("withdrawal request %x (%d%%) pays out a second time on this chain (now %d)", wd.OrderId, wd.Percent, wd.LocalAmount))
			} else {
				w.once[k] = true
			}
			holder := pts[hx(ev.Address)]
			if holder == nil {
				holder = new(big.Int)
			}
			burn := bi(wd.PointsBurned)
			maxBurn := new(big.Int).Div(new(big.Int).Mul(holder, bi(wd.Percent)), big.NewInt(100))
			if burn.Cmp(maxBurn) > 0 {
				w.bad("withdraw-burns-more-than-held", tag+fmt.Sprintf("withdrawal of %d%% burns %s points, provider holds %s", wd.Percent, burn, holder))
			}
			// a withdrawal pays at most share x reserve, rounded down
			bound := new(big.Int)
			if total.Sign() > 0 {
				bound.Div(new(big.Int).Mul(y, burn), total)
			}
			if bi(wd.LocalAmount).Cmp(bound) > 0 {
				w.bad("withdraw-exceeds-share", tag+fmt.Sprintf("withdrawal pays %d; share is %s/%s points of a reserve of %s = %s", wd.LocalAmount, burn, total, y, bound))
			}
			if bi(wd.LocalAmount).Cmp(y) > 0 {
				w.bad("withdraw-exceeds-reserve", tag+fmt.Sprintf("withdrawal pays %d out of a reserve of %s", wd.LocalAmount, y))
			}
			y.Sub(y, bi(wd.LocalAmount))
			if x != nil {
				x.Sub(x, bi(wd.RemoteAmount))
			}
			total.Sub(total, burn)
			pts[hx(ev.Address)] = new(big.Int).Sub(holder, burn)
			w.addExpect(expect, ev.Address, wd.LocalAmount, +1)
		case *lib.Event_DexLiquidityDeposit:
			d := m.DexLiquidityDeposit
			if d.LocalOrigin {
				if it := dispose(d.OrderId, "deposit", "absorbed", d.Amount); it != nil {
					y.Add(y, bi(d.Amount))
				}
				outcome = append(outcome, "own-deposit-absorbed")
			} else {
				if x != nil {
					x.Add(x, bi(d.Amount))
				}
				outcome = append(outcome, "remote-deposit-minted")
				nRemoteLP++
				if k := X.name + ":deposit:" + hx(d.OrderId); w.once[k] {
					w.bad(twice(ctx, "deposit-minted-twice"), tag+fmt.Sprintf("counter-chain deposit %x mints points a second time on this chain (now %d)", d.OrderId, d.Points))
				} else {
					w.once[k] = true
				}
			}
			total.Add(total, bi(d.Points))
			if pts[hx(ev.Address)] == nil {
				pts[hx(ev.Address)] = new(big.Int)
			}
			pts[hx(ev.Address)].Add(pts[hx(ev.Address)], bi(d.Points))
		}
	}
	if y.Cmp(bi(a.Liq.Amount)) != 0 {
		w.bad("pool-not-explained", tag+fmt.Sprintf("liquidity pool went %d -> %d but the settled orders, swaps, withdrawals and deposits of the block account for %s", b.Liq.Amount, a.Liq.Amount, y))
	}
	// provider cap: a newcomer that does not out-rank the lowest holder is rejected without an event and its
	// escrow goes back to its account - once, and exactly the sum of its deposits
	if w.cfg.Capped && b.Locked != nil && len(b.Liq.Points) >= lib.MaxLiquidityProviders-1 {
		still := map[string]bool{}
		for _, bt := range []*lib.DexBatch{a.Locked, a.Next} {
			if bt != nil {
				for _, d := range bt.Deposits {
					still[hx(d.OrderId)] = true
				}
			}
		}
		for _, d := range b.Locked.Deposits {
			it := w.items[hx(d.OrderId)]
			if it == nil || it.State != "pending" || it.Origin != X.name || still[hx(d.OrderId)] {
				continue
			}
			if dispose(d.OrderId, "deposit", "refunded", d.Amount) != nil {
				w.addExpect(expect, it.Addr, it.Amount, +1)
				outcome = append(outcome, "own-deposit-rejected-at-cap")
			}
		}
	}
	// user transactions of this block
	for _, u := range ctx.user {
		if u.chain != X.name {
			continue
		}
		if !included(ctx.cm, u.tx) {
			outcome = append(outcome, u.kind+"-tx-rejected")
			continue
		}
		outcome = append(outcome, u.kind+"-tx-accepted")
		if u.kind == "withdraw" {
			continue
		}
		id := hx(TxOrderId(u.tx))
		w.items[id] = &bItem{Id: id, Kind: u.kind, Origin: X.name, Addr: addr(u.who), Amount: u.amt, Requested: u.req, State: "pending"}
		w.addExpect(expect, addr(u.who), u.amt, -1)
	}
	// every account moved by exactly what it is entitled to (DEX txs carry no fee)
	for _, k := range bTracked {
		want := expect[hx(addr(k))]
		if want == nil {
			want = new(big.Int)
		}
		delete(expect, hx(addr(k)))
		got := new(big.Int).Sub(bi(a.Bal[k]), bi(b.Bal[k]))
		if got.Cmp(want) != 0 {
			w.bad("wrong-payout", tag+fmt.Sprintf("account of key %d changed by %s, the block's escrows, refunds, swaps and withdrawals entitle it to %s", k, got, want))
		}
	}
	for ad, was := range b.Fill {
		want := expect[ad]
		if want == nil {
			want = new(big.Int)
		}
		delete(expect, ad)
		if got := new(big.Int).Sub(bi(a.Fill[ad]), bi(was)); got.Cmp(want) != 0 {
			w.bad("wrong-payout", tag+fmt.Sprintf("account of point holder %s changed by %s, the block's forced withdrawals entitle it to %s", ad, got, want))
		}
	}
	for ad, v := range expect {
		if v.Sign() != 0 {
			w.bad("wrong-payout", tag+fmt.Sprintf("untracked address %s is entitled to %s", ad, v))
		}
	}
	// holding pool == sum of pending orders and deposits in the locked and next batches
	sum := new(big.Int)
	inBatches := map[string]bool{}
	for _, bt := range []*lib.DexBatch{a.Locked, a.Next} {
		if bt == nil {
			continue
		}
		for _, o := range bt.Orders {
			sum.Add(sum, bi(o.AmountForSale))
			if inBatches[hx(o.OrderId)] {
				w.bad("duplicate-in-batches", tag+fmt.Sprintf("order %x sits in the batches twice", o.OrderId))
			}
			inBatches[hx(o.OrderId)] = true
		}
		for _, d := range bt.Deposits {
			sum.Add(sum, bi(d.Amount))
			if inBatches[hx(d.OrderId)] {
				w.bad("duplicate-in-batches", tag+fmt.Sprintf("deposit %x sits in the batches twice", d.OrderId))
			}
			inBatches[hx(d.OrderId)] = true
		}
	}
	if sum.Cmp(bi(a.Hold)) != 0 {
		w.bad("holding-ne-pending", tag+fmt.Sprintf("holding pool holds %d but pending orders+deposits in locked+next batches sum to %s", a.Hold, sum))
	}
	// exactly the pending items sit in the batches (settled once, never dropped, never resurrected)
	for id, it := range w.items {
		if it.Origin != X.name {
			continue
		}
		if it.State == "pending" && !inBatches[id] {
			w.bad("escrow-lost", tag+fmt.Sprintf("%s %s (amount %d) left the batches without being absorbed or refunded", it.Kind, id, it.Amount))
			it.State = "lost"
		}
		if it.State != "pending" && it.State != "lost" && inBatches[id] {
			w.bad("settled-still-pending", tag+fmt.Sprintf("%s %s was %s but is still in a batch", it.Kind, id, it.State))
		}
	}
	// LP points sum to the pool's total
	ps := new(big.Int)
	for _, p := range a.Liq.Points {
		ps.Add(ps, bi(p.Points))
	}
	if ps.Cmp(bi(a.Liq.TotalPoolPoints)) != 0 {
		w.bad("points-ne-total", tag+fmt.Sprintf("LP points sum to %s, TotalPoolPoints is %d", ps, a.Liq.TotalPoolPoints))
	}
	// users + liquidity pool + holding pool form a closed system on this chain
	tot := new(big.Int)
	for _, k := range bTracked {
		tot.Add(tot, bi(a.Bal[k]))
		tot.Sub(tot, bi(b.Bal[k]))
	}
	for ad, was := range b.Fill {
		tot.Add(tot, bi(a.Fill[ad]))
		tot.Sub(tot, bi(was))
	}
	tot.Add(tot, bi(a.Liq.Amount))
	tot.Sub(tot, bi(b.Liq.Amount))
	tot.Add(tot, bi(a.Hold))
	tot.Sub(tot, bi(b.Hold))
	if tot.Sign() != 0 {
		w.bad("asset-not-conserved", tag+fmt.Sprintf("users + liquidity pool + holding pool changed by %s in one block", tot))
	}
	// did this block execute the delivered batch? (it then rotated with ReceiptHash = hash(delivered))
	// (a locked batch that already answered the delivered batch and is merely re-locked, with no swap
	// or LP event in the block, is not an execution)
	alreadyAnswered := ctx.delivered != nil && b.Locked != nil && bytes.Equal(b.Locked.ReceiptHash, canonicalHash(ctx.delivered))
	if ctx.delivered != nil && a.Locked != nil && !bytes.Equal(lockedId(a.Locked), lockedId(b.Locked)) && bytes.Equal(a.Locked.ReceiptHash, canonicalHash(ctx.delivered)) && !ctx.delivered.IsEmpty() &&
		(!alreadyAnswered || nRemoteSwaps > 0 || nRemoteLP > 0) {
		outcome = append(outcome, "batch-executed")
		rc := a.Locked.Receipts
		if len(rc) != len(ctx.delivered.Orders) && len(ctx.delivered.Orders) != 0 {
			w.bad("receipt-count", tag+fmt.Sprintf("%d receipts for %d orders", len(rc), len(ctx.delivered.Orders)))
		}
		for i, o := range ctx.delivered.Orders {
			it := w.items[hx(o.OrderId)]
			if it == nil || i >= len(rc) {
				continue
			}
			if it.CounterSeen {
				w.bad(twice(ctx, "batch-executed-twice"), tag+fmt.Sprintf("order %s of chain %s was executed a second time (first payout %d, now %d)", it.Id, it.Origin, it.CounterPaid, rc[i]))
			}
			it.CounterSeen, it.CounterPaid = true, rc[i]
		}
		// the receipts are the payouts of the swap events, as multisets
		ra, rb := append([]uint64{}, rc...), append([]uint64{}, remotePaid...)
		sort.Slice(ra, func(i, j int) bool { return ra[i] < ra[j] })
		sort.Slice(rb, func(i, j int) bool { return rb[i] < rb[j] })
		if fmt.Sprint(ra) != fmt.Sprint(rb) && len(ctx.delivered.Orders) <= lib.MaxOrdersSettledPerBlock {
			w.bad("receipts-ne-payouts", tag+fmt.Sprintf("receipts %v but the swaps paid %v", rc, remotePaid))
		}
	} else if nRemoteSwaps > 0 {
		w.bad("swap-without-rotation", tag+"remote swaps executed but the chain did not rotate onto the delivered batch")
	}
	sort.Strings(outcome)
	o := strings.Join(dedupe(outcome), "+")
	if o == "" {
		o = "idle"
	}
	w.stats = append(w.stats, X.name+":"+o)
}

// twice names the class of a second execution: the liveness fallback re-running the root batch
// is one class whatever kind of operation is hit first.
func twice(ctx *bBlockCtx, generic string) string {
	if ctx.fallbackExec {
		return "liveness-fallback-reexecutes-root-batch"
	}
	return generic
}

func lockedId(b *lib.DexBatch) []byte {
	if b == nil {
		return nil
	}
	bz, _ := lib.Marshal(b)
	return bz
}

func dedupe(s []string) []string {
	var out []string
	for i, v := range s {
		if i == 0 || v != s[i-1] {
			out = append(out, v)
		}
	}
	return out
}

// judge applies the cross-chain oracle: an order is either executed on both sides (input absorbed
// by the origin pool, output credited on the counter chain, both sides agreeing on the amount) or
// on neither (input refunded, nothing credited).
func (w *bWorld) judge() {
	for _, it := range w.items {
		if it.Kind != "order" || it.Judged {
			continue
		}
		switch {
		case it.State == "absorbed" && it.CounterSeen:
			it.Judged = true
			if it.CounterPaid == 0 || it.CounterPaid != it.OriginDY {
				w.bad("order-absorbed-but-not-paid", fmt.Sprintf("order %s of chain %s: input %d absorbed by the pool on a receipt of %d, the counter chain paid %d", it.Id, it.Origin, it.Amount, it.OriginDY, it.CounterPaid))
			}
		case it.State == "absorbed" && !it.CounterSeen:
			it.Judged = true
			w.bad("order-absorbed-but-not-paid", fmt.Sprintf("order %s of chain %s: input %d absorbed although the counter chain never executed it", it.Id, it.Origin, it.Amount))
		case it.State == "refunded" && it.CounterSeen:
			it.Judged = true
			if it.CounterPaid != 0 {
				cls := "order-refunded-and-paid"
				if w.fallbackEver {
					cls += ":after-liveness-fallback"
				}
				w.bad(cls, fmt.Sprintf("order %s of chain %s: input %d refunded on the origin chain AND %d paid out on the counter chain", it.Id, it.Origin, it.Amount, it.CounterPaid))
			}
		}
	}
}

func pointsMap(p *fsm.Pool) string {
	pp := append([]*lib.PoolPoints{}, p.Points...)
	sort.Slice(pp, func(i, j int) bool { return bytes.Compare(pp[i].Address, pp[j].Address) < 0 })
	var sb strings.Builder
	untouched := 0
	for _, x := range pp {
		if isFiller(x.Address) && x.Points == fillerPoints {
			untouched++
			continue
		}
		fmt.Fprintf(&sb, "%s=%d,", short(x.Address), x.Points)
	}
	if untouched > 0 {
		fmt.Fprintf(&sb, "fillers=%d,", untouched)
	}
	return sb.String()
}

// tick executes one recipe. enabled=false: the recipe's precondition does not hold.
func (w *bWorld) tick(op BOp) (enabled bool) {
	sr, sn := scanB(w.R), scanB(w.N)
	if op.Kind == "withdraw" {
		own := sr
		if op.Chain == "N" {
			own = sn
		}
		has := false
		for _, p := range own.Liq.Points {
			if bytes.Equal(p.Address, addr(op.Who)) && p.Points > 0 {
				has = true
			}
		}
		if !has {
			return false
		}
	}
	fresh := w.snapshotRoot(false)
	if op.Kind == "fallback" || op.Kind == "fallback+drop" {
		// controller precondition: N's locked batch is waiting and the root chain (as N sees it) has not answered it
		if sn.Locked == nil || sn.Locked.IsEmpty() || bytes.Equal(fresh.ReceiptHash, sn.Locked.Hash()) || w.pendingFallback {
			return false
		}
	}
	user := w.userTxs(op, sr, sn)
	if op.Kind != "stale" {
		w.rootSnap = fresh
	}
	// ---------------- N block
	var txN, txR [][]byte
	for _, u := range user {
		if u.chain == "N" {
			txN = append(txN, u.tx)
		} else {
			txR = append(txR, u.tx)
		}
	}
	if err := w.N.c.PrimeBlockCache(); err != nil {
		w.bad("harness-error", "prime cache: "+err.Error())
		return true
	}
	rootH := w.R.c.Height() - 1
	if rootH == 0 {
		rootH = 1
	}
	vs, err := w.R.c.FSM.LoadCommittee(2, rootH)
	if err != nil {
		w.bad("harness-error", "load committee 2 on R: "+err.Error())
		return true
	}
	// what N's BeginBlock will be handed: the cache, or (fallback pending) the flagged batch of its last certificate
	var deliveredN *lib.DexBatch
	fallbackExec := w.pendingFallback
	if w.lastRootInQC != nil { // gate: QC(H-1).Results.RootDexBatch != nil
		if fallbackExec {
			deliveredN = w.lastRootInQC
		} else {
			deliveredN = w.rootSnap
		}
	}
	flagged := false
	cmN, err := w.N.c.StepFast(env.BlockSpec{Txs: txN, Proposer: kV, Results: w.nResults(op.Kind == "fallback" || op.Kind == "fallback+drop", &flagged)},
		&env.StepOpts{RootDex: jsonTrip(w.rootSnap), Committee: &vs,
			View: &lib.View{NetworkId: env.NetworkID, ChainId: 2, Height: w.N.c.Height(), RootHeight: rootH, Phase: lib.Phase_PRECOMMIT_VOTE}})
	if err != nil {
		w.bad("nested-block-failed", "N's block could not be produced: "+err.Error())
		return true
	}
	w.lastRootInQC = cmN.QC.Results.RootDexBatch
	w.pendingFallback = flagged
	if flagged {
		w.fallbackEver = true
	}
	if fallbackExec {
		w.fallbackEver = true
	}
	an := scanB(w.N)
	w.analyze(&bBlockCtx{ch: w.N, before: sn, after: an, cm: cmN, user: user, delivered: deliveredN, fallbackExec: fallbackExec})
	if w.warmup {
		return true
	}
	// ---------------- R block
	var certTx []byte
	var deliveredR *lib.DexBatch
	if op.Kind != "drop" && op.Kind != "fallback+drop" {
		q := cmN.QC
		qc := &lib.QuorumCertificate{Header: q.Header, Results: q.Results, ResultsHash: q.ResultsHash, BlockHash: q.BlockHash, ProposerKey: q.ProposerKey, Signature: q.Signature}
		certTx = Tx(env.BLS(kV), &fsm.MessageCertificateResults{Qc: qc}, 1, 0, q.Header.Height, "")
		txR = append([][]byte{certTx}, txR...)
	}
	if err = w.R.c.PrimeBlockCache(); err != nil {
		w.bad("harness-error", "prime cache: "+err.Error())
		return true
	}
	cmR, err := w.R.c.StepFast(env.BlockSpec{Txs: txR, Proposer: kV}, nil)
	if err != nil {
		w.bad("root-block-failed", "R's block could not be produced: "+err.Error())
		return true
	}
	if certTx != nil {
		if included(cmR, certTx) {
			deliveredR = cmN.QC.Results.DexBatch
		} else {
			reason := "?"
			for _, f := range cmR.Failed {
				if f.Hash == crypto.HashString(certTx) && f.Error != nil {
					reason = f.Error.Error()
				}
			}
			w.stats = append(w.stats, "R:cert-tx-rejected")
			w.bad("certificate-results-tx-rejected", "R rejected N's certificate-results transaction: "+reason)
		}
	}
	ar := scanB(w.R)
	w.analyze(&bBlockCtx{ch: w.R, before: sr, after: ar, cm: cmR, user: user, delivered: deliveredR})
	w.judge()
	// mirrored pool sizes and point tables agree once the pipeline has drained
	if op.Kind == "tick" || op.Chain != "" {
		w.syncStreak++
	} else {
		w.syncStreak = 0
	}
	quiet := func(s *bScan) bool { return batchOps(s.Locked) == 0 && batchOps(s.Next) == 0 && s.Locked != nil }
	if quiet(an) && quiet(ar) && quiet(sn) && quiet(sr) && w.syncStreak >= 2 && op.Kind == "tick" && !w.fallbackEver {
		if ar.Locked.CounterPoolSize != an.Liq.Amount || an.Locked.CounterPoolSize != ar.Liq.Amount {
			w.bad("mirror-diverged", fmt.Sprintf("drained pipeline: R holds %d and believes N holds %d; N holds %d and believes R holds %d", ar.Liq.Amount, ar.Locked.CounterPoolSize, an.Liq.Amount, an.Locked.CounterPoolSize))
		}
		if pointsMap(ar.Liq) != pointsMap(an.Liq) || ar.Liq.TotalPoolPoints != an.Liq.TotalPoolPoints {
			w.bad("lp-ledger-diverged", fmt.Sprintf("drained pipeline: LP points on R {%s}/%d, on N {%s}/%d", pointsMap(ar.Liq), ar.Liq.TotalPoolPoints, pointsMap(an.Liq), an.Liq.TotalPoolPoints))
		}
		w.stats = append(w.stats, "drained-and-mirrors-compared")
	}
	return true
}

// key is the abstract state: everything that determines future behaviour except block heights
// and absolute batch hashes (replaced by the relations between the batches the pipeline tests).
func (w *bWorld) key() string {
	var sb strings.Builder
	sr, sn := scanB(w.R), scanB(w.N)
	sr.dump(&sb, "R")
	sn.dump(&sb, "N")
	h := func(b *lib.DexBatch) []byte {
		if b == nil {
			return nil
		}
		return jsonTrip(b).Hash()
	}
	rel := func(a *lib.DexBatch, b *lib.DexBatch) bool {
		return a != nil && b != nil && bytes.Equal(a.ReceiptHash, h(b))
	}
	same := func(a, b *lib.DexBatch) bool { return bytes.Equal(h(a), h(b)) }
	fmt.Fprintf(&sb, "rel R<-N:%v N<-R:%v snap=R:%v snap<-N:%v N<-snap:%v gate:%v fb:%v fbever:%v streak:%d", rel(sr.Locked, sn.Locked), rel(sn.Locked, sr.Locked),
		same(w.rootSnap, w.snapshotRoot(false)), rel(w.rootSnap, sn.Locked), rel(sn.Locked, w.rootSnap), w.lastRootInQC != nil, w.pendingFallback, w.fallbackEver, min(w.syncStreak, 2))
	if sn.Locked != nil {
		fmt.Fprintf(&sb, " Nfresh:%v", sn.Locked.LockedHeight+1 == w.N.c.Height())
	}
	ids := make([]string, 0, len(w.items))
	for id := range w.items {
		ids = append(ids, id)
	}
	sort.Strings(ids)
	for _, id := range ids {
		it := w.items[id]
		fmt.Fprintf(&sb, "|%s:%s:%v:%d:%d", short([]byte(id)), it.State, it.CounterSeen, it.CounterPaid, it.OriginDY)
	}
	ok := make([]string, 0, len(w.once))
	for k := range w.once {
		ok = append(ok, k)
	}
	sort.Strings(ok)
	fmt.Fprintf(&sb, "|once:%d", len(ok))
	return sb.String()
}

// Debug makes ExecB print every step (probe / replay use).
var Debug = false

func indent(s string) string {
	return "      " + strings.ReplaceAll(strings.TrimRight(s, "\n"), "\n", "\n      ") + "\n"
}

// ExecB replays one recipe path of part B on a fresh pair of chains.
func ExecB(cfgName string, thorough bool, path []int) (res mc.ExecResult) {
	alpha := AlphaFor(cfgName, thorough)
	cfgName = strings.SplitN(cfgName, "#", 2)[0] // "<reserves>#<slice label>"
	w, err := newBWorld(bCfgByName(cfgName))
	if err != nil {
		res.Viols = append(res.Viols, viol("C20:harness", "cannot create chains: "+err.Error(), nil))
		return
	}
	defer w.close()
	// warm-up: N's first block (BeginBlock does nothing at height 1) so that recipes start with an open gate
	w.names, w.path = []string{"(warm-up)"}, nil
	w.warmup = true
	w.tick(BOp{Kind: "tick"})
	w.warmup = false
	if len(w.viols) > 0 {
		res.Viols = w.viols
		return
	}
	w.syncStreak = 0
	prevKey := w.key()
	w.names = nil
	for i, oi := range path {
		w.names = append(w.names, alpha[oi].String())
		w.path = path[:i+1]
		w.viols, w.stats = nil, nil
		prevKey = w.key()
		en := w.tick(alpha[oi])
		if Debug {
			fmt.Printf("  step %d %s enabled=%v stats=%v viols=%d\n", i, alpha[oi], en, w.stats, len(w.viols))
			if en {
				fmt.Print(indent(w.key()))
			}
		}
		if !en {
			return
		}
		if len(w.viols) > 0 && i < len(path)-1 {
			return // a prefix already violates: it was reported when it was the whole path
		}
	}
	res.Viols = append(res.Viols, w.viols...)
	if len(path) > 0 {
		res.Viols = append(res.Viols, mc.Viol{Sig: "stat", What: "B/" + cfgName + "/" + strings.Join(w.stats, " ")})
	}
	if len(w.viols) > 0 {
		return
	}
	k := w.key()
	if len(path) > 0 && k == prevKey {
		return // stuttering tick
	}
	res.Key, res.OK = mc.Hash(k), true
	return
}
