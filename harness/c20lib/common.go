// Package c20lib holds the two worlds of property C20 (escrow / order-book / AMM accounting):
// part A, the order book of one own-root chain with the harness playing the committee, and
// part B, the AMM pipeline between a root chain R and a nested chain N wired the way
// controller/result.go (HandleDex) and controller/block.go (SetRootDexCache) wire them.
package c20lib

import (
	"bytes"
	"encoding/hex"
	"fmt"
	"math/big"

	"github.com/canopy-network/canopy/fsm"
	"github.com/canopy-network/canopy/lib"
	"github.com/canopy-network/canopy/lib/crypto"

	"verifharness/env"
	"verifharness/mc"
)

// Tx builds a signed transaction whose bytes depend only on its arguments: fsm.NewTransaction
// stamps time.Now() into Transaction.Time, and order ids are the first 20 bytes of the tx hash,
// so the harness owns that field (nonce) to keep replays and state keys deterministic.
func Tx(key crypto.PrivateKeyI, msg lib.MessageI, chainId, fee, nonce uint64, memo string) []byte {
	a, err := lib.NewAny(msg)
	if err != nil {
		panic(err)
	}
	tx := &lib.Transaction{MessageType: msg.Name(), Msg: a, CreatedHeight: 1, Time: nonce, Fee: fee, Memo: memo, NetworkId: env.NetworkID, ChainId: chainId}
	if e := tx.Sign(key); e != nil {
		panic(e)
	}
	bz, e := lib.Marshal(tx)
	if e != nil {
		panic(e)
	}
	return bz
}

// TxOrderId is the order id PopulateSpecialMessageFields will derive for this tx.
func TxOrderId(tx []byte) []byte { return crypto.Hash(tx)[:20] }

func addr(i int) []byte { return env.Addr(env.BLS(i)).Bytes() }

func hx(b []byte) string { return hex.EncodeToString(b) }

func short(b []byte) string {
	s := hx(b)
	if len(s) > 8 {
		return s[:8]
	}
	return s
}

// balance reads an account balance straight from the state (0 if absent).
func balance(sm *fsm.StateMachine, a []byte) uint64 {
	b, err := sm.GetAccountBalance(crypto.NewAddress(a))
	if err != nil {
		panic(err)
	}
	return b
}

func poolAmount(sm *fsm.StateMachine, id uint64) uint64 {
	b, err := sm.GetPoolBalance(id)
	if err != nil {
		panic(err)
	}
	return b
}

// included reports whether the i-th submitted tx made it into the committed block.
func included(cm *env.Committed, tx []byte) bool {
	for _, t := range cm.Block.Transactions {
		if bytes.Equal(t, tx) {
			return true
		}
	}
	return false
}

func bi(u uint64) *big.Int { return new(big.Int).SetUint64(u) }

func viol(sig, what string, replay any) mc.Viol { return mc.Viol{Sig: sig, What: what, Replay: replay} }

func sprintf(f string, a ...any) string { return fmt.Sprintf(f, a...) }

// rawPrefix returns every raw state entry whose key starts with prefix.
func rawPrefix(sm *fsm.StateMachine, prefix []byte) []env.KV {
	kvs, err := env.RawState(sm)
	if err != nil {
		panic(err)
	}
	var out []env.KV
	for _, kv := range kvs {
		if bytes.HasPrefix(kv.K, prefix) {
			out = append(out, kv)
		}
	}
	return out
}
