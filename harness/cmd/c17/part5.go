package main

import (
	"bytes"
	"fmt"
	"time"
)

// Part 5 — two goroutines write on one established connection.
//
// The harness owns the net.Conn: every conn.Write of the writing endpoint parks at a gate. A
// controller looks at the parked calls. If two calls are parked at the same time (the encrypted
// connection let a second writer reach the socket while the first is still inside its socket write)
// the LATER one is released first — the reordering a real socket allows; otherwise the only parked
// call is released. The controller waits a short settling time before it decides; that time only
// shapes the schedule (a second writer that arrives later simply produces the other, equally legal,
// order) and never decides the verdict.
//
// Oracle (statement: "the bytes one peer writes are exactly the bytes the other reads"): if both
// Write calls report success, the reader obtains, without error, the two payloads back to back in one
// of the two orders.

type p5spec struct {
	SizeA int `json:"size_a"`
	SizeB int `json:"size_b"`
}

func part5Specs(quick bool) []p5spec {
	s := []p5spec{{800, 800}, {2500, 100}, {100, 2500}, {1020, 1021}}
	if !quick {
		s = append(s, p5spec{5000, 5000}, p5spec{1, 1}, p5spec{1024, 1024}, p5spec{3000, 1})
	}
	return s
}

type gate struct {
	arrived  int
	released map[int]chan struct{}
	pending  []int
}

func runPart5(p p5spec) (out outcome) {
	w := newWorld()
	defer w.finish()
	id := ids("ed25519")
	s := establish(w, id.a, id.b, "")
	if !s.established() {
		return outcome{Key: "handshake-failed", Viols: []viol{{"C17:harness:handshake-failed", s.whyNot()}}}
	}
	a, b := s.a, s.b
	g := &gate{released: map[int]chan struct{}{}}
	w.mu.Lock()
	a.out = nil
	a.gate = g
	w.mu.Unlock()
	dataA, dataB := pattern(0, p.SizeA, 0x11), pattern(7, p.SizeB, 0xA7)
	type wres struct {
		n   int
		err error
	}
	resA, resB := make(chan wres, 1), make(chan wres, 1)
	go func() { n, e := a.ec.Write(dataA); resA <- wres{n, e} }()
	// the second writer starts once the first is inside its first socket write
	w.mu.Lock()
	for g.arrived == 0 {
		w.cond.Wait()
	}
	w.mu.Unlock()
	go func() { n, e := a.ec.Write(dataB); resB <- wres{n, e} }()
	var ra, rb *wres
	overlapped := false
	for ra == nil || rb == nil {
		time.Sleep(30 * time.Millisecond) // settle: let a second writer reach the gate if the lock lets it
		w.mu.Lock()
		switch len(g.pending) {
		case 0:
		case 1:
			id := g.pending[0]
			g.pending = nil
			close(g.released[id])
		default:
			overlapped = true
			last := g.pending[len(g.pending)-1]
			g.pending = g.pending[:len(g.pending)-1]
			close(g.released[last])
		}
		w.mu.Unlock()
		select {
		case r := <-resA:
			ra = &r
		default:
		}
		select {
		case r := <-resB:
			rb = &r
		default:
		}
	}
	w.mu.Lock()
	a.gate = nil
	ct := a.out
	a.out = nil
	w.mu.Unlock()
	key := "sequential-socket-writes"
	if overlapped {
		key = "overlapping-socket-writes"
	}
	if ra.err != nil || rb.err != nil || ra.n != len(dataA) || rb.n != len(dataB) {
		return outcome{Key: key + ":a-write-failed", Info: []string{fmt.Sprintf("a concurrent Write failed: %v %v", ra.err, rb.err)}}
	}
	// deliver everything to the reader and read the whole stream
	b.give(ct)
	total := len(dataA) + len(dataB)
	got := make([]byte, 0, total)
	buf := make([]byte, 700)
	var rerr error
	for len(got) < total {
		n, e := b.ec.Read(buf)
		got = append(got, buf[:n]...)
		if e != nil {
			rerr = e
			break
		}
	}
	ab, ba := append(append([]byte{}, dataA...), dataB...), append(append([]byte{}, dataB...), dataA...)
	if rerr == nil && (bytes.Equal(got, ab) || bytes.Equal(got, ba)) {
		return outcome{Key: key + ":delivered-whole"}
	}
	what := fmt.Sprintf("two goroutines called Write(%d bytes) and Write(%d bytes) on one connection, both returned success; the peer read %d of %d bytes, error %v", p.SizeA, p.SizeB, len(got), total, rerr)
	if rerr == nil {
		what += "; the bytes are neither A‖B nor B‖A"
	}
	return outcome{Key: key + ":not-delivered", Viols: []viol{{"C17:concurrent-writers:written-bytes-not-read", what}}}
}
