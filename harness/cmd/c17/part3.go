package main

import (
	"bytes"
	"encoding/hex"
	"fmt"
	"sort"
	"strings"

	"github.com/canopy-network/canopy/lib"
	"github.com/canopy-network/canopy/lib/crypto"
)

// ---------------------------------------------------------------------------------------
// Part 3 - the handshake against an active attacker.
//
// Honest endpoints X (the target) and Y run the real NewHandshake with their identity keys.
// The attacker M sits on every wire (it IS the network), owns identity keys m and m2, can
// create any number of ephemeral keys, and knows the protocol. A strategy is a deterministic
// script for M. Every strategy is run with X = A and X = B, and - where M chooses an
// ephemeral key - with that key smaller and larger than the target's (the comparison decides
// which HKDF half is whose send key).
//
// Oracle, evaluated for every honest endpoint h whose NewHandshake returned success with
// peer identity P = h.Address.PublicKey:
//   * P is a key of M: allowed (h knowingly talks to M), provided the network and chain id M
//     actually claimed equal h's; otherwise "incompatible-accepted".
//   * P is the identity key of an honest party (possibly h's own): then
//       (owner)   another honest endpoint owning P took part in the scenario and got as far
//                 as sending its signature, and its network/chain equal h's,
//       (secrecy) M cannot decrypt an application frame h sends, with any key it derived,
//       (inject)  h does not accept, as data, any frame M builds with any key it derived.
//   * P is anything else (an "identity" nobody holds a private key for): recorded as
//     information, see the report.
// Strategies in which everybody is honest (or M merely forwards) must complete, and then
// application data must flow unchanged in both directions.

type p3spec struct {
	Strat   string `json:"strat"`
	Target  string `json:"target"`            // "A" or "B"
	Order   string `json:"order,omitempty"`   // "lo" / "hi": M's ephemeral key relative to the target's
	KeyType string `json:"keytype"`           // identity key type of the honest endpoints and of M
	Arg     int    `json:"arg,omitempty"`     // strategy parameter (bit index, table index, variant)
}

type scn3 struct {
	p       p3spec
	w       *world
	id      *idKeys
	X, Y    *inst
	honest  []*inst
	ring    keyring
	mPubs   [][]byte
	claimed map[*inst]*lib.PeerMeta
	mustOK  []*inst // endpoints that have to complete in this strategy
	notes   []string
	info    []string
	out     outcome
	aLtB    string
	relayOrder bool // the spec's order applies to X's vs Y's ephemeral key
}

func (s *scn3) spawn(name string, key crypto.PrivateKeyI, meta *lib.PeerMeta) *inst {
	i := s.w.spawn(name, key, meta)
	s.honest = append(s.honest, i)
	return i
}

// start creates the two honest endpoints; X is the target. In strategies where M relays
// between X and Y the spec's order is the order of their ephemeral keys ("lo": X's < Y's);
// the keys are drawn inside NewHandshake, so endpoints are re-spawned until it holds.
func (s *scn3) start(metaX, metaY *lib.PeerMeta) {
	kx, ky := s.id.a, s.id.b
	nx, ny := "A", "B"
	if s.p.Target == "B" {
		kx, ky, nx, ny = s.id.b, s.id.a, "B", "A"
	}
	for try := 0; ; try++ {
		x := s.w.spawn(nx, kx, metaX)
		y := s.w.spawn(ny, ky, metaY)
		if s.relayOrder && s.p.Order != "" && try < 64 {
			ka, kb := x.take(kLen), y.take(kLen)
			c := bytes.Compare(parseK(ka), parseK(kb))
			if (s.p.Order == "lo") != (c < 0) {
				x.closeIn()
				y.closeIn()
				continue
			}
			x.untake(ka)
			y.untake(kb)
		}
		s.X, s.Y = x, y
		s.honest = append(s.honest, x, y)
		return
	}
}

func (s *scn3) viol(kind, format string, a ...any) {
	s.out.Viols = append(s.out.Viols, viol{"C17:handshake:" + s.p.Strat + ":" + kind, fmt.Sprintf(format, a...)})
}

// --- M as an endpoint -------------------------------------------------------------------

// mOpen performs the key swap with t using M's own ephemeral key (eph==nil: a fresh one with
// the scenario's ordering) and returns M's end of the session.
func (s *scn3) mOpen(t *inst, eph crypto.PrivateKeyI) *msess {
	k := t.take(kLen)
	if k == nil {
		return nil
	}
	te := parseK(k)
	if eph == nil {
		eph = newEph(te, s.p.Order)
	}
	t.give(encodeK(eph.PublicKey().Bytes()))
	ms, err := newMSess(eph, te)
	if err != nil {
		return nil
	}
	s.ring.addSess("M<->"+t.name, ms)
	s.ring.addDerived("M/"+t.name, eph, te)
	return ms
}

// mOpenLow answers t's key message with the low-order point lp and, if t goes on, finds the session keys
// among the nine secrets a low-order point can produce (trial decryption of t's first frame).
func (s *scn3) mOpenLow(t *inst, lp []byte) *msess {
	k := t.take(kLen)
	if k == nil {
		return nil
	}
	te := parseK(k)
	t.give(encodeK(lp))
	s.ring.addLowOrder("M/low/"+t.name, lp, te)
	f := t.take(frameSize)
	if f == nil {
		return nil
	}
	defer t.untake(f)
	cands := [][]byte{make([]byte, 32)}
	cands = append(cands, edwardsLowOrder[:8]...)
	for _, sec := range cands {
		send, rcv, ch, err := crypto.HKDFSecretsAndChallenge(sec, lp, te)
		if err != nil {
			continue
		}
		ms := &msess{ephPub: lp, peerEph: te, send: send, rcv: rcv, challenge: ch[:]}
		if _, ok := openFrame(ms.rcv, 0, f); ok {
			s.ring.addSess("M<->"+t.name+"(low-order)", ms)
			return ms
		}
	}
	return nil
}

func (s *scn3) mRecvSig(ms *msess, t *inst) *lib.Signature {
	f := t.take(frameSize)
	if f == nil || ms == nil {
		return nil
	}
	sig := new(lib.Signature)
	if !ms.openMsg(f, sig) {
		return nil
	}
	return sig
}

func (s *scn3) mSendSig(ms *msess, t *inst, pk, sig []byte) {
	t.give(ms.sealMsg(&lib.Signature{PublicKey: pk, Signature: sig}))
}

func (s *scn3) mRecvMeta(ms *msess, t *inst) *lib.PeerMeta {
	f := t.take(frameSize)
	if f == nil || ms == nil {
		return nil
	}
	m := new(lib.PeerMeta)
	if !ms.openMsg(f, m) {
		return nil
	}
	return m
}

func (s *scn3) mSendMeta(ms *msess, t *inst, m *lib.PeerMeta) {
	s.claimed[t] = m
	t.give(ms.sealMsg(m))
}

// mHonest: M behaves as an honest peer with identity key and meta; returns what it learnt.
func (s *scn3) mHonest(t *inst, key crypto.PrivateKeyI, meta *lib.PeerMeta) (ms *msess, tSig *lib.Signature, tMeta *lib.PeerMeta) {
	ms = s.mOpen(t, nil)
	if ms == nil {
		return
	}
	tSig = s.mRecvSig(ms, t)
	s.mSendSig(ms, t, key.PublicKey().Bytes(), key.Sign(ms.challenge))
	tMeta = s.mRecvMeta(ms, t)
	s.mSendMeta(ms, t, meta.Copy().Sign(key))
	return
}

// --- M as a relay -----------------------------------------------------------------------

// relayHooks: kToY/kToX get the key message being forwarded (k) and the recipient's own key
// message (own) and return what the recipient is given.
type relayHooks struct {
	kToY, kToX func(k, own []byte) []byte
	fToY, fToX func(phase int, f []byte) [][]byte
}

func idK(k, _ []byte) []byte       { return k }
func idF(_ int, f []byte) [][]byte { return [][]byte{f} }
func (h *relayHooks) fill() {
	if h.kToY == nil {
		h.kToY = idK
	}
	if h.kToX == nil {
		h.kToX = idK
	}
	if h.fToY == nil {
		h.fToY = idF
	}
	if h.fToX == nil {
		h.fToX = idF
	}
}

// relay forwards a handshake between x and y through the hooks.
func (s *scn3) relay(x, y *inst, h relayHooks) {
	h.fill()
	kx, ky := x.take(kLen), y.take(kLen)
	if kx == nil || ky == nil {
		return
	}
	ex, ey := parseK(kx), parseK(ky)
	if bytes.Compare(ex, ey) < 0 {
		s.aLtB = x.name + "<" + y.name
	} else {
		s.aLtB = y.name + "<" + x.name
	}
	s.ring.addDerived("M/wire", newEph(ex, ""), ex, ey)
	y.give(h.kToY(kx, ky))
	x.give(h.kToX(ky, kx))
	for ph := 0; ph < 2; ph++ {
		fx, fy := x.take(frameSize), y.take(frameSize)
		if fx != nil {
			for _, f := range h.fToY(ph, fx) {
				y.give(f)
			}
		}
		if fy != nil {
			for _, f := range h.fToX(ph, fy) {
				x.give(f)
			}
		}
	}
}

// --- strategies -------------------------------------------------------------------------

type strategy struct {
	name    string
	endKind string // "fwd": M relays between honest endpoints; "end": M is an endpoint (order lo/hi applies); "honest"
	args    func(quick bool) []int
	bls     bool // also run with BLS identity keys
	run     func(s *scn3)
}

func noArgs(bool) []int { return []int{0} }
func rangeArgs(n int) func(bool) []int {
	return func(bool) []int {
		o := make([]int, n)
		for i := range o {
			o[i] = i
		}
		return o
	}
}

var mKeyTypes = []string{"ed25519", "bls", "secp256k1", "ethsecp256k1"}

func hsFlipArgs(quick bool) []int {
	var o []int
	for fr := 0; fr < 2; fr++ {
		if quick {
			for _, b := range []int{0, 7, 8, 31, 32, 800, 8*plainSize - 1, 8 * plainSize, 8*frameSize - 1} {
				o = append(o, fr*8*frameSize+b)
			}
		} else {
			for b := 0; b < 8*frameSize; b++ {
				o = append(o, fr*8*frameSize+b)
			}
		}
	}
	return o
}

func strategies() []strategy {
	one := metaOf(1, 1)
	return []strategy{
		// ---- everybody honest
		{name: "honest", endKind: "honest", args: noArgs, bls: true, run: func(s *scn3) {
			s.start(one, one)
			s.mustOK = []*inst{s.X, s.Y}
			s.relay(s.X, s.Y, relayHooks{})
		}},
		{name: "honest-net-or-chain-mismatch", endKind: "honest", args: rangeArgs(3), bls: true, run: func(s *scn3) {
			s.start(one, []*lib.PeerMeta{metaOf(2, 1), metaOf(1, 2), metaOf(2, 2)}[s.p.Arg])
			s.relay(s.X, s.Y, relayHooks{})
		}},
		// ---- M relays and tampers
		{name: "fwd-withhold-last-meta", endKind: "fwd", args: noArgs, bls: true, run: func(s *scn3) {
			s.start(one, one)
			s.relay(s.X, s.Y, relayHooks{fToY: func(ph int, f []byte) [][]byte {
				if ph == 1 {
					return nil
				}
				return [][]byte{f}
			}})
		}},
		{name: "fwd-negated-ephemeral", endKind: "fwd", args: rangeArgs(3), run: func(s *scn3) {
			s.start(one, one)
			h := relayHooks{}
			if s.p.Arg != 1 {
				h.kToY = func(k, _ []byte) []byte { return encodeK(negatePoint(parseK(k))) }
			}
			if s.p.Arg != 0 {
				h.kToX = func(k, _ []byte) []byte { return encodeK(negatePoint(parseK(k))) }
			}
			s.relay(s.X, s.Y, h)
		}},
		{name: "fwd-ephemeral-plus-torsion", endKind: "fwd", args: func(bool) []int {
			var o []int
			for side := 0; side < 3; side++ {
				for idx := 1; idx < 8; idx++ {
					o = append(o, side*8+idx)
				}
			}
			return o
		}, run: func(s *scn3) {
			s.start(one, one)
			side, idx := s.p.Arg/8, s.p.Arg%8
			tw := func(k, _ []byte) []byte { return encodeK(addTorsion(parseK(k), idx)) }
			h := relayHooks{}
			if side != 1 {
				h.kToY = tw
			}
			if side != 0 {
				h.kToX = tw
			}
			s.relay(s.X, s.Y, h)
		}},
		{name: "fwd-flip-bit-of-key-message", endKind: "fwd", args: rangeArgs(8 * kLen), run: func(s *scn3) {
			s.start(one, one)
			s.relay(s.X, s.Y, relayHooks{kToY: func(k, _ []byte) []byte {
				c := append([]byte{}, k...)
				c[s.p.Arg/8] ^= 1 << uint(s.p.Arg%8)
				return c
			}})
		}},
		{name: "fwd-flip-bit-of-handshake-frame", endKind: "fwd", args: hsFlipArgs, run: func(s *scn3) {
			s.start(one, one)
			fr, bit := s.p.Arg/(8*frameSize), s.p.Arg%(8*frameSize)
			s.relay(s.X, s.Y, relayHooks{fToY: func(ph int, f []byte) [][]byte {
				if ph == fr {
					c := append([]byte{}, f...)
					c[bit/8] ^= 1 << uint(bit%8)
					return [][]byte{c}
				}
				return [][]byte{f}
			}})
		}},
		{name: "fwd-swap-handshake-frames", endKind: "fwd", args: noArgs, run: func(s *scn3) {
			s.start(one, one)
			var held []byte
			s.relay(s.X, s.Y, relayHooks{fToY: func(ph int, f []byte) [][]byte {
				if ph == 0 {
					held = f
					return nil
				}
				return [][]byte{f, held}
			}, fToX: idF})
		}},
		{name: "fwd-duplicate-signature-frame", endKind: "fwd", args: noArgs, run: func(s *scn3) {
			s.start(one, one)
			s.relay(s.X, s.Y, relayHooks{fToY: func(ph int, f []byte) [][]byte {
				if ph == 0 {
					return [][]byte{f, f}
				}
				return [][]byte{f}
			}})
		}},
		{name: "fwd-reflect-everything", endKind: "fwd", args: noArgs, bls: true, run: func(s *scn3) {
			s.start(one, one)
			x := s.X
			k := x.take(kLen)
			s.ring.addDerived("M/wire", nil, parseK(k))
			x.give(k)
			for ph := 0; ph < 2; ph++ {
				if f := x.take(frameSize); f != nil {
					x.give(f)
				}
			}
		}},
		{name: "fwd-reflect-key-then-forward", endKind: "fwd", args: noArgs, run: func(s *scn3) {
			s.start(one, one)
			// X is handed its own key message, then Y's (genuine) frames
			s.relay(s.X, s.Y, relayHooks{kToX: func(_, own []byte) []byte { return own }})
		}},
		{name: "fwd-crosswire-two-sessions", endKind: "fwd", args: rangeArgs(2), bls: true, run: func(s *scn3) {
			// two concurrent sessions X1-Y1 and X2-Y2 of the same two identities.
			// arg 0: wires crossed consistently (X1<->Y2, X2<->Y1): a legitimate outcome.
			// arg 1: key messages of the own session, encrypted frames of the other one.
			s.start(one, one)
			x1, y1 := s.X, s.Y
			x2 := s.spawn(x1.name+"2", x1.key, one)
			y2 := s.spawn(y1.name+"2", y1.key, one)
			if s.p.Arg == 0 {
				s.mustOK = []*inst{x1, y1, x2, y2}
				s.relay(x1, y2, relayHooks{})
				s.relay(x2, y1, relayHooks{})
				return
			}
			kx1, ky1, kx2, ky2 := x1.take(kLen), y1.take(kLen), x2.take(kLen), y2.take(kLen)
			s.ring.addDerived("M/wire", nil, parseK(kx1), parseK(ky1), parseK(kx2), parseK(ky2))
			y1.give(kx1)
			x1.give(ky1)
			y2.give(kx2)
			x2.give(ky2)
			for ph := 0; ph < 2; ph++ {
				fx1, fy1, fx2, fy2 := x1.take(frameSize), y1.take(frameSize), x2.take(frameSize), y2.take(frameSize)
				for _, g := range []struct {
					to *inst
					f  []byte
				}{{y2, fx1}, {x2, fy1}, {y1, fx2}, {x1, fy2}} {
					if g.f != nil {
						g.to.give(g.f)
					}
				}
			}
		}},
		{name: "fwd-replay-recorded-session", endKind: "fwd", args: rangeArgs(2), bls: true, run: func(s *scn3) {
			// session 1 is honest and recorded. arg 0: a later X is fed Y's complete recorded side.
			// arg 1: a later X and Y swap fresh keys but are fed the recorded encrypted frames.
			s.start(one, one)
			rec := pump(s.w, s.X, s.Y)
			s.mustOK = []*inst{s.X, s.Y}
			recK, recF := rec.kb, rec.hsB
			if s.Y.name == "A" {
				recK, recF = rec.ka, rec.hsA
			}
			if len(recF) < 2 {
				return
			}
			x2 := s.spawn(s.X.name+"2", s.X.key, one)
			if s.p.Arg == 0 {
				x2.take(kLen)
				x2.give(recK)
				x2.take(frameSize)
				x2.give(recF[0])
				x2.take(frameSize)
				x2.give(recF[1])
				return
			}
			y2 := s.spawn(s.Y.name+"2", s.Y.key, one)
			s.relay(x2, y2, relayHooks{fToX: func(ph int, _ []byte) [][]byte { return [][]byte{recF[ph]} }})
		}},
		{name: "fwd-low-order-ephemeral-to-both", endKind: "fwd", args: rangeArgs(len(lowPoints())), bls: false, run: func(s *scn3) {
			s.start(one, one)
			lp := lowPoints()[s.p.Arg]
			s.relay(s.X, s.Y, relayHooks{
				kToY: func(k, _ []byte) []byte { s.ring.addLowOrder("M/low", lp, parseK(k)); return encodeK(lp) },
				kToX: func(k, _ []byte) []byte { s.ring.addLowOrder("M/low", lp, parseK(k)); return encodeK(lp) }})
		}},
		// ---- M is an endpoint towards X
		{name: "m-own-identity", endKind: "end", args: rangeArgs(len(mKeyTypes)), bls: true, run: func(s *scn3) {
			s.start(one, one)
			mk := ids(mKeyTypes[s.p.Arg]).m
			s.mPubs = append(s.mPubs, mk.PublicKey().Bytes())
			s.mustOK = []*inst{s.X}
			ms, _, _ := s.mHonest(s.X, mk, one)
			// information only (not part of C17): what is in the padding of a short frame?
			s.X.settle()
			if ms != nil && s.X.ok() {
				ct, _, _ := appWrite(s.X, []byte{0x01})
				if len(ct) == frameSize {
					if full, err := ms.rcv.Open(nil, nonceOf(ms.rn), ct, nil); err == nil {
						ms.rn++
						for _, b := range full[crypto.LengthHeaderSize+1:] {
							if b != 0 {
								s.info = append(s.info, "frame-padding-not-zeroed: the unused part of a frame carries stale bytes of earlier plaintext from the process-wide buffer pool (possibly of other connections); the authenticated peer can read them")
								break
							}
						}
					}
				}
			}
		}},
		{name: "m-own-identity-other-network-or-chain", endKind: "end", args: rangeArgs(3), bls: true, run: func(s *scn3) {
			s.start(one, one)
			s.mHonest(s.X, s.id.m, []*lib.PeerMeta{metaOf(2, 1), metaOf(1, 2), metaOf(0, 0)}[s.p.Arg])
		}},
		{name: "m-own-identity-bad-meta-signature", endKind: "end", args: rangeArgs(3), bls: true, run: func(s *scn3) {
			// arg 0: garbage signature, 1: signed by another key of M, 2: no signature.
			// (Information only: the channel is already authenticated as M's.)
			s.start(one, one)
			ms := s.mOpen(s.X, nil)
			if ms == nil {
				return
			}
			s.mRecvSig(ms, s.X)
			s.mSendSig(ms, s.X, s.id.m.PublicKey().Bytes(), s.id.m.Sign(ms.challenge))
			s.mRecvMeta(ms, s.X)
			m := one.Copy()
			switch s.p.Arg {
			case 0:
				m.Signature = bytes.Repeat([]byte{0x42}, len(s.id.m.Sign([]byte("x"))))
			case 1:
				m.Sign(s.id.m2)
			}
			s.mSendMeta(ms, s.X, m)
		}},
		{name: "m-claims-peer-identity-own-signature", endKind: "end", args: noArgs, bls: true, run: func(s *scn3) {
			s.start(one, one)
			ms := s.mOpen(s.X, nil)
			if ms == nil {
				return
			}
			s.mRecvSig(ms, s.X)
			s.mSendSig(ms, s.X, s.Y.key.PublicKey().Bytes(), s.id.m.Sign(ms.challenge))
			s.mRecvMeta(ms, s.X)
			s.mSendMeta(ms, s.X, one.Copy().Sign(s.id.m))
		}},
		{name: "m-claims-peer-identity-no-signature", endKind: "end", args: rangeArgs(2), bls: true, run: func(s *scn3) {
			s.start(one, one)
			ms := s.mOpen(s.X, nil)
			if ms == nil {
				return
			}
			s.mRecvSig(ms, s.X)
			var sig []byte
			if s.p.Arg == 1 {
				sig = make([]byte, len(s.id.m.Sign([]byte("x"))))
			}
			s.mSendSig(ms, s.X, s.Y.key.PublicKey().Bytes(), sig)
			s.mRecvMeta(ms, s.X)
			s.mSendMeta(ms, s.X, one.Copy().Sign(s.id.m))
		}},
		{name: "m-claims-peer-identity-targets-signature", endKind: "end", args: noArgs, bls: true, run: func(s *scn3) {
			s.start(one, one)
			ms := s.mOpen(s.X, nil)
			if ms == nil {
				return
			}
			xs := s.mRecvSig(ms, s.X)
			if xs == nil {
				return
			}
			s.mSendSig(ms, s.X, s.Y.key.PublicKey().Bytes(), xs.Signature)
			xm := s.mRecvMeta(ms, s.X)
			if xm != nil {
				s.mSendMeta(ms, s.X, xm)
			}
		}},
		{name: "m-claims-peer-identity-replayed-signature-and-meta", endKind: "end", args: noArgs, bls: true, run: func(s *scn3) {
			// M first talks to Y honestly (as itself) and so obtains, in clear, Y's signature over
			// that session's challenge and Y's signed meta; it then presents both to X.
			s.start(one, one)
			s.mPubs = append(s.mPubs, s.id.m.PublicKey().Bytes())
			_, ySig, yMeta := s.mHonest(s.Y, s.id.m, one)
			if ySig == nil || yMeta == nil {
				s.viol("honest-peers-fail", "M, behaving honestly, could not complete a handshake with %s", s.Y.name)
				return
			}
			ms := s.mOpen(s.X, nil)
			if ms == nil {
				return
			}
			s.mRecvSig(ms, s.X)
			s.mSendSig(ms, s.X, ySig.PublicKey, ySig.Signature)
			s.mRecvMeta(ms, s.X)
			s.mSendMeta(ms, s.X, yMeta)
		}},
		{name: "m-own-identity-replayed-peer-meta", endKind: "end", args: noArgs, bls: true, run: func(s *scn3) {
			s.start(one, one)
			s.mPubs = append(s.mPubs, s.id.m.PublicKey().Bytes())
			_, _, yMeta := s.mHonest(s.Y, s.id.m, one)
			if yMeta == nil {
				return
			}
			ms := s.mOpen(s.X, nil)
			if ms == nil {
				return
			}
			s.mRecvSig(ms, s.X)
			s.mSendSig(ms, s.X, s.id.m.PublicKey().Bytes(), s.id.m.Sign(ms.challenge))
			s.mRecvMeta(ms, s.X)
			s.mSendMeta(ms, s.X, yMeta)
		}},
		{name: "m-reflects-targets-signature-and-meta", endKind: "end", args: rangeArgs(2), bls: true, run: func(s *scn3) {
			// M uses its own ephemeral key (so it holds the session keys) and answers X's
			// signature and meta messages with X's own messages, re-encrypted for X.
			// arg 0: both reflected. arg 1: signature reflected, meta signed by M.
			s.start(one, one)
			ms := s.mOpen(s.X, nil)
			if ms == nil {
				return
			}
			xs := s.mRecvSig(ms, s.X)
			if xs == nil {
				return
			}
			s.mSendSig(ms, s.X, xs.PublicKey, xs.Signature)
			xm := s.mRecvMeta(ms, s.X)
			if xm == nil {
				return
			}
			if s.p.Arg == 0 {
				s.mSendMeta(ms, s.X, xm)
			} else {
				s.mSendMeta(ms, s.X, one.Copy().Sign(s.id.m))
			}
		}},
		{name: "m-in-the-middle-relays-plaintext", endKind: "end", args: rangeArgs(2), bls: true, run: func(s *scn3) {
			// classic man in the middle: M completes a key swap with X and with Y (arg 0: two
			// ephemeral keys, arg 1: the same one), then re-encrypts each side's signature and
			// meta messages for the other side.
			s.start(one, one)
			var eph crypto.PrivateKeyI
			msx := s.mOpen(s.X, nil)
			if msx == nil {
				return
			}
			if s.p.Arg == 1 {
				eph = msx.ephPriv
			}
			msy := s.mOpen(s.Y, eph)
			if msy == nil {
				return
			}
			xs, ys := s.mRecvSig(msx, s.X), s.mRecvSig(msy, s.Y)
			if xs == nil || ys == nil {
				return
			}
			s.mSendSig(msx, s.X, ys.PublicKey, ys.Signature)
			s.mSendSig(msy, s.Y, xs.PublicKey, xs.Signature)
			xm, ym := s.mRecvMeta(msx, s.X), s.mRecvMeta(msy, s.Y)
			if ym != nil {
				s.mSendMeta(msx, s.X, ym)
			}
			if xm != nil {
				s.mSendMeta(msy, s.Y, xm)
			}
		}},
		{name: "m-in-the-middle-low-order-ephemeral", endKind: "end", args: rangeArgs(len(lowPoints())), bls: true, run: func(s *scn3) {
			// man in the middle WITHOUT an ephemeral key of its own: M answers both key messages with a
			// low-order point. If an endpoint goes on, its shared secret is one of nine known values; M finds
			// it by trial decryption of the endpoint's first frame and re-encrypts each side's signature and
			// meta for the other side (the challenge both sides sign is then the same).
			s.start(one, one)
			lp := lowPoints()[s.p.Arg]
			msx, msy := s.mOpenLow(s.X, lp), s.mOpenLow(s.Y, lp)
			if msx == nil || msy == nil {
				return
			}
			xs, ys := s.mRecvSig(msx, s.X), s.mRecvSig(msy, s.Y)
			if xs == nil || ys == nil {
				return
			}
			s.mSendSig(msx, s.X, ys.PublicKey, ys.Signature)
			s.mSendSig(msy, s.Y, xs.PublicKey, xs.Signature)
			xm, ym := s.mRecvMeta(msx, s.X), s.mRecvMeta(msy, s.Y)
			if ym != nil {
				s.mSendMeta(msx, s.X, ym)
			}
			if xm != nil {
				s.mSendMeta(msy, s.Y, xm)
			}
		}},
		{name: "m-identity-without-private-key", endKind: "end", args: rangeArgs(8), run: func(s *scn3) {
			// small-order ed25519 "public keys": anybody can make signatures that verify.
			s.start(one, one)
			ms := s.mOpen(s.X, nil)
			if ms == nil {
				return
			}
			s.mRecvSig(ms, s.X)
			pks, sigs := degenerateEd25519(ms.challenge)
			if len(pks) == 0 {
				return
			}
			i := s.p.Arg % len(pks)
			s.mSendSig(ms, s.X, pks[i], sigs[i])
			s.mRecvMeta(ms, s.X)
			m := one.Copy()
			mp, msg := degenerateEd25519(m.SignBytes())
			for j := range mp {
				if bytes.Equal(mp[j], pks[i]) {
					m.Signature = msg[j]
				}
			}
			s.mSendMeta(ms, s.X, m)
		}},
		{name: "m-malformed-identity-key", endKind: "end", args: rangeArgs(8), run: func(s *scn3) {
			s.start(one, one)
			ms := s.mOpen(s.X, nil)
			if ms == nil {
				return
			}
			s.mRecvSig(ms, s.X)
			l := []int{0, 1, 31, 33, 48, 64, 65, 100}[s.p.Arg]
			s.mSendSig(ms, s.X, bytes.Repeat([]byte{0x07}, l), s.id.m.Sign(ms.challenge))
			s.mRecvMeta(ms, s.X)
			s.mSendMeta(ms, s.X, one.Copy().Sign(s.id.m))
		}},
		{name: "m-low-order-ephemeral", endKind: "end", args: rangeArgs(len(lowPoints())), run: func(s *scn3) {
			// M answers X's key message with a low-order / blacklisted / malformed point and then
			// continues with the keys an all-zero shared secret would give.
			s.start(one, one)
			k := s.X.take(kLen)
			lp := lowPoints()[s.p.Arg]
			s.ring.addDerived("M/zero", nil, parseK(k))
			s.ring.addLowOrder("M/low", lp, parseK(k))
			s.X.give(encodeK(lp))
			if f := s.X.take(frameSize); f != nil {
				// X went on: try to talk to it with every key M has
				if len(s.ring.aeads) > 0 {
					s.X.give(sealFrame(s.ring.aeads[0], 0, lenPrefixed(mustMarshal(&lib.Signature{PublicKey: s.Y.key.PublicKey().Bytes(), Signature: make([]byte, 64)}))))
				}
			}
		}},
		{name: "m-malformed-key-message", endKind: "end", args: rangeArgs(7), run: func(s *scn3) {
			s.start(one, one)
			s.X.take(kLen)
			good := encodeK(newEph(make([]byte, 32), "").PublicKey().Bytes())
			var msg []byte
			switch s.p.Arg {
			case 0:
				msg = append([]byte{0xff, 0xff, 0xff, 0xff}, good[4:]...)
			case 1:
				msg = append([]byte{0, 0, 3, 0xe8}, good[4:]...) // announces 1000 bytes, sends 34
			case 2:
				msg = lenPrefixed(nil)
			case 3:
				msg = good[:20]
			case 4:
				msg = lenPrefixed(bytes.Repeat([]byte{0xff}, 34))
			case 5:
				msg = lenPrefixed(append(append([]byte{}, good[4:]...), 0x10, 0x01)) // extra unknown field
			case 6:
				msg = encodeK(bytes.Repeat(good[6:], 2)) // 64-byte key
			}
			s.X.give(msg)
			// whatever X does next, it gets no further input
		}},
	}
}

// --- evaluation --------------------------------------------------------------------------

func (s *scn3) isMKey(p []byte) bool {
	for _, k := range s.mPubs {
		if bytes.Equal(k, p) {
			return true
		}
	}
	return false
}

func sameNet(a, b *lib.PeerMeta) bool {
	return a != nil && b != nil && a.NetworkId == b.NetworkId && a.ChainId == b.ChainId
}

func short(b []byte) string {
	h := hex.EncodeToString(b)
	if len(h) > 16 {
		return h[:16] + ".."
	}
	return h
}

func (s *scn3) evaluate() {
	// let every endpoint come to rest; endpoints still waiting get EOF (the timeout)
	for _, h := range s.honest {
		h.settle()
	}
	done := map[*inst]bool{}
	for _, h := range s.honest {
		done[h] = h.ok()
	}
	for _, h := range s.honest {
		if !done[h] {
			h.closeIn()
		}
	}
	for _, h := range s.honest {
		h.settle()
	}
	var keys []string
	for _, h := range s.honest {
		if h.panicked != nil {
			s.viol("panic", "%s: NewHandshake panicked: %v", h.name, h.panicked)
		}
		if !h.ok() {
			keys = append(keys, fmt.Sprintf("%s:fail(%s)", roleOf(s, h), errClass(h.err)))
			continue
		}
		P := h.ec.Address.PublicKey
		pm := h.ec.Address.PeerMeta
		var owner *inst
		honestKey := false
		for _, o := range s.honest {
			if bytes.Equal(o.key.PublicKey().Bytes(), P) {
				honestKey = true
				if o != h && owner == nil {
					owner = o
				}
			}
		}
		switch {
		case s.isMKey(P):
			keys = append(keys, fmt.Sprintf("%s:ok(peer=M)", roleOf(s, h)))
			c := s.claimed[h]
			if c == nil || !sameNet(c, h.meta) {
				s.viol("incompatible-accepted", "%s (net %d chain %d) completed a handshake with M although M claimed %v", h.name, h.meta.NetworkId, h.meta.ChainId, c)
			}
			if c != nil && !sameNet(c, pm) {
				s.viol("peer-meta-misreported", "%s reports peer meta %v, M sent %v", h.name, pm, c)
			}
		case honestKey:
			as := "peer"
			if bytes.Equal(h.key.PublicKey().Bytes(), P) {
				as = "self"
			}
			keys = append(keys, fmt.Sprintf("%s:ok(peer=honest-%s)", roleOf(s, h), as))
			var kinds, detail []string
			if owner == nil {
				kinds = append(kinds, "owner-absent")
				detail = append(detail, "no other honest endpoint owns that identity key")
			} else {
				owner.w.mu.Lock()
				rw := owner.rawWrites
				owner.w.mu.Unlock()
				if rw < 2 {
					kinds = append(kinds, "owner-silent")
					detail = append(detail, "the owner of that identity never sent a signature")
				}
				if !sameNet(owner.meta, h.meta) {
					kinds = append(kinds, "incompatible-accepted")
					detail = append(detail, fmt.Sprintf("the owner is on net %d chain %d, %s on net %d chain %d", owner.meta.NetworkId, owner.meta.ChainId, h.name, h.meta.NetworkId, h.meta.ChainId))
				}
			}
			// secrecy
			secret := pattern(7, 300, 0xa5)
			ct, _, _ := appWrite(h, secret)
			if len(ct) >= frameSize {
				if lbl, p, ok := s.ring.tryOpen(ct[:frameSize]); ok && bytes.Equal(p, secret) {
					kinds = append(kinds, "readable")
					detail = append(detail, "M decrypted an application frame of "+h.name+" with key "+lbl)
				}
			}
			// injection
			inj := []byte("injected-by-M")
			buf := make([]byte, 64)
		injLoop:
			for ai, a := range s.ring.aeads {
				for _, n := range []uint64{2, 0, 1, 3} {
					h.give(sealFrame(a, n, inj))
					if rn, _ := h.ec.Read(buf); rn > 0 {
						kinds = append(kinds, "injectable")
						detail = append(detail, fmt.Sprintf("%s accepted as data a frame M built with key %s nonce %d", h.name, s.ring.label[ai], n))
						break injLoop
					}
				}
			}
			if len(kinds) > 0 {
				s.viol("accepted-as-"+as+":"+strings.Join(kinds, "+"),
					"%s (identity %s) finished the handshake believing the peer is %s (honest identity key, its %s); %s",
					h.name, short(h.key.PublicKey().Bytes()), short(P), map[string]string{"self": "own", "peer": "peer's"}[as], strings.Join(detail, "; "))
			}
		default:
			keys = append(keys, fmt.Sprintf("%s:ok(peer=nobody's-key)", roleOf(s, h)))
			s.info = append(s.info, fmt.Sprintf("identity-without-private-key-accepted: an endpoint completed the handshake with peer identity %x (%d bytes), a small-order point for which anybody can produce valid signatures", P, len(P)))
		}
	}
	for _, h := range s.mustOK {
		if !h.ok() {
			s.viol("honest-peers-fail", "%s had to complete (every participant followed the protocol) but failed: err=%v panic=%v", h.name, h.err, h.panicked)
		}
	}
	sort.Strings(keys)
	s.out.Key = strings.Join(keys, " ")
}

func roleOf(s *scn3, h *inst) string {
	switch {
	case h == s.X:
		return "X"
	case h == s.Y:
		return "Y"
	case h.key == s.X.key:
		return "X'"
	}
	return "Y'"
}

// liveData: in strategies where two honest endpoints completed with each other's identity,
// application data must flow unchanged between them (M forwards).
func (s *scn3) liveData() {
	for _, x := range s.honest {
		if !x.ok() {
			continue
		}
		for _, y := range s.honest {
			if y == x || !y.ok() || !bytes.Equal(x.ec.Address.PublicKey, y.key.PublicKey().Bytes()) || !bytes.Equal(y.ec.Address.PublicKey, x.key.PublicKey().Bytes()) {
				continue
			}
			data := pattern(0, maxData+500, 0x3c)
			ct, _, _ := appWrite(x, data)
			// try this peer: only the one actually sharing keys with x can read it; a failed
			// attempt must not be counted against anybody, so probe on the first frame only
			if len(ct) != 2*frameSize {
				continue
			}
			y.give(ct)
			buf := make([]byte, len(data))
			got := 0
			for got < len(data) {
				n, e := y.ec.Read(buf[got:])
				got += n
				if e != nil {
					break
				}
			}
			if got == len(data) && bytes.Equal(buf, data) {
				s.notes = append(s.notes, x.name+"->"+y.name+" data ok")
			} else {
				s.viol("fidelity-after-handshake", "%s wrote %d bytes, %s (same session, M forwarding) read %d matching bytes", x.name, len(data), y.name, got)
			}
			break
		}
	}
}

func runPart3(p p3spec) outcome {
	var st *strategy
	all := strategies()
	for i := range all {
		if all[i].name == p.Strat {
			st = &all[i]
		}
	}
	if st == nil {
		return outcome{Key: "unknown-strategy"}
	}
	s := &scn3{p: p, w: newWorld(), id: ids(p.KeyType), claimed: map[*inst]*lib.PeerMeta{}, relayOrder: st.endKind != "end"}
	defer s.w.finish()
	s.mPubs = [][]byte{s.id.m.PublicKey().Bytes(), s.id.m2.PublicKey().Bytes()}
	st.run(s)
	for _, h := range s.honest {
		h.settle()
	}
	if len(s.honest) == 2 {
		s.liveData()
	}
	s.evaluate()
	s.out.Info = s.info
	return s.out
}

func part3Specs(quick bool) []p3spec {
	var out []p3spec
	for _, st := range strategies() {
		kts := []string{"ed25519"}
		if st.bls {
			kts = append(kts, "bls")
		}
		orders := []string{"lo", "hi"}
		for _, kt := range kts {
			for _, tgt := range []string{"A", "B"} {
				for _, o := range orders {
					for _, a := range st.args(quick) {
						out = append(out, p3spec{Strat: st.name, Target: tgt, Order: o, KeyType: kt, Arg: a})
					}
				}
			}
		}
	}
	return out
}
