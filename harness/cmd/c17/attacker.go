package main

import (
	"bytes"
	"crypto/cipher"
	"crypto/ed25519"
	"encoding/binary"
	"encoding/hex"
	"fmt"

	"filippo.io/edwards25519"
	"github.com/canopy-network/canopy/lib"
	"github.com/canopy-network/canopy/lib/crypto"
)

// ---------------------------------------------------------------------------------------
// The attacker's toolkit. A Dolev-Yao attacker knows the protocol, so it derives keys with
// the very functions the product uses (crypto.SharedSecret, crypto.HKDFSecretsAndChallenge);
// only the framing (length header, padding, counter nonce) is re-implemented here.

const (
	frameSize = crypto.EncryptedFrameSize // ciphertext frame on the wire
	plainSize = crypto.FrameSize          // length header + payload capacity
	maxData   = crypto.MaxDataSize        // payload capacity of one frame
)

func nonceOf(n uint64) []byte {
	b := make([]byte, crypto.AEADNonceSize)
	binary.LittleEndian.PutUint64(b[4:], n)
	return b
}

// sealFrame builds one ciphertext frame carrying payload (len <= maxData).
func sealFrame(a cipher.AEAD, n uint64, payload []byte) []byte {
	p := make([]byte, plainSize)
	binary.LittleEndian.PutUint32(p, uint32(len(payload)))
	copy(p[crypto.LengthHeaderSize:], payload)
	return a.Seal(nil, nonceOf(n), p, nil)
}

// openFrame tries to decrypt one frame; ok=false if authentication fails.
func openFrame(a cipher.AEAD, n uint64, frame []byte) (payload []byte, ok bool) {
	if len(frame) != frameSize {
		return nil, false
	}
	p, err := a.Open(nil, nonceOf(n), frame, nil)
	if err != nil {
		return nil, false
	}
	l := binary.LittleEndian.Uint32(p)
	if l > maxData {
		return p[crypto.LengthHeaderSize:], true
	}
	return p[crypto.LengthHeaderSize : crypto.LengthHeaderSize+l], true
}

func lenPrefixed(b []byte) []byte {
	o := make([]byte, 4, 4+len(b))
	binary.BigEndian.PutUint32(o, uint32(len(b)))
	return append(o, b...)
}

func mustMarshal(m any) []byte {
	b, err := lib.Marshal(m)
	if err != nil {
		panic(err)
	}
	return b
}

// encodeK is the plaintext key-swap message carrying an ephemeral public key.
func encodeK(eph []byte) []byte {
	return lenPrefixed(mustMarshal(&crypto.ProtoPubKey{Pubkey: eph}))
}

// parseK extracts the ephemeral key from an honest key-swap message.
func parseK(k []byte) []byte {
	if len(k) < 4 {
		return nil
	}
	m := new(crypto.ProtoPubKey)
	if err := lib.Unmarshal(k[4:], m); err != nil {
		return nil
	}
	return m.Pubkey
}

// kLen is the size of an honest key-swap message on the wire.
var kLen = len(encodeK(make([]byte, 32)))

// msess is the attacker's own end of a session with one honest endpoint.
type msess struct {
	ephPriv   crypto.PrivateKeyI
	ephPub    []byte
	peerEph   []byte
	send, rcv cipher.AEAD
	sn, rn    uint64
	challenge []byte
}

// newEph draws ephemeral keys until the byte order relative to peerEph is the wanted one
// (order "lo": attacker key < peer key, "hi": attacker key >= peer key, "": any). The order
// selects which half of the HKDF output is the send key, so both assignments are enumerated.
func newEph(peerEph []byte, order string) crypto.PrivateKeyI {
	for {
		k, err := crypto.NewEd25519PrivateKey()
		if err != nil {
			panic(err)
		}
		c := bytes.Compare(k.PublicKey().Bytes(), peerEph)
		if order == "" || (order == "lo" && c < 0) || (order == "hi" && c >= 0) {
			return k
		}
	}
}

func newMSess(ephPriv crypto.PrivateKeyI, peerEph []byte) (*msess, error) {
	secret, err := crypto.SharedSecret(peerEph, ephPriv.Bytes())
	if err != nil {
		return nil, err
	}
	pub := ephPriv.PublicKey().Bytes()
	send, rcv, ch, err := crypto.HKDFSecretsAndChallenge(secret, pub, peerEph)
	if err != nil {
		return nil, err
	}
	return &msess{ephPriv: ephPriv, ephPub: pub, peerEph: peerEph, send: send, rcv: rcv, challenge: ch[:]}, nil
}

func (s *msess) seal(payload []byte) []byte {
	f := sealFrame(s.send, s.sn, payload)
	s.sn++
	return f
}

func (s *msess) open(frame []byte) ([]byte, bool) {
	p, ok := openFrame(s.rcv, s.rn, frame)
	if ok {
		s.rn++
	}
	return p, ok
}

// sealMsg / openMsg: one length-prefixed proto message in one frame (how the handshake sends).
func (s *msess) sealMsg(m any) []byte { return s.seal(lenPrefixed(mustMarshal(m))) }

func (s *msess) openMsg(frame []byte, into any) bool {
	p, ok := s.open(frame)
	if !ok || len(p) < 4 {
		return false
	}
	l := int(binary.BigEndian.Uint32(p))
	if 4+l > len(p) {
		return false
	}
	return lib.Unmarshal(p[4:4+l], into) == nil
}

// keyring is every AEAD the attacker was able to derive in a scenario.
type keyring struct {
	aeads []cipher.AEAD
	label []string
}

func (k *keyring) add(label string, a cipher.AEAD) {
	if a != nil {
		k.aeads = append(k.aeads, a)
		k.label = append(k.label, label)
	}
}

func (k *keyring) addSess(label string, s *msess) {
	if s != nil {
		k.add(label+"/send", s.send)
		k.add(label+"/recv", s.rcv)
	}
}

// addDerived adds what the attacker gets from one of its ephemeral private keys and any
// public key seen on the wire, in both role assignments, plus the keys that follow from an
// all-zero shared secret (what a low-order point would yield if it were not rejected).
func (k *keyring) addDerived(label string, priv crypto.PrivateKeyI, pubs ...[]byte) {
	for pi, p := range pubs {
		if len(p) != 32 {
			continue
		}
		if priv != nil {
			if sec, err := crypto.SharedSecret(p, priv.Bytes()); err == nil {
				for qi, q := range pubs {
					a, b, _, e := crypto.HKDFSecretsAndChallenge(sec, priv.PublicKey().Bytes(), q)
					if e == nil {
						k.add(fmt.Sprintf("%s/dh%d/%d/a", label, pi, qi), a)
						k.add(fmt.Sprintf("%s/dh%d/%d/b", label, pi, qi), b)
					}
				}
			}
		}
	}
	zero := make([]byte, 32)
	a, b, _, e := crypto.HKDFSecretsAndChallenge(zero, []byte{0}, []byte{1})
	if e == nil {
		k.add(label+"/zero/a", a)
		k.add(label+"/zero/b", b)
	}
}

// addLowOrder adds the keys that follow if a low-order ephemeral key lp is NOT rejected: whatever
// scalar the honest endpoint multiplies it with, the product is one of the eight small-order points
// (or the all-zero string of an X25519 ladder), so the attacker simply tries all of them, in both key
// roles, against every public key seen on the wire.
func (k *keyring) addLowOrder(label string, lp []byte, pubs ...[]byte) {
	cands := [][]byte{make([]byte, 32)}
	for _, e := range edwardsLowOrder[:8] {
		cands = append(cands, e)
	}
	for ci, sec := range cands {
		for qi, q := range pubs {
			if len(q) != 32 {
				continue
			}
			for ri, pair := range [][2][]byte{{lp, q}, {q, lp}} {
				a, b, _, e := crypto.HKDFSecretsAndChallenge(sec, pair[0], pair[1])
				if e == nil {
					k.add(fmt.Sprintf("%s/low%d/%d/%d/a", label, ci, qi, ri), a)
					k.add(fmt.Sprintf("%s/low%d/%d/%d/b", label, ci, qi, ri), b)
				}
			}
		}
	}
}

// tryOpen reports the first key/nonce that decrypts the frame.
func (k *keyring) tryOpen(frame []byte) (string, []byte, bool) {
	for i, a := range k.aeads {
		for n := uint64(0); n < 8; n++ {
			if p, ok := openFrame(a, n, frame); ok {
				return fmt.Sprintf("%s nonce=%d", k.label[i], n), p, true
			}
		}
	}
	return "", nil, false
}

// ---------------------------------------------------------------------------------------
// special points

func unhex(s string) []byte {
	b, err := hex.DecodeString(s)
	if err != nil {
		panic(err)
	}
	return b
}

// blacklistTable: the seven entries of crypto.x25519WeakPointBlacklist (unexported; copied
// from lib/crypto/ecdh.go and checked against crypto.PubIsBlacklisted at start-up).
var blacklistTable = [][]byte{
	unhex("0000000000000000000000000000000000000000000000000000000000000000"),
	unhex("0100000000000000000000000000000000000000000000000000000000000000"),
	unhex("e0eb7a7c3b41b8ae1656e3faf19fc46ada098deb9c32b1fd866205165f49b800"),
	unhex("5f9c95bca3508c24b1d0b1559c83ef5b04445cc4581c8e86d8224eddd09f1157"),
	unhex("ecffffffffffffffffffffffffffffffffffffffffffffffffffffffffffff7f"),
	unhex("edffffffffffffffffffffffffffffffffffffffffffffffffffffffffffff7f"),
	unhex("eeffffffffffffffffffffffffffffffffffffffffffffffffffffffffffff7f"),
}

// edwardsLowOrder: encodings of the eight small-order points of edwards25519 (the curve the
// exchanged keys are actually encoded on) and their non-canonical variants.
var edwardsLowOrder = [][]byte{
	unhex("0100000000000000000000000000000000000000000000000000000000000000"), // identity
	unhex("ecffffffffffffffffffffffffffffffffffffffffffffffffffffffffffff7f"), // order 2
	unhex("0000000000000000000000000000000000000000000000000000000000000000"), // order 4
	unhex("0000000000000000000000000000000000000000000000000000000000000080"), // order 4
	unhex("26e8958fc2b227b045c3f489f2ef98f0d5dfac05d3c63339b13802886d53fc05"), // order 8
	unhex("26e8958fc2b227b045c3f489f2ef98f0d5dfac05d3c63339b13802886d53fc85"), // order 8
	unhex("c7176a703d4dd84fba3c0b760d10670f2a2053fa2c39ccc64ec7fd7792ac037a"), // order 8
	unhex("c7176a703d4dd84fba3c0b760d10670f2a2053fa2c39ccc64ec7fd7792ac03fa"), // order 8
	// non-canonical encodings (y >= p, or x=0 with the sign bit set)
	unhex("0100000000000000000000000000000000000000000000000000000000000080"),
	unhex("eeffffffffffffffffffffffffffffffffffffffffffffffffffffffffffff7f"),
	unhex("eeffffffffffffffffffffffffffffffffffffffffffffffffffffffffffffff"),
	unhex("ecffffffffffffffffffffffffffffffffffffffffffffffffffffffffffffff"),
	unhex("edffffffffffffffffffffffffffffffffffffffffffffffffffffffffffff7f"),
	unhex("edffffffffffffffffffffffffffffffffffffffffffffffffffffffffffffff"),
}

// lowPoints is the union used by the low-order strategies (deduplicated), plus malformed keys.
func lowPoints() [][]byte {
	seen := map[string]bool{}
	var o [][]byte
	for _, l := range [][][]byte{blacklistTable, edwardsLowOrder} {
		for _, p := range l {
			if !seen[string(p)] {
				seen[string(p)] = true
				o = append(o, p)
			}
		}
	}
	// malformed: wrong lengths and a y that is not on the curve
	o = append(o, []byte{}, make([]byte, 31), make([]byte, 33),
		unhex("0200000000000000000000000000000000000000000000000000000000000000"))
	return o
}

// selfCheckTables verifies the copied tables against the product and the curve library.
func selfCheckTables() error {
	for _, p := range blacklistTable {
		if !crypto.PubIsBlacklisted(p) {
			return fmt.Errorf("blacklist table entry %x is not blacklisted by the product", p)
		}
	}
	id := edwards25519.NewIdentityPoint()
	n := 0
	for _, e := range edwardsLowOrder {
		pt, err := new(edwards25519.Point).SetBytes(e)
		if err != nil {
			continue // encoding rejected by the curve library: still sent as an adversarial input
		}
		n++
		if new(edwards25519.Point).MultByCofactor(pt).Equal(id) != 1 {
			return fmt.Errorf("edwards low-order table entry %x is not of small order", e)
		}
	}
	if n < 8 {
		return fmt.Errorf("only %d edwards low-order encodings decode", n)
	}
	return nil
}

// negatePoint returns the encoding of -P (same Montgomery u, hence the same X25519 secret).
func negatePoint(eph []byte) []byte {
	pt, err := new(edwards25519.Point).SetBytes(eph)
	if err != nil {
		return nil
	}
	return new(edwards25519.Point).Negate(pt).Bytes()
}

// addTorsion returns the encoding of P+T for the small-order point with the given index
// (clamped X25519 scalars are multiples of 8, so the shared secret does not change).
func addTorsion(eph []byte, idx int) []byte {
	pt, err := new(edwards25519.Point).SetBytes(eph)
	if err != nil {
		return nil
	}
	t, err := new(edwards25519.Point).SetBytes(edwardsLowOrder[idx])
	if err != nil {
		return nil
	}
	return new(edwards25519.Point).Add(pt, t).Bytes()
}

// degenerateEd25519 returns identity keys for which anybody can produce a valid signature
// on msg (small-order public keys; the product's ed25519 verification does not reject them).
func degenerateEd25519(msg []byte) (pks, sigs [][]byte) {
	for _, pk := range edwardsLowOrder[:8] {
		for _, r := range edwardsLowOrder[:8] {
			sig := append(append([]byte{}, r...), make([]byte, 32)...)
			if ed25519.Verify(ed25519.PublicKey(pk), msg, sig) {
				pks = append(pks, pk)
				sigs = append(sigs, sig)
				break
			}
		}
	}
	return
}
