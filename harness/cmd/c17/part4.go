package main

import (
	"bytes"
	"fmt"
)

// ---------------------------------------------------------------------------------------
// Part 4 - long streams / nonce periodicity.
//
// Part 2 attacks a three-frame stream; a nonce counter that repeats with a period (a lost
// carry, a truncated counter) only shows when a frame is replayed, or a run of frames is
// deleted, or frames are exchanged, at the distance of that period. Here one direction
// carries N frames (payload = the 3-byte frame index, so every frame's payload is distinct
// and tiny) on a fresh session, and one fault is applied:
//
//	replay  a copy of frame I is inserted before position J   (I < J <= N)
//	delete  the run of frames [I, I+D) is removed
//	swap    frames I and J exchange places
//	opp     position J is replaced by frame I of the opposite direction (the other key, the
//	        same counter sequence)
//	none    the honest stream (must arrive intact: catches counters that drift apart)
//
// Frames are delivered one by one; the stream is closed three frames after the first faulted
// position (the rest cannot matter to a receiver that must have failed by then).
//
// Oracle (as in part 2): with k = the first faulted position, Read must return an error, the
// data returned before that first error is exactly the payload of frames 0..k-1, and
// whatever is returned afterwards keeps the total a prefix of the sender's stream.

type p4spec struct {
	N   int    `json:"n"`
	Op  string `json:"op"`
	I   int    `json:"i"`
	J   int    `json:"j,omitempty"`
	D   int    `json:"d,omitempty"`
	Dir string `json:"dir"`
}

func (p p4spec) kind() string {
	if p.N > 1000 {
		return p.Op + ":very-long-stream"
	}
	return p.Op
}

func (p p4spec) String() string {
	switch p.Op {
	case "replay":
		return fmt.Sprintf("N=%d %s: copy of frame %d inserted before position %d (distance %d)", p.N, p.Dir, p.I, p.J, p.J-p.I)
	case "delete":
		return fmt.Sprintf("N=%d %s: frames [%d,%d) deleted (run of %d)", p.N, p.Dir, p.I, p.I+p.D, p.D)
	case "swap":
		return fmt.Sprintf("N=%d %s: frames %d and %d swapped (distance %d)", p.N, p.Dir, p.I, p.J, p.J-p.I)
	case "opp":
		return fmt.Sprintf("N=%d %s: position %d replaced by frame %d of the opposite direction", p.N, p.Dir, p.J, p.I)
	}
	return fmt.Sprintf("N=%d %s: no fault", p.N, p.Dir)
}

// layout returns the delivered stream as references (>=0: own frame index, <0: opposite
// direction frame -1-ref), the first faulted position k and whether the stream is faulted.
func (p p4spec) layout() (ref func(pos int) int, length, k int, faulted bool) {
	switch p.Op {
	case "replay":
		return func(pos int) int {
			switch {
			case pos < p.J:
				return pos
			case pos == p.J:
				return p.I
			}
			return pos - 1
		}, p.N + 1, p.J, true
	case "delete":
		return func(pos int) int {
			if pos < p.I {
				return pos
			}
			return pos + p.D
		}, p.N - p.D, p.I, p.D > 0
	case "swap":
		return func(pos int) int {
			switch pos {
			case p.I:
				return p.J
			case p.J:
				return p.I
			}
			return pos
		}, p.N, p.I, p.I != p.J
	case "opp":
		return func(pos int) int {
			if pos == p.J {
				return -1 - p.I
			}
			return pos
		}, p.N, p.J, true
	}
	return func(pos int) int { return pos }, p.N, p.N, false
}

func idxPayload(i int) []byte { return []byte{byte(i), byte(i >> 8), byte(i >> 16)} }

func runPart4(p p4spec) (out outcome) {
	w := newWorld()
	defer w.finish()
	id := ids("ed25519")
	s := establish(w, id.a, id.b, "")
	if !s.established() {
		out.Viols = append(out.Viols, viol{"C17:handshake:honest-peers-fail", "honest handshake failed: " + s.whyNot()})
		out.Key = "no-session"
		return
	}
	snd, rcv := s.a, s.b
	if p.Dir == "BA" {
		snd, rcv = s.b, s.a
	}
	ref, length, k, faulted := p.layout()
	cut := length
	if faulted && k+3 < cut {
		cut = k + 3
	}
	// how many own / opposite frames are needed
	needOwn, needOpp := 0, 0
	for pos := 0; pos < cut; pos++ {
		r := ref(pos)
		if r >= 0 && r+1 > needOwn {
			needOwn = r + 1
		}
		if r < 0 && -r > needOpp {
			needOpp = -r
		}
	}
	if needOwn > p.N {
		needOwn = p.N
	}
	frames := make([][]byte, needOwn)
	for i := range frames {
		ct, n, err := appWrite(snd, idxPayload(i))
		if err != nil || n != 3 || len(ct) != frameSize {
			out.Viols = append(out.Viols, viol{"C17:fidelity:write-result:long-stream", fmt.Sprintf("%s: Write #%d returned (%d,%v) and produced %d ciphertext bytes", p, i, n, err, len(ct))})
			out.Key = "setup-failed"
			return
		}
		frames[i] = ct
	}
	opp := make([][]byte, needOpp)
	for i := range opp {
		opp[i], _, _ = appWrite(rcv, idxPayload(i))
	}
	// deliver frame by frame, one Read per frame
	buf := make([]byte, 64)
	var pre, post []byte
	var firstErr error
	firstErrPos, errs := -1, 0
	read := func(pos int) {
		n, e := rcv.ec.Read(buf)
		if firstErr == nil {
			pre = append(pre, buf[:n]...)
		} else {
			post = append(post, buf[:n]...)
		}
		if e != nil {
			errs++
			if firstErr == nil {
				firstErr, firstErrPos = e, pos
			}
		}
	}
	for pos := 0; pos < cut && errs < 8; pos++ {
		r := ref(pos)
		var f []byte
		switch {
		case r < 0:
			f = opp[-1-r]
		case r < len(frames):
			f = frames[r]
		default:
			continue
		}
		rcv.give(f)
		read(pos)
	}
	rcv.closeIn()
	for c := 0; c < 4 && errs < 8; c++ {
		read(cut)
	}
	var wantPre, all []byte
	for i := 0; i < needOwn; i++ {
		if i < k {
			wantPre = append(wantPre, idxPayload(i)...)
		}
		all = append(all, idxPayload(i)...)
	}
	if !faulted {
		if !bytes.Equal(pre, all) {
			out.Viols = append(out.Viols, viol{"C17:fidelity:long-stream-not-intact", fmt.Sprintf("%s: honest stream of %d frames; receiver got %d of %d bytes, first difference at byte %d (frame %d), first error %v at position %d", p, p.N, len(pre), len(all), firstDiff(pre, all), firstDiff(pre, all)/3, firstErr, firstErrPos)})
		}
		out.Key = "intact"
		return
	}
	total := append(append([]byte{}, pre...), post...)
	sig := func(what string) string { return "C17:long-stream:" + what + ":" + p.kind() }
	switch {
	case firstErr == nil:
		out.Viols = append(out.Viols, viol{sig("fault-no-error"), fmt.Sprintf("%s: Read never returned an error; %d bytes delivered", p, len(pre))})
	case len(pre) > len(wantPre) || !bytes.Equal(pre, wantPre[:len(pre)]):
		out.Viols = append(out.Viols, viol{sig("fault-data-delivered"), fmt.Sprintf("%s: the first %d frames are intact, but before the first error (%v at position %d) Read delivered %d bytes = %d frames", p, k, firstErr, firstErrPos, len(pre), len(pre)/3)})
	case len(pre) < len(wantPre):
		out.Viols = append(out.Viols, viol{sig("intact-prefix-lost"), fmt.Sprintf("%s: only %d of the %d intact leading frames were delivered before %v", p, len(pre)/3, k, firstErr)})
	case len(total) > len(all) || !bytes.Equal(total, all[:len(total)]):
		out.Viols = append(out.Viols, viol{sig("fault-data-after-error"), fmt.Sprintf("%s: a receiver that keeps reading after %v gets bytes that are not the continuation of the sender's stream (first difference at byte %d)", p, firstErr, firstDiff(total, all))})
	}
	resync := "stuck"
	if len(post) > 0 {
		resync = "resumes"
	}
	kc := "k=0"
	switch {
	case k >= 65536:
		kc = "k>=65536"
	case k >= 256:
		kc = "k>=256"
	case k > 0:
		kc = "0<k<256"
	}
	out.Key = fmt.Sprintf("%s err=%s after-error=%s", kc, errClass(firstErr), resync)
	return
}

func part4Specs(quick bool) []p4spec {
	var out []p4spec
	if !quick {
		// very long streams first (they are the slowest scenarios): across the 2^16 carry
		const N = 66000
		out = append(out, p4spec{N: N, Op: "none", Dir: "AB"}, p4spec{N: N, Op: "none", Dir: "BA"})
		for _, dist := range []int{65535, 65536, 65537, 65280} {
			for i := 0; i < 3; i++ {
				out = append(out, p4spec{N: N, Op: "replay", I: i, J: i + dist, Dir: "AB"})
				out = append(out, p4spec{N: N, Op: "delete", I: i, D: dist, Dir: "AB"})
				out = append(out, p4spec{N: N, Op: "swap", I: i, J: i + dist, Dir: "AB"})
			}
		}
		// frames whose counter sits around the carry (the handshake used two counter values)
		for _, i := range []int{65531, 65532, 65533, 65534, 65535, 65536, 65537} {
			for _, j := range []int{i + 1, i + 2, i + 256} {
				out = append(out, p4spec{N: N, Op: "replay", I: i, J: j, Dir: "AB"})
			}
			out = append(out, p4spec{N: N, Op: "swap", I: i, J: i + 1, Dir: "AB"}, p4spec{N: N, Op: "delete", I: i, D: 1, Dir: "AB"},
				p4spec{N: N, Op: "delete", I: i, D: 256, Dir: "AB"}, p4spec{N: N, Op: "opp", I: 0, J: i, Dir: "AB"})
		}
	}
	const N = 600
	dirs := []string{"AB"}
	if !quick {
		dirs = []string{"AB", "BA"}
	}
	out = append(out, p4spec{N: N, Op: "none", Dir: "AB"}, p4spec{N: N, Op: "none", Dir: "BA"})
	for _, d := range dirs {
		if quick || d == "BA" {
			for _, i := range []int{0, 1, 2, 255, 256} {
				for j := i + 1; j <= N; j++ {
					out = append(out, p4spec{N: N, Op: "replay", I: i, J: j, Dir: d})
				}
			}
		} else {
			for i := 0; i < N; i++ {
				for j := i + 1; j <= N; j++ {
					out = append(out, p4spec{N: N, Op: "replay", I: i, J: j, Dir: d})
				}
			}
		}
		for i := 0; i < 3; i++ {
			for dd := 1; dd <= N-1-i; dd++ {
				out = append(out, p4spec{N: N, Op: "delete", I: i, D: dd, Dir: d})
			}
		}
		for i := 0; i < 2; i++ {
			for j := i + 1; j < N; j++ {
				out = append(out, p4spec{N: N, Op: "swap", I: i, J: j, Dir: d})
			}
			for j := 0; j < N; j++ {
				out = append(out, p4spec{N: N, Op: "opp", I: i, J: j, Dir: d})
			}
		}
	}
	return out
}
