package main

import (
	"encoding/binary"
	"errors"
	"fmt"
	"io"
	"net"
	"os"
	"sync"
	"time"

	"github.com/canopy-network/canopy/lib"
	"github.com/canopy-network/canopy/lib/crypto"
	"github.com/canopy-network/canopy/p2p"
)

// ---------------------------------------------------------------------------------------
// The in-memory network owned by the harness.
//
// Every honest endpoint ("inst") talks to the harness, never directly to another endpoint:
// what it writes lands in inst.out, what it reads comes from inst.in. The script that owns
// the scenario (running in the caller's goroutine) is the interposer: it takes bytes from
// out queues and gives bytes to in queues, so every handshake message and every ciphertext
// frame passes through a position where it can be observed, held, rewritten, dropped,
// duplicated or reordered.
//
// No wall-clock time is involved: deadlines set by the code under test are recorded and
// ignored; a message that never comes is modelled by closing the input (EOF), which is what
// the 1 s handshake timeout amounts to for the endpoint.
//
// settle() is the only synchronisation point between the script and an endpoint. It
// returns when the endpoint cannot make progress without the script: NewHandshake has
// returned, or the endpoint's receiver is blocked on an empty input and the sender of the
// phase the receiver is in has already written its message. The phase of the receiver is
// computed from the number of input bytes it consumed (4+L0 bytes of plaintext key message,
// then one ciphertext frame per handshake message); the handshake sends exactly one raw
// write per phase. This makes every scenario a deterministic function of its script even
// though each endpoint runs three goroutines.

type world struct {
	mu    sync.Mutex
	cond  *sync.Cond
	insts []*inst
	dead  bool
}

func newWorld() *world {
	w := &world{}
	w.cond = sync.NewCond(&w.mu)
	return w
}

var errWouldBlock = errors.New("c17 pipe: read would block")

type inst struct {
	w    *world
	name string
	key  crypto.PrivateKeyI
	meta *lib.PeerMeta

	// guarded by w.mu
	in          [][]byte // segments handed over by the script, not yet consumed
	inClosed    bool
	out         []byte
	localClosed bool
	consumed    int
	hdr         [4]byte
	rawWrites   int
	readBlocked int
	nonblock    bool
	deadlines   int

	gate     *gate // part 5: every conn.Write parks here until the controller releases it

	done     bool
	ec       *p2p.EncryptedConn
	err      lib.ErrorI
	panicked any
}

type memAddr string

func (a memAddr) Network() string { return "mem" }
func (a memAddr) String() string  { return string(a) }

// conn is the net.Conn handed to the code under test.
type conn struct{ i *inst }

func (c conn) Read(p []byte) (int, error) {
	i := c.i
	if len(p) == 0 {
		return 0, nil
	}
	i.w.mu.Lock()
	defer i.w.mu.Unlock()
	for len(i.in) == 0 {
		if i.localClosed {
			return 0, io.ErrClosedPipe
		}
		if i.inClosed {
			return 0, io.EOF
		}
		if i.nonblock {
			return 0, errWouldBlock
		}
		i.readBlocked++
		i.w.cond.Broadcast()
		i.w.cond.Wait()
		i.readBlocked--
	}
	n := copy(p, i.in[0])
	for k := 0; k < n && i.consumed+k < 4; k++ {
		i.hdr[i.consumed+k] = i.in[0][k]
	}
	i.consumed += n
	if n == len(i.in[0]) {
		i.in = i.in[1:]
	} else {
		i.in[0] = i.in[0][n:]
	}
	return n, nil
}

func (c conn) Write(p []byte) (int, error) {
	i := c.i
	i.w.mu.Lock()
	if g := i.gate; g != nil {
		id := g.arrived
		g.arrived++
		ch := make(chan struct{})
		g.released[id] = ch
		g.pending = append(g.pending, id)
		i.w.cond.Broadcast()
		i.w.mu.Unlock()
		<-ch
		i.w.mu.Lock()
	}
	defer i.w.mu.Unlock()
	if i.localClosed {
		return 0, io.ErrClosedPipe
	}
	i.out = append(i.out, p...)
	i.rawWrites++
	i.w.cond.Broadcast()
	return len(p), nil
}

func (c conn) Close() error {
	i := c.i
	i.w.mu.Lock()
	defer i.w.mu.Unlock()
	i.localClosed = true
	i.w.cond.Broadcast()
	return nil
}
func (c conn) LocalAddr() net.Addr  { return memAddr("mem:" + c.i.name) }
func (c conn) RemoteAddr() net.Addr { return memAddr("mem:peer-of-" + c.i.name) }
func (c conn) SetDeadline(time.Time) error {
	c.i.w.mu.Lock()
	c.i.deadlines++
	c.i.w.mu.Unlock()
	return nil
}
func (c conn) SetReadDeadline(t time.Time) error  { return c.SetDeadline(t) }
func (c conn) SetWriteDeadline(t time.Time) error { return c.SetDeadline(t) }

// spawn starts an honest endpoint: the real NewHandshake over the harness conn.
func (w *world) spawn(name string, key crypto.PrivateKeyI, meta *lib.PeerMeta) *inst {
	i := &inst{w: w, name: name, key: key, meta: meta}
	w.mu.Lock()
	w.insts = append(w.insts, i)
	w.mu.Unlock()
	go func() {
		var ec *p2p.EncryptedConn
		var err lib.ErrorI
		var pv any
		func() {
			defer func() { pv = recover() }()
			ec, err = p2p.NewHandshake(conn{i}, meta, key)
		}()
		w.mu.Lock()
		i.done = true
		i.panicked = pv
		if pv == nil && err == nil && ec != nil && ec.Address != nil {
			i.ec = ec
		} else if err == nil && pv == nil {
			err = lib.NewError(0, "c17", "NewHandshake returned neither a connection nor an error")
		}
		i.err = err
		i.nonblock = true
		w.cond.Broadcast()
		w.mu.Unlock()
	}()
	return i
}

func (i *inst) expectedWrites() int {
	if i.consumed < 4 {
		return 1
	}
	l0 := int(binary.BigEndian.Uint32(i.hdr[:]))
	if i.consumed < 4+l0 {
		return 1
	}
	return 2 + (i.consumed-4-l0)/crypto.EncryptedFrameSize
}

func (i *inst) quiescentLocked() bool {
	if i.done {
		return true
	}
	return i.readBlocked > 0 && len(i.in) == 0 && !i.inClosed && i.rawWrites == i.expectedWrites()
}

// settle waits until the endpoint needs the script to go on (see the file comment).
func (i *inst) settle() {
	w := i.w
	w.mu.Lock()
	defer w.mu.Unlock()
	var t *time.Timer
	for !i.quiescentLocked() {
		if w.dead {
			fmt.Fprintf(os.Stderr, "HARNESS-ERROR C17: endpoint %s neither finished nor became quiescent (consumed=%d rawWrites=%d readBlocked=%d in=%d)\n",
				i.name, i.consumed, i.rawWrites, i.readBlocked, len(i.in))
			os.Exit(2)
		}
		if t == nil {
			// watchdog for harness bugs only; never part of an oracle
			t = time.AfterFunc(60*time.Second, func() {
				w.mu.Lock()
				w.dead = true
				w.cond.Broadcast()
				w.mu.Unlock()
			})
			defer t.Stop()
		}
		w.cond.Wait()
	}
}

// take returns the next n bytes the endpoint wrote, or nil if it stopped before writing them.
func (i *inst) take(n int) []byte {
	i.settle()
	i.w.mu.Lock()
	defer i.w.mu.Unlock()
	if len(i.out) < n {
		return nil
	}
	b := append([]byte{}, i.out[:n]...)
	i.out = i.out[n:]
	return b
}

// untake puts bytes back in front of what the endpoint wrote (used after peeking).
func (i *inst) untake(b []byte) {
	i.w.mu.Lock()
	i.out = append(append([]byte{}, b...), i.out...)
	i.w.mu.Unlock()
}

// takeAll drains whatever the endpoint has written so far.
func (i *inst) takeAll() []byte {
	i.settle()
	i.w.mu.Lock()
	defer i.w.mu.Unlock()
	b := i.out
	i.out = nil
	return b
}

// give hands one segment to the endpoint's input (a Read never crosses a segment boundary,
// like a TCP read never returns more than has arrived).
func (i *inst) give(b []byte) {
	if len(b) == 0 {
		return
	}
	i.w.mu.Lock()
	i.in = append(i.in, append([]byte{}, b...))
	i.w.cond.Broadcast()
	i.w.mu.Unlock()
}

// giveSeg hands b over in segments of at most seg bytes (seg<=0: one segment).
func (i *inst) giveSeg(b []byte, seg int) {
	if seg <= 0 {
		i.give(b)
		return
	}
	for len(b) > 0 {
		n := seg
		if n > len(b) {
			n = len(b)
		}
		i.give(b[:n])
		b = b[n:]
	}
}

// closeIn ends the endpoint's input: after the pending segments every read returns EOF.
func (i *inst) closeIn() {
	i.w.mu.Lock()
	i.inClosed = true
	i.w.cond.Broadcast()
	i.w.mu.Unlock()
}

func (i *inst) ok() bool {
	i.w.mu.Lock()
	defer i.w.mu.Unlock()
	return i.done && i.ec != nil
}

// finish closes every input and waits for every endpoint goroutine.
func (w *world) finish() {
	w.mu.Lock()
	insts := append([]*inst{}, w.insts...)
	w.mu.Unlock()
	for _, i := range insts {
		i.closeIn()
	}
	for _, i := range insts {
		i.settle()
	}
}

// errClass maps an error to a coarse, stable class name.
func errClass(err error) string {
	if err == nil {
		return "nil"
	}
	if err == io.EOF {
		return "EOF"
	}
	if err == io.ErrUnexpectedEOF {
		return "UnexpectedEOF"
	}
	if err == errWouldBlock {
		return "would-block"
	}
	if e, ok := err.(lib.ErrorI); ok {
		return fmt.Sprintf("canopy-%s-%d", e.Module(), e.Code())
	}
	return "other:" + err.Error()
}
