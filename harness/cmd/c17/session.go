package main

import (
	"bytes"
	"fmt"
	"sync"

	"github.com/canopy-network/canopy/lib"
	"github.com/canopy-network/canopy/lib/crypto"
)

// identity keys are long-lived; they are drawn once per process and reused by every scenario
// (the ephemeral keys, which decide everything about a session, are fresh every time).
type idKeys struct{ a, b, m, m2 crypto.PrivateKeyI }

var (
	idOnce  sync.Once
	idByTyp map[string]*idKeys
)

func newKey(typ string) crypto.PrivateKeyI {
	var k crypto.PrivateKeyI
	var err error
	switch typ {
	case "ed25519":
		k, err = crypto.NewEd25519PrivateKey()
	case "bls":
		k, err = crypto.NewBLS12381PrivateKey()
	case "secp256k1":
		k, err = crypto.NewSECP256K1PrivateKey()
	case "ethsecp256k1":
		k, err = crypto.NewETHSECP256K1PrivateKey()
	default:
		panic("key type " + typ)
	}
	if err != nil {
		panic(err)
	}
	return k
}

func ids(typ string) *idKeys {
	idOnce.Do(func() {
		idByTyp = map[string]*idKeys{}
		for _, t := range []string{"ed25519", "bls", "secp256k1", "ethsecp256k1"} {
			idByTyp[t] = &idKeys{a: newKey(t), b: newKey(t), m: newKey(t), m2: newKey(t)}
		}
	})
	return idByTyp[typ]
}

func metaOf(net, chain uint64) *lib.PeerMeta { return &lib.PeerMeta{NetworkId: net, ChainId: chain} }

// sess is an honest session between two real endpoints, every byte of which went through
// the harness.
type sess struct {
	w        *world
	a, b     *inst
	ka, kb   []byte    // key-swap messages
	ea, eb   []byte    // ephemeral keys
	hsA, hsB [][]byte  // handshake frames (signature, meta) of each direction
	aLtB     bool      // ea < eb (decides which HKDF half is whose send key)
	okA, okB bool
}

// pump forwards an honest handshake between a and b unchanged, recording it.
func pump(w *world, a, b *inst) *sess {
	s := &sess{w: w, a: a, b: b}
	s.ka, s.kb = a.take(kLen), b.take(kLen)
	if s.ka == nil || s.kb == nil {
		return s
	}
	s.ea, s.eb = parseK(s.ka), parseK(s.kb)
	s.aLtB = bytes.Compare(s.ea, s.eb) < 0
	b.give(s.ka)
	a.give(s.kb)
	for ph := 0; ph < 2; ph++ {
		fa, fb := a.take(frameSize), b.take(frameSize)
		if fa != nil {
			s.hsA = append(s.hsA, fa)
			b.give(fa)
		}
		if fb != nil {
			s.hsB = append(s.hsB, fb)
			a.give(fb)
		}
		if fa == nil || fb == nil {
			break
		}
	}
	a.settle()
	b.settle()
	s.okA, s.okB = a.ok(), b.ok()
	return s
}

// establish runs one honest handshake (both endpoints on net 1 / chain 1).
func establish(w *world, ka, kb crypto.PrivateKeyI, tag string) *sess {
	a := w.spawn("A"+tag, ka, metaOf(1, 1))
	b := w.spawn("B"+tag, kb, metaOf(1, 1))
	return pump(w, a, b)
}

func (s *sess) established() bool { return s.okA && s.okB }

func (s *sess) whyNot() string {
	return fmt.Sprintf("A: ok=%v err=%v panic=%v; B: ok=%v err=%v panic=%v", s.okA, s.a.err, s.a.panicked, s.okB, s.b.err, s.b.panicked)
}

// appWrite performs one Write on the established connection and returns the ciphertext
// the endpoint put on the wire for it.
func appWrite(i *inst, data []byte) (ct []byte, n int, err error) {
	n, err = i.ec.Write(data)
	i.w.mu.Lock()
	ct = i.out
	i.out = nil
	i.w.mu.Unlock()
	return
}

// pattern is a payload whose every byte depends on its absolute stream position in a way
// that is not periodic in the frame size, so a misplaced, repeated or dropped byte shows.
func pattern(off, n int, salt byte) []byte {
	b := make([]byte, n)
	for i := range b {
		p := off + i
		b[i] = byte(p*131+(p>>8)*17+(p>>16)) ^ salt
	}
	return b
}
