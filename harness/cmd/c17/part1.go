package main

import (
	"bytes"
	"fmt"
	"io"
)

// ---------------------------------------------------------------------------------------
// Part 1 - byte fidelity.
//
// One scenario: fresh honest session; endpoint A performs the write sequence, endpoint B the
// same sequence reversed (so both directions and both key roles carry data in every
// scenario); the ciphertext is delivered to the other side in segments of a chosen size;
// the receiver reads with buffers of size R (alternating with R2 when R2>0) until EOF.
// Mode "after-all": all writes, then all reads. Mode "per-write": after every write the
// ciphertext of that write is delivered and the reader drains exactly that many bytes
// before the next write happens. Mode "lagging": after every write the reader does a single
// Read (so unread data piles up across writes), and drains at the end.
// Oracle: Write returns (len, nil); the bytes read are exactly the bytes written, in order;
// after them the reader sees EOF and nothing else.

type p1spec struct {
	Writes []int  `json:"writes"`
	R      int    `json:"r"`
	R2     int    `json:"r2,omitempty"`
	Seg    int    `json:"seg"`
	Mode   string `json:"mode"`
}

func (p p1spec) nontrivial() bool {
	tot := 0
	for _, w := range p.Writes {
		tot += w
		if w == 0 || w >= maxData {
			return true
		}
	}
	return len(p.Writes) > 1 || p.R < tot
}

func (p p1spec) class() string {
	// coarse class used for signatures: how writes relate to the frame payload size and
	// how the read buffer relates to a frame
	wc := "sub-frame"
	for _, w := range p.Writes {
		switch {
		case w == 0:
			wc = "with-zero-write"
		case w > maxData && wc != "with-zero-write":
			wc = "multi-frame"
		case w == maxData && wc == "sub-frame":
			wc = "exact-frame"
		}
	}
	rc := "r>=frame"
	if p.R < maxData || (p.R2 > 0 && p.R2 < maxData) {
		rc = "r<frame"
	}
	return wc + ":" + rc
}

func readSizes(p p1spec) func(k int) int {
	return func(k int) int {
		if p.R2 > 0 && k%2 == 1 {
			return p.R2
		}
		return p.R
	}
}

// drain reads from rd until want bytes arrived (want>=0) or until the first error.
func drain(rd *inst, sz func(int) int, want int, k *int) (got []byte, err error, zeroReads int) {
	buf := make([]byte, 8*maxData+8)
	for calls := 0; ; calls++ {
		if want >= 0 && len(got) >= want {
			return
		}
		if calls > 40000 {
			return got, fmt.Errorf("reader did not terminate after %d Read calls", calls), zeroReads
		}
		n, e := rd.ec.Read(buf[:sz(*k)])
		*k++
		got = append(got, buf[:n]...)
		if e != nil {
			return got, e, zeroReads
		}
		if n == 0 {
			zeroReads++
		}
	}
}

type outcome struct {
	Key   string
	Viols []viol
	Info  []string // things worth reporting that are not violations of the stated property
}

type viol struct {
	Sig, What string
}

func runPart1(p p1spec) (out outcome) {
	w := newWorld()
	defer w.finish()
	id := ids("ed25519")
	s := establish(w, id.a, id.b, "")
	if !s.established() {
		out.Viols = append(out.Viols, viol{"C17:handshake:honest-peers-fail", "honest handshake failed: " + s.whyNot()})
		out.Key = "no-session"
		return
	}
	fail := func(kind, format string, a ...any) {
		out.Viols = append(out.Viols, viol{"C17:fidelity:" + kind + ":" + p.class(), fmt.Sprintf(format, a...)})
	}
	type dir struct {
		name     string
		wr, rd   *inst
		writes   []int
		salt     byte
		sent     []byte
		got      []byte
		k        int
		zeroRead int
	}
	rev := make([]int, len(p.Writes))
	for i, x := range p.Writes {
		rev[len(p.Writes)-1-i] = x
	}
	dirs := []*dir{{name: "A->B", wr: s.a, rd: s.b, writes: p.Writes, salt: 0x00}, {name: "B->A", wr: s.b, rd: s.a, writes: rev, salt: 0x5a}}
	sz := readSizes(p)
	for step := 0; step < len(p.Writes); step++ {
		for _, d := range dirs {
			data := pattern(len(d.sent), d.writes[step], d.salt)
			ct, n, err := appWrite(d.wr, data)
			if err != nil || n != len(data) {
				fail("write-result", "%s Write(%d bytes) returned (%d, %v)", d.name, len(data), n, err)
			}
			d.sent = append(d.sent, data...)
			d.rd.giveSeg(ct, p.Seg)
			if p.Mode == "lagging" && len(d.sent) > len(d.got) {
				buf := make([]byte, sz(d.k))
				n, err := d.rd.ec.Read(buf)
				d.k++
				d.got = g2(d.got, buf[:n])
				if err != nil {
					fail("read-error", "%s reader got error %v after %d of %d bytes (writes so far %v)", d.name, err, len(d.got), len(d.sent), d.writes[:step+1])
					out.Key = "read-error"
					return
				}
			}
			if p.Mode == "per-write" {
				g, err, z := drain(d.rd, sz, len(d.sent)-len(d.got), &d.k)
				d.zeroRead += z
				d.got = g2(d.got, g)
				if err != nil {
					fail("read-error", "%s reader got error %v after %d of %d bytes (writes so far %v)", d.name, err, len(d.got), len(d.sent), d.writes[:step+1])
					out.Key = "read-error"
					return
				}
			}
		}
	}
	for _, d := range dirs {
		d.rd.closeIn()
	}
	for _, d := range dirs {
		g, err, z := drain(d.rd, sz, -1, &d.k)
		d.zeroRead += z
		d.got = g2(d.got, g)
		if !bytes.Equal(d.got, d.sent) {
			at := firstDiff(d.got, d.sent)
			fail("bytes-differ", "%s wrote %d bytes, reader got %d bytes, first difference at offset %d (final error %v)", d.name, len(d.sent), len(d.got), at, err)
		} else if err != io.EOF {
			fail("no-clean-eof", "%s all %d bytes arrived but the stream ended with %v instead of EOF", d.name, len(d.sent), err)
		}
	}
	out.Key = fmt.Sprintf("ok a<b=%v zero-reads=%v", s.aLtB, dirs[0].zeroRead+dirs[1].zeroRead > 0)
	return
}

func g2(a, b []byte) []byte { return append(a, b...) }

func firstDiff(a, b []byte) int {
	n := len(a)
	if len(b) < n {
		n = len(b)
	}
	for i := 0; i < n; i++ {
		if a[i] != b[i] {
			return i
		}
	}
	return n
}

// part1Specs enumerates the scenarios of a tier.
func part1Specs(quick bool) []p1spec {
	M := maxData
	wset := []int{0, 1, 2, M - 1, M, M + 1, 2*M - 1, 2 * M, 2*M + 1, 3 * M, 4*M - 1, 4 * M, 4*M + 1}
	rset := []int{1, 2, 7, M - 1, M, M + 1, 4 * M}
	sset := []int{0, 1, M - 1, M, M + 1, 2*M + 1}
	segs := []int{0, frameSize - 1}
	modes := []string{"after-all", "per-write", "lagging"}
	if !quick {
		segs = []int{0, 1, 7, frameSize - 1, frameSize, frameSize + 1}
	}
	var seqs [][]int
	for _, w := range wset {
		seqs = append(seqs, []int{w})
	}
	for _, a := range sset {
		for _, b := range sset {
			seqs = append(seqs, []int{a, b})
			for _, c := range sset {
				seqs = append(seqs, []int{a, b, c})
			}
		}
	}
	var out []p1spec
	for _, ws := range seqs {
		for _, r := range rset {
			for _, sg := range segs {
				for _, m := range modes {
					if len(ws) == 1 && m != "after-all" {
						continue // identical to after-all
					}
					out = append(out, p1spec{Writes: ws, R: r, Seg: sg, Mode: m})
				}
			}
		}
	}
	if !quick {
		// alternating read buffer sizes
		for _, ws := range seqs {
			for _, r := range []int{1, 7, M - 1, M + 1} {
				for _, r2 := range []int{2, M, 4 * M} {
					out = append(out, p1spec{Writes: ws, R: r, R2: r2, Seg: frameSize - 1, Mode: "after-all"})
				}
			}
		}
	}
	return out
}
