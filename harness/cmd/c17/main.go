// C17 - encrypted transport: integrity, authentication, no man in the middle.
//
// The real p2p.NewHandshake / EncryptedConn endpoints run over an in-memory network owned by
// the harness (pipe.go): every byte an endpoint sends is taken by the scenario script and
// every byte it receives was given by the script, so the script is a Dolev-Yao interposer.
// No wall-clock time takes part in any oracle (deadlines set by the product are ignored, a
// message that never comes is an EOF).
//
//	part 1 (part1.go)  byte fidelity over all boundary write-size sequences x read-buffer
//	                   sizes x wire segmentations x delivery modes, both directions at once
//	part 2 (part2.go)  every single frame fault on a three-frame stream (every bit of every
//	                   frame, every truncation offset, delete/duplicate/swap/replay, frames
//	                   spliced from the other direction, from another session, from the
//	                   handshake, garbage), pairs of faults in the thorough tier
//	part 4 (part4.go)  long streams (600 frames; 66 000 in thorough): replay / run deletion /
//	                   swap / opposite-direction splice at every distance, to catch a nonce
//	                   counter that repeats with a period
//	part 3 (part3.go)  the handshake against an attacker that relays, tampers, reflects,
//	                   cross-wires, replays, substitutes keys and identities; both roles, both
//	                   key orders, ed25519 and BLS identity keys
//
// Every scenario is a deterministic script (spec); a scenario that fails is re-run five more
// times and only reported if it fails identically every time.
package main

import (
	"encoding/json"
	"fmt"
	"os"
	"sort"
	"strings"
	"sync"
	"time"

	"github.com/canopy-network/canopy/lib/crypto"

	"verifharness/mc"
)

type spec struct {
	Part int     `json:"part"`
	P1   *p1spec `json:"p1,omitempty"`
	P2   *p2spec `json:"p2,omitempty"`
	P3   *p3spec `json:"p3,omitempty"`
	P4   *p4spec `json:"p4,omitempty"`
	P5   *p5spec `json:"p5,omitempty"`
}

func runSpec(sp spec) outcome {
	switch sp.Part {
	case 1:
		return runPart1(*sp.P1)
	case 2:
		return runPart2(*sp.P2)
	case 3:
		return runPart3(*sp.P3)
	case 4:
		return runPart4(*sp.P4)
	case 5:
		return runPart5(*sp.P5)
	}
	return outcome{Key: "bad-spec"}
}

func (sp spec) nontrivial() bool {
	switch sp.Part {
	case 1:
		return sp.P1.nontrivial()
	case 2:
		return true
	case 3:
		return sp.P3.Strat != "honest"
	case 4:
		return sp.P4.Op != "none"
	case 5:
		return true
	}
	return false
}

func (sp spec) classKey() string {
	switch sp.Part {
	case 1:
		return "1/" + sp.P1.class()
	case 2:
		return "2/" + sp.P2.kind()
	case 3:
		return "3/" + sp.P3.Strat
	case 4:
		return "4/" + sp.P4.kind()
	case 5:
		return "5/concurrent-writers"
	}
	return "?"
}

type partStat struct {
	mu        sync.Mutex
	scenarios int
	nontriv   map[string]bool
	outcomes  map[string]int
	classes   map[string]bool
	perClass  map[string]map[string]int
	notes     map[string]int
}

func newPartStat() *partStat {
	return &partStat{nontriv: map[string]bool{}, outcomes: map[string]int{}, classes: map[string]bool{}, perClass: map[string]map[string]int{}, notes: map[string]int{}}
}

func main() {
	r := mc.Start("C17", "fault_enumeration", 85*time.Second, 27*time.Minute)
	r.Assumptions = []string{
		"X25519, HKDF-SHA256, ChaCha20-Poly1305 and the signature schemes are not analysed; the attacker is symbolic (Dolev-Yao): it can do anything with bytes and with keys it owns or can derive with the product's own derivation functions, it cannot break primitives",
		"a receive timeout is modelled as end of input (the product's 1 s handshake deadlines are recorded and ignored); no oracle depends on time",
		"a reader stops using a connection at its first Read error (all callers in the product do); what a reader that goes on would see is checked separately as 'never anything but a prefix of the sender's stream'",
		"ephemeral keys are drawn inside NewHandshake from crypto/rand and cannot be scripted; the order of the two ephemeral keys (which selects the key roles) is enumerated where the attacker picks its own key and observed (both orders occur) elsewhere",
		"handshake messages are single frames (true for every key type the product supports except very large BLS multi-keys, which are not exercised)",
	}
	if err := selfCheckTables(); err != nil {
		fmt.Fprintln(os.Stderr, "HARNESS-ERROR C17:", err)
		os.Exit(2)
	}
	crypto.DisableCache = false // the product default; identical (pk,msg,sig) triples are valid anyway
	if r.Replay != "" {
		doReplay(r)
		return
	}
	quick := r.Quick()
	var specs []spec
	for _, p := range part4Specs(quick) { // first: in the thorough tier it starts with the slowest scenarios
		p := p
		specs = append(specs, spec{Part: 4, P4: &p})
	}
	for _, p := range part5Specs(quick) {
		p := p
		specs = append(specs, spec{Part: 5, P5: &p})
	}
	for _, p := range part3Specs(quick) {
		p := p
		specs = append(specs, spec{Part: 3, P3: &p})
	}
	for _, p := range part1Specs(quick) {
		p := p
		specs = append(specs, spec{Part: 1, P1: &p})
	}
	for _, p := range part2Specs(quick) {
		p := p
		specs = append(specs, spec{Part: 2, P2: &p})
	}
	if only := os.Getenv("C17_PARTS"); only != "" { // development aid: run a subset of the parts
		var keep []spec
		for _, sp := range specs {
			if strings.Contains(only, fmt.Sprint(sp.Part)) {
				keep = append(keep, sp)
			}
		}
		specs = keep
		r.Exhaustive = false
	}
	stats := map[int]*partStat{1: newPartStat(), 2: newPartStat(), 3: newPartStat(), 4: newPartStat(), 5: newPartStat()}
	planned := map[int]int{}
	for _, sp := range specs {
		planned[sp.Part]++
	}
	var flaky int64
	var flakyMu sync.Mutex
	done := mc.ParallelFor(len(specs), 0, r.Expired, func(i int) {
		sp := specs[i]
		out := runSpec(sp)
		st := stats[sp.Part]
		bz, _ := json.Marshal(sp)
		if len(out.Viols) > 0 {
			// re-run 5x: the same script must fail the same way every time
			same := true
			for k := 0; k < 5 && same; k++ {
				o2 := runSpec(sp)
				if len(o2.Viols) == 0 || o2.Viols[0].Sig != out.Viols[0].Sig {
					same = false
				}
			}
			if same {
				for _, v := range out.Viols {
					r.Violation(v.Sig, v.What+"  [scenario "+string(bz)+"; failed 6 of 6 runs]", sp)
				}
			} else {
				flakyMu.Lock()
				flaky++
				flakyMu.Unlock()
				r.Note("scenario %s failed once (%s) but not on every one of 5 re-runs: not reported as a violation; harness or product nondeterminism to be looked at", bz, out.Viols[0].Sig)
				r.Exhaustive = false
			}
		}
		st.mu.Lock()
		st.scenarios++
		if sp.nontrivial() {
			st.nontriv[string(bz)] = true
		}
		ck := sp.classKey()
		st.classes[ck] = true
		st.outcomes[out.Key]++
		if st.perClass[ck] == nil {
			st.perClass[ck] = map[string]int{}
		}
		st.perClass[ck][out.Key]++
		for _, n := range out.Info {
			st.notes[n]++
		}
		st.mu.Unlock()
	})
	if done < len(specs) {
		r.Exhaustive = false
		r.Note("stopped at %d of %d scenarios (deadline)", done, len(specs))
	}
	// coverage
	evals, nontriv := 0, 0
	per := map[string]any{}
	for _, pn := range []int{1, 2, 3, 4} {
		st := stats[pn]
		evals += st.scenarios
		nontriv += len(st.nontriv)
		per[fmt.Sprintf("part%d", pn)] = map[string]any{
			"scenarios_planned": planned[pn], "scenarios_run": st.scenarios, "distinct_nontrivial": len(st.nontriv),
			"scenario_classes": len(st.classes), "distinct_outcomes": len(st.outcomes), "outcomes": st.outcomes,
		}
		fmt.Printf("part %d: %d/%d scenarios, %d classes, %d distinct outcomes\n", pn, st.scenarios, planned[pn], len(st.classes), len(st.outcomes))
		var oks []string
		for k, n := range st.outcomes {
			oks = append(oks, fmt.Sprintf("    %6d  %s", n, k))
		}
		sort.Strings(oks)
		if len(oks) > 40 {
			oks = append(oks[:40], fmt.Sprintf("    ... %d more", len(oks)-40))
		}
		for _, l := range oks {
			fmt.Println(l)
		}
	}
	// per-strategy outcome table of part 3 (one line per strategy)
	p3 := map[string]any{}
	var names []string
	for ck := range stats[3].perClass {
		names = append(names, ck)
	}
	sort.Strings(names)
	for _, ck := range names {
		p3[ck[2:]] = stats[3].perClass[ck]
	}
	p2 := map[string]any{}
	for ck, m := range stats[2].perClass {
		p2[ck[2:]] = m
	}
	p4 := map[string]any{}
	for ck, m := range stats[4].perClass {
		p4[ck[2:]] = m
	}
	info := map[string]int{}
	for _, pn := range []int{1, 2, 3, 4} {
		for n, c := range stats[pn].notes {
			info[n] += c
		}
	}
	var infoKeys []string
	for n := range info {
		infoKeys = append(infoKeys, n)
	}
	sort.Strings(infoKeys)
	for _, n := range infoKeys {
		fmt.Printf("INFO (x%d): %s\n", info[n], n)
	}
	for _, sp := range sampleSpecs(specs) {
		r.AddSample(sp)
	}
	cov := map[string]any{
		"evaluations":                       evals,
		"distinct_nontrivial":               nontriv,
		"rule":                              "one evaluation = one scenario script executed on fresh real endpoints with its oracle; distinct_nontrivial = number of distinct canonical scenario specs (part + all parameters, JSON) that apply at least one fault / attacker move (parts 2, 3) or whose writes touch the frame-size boundary, are empty, are several, or exceed the read buffer (part 1)",
		"frame_constants":                   map[string]int{"MaxDataSize": maxData, "FrameSize": plainSize, "EncryptedFrameSize": frameSize, "key_message_bytes": kLen},
		"parts":                             per,
		"part3_outcomes_per_strategy":       p3,
		"part2_outcomes_per_fault_kind":     p2,
		"part5_concurrent_writer_scenarios": stats[5].scenarios,
		"part5_outcomes":                    stats[5].outcomes,
		"part4_scenarios":                   stats[4].scenarios,
		"part4_distinct_outcomes":           len(stats[4].outcomes),
		"part4_outcomes_per_fault_kind":     p4,
		"flaky_scenarios":                   flaky,
		"information":                       info,
	}
	r.Finish(cov)
}

// sampleSpecs picks one scenario (the middle one) of a few classes; they are run once more so
// that the evidence shows the scenario together with what happened.
func sampleSpecs(specs []spec) []any {
	var out []any
	for _, want := range []string{"3/m-reflects-targets-signature-and-meta", "3/m-in-the-middle-relays-plaintext", "2/flip", "2/insert-opp", "4/replay", "1/multi-frame:r<frame"} {
		var match []spec
		for _, sp := range specs {
			if sp.classKey() == want {
				match = append(match, sp)
			}
		}
		if len(match) == 0 {
			continue
		}
		sp := match[len(match)/2]
		o := runSpec(sp)
		var vs []string
		for _, v := range o.Viols {
			vs = append(vs, v.Sig)
		}
		out = append(out, map[string]any{"scenario": sp, "outcome": o.Key, "violations": vs})
	}
	return out
}

func doReplay(r *mc.Run) {
	var sp spec
	if err := r.LoadReplay(&sp); err != nil {
		fmt.Println("cannot load replay:", err)
		r.Finish(map[string]any{"evaluations": 0, "distinct_nontrivial": 0, "rule": "replay"})
	}
	bz, _ := json.Marshal(sp)
	for i := 0; i < 5; i++ {
		out := runSpec(sp)
		fmt.Printf("replay run %d: outcome %q, %d violation(s)\n", i+1, out.Key, len(out.Viols))
		for _, v := range out.Viols {
			r.Violation(v.Sig, v.What+"  [scenario "+string(bz)+"]", sp)
		}
	}
	r.Finish(map[string]any{"evaluations": 5, "distinct_nontrivial": 1, "rule": "replay of one scenario, five times"})
}
