package main

import (
	"bytes"
	"fmt"
	"strings"
)

// ---------------------------------------------------------------------------------------
// Part 2 - frame faults on an established connection.
//
// One scenario: fresh honest session; the sender performs three writes that make exactly
// three ciphertext frames; the interposer applies a list of faults to that stream, delivers
// the result to the receiver and closes the stream; the receiver reads until the first
// error (what every caller in the product does: MultiConn.startReceiveService stops at the
// first Read error) and then keeps reading a bounded number of times.
//
// Oracle, independent of the kind of fault: let k be the number of leading frames of the
// delivered stream that are identical to the frames sent.
//   (a) if the delivered stream is not the original stream, Read must return an error, and
//       the data returned before that first error must be exactly the payload of those k
//       intact frames - no byte of a faulted or later frame;
//   (b) whatever the receiver does after the error, everything ever returned as data is a
//       prefix of what the sender wrote (nothing foreign, repeated or out of order).

type fault struct {
	Op  string `json:"op"`            // flip del dup swap replay subst insert trunc
	I   int    `json:"i,omitempty"`   // frame position in the current list (flip/del/dup/swap/replay/subst/insert)
	Bit int    `json:"bit,omitempty"` // flip: bit index inside the frame
	J   int    `json:"j,omitempty"`   // replay: insert a copy of original frame I after position J
	Src string `json:"src,omitempty"` // subst/insert: opp, other, otheropp, hs, zero, ones
	K   int    `json:"k,omitempty"`   // subst/insert: index inside the source
	Off int    `json:"off,omitempty"` // trunc: keep this many bytes of the stream
}

func (f fault) String() string {
	switch f.Op {
	case "flip":
		return fmt.Sprintf("flip(frame %d, bit %d)", f.I, f.Bit)
	case "del", "dup", "swap":
		return fmt.Sprintf("%s(frame %d)", f.Op, f.I)
	case "replay":
		return fmt.Sprintf("replay(frame %d after position %d)", f.I, f.J)
	case "subst", "insert":
		return fmt.Sprintf("%s(position %d, %s[%d])", f.Op, f.I, f.Src, f.K)
	case "trunc":
		return fmt.Sprintf("trunc(%d bytes)", f.Off)
	}
	return f.Op
}

func (f fault) kind() string {
	switch f.Op {
	case "subst", "insert":
		return f.Op + "-" + f.Src
	case "trunc":
		if f.Off%frameSize == 0 {
			return "trunc-at-frame-boundary"
		}
		return "trunc-mid-frame"
	}
	return f.Op
}

type p2spec struct {
	Faults []fault `json:"faults"`
	Reader int     `json:"reader"` // read buffer size
	Dir    string  `json:"dir"`    // "AB" or "BA": which direction is attacked
}

func (p p2spec) kind() string {
	var ks []string
	for _, f := range p.Faults {
		ks = append(ks, f.kind())
	}
	return strings.Join(ks, "+")
}

var p2writes = []int{700, maxData, 1} // three writes, three frames

func needsOther(p p2spec) bool {
	for _, f := range p.Faults {
		if f.Src == "other" || f.Src == "otheropp" {
			return true
		}
	}
	return false
}

func runPart2(p p2spec) (out outcome) {
	w := newWorld()
	defer w.finish()
	id := ids("ed25519")
	s := establish(w, id.a, id.b, "")
	if !s.established() {
		out.Viols = append(out.Viols, viol{"C17:handshake:honest-peers-fail", "honest handshake failed: " + s.whyNot()})
		out.Key = "no-session"
		return
	}
	snd, rcv, hs := s.a, s.b, s.hsA
	if p.Dir == "BA" {
		snd, rcv, hs = s.b, s.a, s.hsB
	}
	// the three frames under attack, and three frames of the opposite direction
	var frames, opp [][]byte
	var plain [][]byte
	off := 0
	for _, n := range p2writes {
		d := pattern(off, n, 0x33)
		off += n
		ct, wn, err := appWrite(snd, d)
		if err != nil || wn != n || len(ct) != frameSize {
			out.Viols = append(out.Viols, viol{"C17:fidelity:write-result:setup", fmt.Sprintf("Write(%d) returned (%d,%v) and produced %d ciphertext bytes", n, wn, err, len(ct))})
			out.Key = "setup-failed"
			return
		}
		frames = append(frames, ct)
		plain = append(plain, d)
		oc, _, _ := appWrite(rcv, pattern(off, n, 0x77))
		opp = append(opp, oc)
	}
	src := map[string][][]byte{"opp": opp, "hs": hs,
		"zero": {make([]byte, frameSize)}, "ones": {bytes.Repeat([]byte{0xff}, frameSize)}}
	if needsOther(p) {
		s2 := establish(w, id.a, id.b, "2")
		if !s2.established() {
			out.Viols = append(out.Viols, viol{"C17:handshake:honest-peers-fail", "second honest handshake failed: " + s2.whyNot()})
			out.Key = "no-session"
			return
		}
		snd2, rcv2 := s2.a, s2.b
		if p.Dir == "BA" {
			snd2, rcv2 = s2.b, s2.a
		}
		var o, oo [][]byte
		for _, n := range p2writes {
			c1, _, _ := appWrite(snd2, pattern(0, n, 0x11))
			c2, _, _ := appWrite(rcv2, pattern(0, n, 0x22))
			o, oo = append(o, c1), append(oo, c2)
		}
		src["other"], src["otheropp"] = o, oo
	}
	// apply the faults
	cur := make([][]byte, len(frames))
	for i := range frames {
		cur[i] = append([]byte{}, frames[i]...)
	}
	truncAt := -1
	for _, f := range p.Faults {
		switch f.Op {
		case "flip":
			if f.I < len(cur) {
				c := append([]byte{}, cur[f.I]...)
				c[f.Bit/8] ^= 1 << uint(f.Bit%8)
				cur[f.I] = c
			}
		case "del":
			if f.I < len(cur) {
				cur = append(append([][]byte{}, cur[:f.I]...), cur[f.I+1:]...)
			}
		case "dup":
			if f.I < len(cur) {
				cur = append(append(append([][]byte{}, cur[:f.I+1]...), cur[f.I]), cur[f.I+1:]...)
			}
		case "swap":
			if f.I+1 < len(cur) {
				c := append([][]byte{}, cur...)
				c[f.I], c[f.I+1] = c[f.I+1], c[f.I]
				cur = c
			}
		case "replay":
			if f.J < len(cur) {
				cur = append(append(append([][]byte{}, cur[:f.J+1]...), frames[f.I]), cur[f.J+1:]...)
			}
		case "subst":
			if f.I < len(cur) {
				c := append([][]byte{}, cur...)
				c[f.I] = src[f.Src][f.K]
				cur = c
			}
		case "insert":
			if f.I <= len(cur) {
				cur = append(append(append([][]byte{}, cur[:f.I]...), src[f.Src][f.K]), cur[f.I:]...)
			}
		case "trunc":
			truncAt = f.Off
		}
	}
	stream := bytes.Join(cur, nil)
	if truncAt >= 0 && truncAt < len(stream) {
		stream = stream[:truncAt]
	}
	orig := bytes.Join(frames, nil)
	// k = leading intact frames
	k := 0
	for k < len(frames) && len(stream) >= (k+1)*frameSize && bytes.Equal(stream[k*frameSize:(k+1)*frameSize], frames[k]) {
		k++
	}
	faulted := !bytes.Equal(stream, orig)
	var wantPre, all []byte
	for i, d := range plain {
		if i < k {
			wantPre = append(wantPre, d...)
		}
		all = append(all, d...)
	}
	// deliver and read
	rcv.give(stream)
	rcv.closeIn()
	buf := make([]byte, p.Reader)
	var pre, post []byte
	var firstErr error
	errs := 0
	for calls := 0; calls < 4096 && errs < 8; calls++ {
		n, e := rcv.ec.Read(buf)
		if firstErr == nil {
			pre = append(pre, buf[:n]...)
		} else {
			post = append(post, buf[:n]...)
		}
		if e != nil {
			errs++
			if firstErr == nil {
				firstErr = e
			}
		}
	}
	desc := func() string {
		var fs []string
		for _, f := range p.Faults {
			fs = append(fs, f.String())
		}
		return fmt.Sprintf("direction %s, reader buffer %d, faults [%s]: %d leading frames intact", p.Dir, p.Reader, strings.Join(fs, ", "), k)
	}
	if !faulted {
		if !bytes.Equal(pre, all) {
			out.Viols = append(out.Viols, viol{"C17:fidelity:bytes-differ:unfaulted-stream", desc() + fmt.Sprintf("; stream not changed by the faults but reader got %d of %d bytes", len(pre), len(all))})
		}
		out.Key = "not-faulted"
		return
	}
	total := append(append([]byte{}, pre...), post...)
	switch {
	case firstErr == nil:
		out.Viols = append(out.Viols, viol{"C17:frame-fault-no-error:" + p.kind(), desc() + fmt.Sprintf("; Read never returned an error; %d bytes delivered", len(pre))})
	case len(pre) > len(wantPre) || !bytes.Equal(pre, wantPre[:len(pre)]):
		out.Viols = append(out.Viols, viol{"C17:frame-fault-data-delivered:" + p.kind(), desc() + fmt.Sprintf("; before the first error (%v) Read delivered %d bytes, the intact frames carry %d; first difference at offset %d", firstErr, len(pre), len(wantPre), firstDiff(pre, wantPre))})
	case len(pre) < len(wantPre):
		out.Viols = append(out.Viols, viol{"C17:fidelity:intact-prefix-lost:" + p.kind(), desc() + fmt.Sprintf("; only %d of the %d bytes of the intact leading frames were delivered before %v", len(pre), len(wantPre), firstErr)})
	case len(total) > len(all) || !bytes.Equal(total, all[:len(total)]):
		out.Viols = append(out.Viols, viol{"C17:frame-fault-data-after-error:" + p.kind(), desc() + fmt.Sprintf("; a receiver that keeps reading after %v is handed %d further bytes that are not the continuation of the sender's stream (first difference at stream offset %d)", firstErr, len(post), firstDiff(total, all))})
	}
	resync := "stuck"
	if len(post) > 0 {
		resync = "resumes"
	}
	out.Key = fmt.Sprintf("k=%d err=%s after-error=%s", k, errClass(firstErr), resync)
	return
}

// singleFaults is the catalogue of single faults that are not bit flips or truncations.
func singleFaults() []fault {
	var fs []fault
	for i := 0; i < 3; i++ {
		fs = append(fs, fault{Op: "del", I: i}, fault{Op: "dup", I: i})
	}
	fs = append(fs, fault{Op: "swap", I: 0}, fault{Op: "swap", I: 1})
	fs = append(fs, fault{Op: "replay", I: 0, J: 1}, fault{Op: "replay", I: 0, J: 2}, fault{Op: "replay", I: 1, J: 2})
	srcN := []struct {
		s string
		n int
	}{{"opp", 3}, {"other", 3}, {"otheropp", 3}, {"hs", 2}, {"zero", 1}, {"ones", 1}}
	for _, sn := range srcN {
		for k := 0; k < sn.n; k++ {
			for i := 0; i < 3; i++ {
				fs = append(fs, fault{Op: "subst", I: i, Src: sn.s, K: k})
			}
			for i := 0; i <= 3; i++ {
				fs = append(fs, fault{Op: "insert", I: i, Src: sn.s, K: k})
			}
		}
	}
	return fs
}

// boundaryBits: a few bit positions per frame used where flipping every bit would be too much
// (first/last bit of the encrypted length header, of the payload, of the padding, of the tag).
func boundaryBits() []int {
	return []int{0, 7, 31, 32, 8*(4+700) - 1, 8 * (4 + 700), 8*plainSize - 1, 8 * plainSize, 8*frameSize - 1}
}

func part2Specs(quick bool) []p2spec {
	var out []p2spec
	readers := []int{1500}
	dirs := []string{"AB"}
	if !quick {
		readers = []int{1500, 7, maxData}
		dirs = []string{"AB", "BA"}
	}
	for _, d := range dirs {
		for _, r := range readers {
			for i := 0; i < 3; i++ {
				for b := 0; b < 8*frameSize; b++ {
					out = append(out, p2spec{Faults: []fault{{Op: "flip", I: i, Bit: b}}, Reader: r, Dir: d})
				}
			}
			for o := 0; o < 3*frameSize; o++ {
				out = append(out, p2spec{Faults: []fault{{Op: "trunc", Off: o}}, Reader: r, Dir: d})
			}
		}
	}
	// the remaining single faults, both directions, all reader sizes even in quick (cheap)
	for _, d := range []string{"AB", "BA"} {
		for _, r := range []int{1500, 7, maxData} {
			for _, f := range singleFaults() {
				out = append(out, p2spec{Faults: []fault{f}, Reader: r, Dir: d})
			}
		}
	}
	if !quick {
		// pairs of faults: catalogue x catalogue, catalogue x boundary flips, and each followed
		// by a truncation at a few offsets
		cat := singleFaults()
		for i := 0; i < 3; i++ {
			for _, b := range boundaryBits() {
				cat = append(cat, fault{Op: "flip", I: i, Bit: b})
			}
		}
		tr := []int{frameSize - 1, frameSize, frameSize + 1, 2 * frameSize, 3*frameSize - 1, 3 * frameSize, 4*frameSize - 1}
		for _, f1 := range cat {
			for _, f2 := range cat {
				out = append(out, p2spec{Faults: []fault{f1, f2}, Reader: 1500, Dir: "AB"})
			}
			for _, o := range tr {
				out = append(out, p2spec{Faults: []fault{f1, {Op: "trunc", Off: o}}, Reader: 1500, Dir: "AB"})
			}
		}
	}
	return out
}
