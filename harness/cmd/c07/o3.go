package main

// O3: rejection at controller level. Two real controller.Controller nodes (env.Node: controller.New
// + mock root-chain manager) are brought to the state of the recipe path by feeding them the
// chain's certified blocks through HandlePeerBlock. Node A produces the honest proposal
// (mempool -> ProduceProposal); node B must refuse every corrupted variant at every stage of
// ValidateProposal and HandlePeerBlock/CommitCertificate and stay exactly as it was.

import (
	"bytes"
	"encoding/hex"
	"fmt"
	"strings"

	"github.com/canopy-network/canopy/fsm"
	"github.com/canopy-network/canopy/lib"
	"github.com/canopy-network/canopy/lib/crypto"

	"verifharness/c07lib"
	"verifharness/env"
	"verifharness/mc"
)

type nodeSnap struct {
	live, committed, index string
	version                uint64
}

func snapNode(n *env.Node) (s nodeSnap, err lib.ErrorI) {
	n.Enter()
	kvs, err := env.RawState(n.FSM())
	if err != nil {
		return
	}
	s.live = dumpKVs(kvs)
	ro, err := n.FSM().TimeMachine(0)
	if err != nil {
		return
	}
	kvs, err = env.RawState(ro)
	if ro != n.FSM() {
		ro.Discard()
	}
	if err != nil {
		return
	}
	s.committed = dumpKVs(kvs)
	if s.index, err = c07lib.IndexObs(n.Store()); err != nil {
		return
	}
	s.version = n.Store().Version()
	return
}

func cloneProposal(p *env.Proposal) *env.Proposal {
	blk := cloneBlock(p.Block)
	rbz, _ := lib.Marshal(p.Results)
	res := new(lib.CertificateResult)
	_ = lib.Unmarshal(rbz, res)
	return &env.Proposal{RCBuildHeight: p.RCBuildHeight, Block: blk, Results: res, Evidence: p.Evidence}
}

// seal re-marshals the block of a (mutated) proposal; rehash recomputes the header hash first.
func seal(p *env.Proposal, rehash bool) {
	if rehash {
		p.Block.BlockHeader.Hash = nil
		_, _ = p.Block.BlockHeader.SetHash()
	}
	p.BlockBytes, _ = lib.Marshal(p.Block)
}

type o3Case struct {
	name   string
	stage  string
	via    string                // "validate" | "peer"
	mutate func(p *env.Proposal) // on a clone of the honest proposal
	rehash bool
	qcMut  func(qc *lib.QuorumCertificate) // after certification / proposal-certificate construction
	signer []int                           // peer path: who signs (nil = everyone)
	phase  lib.Phase
}

func o3Job(j Job) (res Result) {
	cfg := configs[j.Cfg]
	c, err := buildState(cfg, j.Path)
	if err != nil {
		return Result{Err: err.Error()}
	}
	w, err := newWorld(c)
	if err != nil {
		c.Close()
		return Result{Err: err.Error()}
	}
	H := c.Height()
	var msgs []*lib.BlockMessage
	for h := uint64(1); h < H; h++ {
		cm := c.Committed[h]
		if cm == nil {
			c.Close()
			return Result{Err: fmt.Sprintf("no committed block %d", h)}
		}
		msgs = append(msgs, &lib.BlockMessage{ChainId: env.ChainID, BlockAndCertificate: cm.QC, Time: c07lib.BlockTime(h)})
	}
	honestTxs, _ := w.instantiate([]int{0, 3})
	failTx := templates[4].build(w, 0, 0)   // send-overdraw: fails after the fee
	failCert := templates[6].build(w, 0, 2) // certificate results failing at the 2nd double signer
	var directRoot []byte                   // what the direct path computes for the same block content
	if dp := c07lib.ProposeOnCopy(c, honestTxs, 0, false); dp.Err == nil {
		directRoot = dp.Header.StateRoot
	}
	c.Close()
	env.PurgeProcessCaches()

	res.RejStages = map[string]int{}
	viol := func(sig, what, cs string) {
		res.Viols = append(res.Viols, mc.Viol{Sig: sig, What: what, Replay: replayArt{Kind: "o3", Cfg: cfg.name, Recipes: recipeList(j.Path), Path: j.Path, Case: cs}})
	}
	g := c07lib.Genesis(cfg.sizeExtra)
	mkNode := func(name string, key int) (*env.Node, error) {
		n, e := env.NewNode(g, env.NodeOpts{Name: name, Key: key})
		if e != nil {
			return nil, e
		}
		for _, m := range msgs {
			wm, e2 := env.WireCopy(m)
			if e2 != nil {
				return nil, e2
			}
			if e2 = n.HandlePeerBlock(wm, false); e2 != nil {
				return nil, fmt.Errorf("node %s refuses the chain's block %d: %v", name, m.BlockAndCertificate.Header.Height, e2)
			}
		}
		if n.Height() != H {
			return nil, fmt.Errorf("node %s at height %d, want %d", name, n.Height(), H)
		}
		return n, nil
	}
	A, e := mkNode("A", 0)
	if e != nil {
		return Result{Err: e.Error()}
	}
	defer A.Close()
	B, e := mkNode("B", 1)
	if e != nil {
		return Result{Err: e.Error()}
	}
	defer B.Close()
	for i, se := range A.SubmitTxs(honestTxs...) {
		if se != nil {
			return Result{Err: fmt.Sprintf("mempool refuses honest tx %d: %v", i, se)}
		}
	}
	p, pe := A.Propose()
	if pe != nil {
		return Result{Err: "ProduceProposal: " + pe.Error()}
	}
	if len(p.Block.Transactions) != len(honestTxs) {
		return Result{Err: fmt.Sprintf("proposal has %d txs, want %d", len(p.Block.Transactions), len(honestTxs))}
	}
	pre, se := snapNode(B)
	if se != nil {
		return Result{Err: se.Error()}
	}

	insertTx := func(tx []byte, pos int) func(p *env.Proposal) {
		return func(p *env.Proposal) {
			t := p.Block.Transactions
			p.Block.Transactions = append(append(append([][]byte{}, t[:pos]...), tx), t[pos:]...)
		}
	}
	var cases []o3Case
	for _, via := range []string{"validate", "peer"} {
		cases = append(cases,
			o3Case{name: "qc-blockhash-altered", stage: "stateless:certificate-vs-block", via: via, qcMut: func(qc *lib.QuorumCertificate) { qc.BlockHash = flip(qc.BlockHash) }},
			o3Case{name: "block-height+1", stage: "stateless:height", via: via, mutate: func(p *env.Proposal) { p.Block.BlockHeader.Height++ }, rehash: true},
			o3Case{name: "block-network-id", stage: "stateless:block-check", via: via, mutate: func(p *env.Proposal) { p.Block.BlockHeader.NetworkId++ }, rehash: true},
			o3Case{name: "failing-tx@0", stage: "apply:failed-transactions", via: via, mutate: insertTx(failTx, 0)},
			o3Case{name: "failing-tx@end", stage: "apply:failed-transactions", via: via, mutate: insertTx(failTx, 2)},
			o3Case{name: "failing-cert-tx@end", stage: "apply:failed-transactions", via: via, mutate: insertTx(failCert, 2)},
			o3Case{name: "duplicate-tx", stage: "apply:duplicate", via: via, mutate: func(p *env.Proposal) { p.Block.Transactions = append(p.Block.Transactions, p.Block.Transactions[0]) }},
			o3Case{name: "header-state-root", stage: "apply:header-compare", via: via, mutate: func(p *env.Proposal) { p.Block.BlockHeader.StateRoot = flip(p.Block.BlockHeader.StateRoot) }, rehash: true},
			o3Case{name: "header-total-txs", stage: "apply:header-compare", via: via, mutate: func(p *env.Proposal) { p.Block.BlockHeader.TotalTxs++ }, rehash: true},
			o3Case{name: "header-proposer", stage: "apply:header-compare", via: via, mutate: func(p *env.Proposal) { p.Block.BlockHeader.ProposerAddress = env.Addr(env.BLS(2)).Bytes() }, rehash: true},
			o3Case{name: "tx-removed-header-kept", stage: "apply:header-compare", via: via, mutate: func(p *env.Proposal) { p.Block.Transactions = p.Block.Transactions[:1] }},
		)
		if H > 1 {
			cases = append(cases, o3Case{name: "lastqc-payload-altered", stage: "apply:check-last-certificate", via: via, mutate: func(p *env.Proposal) {
				p.Block.BlockHeader.LastQuorumCertificate.ResultsHash = flip(p.Block.BlockHeader.LastQuorumCertificate.ResultsHash)
			}, rehash: true},
				o3Case{name: "lastqc-signature-altered", stage: "apply:check-last-certificate", via: via, mutate: func(p *env.Proposal) {
					p.Block.BlockHeader.LastQuorumCertificate.Signature.Signature = flip(p.Block.BlockHeader.LastQuorumCertificate.Signature.Signature)
				}, rehash: true})
		}
	}
	cases = append(cases,
		o3Case{name: "results-reward-percent-altered", stage: "validate:results-mismatch", via: "validate", mutate: func(p *env.Proposal) {
			pp := p.Results.RewardRecipients.PaymentPercents
			pp[0].Percent--
		}},
		o3Case{name: "results-extra-recipient", stage: "validate:results-mismatch", via: "validate", mutate: func(p *env.Proposal) {
			pp := p.Results.RewardRecipients.PaymentPercents
			pp[0].Percent--
			p.Results.RewardRecipients.PaymentPercents = append(pp, &lib.PaymentPercents{Address: env.Addr(env.BLS(9)).Bytes(), Percent: 1, ChainId: env.ChainID})
		}},
		o3Case{name: "results-unjustified-double-signer", stage: "validate:byzantine-evidence", via: "validate", mutate: func(p *env.Proposal) {
			p.Results.SlashRecipients = &lib.SlashRecipients{DoubleSigners: []*lib.DoubleSigner{{Id: env.BLS(3).PublicKey().Bytes(), Heights: []uint64{H}}}}
		}},
		o3Case{name: "qc-signature-altered", stage: "peer:certificate-signature", via: "peer", qcMut: func(qc *lib.QuorumCertificate) { qc.Signature.Signature = flip(qc.Signature.Signature) }},
		o3Case{name: "qc-without-quorum", stage: "peer:certificate-quorum", via: "peer", signer: []int{1}},
		o3Case{name: "qc-wrong-phase", stage: "peer:phase", via: "peer", phase: lib.Phase_PROPOSE_VOTE},
		o3Case{name: "qc-results-hash-altered", stage: "peer:certificate-basic", via: "peer", qcMut: func(qc *lib.QuorumCertificate) { qc.ResultsHash = flip(qc.ResultsHash) }},
	)

	check := func(cs o3Case, rejErr lib.ErrorI) bool {
		res.Rejections++
		res.RejStages[cs.via+":"+cs.stage]++
		post, se := snapNode(B)
		where := fmt.Sprintf("state=%v cfg=%s height=%d controller path=%s case=%s (rejected with: %s)", recipeList(j.Path), cfg.name, H, cs.via, cs.name, strings.ReplaceAll(rejErr.Error(), "\n", " "))
		if se != nil {
			viol("C07:node-rejection:state-unreadable:"+cs.via, where+": "+se.Error(), cs.name)
			return false
		}
		ok := true
		if post.version != pre.version {
			viol("C07:node-rejection:store-version-moved:"+cs.via+":"+cs.stage, where, cs.name)
			ok = false
		}
		if post.live != pre.live {
			viol("C07:node-rejection:working-state-changed:"+cs.via+":"+cs.stage, where+": "+stateDiff(post.live, pre.live), cs.name)
			ok = false
		}
		if post.committed != pre.committed {
			viol("C07:node-rejection:committed-state-changed:"+cs.via+":"+cs.stage, where+": "+stateDiff(post.committed, pre.committed), cs.name)
			ok = false
		}
		if post.index != pre.index {
			viol("C07:node-rejection:indexer-changed:"+cs.via+":"+cs.stage, where+fmt.Sprintf(": got %s want %s", post.index, pre.index), cs.name)
			ok = false
		}
		if qc, e := B.Store().GetQCByHeight(H); e == nil && qc != nil && qc.Header != nil && qc.Header.Height == H {
			viol("C07:node-rejection:certificate-readable:"+cs.via+":"+cs.stage, where, cs.name)
			ok = false
		}
		if blk, e := B.Store().GetBlockByHeight(H); e == nil && blk != nil && blk.BlockHeader != nil && blk.BlockHeader.Height == H {
			viol("C07:node-rejection:block-readable:"+cs.via+":"+cs.stage, where, cs.name)
			ok = false
		}
		return ok
	}

	for _, cs := range cases {
		if j.late() {
			res.Partial = true
			return
		}
		q := cloneProposal(p)
		if cs.mutate != nil {
			cs.mutate(q)
		}
		seal(q, cs.rehash)
		var rejErr lib.ErrorI
		if cs.via == "validate" {
			view := &lib.View{NetworkId: B.Cfg.NetworkID, ChainId: B.Cfg.ChainId, Height: H, RootHeight: q.RCBuildHeight, Phase: lib.Phase_ELECTION_VOTE}
			qc := env.ProposalQC(q, view, env.BLS(0).PublicKey().Bytes())
			if cs.qcMut != nil {
				cs.qcMut(qc)
			}
			_, rejErr = B.Validate(q.RCBuildHeight, qc, q.Evidence, false)
		} else {
			phase := lib.Phase_PRECOMMIT_VOTE
			if cs.phase != 0 {
				phase = cs.phase
			}
			vs, e := A.Committee(q.RCBuildHeight)
			if e != nil {
				return Result{Err: e.Error()}
			}
			view := &lib.View{NetworkId: A.Cfg.NetworkID, ChainId: A.Cfg.ChainId, Height: H, RootHeight: q.RCBuildHeight, Phase: phase}
			qc, e := env.SignQC(vs, &lib.QuorumCertificate{Header: view, Results: q.Results, ResultsHash: q.Results.Hash(), Block: q.BlockBytes,
				BlockHash: q.Block.BlockHeader.Hash, ProposerKey: env.BLS(0).PublicKey().Bytes()}, cs.signer)
			if e != nil {
				return Result{Err: e.Error()}
			}
			if cs.qcMut != nil {
				cs.qcMut(qc)
			}
			msg, e := env.WireCopy(&lib.BlockMessage{ChainId: env.ChainID, BlockAndCertificate: qc, Time: c07lib.BlockTime(H)})
			if e != nil {
				// not even encodable: nothing reaches the node
				continue
			}
			rejErr = B.HandlePeerBlock(msg, false)
		}
		if rejErr == nil {
			res.Accepted = append(res.Accepted, cs.via+":"+cs.name)
			res.Notes = append(res.Notes, fmt.Sprintf("state=%v: controller case %s:%s was ACCEPTED (no rejection to check); job stopped", recipeList(j.Path), cs.via, cs.name))
			return
		}
		if !check(cs, rejErr) || len(res.Viols) > 3 {
			return
		}
		// ... and the node must still accept the honest proposal of this height right after THIS rejection (a later
		// rejected block that runs to the end of its application could wipe what an aborted one left in memory)
		if _, e := B.ValidateProposal(p, 0, false); e != nil {
			viol("C07:node-rejection:honest-proposal-refused-after:"+cs.via+":"+cs.stage, fmt.Sprintf("state=%v cfg=%s: right after the rejection of case %s (%s) the honest proposal of the height is refused: %s",
				recipeList(j.Path), cfg.name, cs.name, cs.via, strings.ReplaceAll(e.Error(), "\n", " ")), cs.name)
			return
		}
		if post, se := snapNode(B); se == nil && (post.live != pre.live || post.version != pre.version) {
			viol("C07:node-rejection:working-state-changed-by-honest-validation", fmt.Sprintf("state=%v cfg=%s case %s: validating (and dropping) the honest proposal changed the working state: %s", recipeList(j.Path), cfg.name, cs.name, stateDiff(post.live, pre.live)), cs.name)
			return
		}
	}
	// the honest proposal: validated twice (a re-validation must not see the first one), kept, certified, committed with the cached result
	for i := 0; i < 2; i++ {
		if _, e := B.ValidateProposal(p, 0, true); e != nil {
			viol("C07:node-rejection:honest-proposal-refused-afterwards", fmt.Sprintf("state=%v cfg=%s validation #%d of the honest proposal after %d rejections: %s", recipeList(j.Path), cfg.name, i+1, res.Rejections, strings.ReplaceAll(e.Error(), "\n", " ")), "honest")
			return
		}
	}
	qc, ce := A.Certify(p, 0, nil, 0)
	if ce != nil {
		return Result{Err: ce.Error()}
	}
	for _, n := range []*env.Node{B, A} {
		msg, _ := env.WireCopy(&lib.BlockMessage{ChainId: env.ChainID, BlockAndCertificate: qc, Time: c07lib.BlockTime(H)})
		if e := n.HandlePeerBlock(msg, false); e != nil {
			viol("C07:node-rejection:honest-block-refused-afterwards", fmt.Sprintf("state=%v cfg=%s node %s: %s", recipeList(j.Path), cfg.name, n.Name, strings.ReplaceAll(e.Error(), "\n", " ")), "honest")
			return
		}
		res.Commits++
	}
	ha, _ := A.LastHeader()
	hb, _ := B.LastHeader()
	if ha == nil || hb == nil || !bytes.Equal(ha.Hash, hb.Hash) || !bytes.Equal(ha.Hash, p.Block.BlockHeader.Hash) {
		viol("C07:node-rejection:nodes-differ-after-rejections", fmt.Sprintf("state=%v cfg=%s: header hashes differ", recipeList(j.Path), cfg.name), "honest")
		return
	}
	sa, _ := snapNode(A)
	sb, _ := snapNode(B)
	if sa.live != sb.live || sa.committed != sb.committed || sb.live != sb.committed {
		viol("C07:node-rejection:nodes-differ-after-rejections", fmt.Sprintf("state=%v cfg=%s: %s", recipeList(j.Path), cfg.name, stateDiff(sb.live, sa.live)), "honest")
	}
	if !bytes.Equal(hb.StateRoot, directRoot) {
		res.Notes = append(res.Notes, "controller-built block and direct-path block with the same transactions have different state roots (different certificate results / time); not compared")
	}
	// O4: a proposal refused at a STATELESS stage (before the block is played) must not leave the node in the
	// governance mode of proposal validation: a follower then receives a CERTIFIED block that carries a
	// parameter change which is not on its own approve list; in the default mode of committed blocks
	// (accept all) it must commit it, exactly like a node that never saw the refused proposal.
	v, why := o4(g, msgs, H, cfg.name, recipeList(j.Path))
	if why != "" {
		res.Notes = append(res.Notes, "O4 not evaluated: "+why)
	}
	if v != nil {
		v.Replay = replayArt{Kind: "o3", Cfg: cfg.name, Recipes: recipeList(j.Path), Path: j.Path, Case: "o4"}
		res.Viols = append(res.Viols, *v)
	} else {
		res.Commits++
	}
	res.Sample = map[string]any{"part": "controller-level rejection", "cfg": cfg.name, "state": recipeList(j.Path), "height": H, "rejections": res.Rejections, "stages": res.RejStages,
		"committed_hash": hex.EncodeToString(hb.Hash)}
	_ = crypto.Hash
	return
}

func o4(g *fsm.GenesisState, msgs []*lib.BlockMessage, H uint64, cfgName string, state []string) (*mc.Viol, string) {
	mk := func(name string, key int, approve bool) (*env.Node, error) {
		n, e := env.NewNode(g, env.NodeOpts{Name: name, Key: key, ApproveList: approve})
		if e != nil {
			return nil, e
		}
		for _, m := range msgs {
			wm, e2 := env.WireCopy(m)
			if e2 != nil {
				n.Close()
				return nil, e2
			}
			if e2 = n.HandlePeerBlock(wm, false); e2 != nil {
				n.Close()
				return nil, fmt.Errorf("node %s refuses the chain's block: %v", name, e2)
			}
		}
		return n, nil
	}
	A2, e := mk("A2", 0, true)
	if e != nil {
		return nil, "node A2: " + e.Error()
	}
	defer A2.Close()
	a, err := lib.NewAny(&lib.UInt64Wrapper{Value: 4380 + H})
	if err != nil {
		return nil, err.Error()
	}
	k := env.BLS(4)
	gov := c07lib.MkTx(k, &fsm.MessageChangeParameter{ParameterSpace: fsm.ParamSpaceVal, ParameterKey: fsm.ParamMaxPauseBlocks, ParameterValue: a,
		StartHeight: 1, EndHeight: 10000, Signer: env.Addr(k).Bytes()}, c07lib.Fee, H, c07lib.BlockTime(H)+77, "")
	approve := fsm.GovProposals{crypto.HashString(gov): fsm.GovProposalWithVote{Proposal: []byte(`{}`), Approve: true}}
	if e2 := approve.SaveToFile(A2.Dir); e2 != nil {
		return nil, e2.Error()
	}
	if es := A2.SubmitTxs(gov); es[0] != nil {
		return nil, "mempool refuses the parameter change: " + es[0].Error()
	}
	p2, pe := A2.Propose()
	if pe != nil {
		return nil, "propose: " + pe.Error()
	}
	if len(p2.Block.Transactions) != 1 {
		return nil, fmt.Sprintf("the leader included %d transactions", len(p2.Block.Transactions))
	}
	qc2, ce := A2.Certify(p2, 0, nil, 0)
	if ce != nil {
		return nil, ce.Error()
	}
	for _, withRejection := range []bool{false, true} {
		B2, e := mk("B2", 1, false)
		if e != nil {
			return nil, "node B2: " + e.Error()
		}
		if withRejection {
			// a leader's PROPOSE whose certificate carries no block: refused by CheckProposalBasic
			bad := cloneProposal(p2)
			bad.BlockBytes = nil
			if _, e3 := B2.ValidateProposal(bad, 0, false); e3 == nil {
				B2.Close()
				return nil, "the block-less proposal was not refused"
			}
		}
		msg, _ := env.WireCopy(&lib.BlockMessage{ChainId: env.ChainID, BlockAndCertificate: qc2, Time: c07lib.BlockTime(H)})
		e4 := B2.HandlePeerBlock(msg, false)
		B2.Close()
		if e4 != nil {
			if !withRejection {
				return nil, "a follower that saw no refused proposal cannot commit the block either: " + e4.Error()
			}
			return &mc.Viol{Sig: "C07:node-rejection:certified-block-refused-after-rejected-proposal",
				What: fmt.Sprintf("state=%v cfg=%s: a node that refused a block-less proposal at the stateless stage then refuses the certified block %d carrying a parameter change (%s); a node that never saw the refused proposal commits it", state, cfgName, H, strings.ReplaceAll(e4.Error(), "\n", " "))}, ""
		}
	}
	return nil, ""
}
