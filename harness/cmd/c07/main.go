// C07 — transaction and block atomicity.
//
// O1 (proposer path): on every state reachable by a small recipe BFS, EVERY block of <= 3
// transactions drawn from {5 succeeding, 7 failing} templates is run through the proposer
// path (ApplyBlock(allowOversize=true) on a Copy of the FSM, what Mempool.CheckMempool does).
// The full raw state, header (state root, tx root, counters), tx results, events and the
// indexer content written by transactions must equal those of the SAME block with the
// failing (and size-excluded) transactions deleted, run through the proposer path and
// through the replica path (ApplyBlock(false)). Verdicts (which tx fails / is excluded for
// size) are predicted independently from the template definition.
//
// O2 (rejection, direct path): blocks that the replica path refuses at every stage
// reachable without a controller (last-certificate payload / signature / quorum, failing or
// undecodable or duplicate or oversize transaction inside a replica block, every header
// field altered, abort between IndexQC / IndexBlock and Commit) must leave the working
// state of the live FSM, the committed state (read-only view), the store version and the
// block / certificate index unchanged, and the honest block must still validate to the
// header computed before the rejection and commit to its root.
package main

import (
	"bytes"
	"encoding/hex"
	"flag"
	"fmt"
	"math"
	"os"
	"sort"
	"strings"
	"time"

	"github.com/canopy-network/canopy/fsm"
	"github.com/canopy-network/canopy/lib"
	"github.com/canopy-network/canopy/lib/crypto"
	"github.com/canopy-network/canopy/store"

	"verifharness/c07lib"
	"verifharness/env"
	"verifharness/mc"
)

// ---------------------------------------------------------------------------------------
// configurations

type config struct {
	name      string
	sizeExtra uint64 // 0 = default 1 MB block
}

var configs = map[string]config{
	"std":   {"std", 0},
	"small": {"small", 900}, // room for e.g. one certificate tx + one send, or three sends
}

// ---------------------------------------------------------------------------------------
// recipes (honest blocks that move the chain to other states)

var recipeNames = []string{"marker", "cert2+ds", "stake+editstake", "chain1-nonsigner+ds-result", "dao+pause"}

func tstamp(h uint64, slot, occ int) uint64 {
	return c07lib.BaseTime + h*10_000 + uint64(slot)*100 + uint64(occ)
}

func keyIndexForPub(pub []byte) int {
	for i := 0; i < 64; i++ {
		if bytes.Equal(env.BLS(i).PublicKey().Bytes(), pub) {
			return i
		}
	}
	return -1
}

// nonSignersFor returns 1 if the Chain2 committee minus its last member still reaches the +2/3 threshold, else 0.
func nonSignersFor(c *env.Chain) int {
	vs, err := c.FSM.LoadCommittee(c07lib.Chain2, c.Height())
	if err != nil || len(vs.ValidatorSet.ValidatorSet) < 2 {
		return 0
	}
	m := vs.ValidatorSet.ValidatorSet
	if vs.TotalPower-m[len(m)-1].VotingPower >= vs.MinimumMaj23 {
		return 1
	}
	return 0
}

func lastChain2Height(c *env.Chain) uint64 {
	d, err := c.FSM.GetCommitteeData(c07lib.Chain2)
	if err != nil || d == nil {
		return 0
	}
	return d.LastChainHeightUpdated
}

func applyRecipe(c *env.Chain, r int) error {
	h := c.Height()
	txs := [][]byte{c07lib.Send(6, 7, 7, h, tstamp(h, 90, 0))}
	spec := env.BlockSpec{Proposer: 0}
	switch r {
	case 0:
	case 1:
		tx, err := c07lib.CertResultsTx(c, c07lib.CertSpec{ChainHeight: lastChain2Height(c) + 1, RootHeight: h, Proposer: 0, NonSigners: nonSignersFor(c), RewardTo: 5,
			DoubleSigners: []*lib.DoubleSigner{{Id: env.BLS(2).PublicKey().Bytes(), Heights: []uint64{h*100 + 50}}},
			Checkpoint:    &lib.Checkpoint{Height: h*1000 + 1, BlockHash: crypto.Hash([]byte("cp"))}}, h, tstamp(h, 91, 0))
		if err != nil {
			return err
		}
		txs = append(txs, tx)
	case 2:
		v, err := c.FSM.GetValidator(env.Addr(env.BLS(1)))
		if err != nil {
			return err
		}
		txs = append(txs, c07lib.Stake(30+int(h), 400_000, []uint64{env.ChainID, c07lib.Chain2}, h, tstamp(h, 92, 0)),
			c07lib.EditStake(1, v.StakedAmount+5, v.Committees, h, tstamp(h, 93, 0)))
	case 3:
		vs, err := c.Committee()
		if err != nil {
			return err
		}
		n := len(vs.ValidatorSet.ValidatorSet)
		if n < 4 {
			return fmt.Errorf("committee too small for a non-signer")
		}
		for i, v := range vs.ValidatorSet.ValidatorSet {
			if i < n-1 {
				spec.Signers = append(spec.Signers, keyIndexForPub(v.PublicKey))
			}
		}
		spec.Results = func(c *env.Chain, blk *lib.Block, br *lib.BlockResult) *lib.CertificateResult {
			res := env.DefaultResults(c, blk, br)
			res.SlashRecipients.DoubleSigners = []*lib.DoubleSigner{{Id: env.BLS(3).PublicKey().Bytes(), Heights: []uint64{blk.BlockHeader.Height}}}
			return res
		}
	case 4:
		v, err := c.FSM.GetValidator(env.Addr(env.BLS(3)))
		if err != nil {
			return err
		}
		if v.MaxPausedHeight != 0 || v.UnstakingHeight != 0 {
			return fmt.Errorf("validator 3 not pausable")
		}
		txs = append(txs, c07lib.DAOTransfer(5, 1234, false, h, tstamp(h, 94, 0)),
			c07lib.MkTx(env.BLS(3), &fsm.MessagePause{Address: env.Addr(env.BLS(3)).Bytes()}, c07lib.Fee, h, tstamp(h, 95, 0), ""))
	}
	spec.Txs = txs
	cm, err := c.Step(spec)
	if err != nil {
		return fmt.Errorf("recipe %s: %v", recipeNames[r], err)
	}
	if len(cm.Failed) != 0 {
		return fmt.Errorf("recipe %s: %d txs failed: %v", recipeNames[r], len(cm.Failed), cm.Failed[0].Error)
	}
	return nil
}

func buildState(cfg config, path []int) (*env.Chain, error) {
	// store.blockCache is process-wide and keyed by height only: a worker that ran another chain before
	// would serve that chain's blocks for heights this chain has not committed yet
	store.VerifC09PurgeBlockCache()
	c, err := env.NewChain(c07lib.Genesis(cfg.sizeExtra))
	if err != nil {
		return nil, err
	}
	for _, r := range path {
		if e := applyRecipe(c, r); e != nil {
			c.Close()
			return nil, e
		}
	}
	return c, nil
}

// ---------------------------------------------------------------------------------------
// transaction templates

type tmpl struct {
	name  string
	fail  string // "" succeeds | "check" fails in the first CheckTx/signature pass | "exec" fails inside ApplyTransaction
	where string // where the template is intended to fail (verified by instrumentation, see failurePoint)
	build func(w *world, occ, pos int) []byte
}

type world struct {
	c       *env.Chain
	h       uint64
	stake1  uint64
	comm1   []uint64
	lastC2  uint64
	replay  []byte
	maxSize uint64
	// number of committee-2 members (from the end of the set) that do not sign nested-chain certificates:
	// 1 when the rest still holds +2/3 of the power, else 0
	nonSigners int
}

func newWorld(c *env.Chain) (*world, error) {
	w := &world{c: c, h: c.Height(), lastC2: lastChain2Height(c)}
	v, err := c.FSM.GetValidator(env.Addr(env.BLS(1)))
	if err != nil {
		return nil, err
	}
	w.stake1, w.comm1 = v.StakedAmount, v.Committees
	if w.h > 1 {
		if cm := c.Committed[w.h-1]; cm != nil && len(cm.Block.Transactions) > 0 {
			w.replay = cm.Block.Transactions[0]
		}
	}
	ms, err := c.FSM.GetMaxBlockSize()
	if err != nil {
		return nil, err
	}
	w.maxSize = ms
	w.nonSigners = nonSignersFor(c)
	return w, nil
}

func (w *world) cert(pos int, bad bool, t uint64) []byte {
	return w.certDS(pos, bad, t, w.h*100+uint64(pos))
}

// sharedDS is the double-sign height named FIRST by the failing certificate template and by the cert2x
// template: what the failing transaction indexed before it failed must not be visible to cert2x.
func (w *world) sharedDS() uint64 { return w.h*100 + 90 }

func (w *world) certDS(pos int, bad bool, t uint64, dsHeight uint64) []byte {
	return w.certDSOf(env.BLS(2).PublicKey().Bytes(), pos, bad, t, dsHeight)
}

// lastMember is the public key of the last member of the Chain2 committee: the validator the certificates of this
// world list as non-signer whenever they list one.
func (w *world) lastMember() []byte {
	vs, err := w.c.FSM.LoadCommittee(c07lib.Chain2, w.h)
	if err != nil || vs.ValidatorSet == nil || len(vs.ValidatorSet.ValidatorSet) == 0 {
		return env.BLS(3).PublicKey().Bytes()
	}
	return vs.ValidatorSet.ValidatorSet[len(vs.ValidatorSet.ValidatorSet)-1].PublicKey
}

func (w *world) certDSOf(id []byte, pos int, bad bool, t uint64, dsHeight uint64) []byte {
	ds := []*lib.DoubleSigner{{Id: id, Heights: []uint64{dsHeight}}}
	if id == nil {
		ds = nil // a certificate that lists its non-signer and no double signer: it slashes nobody
	}
	cpH := w.h*1000 + 10 + uint64(pos)
	if bad {
		// second entry repeats the first: valid statelessly, invalid once the first has been indexed
		ds = append(ds, &lib.DoubleSigner{Id: id, Heights: []uint64{dsHeight}})
		cpH += 500
	}
	tx, err := c07lib.CertResultsTx(w.c, c07lib.CertSpec{ChainHeight: w.lastC2 + 1 + uint64(pos), RootHeight: w.h, Proposer: 0, NonSigners: w.nonSigners, RewardTo: 5,
		DoubleSigners: ds, Checkpoint: &lib.Checkpoint{Height: cpH, BlockHash: crypto.Hash([]byte{byte(pos)})}}, w.h, t)
	if err != nil {
		panic(err)
	}
	return tx
}

var templates = []tmpl{
	{name: "send", build: func(w *world, occ, pos int) []byte {
		return c07lib.Send(4, 5, 1000+uint64(occ), w.h, tstamp(w.h, 0, occ))
	}},
	{name: "cert2", build: func(w *world, occ, pos int) []byte { return w.cert(pos, false, tstamp(w.h, 1, pos)) }},
	{name: "stake", build: func(w *world, occ, pos int) []byte {
		return c07lib.Stake(10+3*int(w.h)+occ, 500_000, []uint64{c07lib.Chain2}, w.h, tstamp(w.h, 2, occ))
	}},
	{name: "editstake", build: func(w *world, occ, pos int) []byte {
		return c07lib.EditStake(1, w.stake1+1+uint64(occ), w.comm1, w.h, tstamp(w.h, 3, occ))
	}},
	{name: "F:send-overdraw", fail: "exec", where: "HandleMessageSend AccountSub, after the fee moved account->pool",
		build: func(w *world, occ, pos int) []byte { return c07lib.Send(4, 5, 1<<62, w.h, tstamp(w.h, 4, occ)) }},
	{name: "F:dao-mint-wrap", fail: "exec", where: "HandleMessageDAOTransfer PoolSub, after fee, AddToTotalSupply and PoolAdd of the mint",
		build: func(w *world, occ, pos int) []byte {
			return c07lib.DAOTransfer(5, math.MaxUint64-5, true, w.h, tstamp(w.h, 5, occ))
		}},
	{name: "F:cert2-bad-2nd-ds", fail: "exec", where: "HandleDoubleSigners second entry, after fee, checkpoint index, (window end: non-signer pause+slash+tracker), non-signer counters, first double signer indexed",
		build: func(w *world, occ, pos int) []byte { return w.certDS(pos, true, tstamp(w.h, 6, pos), w.sharedDS()) }},
	{name: "F:bad-signature", fail: "check", where: "batch signature verification, never executed",
		build: func(w *world, occ, pos int) []byte {
			raw := c07lib.Send(4, 5, 2000+uint64(occ), w.h, tstamp(w.h, 7, occ))
			tx := new(lib.Transaction)
			if err := lib.Unmarshal(raw, tx); err != nil {
				panic(err)
			}
			// swap in the (valid) signature of a different message
			other := new(lib.Transaction)
			_ = lib.Unmarshal(c07lib.Send(4, 5, 3000+uint64(occ), w.h, tstamp(w.h, 7, occ+50)), other)
			tx.Signature.Signature = other.Signature.Signature
			bz, _ := lib.Marshal(tx)
			return bz
		}},
	{name: "F:replay", fail: "exec", where: "CheckReplay inside ApplyTransaction (tx hash already indexed), before the fee; without history (height 1) or on a repeated occurrence a wrong-chain-id tx instead, which fails in the first check pass",
		build: func(w *world, occ, pos int) []byte {
			if w.replay != nil && occ == 0 {
				return w.replay
			}
			return c07lib.MkTxOn(env.BLS(4), &fsm.MessageSend{FromAddress: env.Addr(env.BLS(4)).Bytes(), ToAddress: env.Addr(env.BLS(5)).Bytes(), Amount: 4000 + uint64(occ)},
				c07lib.Fee, w.h, tstamp(w.h, 8, occ), "", 7)
		}},
	// a parameter change that passes every stateless check but is refused by the parameter sanity check
	// AFTER the in-memory parameter object was modified; the double-sign slash of a later cert2 in the
	// same block reads that parameter (101 % would delete the validator)
	{name: "F:param-slash-pct-101", fail: "exec", where: "UpdateParam: SetUint64 on the cached ValidatorParams, then ValidatorParams.Check refuses (after the fee)",
		build: func(w *world, occ, pos int) []byte {
			a, err := lib.NewAny(&lib.UInt64Wrapper{Value: 101 + uint64(occ)})
			if err != nil {
				panic(err)
			}
			k := env.BLS(4)
			return c07lib.MkTx(k, &fsm.MessageChangeParameter{ParameterSpace: fsm.ParamSpaceVal, ParameterKey: fsm.ParamDoubleSignSlashPercentage, ParameterValue: a,
				StartHeight: 1, EndHeight: 10000, Signer: env.Addr(k).Bytes()}, c07lib.Fee, w.h, tstamp(w.h, 10, occ), "")
		}},
	{name: "F:editstake-overdraw", fail: "exec", where: "HandleMessageEditStake AccountSub, after fee and GetValidator",
		build: func(w *world, occ, pos int) []byte {
			return c07lib.EditStake(1, 1<<62, w.comm1, w.h, tstamp(w.h, 9, occ))
		}},
	// a valid certificate that names the very double signer the failing certificate template indexes before it
	// fails (first occurrence in a block; later occurrences name fresh heights so that they succeed too)
	{name: "cert2x", build: func(w *world, occ, pos int) []byte {
		h := w.sharedDS()
		if occ > 0 {
			h += uint64(occ)
		}
		return w.certDS(pos, false, tstamp(w.h, 11, pos), h)
	}},
	// a valid certificate whose double signer is the validator the certificates of this world list as NON-SIGNER: at the end
	// of a non-sign window the failing certificate template slashes that validator (and books the slash in the per-block
	// slash budget) before it fails; this one slashes the same validator for the same committee afterwards (sixth-round seed:
	// the budget of a rolled-back transaction stayed used)
	{name: "cert2y", build: func(w *world, occ, pos int) []byte {
		return w.certDSOf(w.lastMember(), pos, false, tstamp(w.h, 12, pos), w.h*100+70+uint64(occ))
	}},
	// a valid certificate with a non-signer and NO double signer: it slashes nobody, so a failing certificate behind it is the
	// FIRST slashing transaction of the block (every other certificate template slashes its double signer first and the
	// per-block slash budget is no longer empty when the failing one takes its snapshot), and at the end of a non-sign window
	// the non-signer it counts is what the failing certificate's settlement slashes before its double-signer list is refused
	{name: "cert2n", build: func(w *world, occ, pos int) []byte {
		return w.certDSOf(nil, pos, false, tstamp(w.h, 13, pos), 0)
	}},
}

func (w *world) failStage(ti, occ int) string {
	t := templates[ti]
	if t.name == "F:replay" && !(w.replay != nil && occ == 0) {
		return "check"
	}
	return t.fail
}

// instantiate builds the transactions of a block given template indices.
func (w *world) instantiate(seq []int) (txs [][]byte, stage []string) {
	occ := map[int]int{}
	for pos, ti := range seq {
		txs = append(txs, templates[ti].build(w, occ[ti], pos))
		stage = append(stage, w.failStage(ti, occ[ti]))
		occ[ti]++
	}
	return
}

// predict computes independently of canopy which transactions are kept: first-pass failures are
// skipped before the size check; the first transaction that does not fit switches the rest
// of the block to "excluded"; executed failures never count towards the size.
func (w *world) predict(txs [][]byte, stage []string) (kept [][]byte, failed, oversized []int) {
	var acc uint64
	over := false
	for i, tx := range txs {
		if stage[i] == "check" {
			failed = append(failed, i)
			continue
		}
		if !over && uint64(len(tx))+acc > w.maxSize {
			over = true
		}
		if stage[i] == "exec" {
			failed = append(failed, i)
			continue
		}
		if over {
			oversized = append(oversized, i)
			continue
		}
		kept = append(kept, tx)
		acc += uint64(len(tx))
	}
	return
}

// ---------------------------------------------------------------------------------------
// observation of one proposer-path run

type obs struct {
	hdrHash string
	hdr     string
	state   string
	results string
	events  string
	index   string
	kept    string
}

func hashAll(bzs [][]byte) string {
	var sb strings.Builder
	for _, b := range bzs {
		sb.WriteString(crypto.HashString(b)[:16])
		sb.WriteByte(',')
	}
	return sb.String()
}

func dumpKVs(kvs []env.KV) string {
	var sb strings.Builder
	for _, kv := range kvs {
		fmt.Fprintf(&sb, "%x=%x\n", kv.K, kv.V)
	}
	return sb.String()
}

func observe(p *c07lib.Proposal) obs {
	o := obs{hdrHash: hex.EncodeToString(p.Header.Hash), state: dumpKVs(p.State), index: p.Index, kept: hashAll(p.Kept)}
	hb, _ := lib.MarshalJSON(p.Header)
	o.hdr = string(hb)
	var sb strings.Builder
	for _, r := range p.Res.Results {
		bz, _ := lib.Marshal(r)
		fmt.Fprintf(&sb, "%x\n", bz)
	}
	o.results = sb.String()
	sb.Reset()
	for _, e := range p.Res.Events {
		bz, _ := lib.Marshal(e)
		fmt.Fprintf(&sb, "%x\n", bz)
	}
	o.events = sb.String()
	return o
}

func firstDiff(a, b obs) string {
	switch {
	case a.kept != b.kept:
		return "kept-tx-list"
	case a.state != b.state:
		return "raw-state"
	case a.index != b.index:
		return "indexer"
	case a.results != b.results:
		return "tx-results"
	case a.events != b.events:
		return "events"
	case a.hdrHash != b.hdrHash || a.hdr != b.hdr:
		return "header"
	}
	return ""
}

// stateDiff lists the keys that differ between two dumps (for the violation text).
func stateDiff(a, b string) string {
	am, bm := map[string]string{}, map[string]string{}
	for _, l := range strings.Split(a, "\n") {
		if i := strings.IndexByte(l, '='); i > 0 {
			am[l[:i]] = l[i+1:]
		}
	}
	for _, l := range strings.Split(b, "\n") {
		if i := strings.IndexByte(l, '='); i > 0 {
			bm[l[:i]] = l[i+1:]
		}
	}
	var out []string
	for k, v := range am {
		if bm[k] != v {
			out = append(out, fmt.Sprintf("key %s: got %.80s want %.80s", k, v, bm[k]))
		}
	}
	for k, v := range bm {
		if _, ok := am[k]; !ok {
			out = append(out, fmt.Sprintf("key %s: missing, want %.80s", k, v))
		}
	}
	sort.Strings(out)
	if len(out) > 6 {
		out = append(out[:6], fmt.Sprintf("... %d keys differ", len(out)))
	}
	return strings.Join(out, "; ")
}

// ---------------------------------------------------------------------------------------
// jobs

type Job struct {
	// BFS part (mc.BFSJob wire form)
	Tag  string `json:"t"`
	Path []int  `json:"p"`
	// C07 jobs
	Kind   string `json:"kind,omitempty"` // "" = BFS exec | "o1" | "o2" | "fp" | "replay"
	Cfg    string `json:"cfg,omitempty"`
	First  int    `json:"first,omitempty"`
	MaxLen int    `json:"maxlen,omitempty"`
	Seq    []int  `json:"seq,omitempty"`
	// DeadlineMs (unix ms): the job stops enumerating when it has passed and reports Partial
	DeadlineMs int64 `json:"dl,omitempty"`
}

func (j Job) late() bool { return j.DeadlineMs > 0 && time.Now().UnixMilli() > j.DeadlineMs }

type Result struct {
	// BFS part (mc.ExecResult wire form)
	Key   string    `json:"k"`
	OK    bool      `json:"ok"`
	Viols []mc.Viol `json:"v,omitempty"`
	Info  string    `json:"i,omitempty"`
	// C07 part
	Blocks        int               `json:"blocks,omitempty"`
	WithFailing   int               `json:"with_failing,omitempty"`
	WithOversize  int               `json:"with_oversize,omitempty"`
	FailingTxs    int               `json:"failing_txs,omitempty"`
	ReplicaRuns   int               `json:"replica_runs,omitempty"`
	Commits       int               `json:"commits,omitempty"`
	DistinctPost  int               `json:"distinct_post,omitempty"`
	Rejections    int               `json:"rejections,omitempty"`
	RejStages     map[string]int    `json:"rej_stages,omitempty"`
	Accepted      []string          `json:"accepted,omitempty"`
	FailurePoints map[string]string `json:"fps,omitempty"`
	Sample        any               `json:"sample,omitempty"`
	Notes         []string          `json:"notes,omitempty"`
	Err           string            `json:"err,omitempty"`
	Partial       bool              `json:"partial,omitempty"`
}

type replayArt struct {
	Kind    string   `json:"kind"`
	Cfg     string   `json:"cfg"`
	Recipes []string `json:"recipes"`
	Path    []int    `json:"path"`
	Block   []string `json:"block,omitempty"`
	Seq     []int    `json:"seq,omitempty"`
	Case    string   `json:"case,omitempty"`
}

func recipeList(path []int) []string {
	out := []string{}
	for _, r := range path {
		out = append(out, recipeNames[r])
	}
	return out
}

func seqNames(seq []int) []string {
	out := []string{}
	for _, t := range seq {
		out = append(out, templates[t].name)
	}
	return out
}

func handle(j Job) (res Result) {
	defer func() {
		if p := recover(); p != nil {
			res.Err = fmt.Sprintf("panic: %v", p)
			res.Viols = append(res.Viols, mc.Viol{Sig: "C07:harness-panic", What: fmt.Sprintf("job %+v: %v", j, p)})
		}
	}()
	switch j.Kind {
	case "":
		return bfsExec(j)
	case "o1":
		return o1Job(j)
	case "o2":
		return o2Job(j)
	case "fp":
		return fpJob(j)
	case "o3":
		return o3Job(j)
	}
	return Result{Err: "unknown job kind"}
}

func bfsExec(j Job) Result {
	c, err := buildState(configs[j.Tag], j.Path)
	if err != nil {
		return Result{OK: false, Info: err.Error()}
	}
	defer c.Close()
	k, e := env.StateKey(c.FSM)
	if e != nil {
		return Result{OK: false, Info: e.Error()}
	}
	idx, _ := c07lib.IndexObs(c.Store)
	// the last block's certificate is part of the state: its results (slashes, rewards) and its signer bitmap
	// (non-signers) are applied by the NEXT block's begin-block and live in the certificate, not in the state store
	pending := ""
	if qc, _ := c.LastQC(); qc != nil {
		pending = fmt.Sprintf("%x", qc.ResultsHash)
		if qc.Signature != nil {
			pending += fmt.Sprintf("/%x", qc.Signature.Bitmap)
		}
	}
	return Result{OK: true, Key: mc.Hash(fmt.Sprintf("%d|%s|%s|%s", c.Height(), k, idx, pending))}
}

// enumerate all template sequences of length 1..maxLen starting with first.
func sequences(first, maxLen int) [][]int {
	var out [][]int
	var rec func(cur []int)
	rec = func(cur []int) {
		out = append(out, append([]int{}, cur...))
		if len(cur) == maxLen {
			return
		}
		for t := range templates {
			rec(append(cur, t))
		}
	}
	rec([]int{first})
	return out
}

type refRun struct {
	o   obs
	err string
}

func o1Job(j Job) (res Result) {
	cfg := configs[j.Cfg]
	c, err := buildState(cfg, j.Path)
	if err != nil {
		return Result{Err: err.Error()}
	}
	defer c.Close()
	w, err := newWorld(c)
	if err != nil {
		return Result{Err: err.Error()}
	}
	seqs := sequences(j.First, j.MaxLen)
	if j.Seq != nil {
		seqs = [][]int{j.Seq}
	}
	memo := map[string]*refRun{}
	posts := map[string]bool{}
	viol := func(sig, what string, seq []int) {
		res.Viols = append(res.Viols, mc.Viol{Sig: sig, What: what,
			Replay: replayArt{Kind: "o1", Cfg: cfg.name, Recipes: recipeList(j.Path), Path: j.Path, Block: seqNames(seq), Seq: seq}})
	}
	var lastP *c07lib.Proposal
	var lastFailed [][]byte
	for _, seq := range seqs {
		if j.late() {
			res.Partial = true
			break
		}
		txs, stage := w.instantiate(seq)
		wantKept, wantFailed, wantOver := w.predict(txs, stage)
		if len(wantFailed) == 0 && len(wantOver) == 0 {
			continue // nothing is dropped from this block
		}
		res.Blocks++
		if len(wantFailed) > 0 {
			res.WithFailing++
			res.FailingTxs += len(wantFailed)
		}
		if len(wantOver) > 0 {
			res.WithOversize++
		}
		class := classOf(seq, wantFailed, wantOver)
		p := c07lib.ProposeOnCopy(c, txs, 0, true)
		if p.Err != nil {
			viol("C07:proposer-path:apply-block-error:"+class, fmt.Sprintf("state=%v cfg=%s block=%v: proposer-path ApplyBlock returned %v", recipeList(j.Path), cfg.name, seqNames(seq), p.Err), seq)
			continue
		}
		// verdicts
		var gotFailed []string
		for _, f := range p.Res.Failed {
			gotFailed = append(gotFailed, crypto.HashString(f.GetBytes())[:16])
		}
		var expFailed []string
		for _, i := range wantFailed {
			expFailed = append(expFailed, crypto.HashString(txs[i])[:16])
		}
		if strings.Join(gotFailed, ",") != strings.Join(expFailed, ",") || hashAll(p.Kept) != hashAll(wantKept) || len(p.Res.Oversized) != len(wantOver) {
			var errs []string
			for _, f := range p.Res.Failed {
				errs = append(errs, strings.ReplaceAll(f.Error.Error(), "\n", " "))
			}
			viol("C07:proposer-path:verdict-differs:"+class, fmt.Sprintf("state=%v cfg=%s block=%v: canopy failed=%v kept=%d oversized=%d, independent prediction failed-positions=%v kept=%d oversized-positions=%v (a transaction succeeded/failed/was excluded depending on a dropped neighbour); errors=%v",
				recipeList(j.Path), cfg.name, seqNames(seq), gotFailed, len(p.Kept), len(p.Res.Oversized), wantFailed, len(wantKept), wantOver, errs), seq)
			continue
		}
		o := observe(p)
		if os.Getenv("C07_DUMP") != "" {
			var evs []string
			for _, e := range p.Res.Events {
				evs = append(evs, e.EventType)
			}
			var errs []string
			for _, f := range p.Res.Failed {
				errs = append(errs, strings.ReplaceAll(f.Error.Error(), "\n", " "))
			}
			fmt.Fprintf(os.Stderr, "C07_DUMP block=%v height=%d nonSigners=%d kept=%d failed=%v events=%v\n", seqNames(seq), w.h, w.nonSigners, len(p.Kept), errs, evs)
		}
		posts[o.hdrHash] = true
		// reference: the same block with the dropped transactions deleted
		key := hashAll(wantKept)
		ref := memo[key]
		if ref == nil {
			ref = &refRun{}
			memo[key] = ref
			rp := c07lib.ProposeOnCopy(c, wantKept, 0, true)
			if rp.Err != nil {
				ref.err = "proposer path on reduced block: " + rp.Err.Error()
			} else if len(rp.Res.Failed) != 0 || len(rp.Res.Oversized) != 0 {
				ref.err = fmt.Sprintf("reduced block drops transactions itself (failed=%d oversized=%d)", len(rp.Res.Failed), len(rp.Res.Oversized))
			} else {
				ref.o = observe(rp)
				// replica path: sequential application of exactly the kept transactions
				c.FSM.Reset()
				_, e := c07lib.ReplicaApply(c, c07lib.BlockFromProposal(rp))
				res.ReplicaRuns++
				if e != nil {
					ref.err = "replica path refuses the reduced block: " + e.Error()
				} else {
					kvs, e2 := env.RawState(c.FSM)
					idx, _ := c07lib.IndexObs(c.Store)
					if e2 != nil {
						ref.err = e2.Error()
					} else if d := dumpKVs(kvs); d != ref.o.state {
						ref.err = "replica-path state of the reduced block differs from its proposer-path state: " + stateDiff(d, ref.o.state)
					} else if idx != ref.o.index {
						ref.err = "replica-path indexer content of the reduced block differs from proposer path"
					}
				}
				c.FSM.Reset()
			}
		}
		if ref.err != "" {
			viol("C07:reference-run-failed:"+class, fmt.Sprintf("state=%v cfg=%s block=%v reduced=%d txs: %s", recipeList(j.Path), cfg.name, seqNames(seq), len(wantKept), ref.err), seq)
			continue
		}
		if d := firstDiff(o, ref.o); d != "" {
			detail := ""
			if d == "raw-state" {
				detail = stateDiff(o.state, ref.o.state)
			} else if d == "header" {
				detail = fmt.Sprintf("got %s want %s", o.hdr, ref.o.hdr)
			} else if d == "indexer" {
				detail = fmt.Sprintf("got %s want %s", o.index, ref.o.index)
			}
			// consequence: would a replica accept the block this proposer broadcasts?
			c.FSM.Reset()
			_, re := c07lib.ReplicaApply(c, c07lib.BlockFromProposal(p))
			c.FSM.Reset()
			cons := "replicas ACCEPT the proposed block"
			if re != nil {
				cons = "replicas REFUSE the proposed block: " + strings.ReplaceAll(re.Error(), "\n", " ")
			}
			viol("C07:proposer-path:"+d+"-differs:"+class, fmt.Sprintf("state=%v cfg=%s (max tx bytes per block %d) height=%d block=%v tx sizes=%v (failing at positions %v, size-excluded at %v): after the proposer-path ApplyBlock(allowOversize=true) the %s differs from the same block with those transactions deleted: %s; %s",
				recipeList(j.Path), cfg.name, w.maxSize, w.h, seqNames(seq), sizes(txs), wantFailed, wantOver, d, detail, cons), seq)
			continue
		}
		lastP = p
		lastFailed = nil
		for _, i := range wantFailed {
			lastFailed = append(lastFailed, txs[i])
		}
		for _, i := range wantOver {
			lastFailed = append(lastFailed, txs[i])
		}
		if res.Sample == nil && len(seq) == j.MaxLen && len(wantFailed) > 0 && len(wantKept) > 0 {
			res.Sample = map[string]any{"cfg": cfg.name, "state": recipeList(j.Path), "height": w.h, "block": seqNames(seq), "failed_positions": wantFailed,
				"size_excluded_positions": wantOver, "kept": len(wantKept), "state_root": hex.EncodeToString(p.Header.StateRoot), "state_keys": len(p.State)}
		}
	}
	res.DistinctPost = len(posts)
	// commit the last block as a replica would and compare the committed state / index
	if lastP != nil && len(res.Viols) == 0 && !j.late() {
		blk := c07lib.BlockFromProposal(lastP)
		if _, e := c07lib.ReplicaCommit(c, blk, 0, nil, ""); e != nil {
			viol("C07:commit-of-proposed-block-refused", fmt.Sprintf("state=%v cfg=%s: the block produced by the proposer path is refused by the replica path: %v", recipeList(j.Path), cfg.name, e), nil)
		} else {
			res.Commits++
			kvs, _ := env.RawState(c.FSM)
			if d := dumpKVs(kvs); d != dumpKVs(lastP.State) {
				viol("C07:committed-state-differs-from-proposed", fmt.Sprintf("state=%v cfg=%s: %s", recipeList(j.Path), cfg.name, stateDiff(d, dumpKVs(lastP.State))), nil)
			}
			for _, tx := range lastFailed {
				if r, e := c.Store.GetTxByHash(crypto.Hash(tx)); e == nil && r != nil && r.TxHash != "" && r.Height == blk.BlockHeader.Height {
					viol("C07:dropped-tx-indexed", fmt.Sprintf("state=%v cfg=%s: dropped transaction %s is indexed at height %d", recipeList(j.Path), cfg.name, r.TxHash, r.Height), nil)
				}
			}
			for _, tx := range lastP.Kept {
				if r, e := c.Store.GetTxByHash(crypto.Hash(tx)); e != nil || r == nil || r.TxHash == "" {
					viol("C07:kept-tx-not-indexed", fmt.Sprintf("state=%v cfg=%s: kept transaction %x not indexed", recipeList(j.Path), cfg.name, crypto.Hash(tx)), nil)
				}
			}
		}
	}
	return
}

func sizes(txs [][]byte) []int {
	var out []int
	for _, t := range txs {
		out = append(out, len(t))
	}
	return out
}

// classOf is the canonical class of a block for violation signatures.
func classOf(seq []int, failed, over []int) string {
	set := map[string]bool{}
	for _, i := range failed {
		set[strings.TrimPrefix(templates[seq[i]].name, "F:")] = true
	}
	var names []string
	for n := range set {
		names = append(names, n)
	}
	sort.Strings(names)
	if len(over) > 0 {
		return "size-excluded" // dominates: the block contains a transaction excluded for size (with or without failing ones)
	}
	return "fail=" + strings.Join(names, "+")
}

// ---------------------------------------------------------------------------------------
// failure-point instrumentation: run one failing transaction by hand inside a nested store
// transaction on a throw-away copy and report which state prefixes were dirty when it failed.

var prefixNames = map[byte]string{1: "account", 2: "pool", 3: "validator", 4: "committee", 5: "unstaking", 6: "paused", 7: "params", 8: "non-signer",
	9: "last-proposers", 10: "supply", 11: "delegate", 12: "committees-data", 13: "order-book", 14: "retired", 15: "dex"}

func failurePoint(c *env.Chain, tx []byte, verifyOneByOne bool) string {
	cp, err := c.FSM.Copy()
	if err != nil {
		return "copy: " + err.Error()
	}
	defer cp.Discard()
	before, _ := env.RawState(cp)
	idxBefore, _ := c07lib.IndexObs(cp.Store().(lib.StoreI))
	if _, err = cp.TxnWrap(); err != nil {
		return "txnwrap: " + err.Error()
	}
	bv := crypto.NewBatchVerifier(true)
	if verifyOneByOne {
		bv = nil // the first pass of ApplyTransactions verifies signatures for real; the execution pass uses a no-op verifier
	}
	_, _, e := cp.ApplyTransaction(0, tx, crypto.HashString(tx), bv)
	after, _ := env.RawState(cp)
	idxAfter, _ := c07lib.IndexObs(cp.Store().(lib.StoreI))
	bm := map[string]string{}
	for _, kv := range before {
		bm[string(kv.K)] = string(kv.V)
	}
	dirty := map[string]int{}
	for _, kv := range after {
		if v, ok := bm[string(kv.K)]; !ok || v != string(kv.V) {
			dirty[prefixOf(kv.K)]++
		}
		delete(bm, string(kv.K))
	}
	for k := range bm {
		dirty[prefixOf([]byte(k))+"(deleted)"]++
	}
	var parts []string
	for k, n := range dirty {
		parts = append(parts, fmt.Sprintf("%s:%d", k, n))
	}
	sort.Strings(parts)
	if idxAfter != idxBefore {
		parts = append(parts, "indexer(double-signer/checkpoint)")
	}
	msg := "SUCCEEDED"
	if e != nil {
		msg = fmt.Sprintf("code=%d %s", e.Code(), e.Error()[strings.LastIndex(e.Error(), "Message:")+len("Message:"):])
	}
	return fmt.Sprintf("err[%s] dirty-at-failure[%s]", strings.TrimSpace(msg), strings.Join(parts, " "))
}

func prefixOf(k []byte) string {
	segs := lib.DecodeLengthPrefixed(k)
	if len(segs) == 0 || len(segs[0]) != 1 {
		return "?"
	}
	if n, ok := prefixNames[segs[0][0]]; ok {
		return n
	}
	return fmt.Sprintf("p%d", segs[0][0])
}

func fpJob(j Job) (res Result) {
	c, err := buildState(configs[j.Cfg], j.Path)
	if err != nil {
		return Result{Err: err.Error()}
	}
	defer c.Close()
	w, err := newWorld(c)
	if err != nil {
		return Result{Err: err.Error()}
	}
	res.FailurePoints = map[string]string{}
	for ti, t := range templates {
		if t.fail == "" {
			continue
		}
		tx := t.build(w, 0, 0)
		res.FailurePoints[t.name] = fmt.Sprintf("stage=%s %s", w.failStage(ti, 0), failurePoint(c, tx, w.failStage(ti, 0) == "check"))
	}
	return
}

// ---------------------------------------------------------------------------------------
// O2: rejection

type snapshot struct {
	live, committed, index string
	version                uint64
}

func takeSnapshot(c *env.Chain) (s snapshot, err lib.ErrorI) {
	kvs, err := env.RawState(c.FSM)
	if err != nil {
		return
	}
	s.live = dumpKVs(kvs)
	ro, err := c.FSM.TimeMachine(0)
	if err != nil {
		return
	}
	kvs, err = env.RawState(ro)
	if ro != c.FSM {
		ro.Discard()
	}
	if err != nil {
		return
	}
	s.committed = dumpKVs(kvs)
	// a second, independent committed view: a brand-new read-only store
	rs, err := c.Store.NewReadOnly(c.Store.Version())
	if err != nil {
		return
	}
	s.index, err = c07lib.IndexObs(rs)
	rs.Discard()
	if err != nil {
		return
	}
	li, err := c07lib.IndexObs(c.Store)
	if err != nil {
		return
	}
	s.index += "||live:" + li
	s.version = c.Store.Version()
	return
}

func cloneBlock(b *lib.Block) *lib.Block {
	bz, _ := lib.Marshal(b)
	nb := new(lib.Block)
	_ = lib.Unmarshal(bz, nb)
	return nb
}

type rejCase struct {
	name   string
	stage  string
	mutate func(b *lib.Block) (skip bool)
	abort  c07lib.Stage
	rehash bool
}

func flip(b []byte) []byte {
	o := append([]byte{}, b...)
	if len(o) == 0 {
		return []byte{1}
	}
	o[len(o)/2] ^= 0x01
	return o
}

func o2Job(j Job) (res Result) {
	cfg := configs[j.Cfg]
	c, err := buildState(cfg, j.Path)
	if err != nil {
		return Result{Err: err.Error()}
	}
	defer c.Close()
	w, err := newWorld(c)
	if err != nil {
		return Result{Err: err.Error()}
	}
	res.RejStages = map[string]int{}
	viol := func(sig, what, cs string) {
		res.Viols = append(res.Viols, mc.Viol{Sig: sig, What: what, Replay: replayArt{Kind: "o2", Cfg: cfg.name, Recipes: recipeList(j.Path), Path: j.Path, Case: cs}})
	}
	// the honest block: two succeeding transactions, produced by the proposer path
	honestSeq := []int{0, 3}
	if cfg.name == "small" {
		honestSeq = []int{0, 0}
	}
	htxs, _ := w.instantiate(honestSeq)
	hp := c07lib.ProposeOnCopy(c, htxs, 0, true)
	if hp.Err != nil || len(hp.Res.Failed) != 0 || len(hp.Res.Oversized) != 0 {
		return Result{Err: fmt.Sprintf("honest block not producible: %v", hp.Err)}
	}
	honest := c07lib.BlockFromProposal(hp)
	pre, e := takeSnapshot(c)
	if e != nil {
		return Result{Err: e.Error()}
	}
	h := w.h

	var cases []rejCase
	if h > 1 {
		cases = append(cases,
			rejCase{name: "lastqc-blockhash-altered", stage: "check-last-certificate", mutate: func(b *lib.Block) bool {
				b.BlockHeader.LastQuorumCertificate.BlockHash = flip(b.BlockHeader.LastQuorumCertificate.BlockHash)
				return false
			}, rehash: true},
			rejCase{name: "lastqc-resultshash-altered", stage: "check-last-certificate", mutate: func(b *lib.Block) bool {
				b.BlockHeader.LastQuorumCertificate.ResultsHash = flip(b.BlockHeader.LastQuorumCertificate.ResultsHash)
				return false
			}, rehash: true},
			rejCase{name: "lastqc-signature-altered", stage: "check-last-certificate", mutate: func(b *lib.Block) bool {
				b.BlockHeader.LastQuorumCertificate.Signature.Signature = flip(b.BlockHeader.LastQuorumCertificate.Signature.Signature)
				return false
			}, rehash: true},
			rejCase{name: "lastqc-without-quorum", stage: "check-last-certificate", mutate: func(b *lib.Block) bool {
				// re-sign the previous certificate with a single committee member
				prev := c.Committed[h-1]
				if prev == nil {
					return true
				}
				vs, err := c.FSM.LoadCommittee(env.ChainID, prev.QC.Header.RootHeight)
				if err != nil || len(vs.ValidatorSet.ValidatorSet) < 2 {
					return true
				}
				one := keyIndexForPub(vs.ValidatorSet.ValidatorSet[len(vs.ValidatorSet.ValidatorSet)-1].PublicKey)
				qc, err := env.MakeQC(vs, prev.QC.Header, prev.Block, prev.QC.Results, prev.QC.ProposerKey, []int{one})
				if err != nil {
					return true
				}
				qc.Block = nil
				b.BlockHeader.LastQuorumCertificate = qc
				return false
			}, rehash: true},
		)
	}
	// failing / undecodable transaction inside a replica block, at every position
	for ti, t := range templates {
		if t.fail == "" {
			continue
		}
		if cfg.name == "small" && strings.Contains(t.name, "cert2") {
			continue // would not fit next to the honest transactions
		}
		for pos := 0; pos <= len(honest.Transactions); pos++ {
			ti, pos := ti, pos
			cases = append(cases, rejCase{name: fmt.Sprintf("failing-tx[%s]@%d", t.name, pos), stage: "apply-block:failed-transactions", mutate: func(b *lib.Block) bool {
				tx := templates[ti].build(w, 0, pos)
				b.Transactions = append(append(append([][]byte{}, b.Transactions[:pos]...), tx), b.Transactions[pos:]...)
				return false
			}})
		}
	}
	cases = append(cases,
		rejCase{name: "undecodable-tx", stage: "apply-block:failed-transactions", mutate: func(b *lib.Block) bool {
			b.Transactions = append(b.Transactions, []byte{0xff, 0xff, 0xff, 0x01})
			return false
		}},
		rejCase{name: "duplicate-tx-in-block", stage: "apply-block:duplicate", mutate: func(b *lib.Block) bool {
			b.Transactions = append(b.Transactions, b.Transactions[0])
			return false
		}},
	)
	if cfg.name == "small" {
		cases = append(cases, rejCase{name: "oversize-replica-block", stage: "apply-block:max-block-size", mutate: func(b *lib.Block) bool {
			for k := 0; k < 4; k++ {
				b.Transactions = append(b.Transactions, c07lib.Send(4, 5, 7000+uint64(k), h, tstamp(h, 50, k)))
			}
			return false
		}})
	}
	// every header field altered (hash recomputed so that the block is self-consistent)
	hdrMut := map[string]func(hd *lib.BlockHeader){
		"height":               func(hd *lib.BlockHeader) { hd.Height++ },
		"network-id":           func(hd *lib.BlockHeader) { hd.NetworkId++ },
		"num-txs":              func(hd *lib.BlockHeader) { hd.NumTxs++ },
		"total-txs":            func(hd *lib.BlockHeader) { hd.TotalTxs++ },
		"total-vdf-iterations": func(hd *lib.BlockHeader) { hd.TotalVdfIterations++ },
		"last-block-hash":      func(hd *lib.BlockHeader) { hd.LastBlockHash = flip(hd.LastBlockHash) },
		"state-root":           func(hd *lib.BlockHeader) { hd.StateRoot = flip(hd.StateRoot) },
		"transaction-root":     func(hd *lib.BlockHeader) { hd.TransactionRoot = flip(hd.TransactionRoot) },
		"validator-root":       func(hd *lib.BlockHeader) { hd.ValidatorRoot = flip(hd.ValidatorRoot) },
		"next-validator-root":  func(hd *lib.BlockHeader) { hd.NextValidatorRoot = flip(hd.NextValidatorRoot) },
		"proposer-address":     func(hd *lib.BlockHeader) { hd.ProposerAddress = env.Addr(env.BLS(1)).Bytes() },
		"vdf":                  func(hd *lib.BlockHeader) { hd.Vdf = &crypto.VDF{Proof: []byte{1}, Output: []byte{2}, Iterations: 3} },
		"hash-only":            nil,
	}
	var hnames []string
	for n := range hdrMut {
		hnames = append(hnames, n)
	}
	sort.Strings(hnames)
	for _, n := range hnames {
		n := n
		cases = append(cases, rejCase{name: "header-" + n, stage: "apply-block:header-compare", mutate: func(b *lib.Block) bool {
			if hdrMut[n] == nil {
				b.BlockHeader.Hash = flip(b.BlockHeader.Hash)
				return false
			}
			hdrMut[n](b.BlockHeader)
			return false
		}, rehash: n != "hash-only"})
	}
	// a transaction dropped from / a transaction swapped in an otherwise honest block (results mismatch at the state root)
	cases = append(cases,
		rejCase{name: "tx-removed-header-kept", stage: "apply-block:header-compare", mutate: func(b *lib.Block) bool {
			b.Transactions = b.Transactions[:len(b.Transactions)-1]
			return false
		}},
		rejCase{name: "tx-order-swapped-header-kept", stage: "apply-block:header-compare", mutate: func(b *lib.Block) bool {
			b.Transactions[0], b.Transactions[1] = b.Transactions[1], b.Transactions[0]
			return false
		}},
		rejCase{name: "abort-after-index-qc", stage: "commit:after-index-qc", abort: "index-qc", mutate: func(b *lib.Block) bool { return false }},
		rejCase{name: "abort-after-index-block", stage: "commit:after-index-block", abort: "index-block", mutate: func(b *lib.Block) bool { return false }},
	)

	for _, cs := range cases {
		if j.late() {
			res.Partial = true
			break
		}
		b := cloneBlock(honest)
		if cs.mutate(b) {
			continue
		}
		if cs.rehash {
			b.BlockHeader.Hash = nil
			if _, e := b.BlockHeader.SetHash(); e != nil {
				return Result{Err: e.Error()}
			}
		}
		_, e := c07lib.ReplicaCommit(c, b, 0, nil, cs.abort)
		if e == nil {
			// not a rejection: the altered block is a different valid block. Nothing to assert for C07; the chain moved on, stop here.
			res.Accepted = append(res.Accepted, cs.name)
			res.Notes = append(res.Notes, fmt.Sprintf("state=%v: case %s was ACCEPTED by the replica path (no rejection to check)", recipeList(j.Path), cs.name))
			return
		}
		res.Rejections++
		res.RejStages[cs.stage]++
		post, e2 := takeSnapshot(c)
		if e2 != nil {
			viol("C07:rejection:state-unreadable:"+cs.stage, fmt.Sprintf("state=%v case=%s: %v", recipeList(j.Path), cs.name, e2), cs.name)
			return
		}
		where := fmt.Sprintf("state=%v cfg=%s height=%d case=%s (rejected with: %s)", recipeList(j.Path), cfg.name, h, cs.name, strings.ReplaceAll(e.Error(), "\n", " "))
		if post.version != pre.version {
			viol("C07:rejection:store-version-moved:"+cs.stage, where, cs.name)
		}
		if post.live != pre.live {
			viol("C07:rejection:working-state-changed:"+cs.stage, where+": "+stateDiff(post.live, pre.live), cs.name)
		}
		if post.committed != pre.committed {
			viol("C07:rejection:committed-state-changed:"+cs.stage, where+": "+stateDiff(post.committed, pre.committed), cs.name)
		}
		if post.index != pre.index {
			viol("C07:rejection:indexer-changed:"+cs.stage, where+fmt.Sprintf(": got %s want %s", post.index, pre.index), cs.name)
		}
		if qc, e := c.Store.GetQCByHeight(h); e == nil && qc != nil && qc.Header != nil && qc.Header.Height == h {
			viol("C07:rejection:certificate-readable:"+cs.stage, where+": a certificate is readable at the rejected height", cs.name)
		}
		if blk, e := c.Store.GetBlockByHeight(h); e == nil && blk != nil && blk.BlockHeader != nil && blk.BlockHeader.Height == h {
			if cs.abort == "index-block" {
				// a failing Commit is not a validation stage; reported as a note, see final report. The cache is purged so
				// that the remaining cases are not affected (at height 1 LoadBlock(0) reads height 1, i.e. this entry).
				res.Notes = append(res.Notes, "after an abort between IndexBlock and Commit (only reachable when store.Commit fails) the process-wide block cache still serves the uncommitted block at that height")
				store.VerifC09PurgeBlockCache()
			} else {
				viol("C07:rejection:block-readable:"+cs.stage, where+": a block is readable at the rejected height", cs.name)
			}
		}
		// the honest block must still validate to the header computed before the rejection
		if _, e := c07lib.ReplicaApply(c, cloneBlock(honest)); e != nil {
			viol("C07:rejection:honest-block-refused-afterwards:"+cs.stage, where+": "+strings.ReplaceAll(e.Error(), "\n", " "), cs.name)
		} else {
			kvs, _ := env.RawState(c.FSM)
			if d := dumpKVs(kvs); d != dumpKVs(hp.State) {
				viol("C07:rejection:honest-block-state-differs-afterwards:"+cs.stage, where+": "+stateDiff(d, dumpKVs(hp.State)), cs.name)
			}
		}
		c.FSM.Reset()
		if len(res.Viols) > 3 {
			return
		}
	}
	// finally commit the honest block for real
	root, e := c07lib.ReplicaCommit(c, cloneBlock(honest), 0, nil, "")
	if e != nil {
		viol("C07:rejection:honest-block-refused-afterwards:final-commit", fmt.Sprintf("state=%v cfg=%s: %v", recipeList(j.Path), cfg.name, e), "final")
		return
	}
	res.Commits++
	if !bytes.Equal(root, honest.BlockHeader.StateRoot) {
		viol("C07:rejection:root-after-rejections-differs", fmt.Sprintf("state=%v cfg=%s: committed root %x, root computed before the rejections %x", recipeList(j.Path), cfg.name, root, honest.BlockHeader.StateRoot), "final")
	}
	kvs, _ := env.RawState(c.FSM)
	if d := dumpKVs(kvs); d != dumpKVs(hp.State) {
		viol("C07:rejection:state-after-rejections-differs", fmt.Sprintf("state=%v cfg=%s: %s", recipeList(j.Path), cfg.name, stateDiff(d, dumpKVs(hp.State))), "final")
	}
	if res.Sample == nil {
		res.Sample = map[string]any{"cfg": cfg.name, "state": recipeList(j.Path), "height": h, "rejections": res.Rejections, "stages": res.RejStages, "root_after": hex.EncodeToString(root)}
	}
	return
}

// ---------------------------------------------------------------------------------------

func main() {
	if mc.IsWorker() {
		mc.ServeWorker(handle)
	}
	startTime := time.Now()
	r := mc.Start("C07", "model_checking", 85*time.Second, 25*time.Minute)
	r.Assumptions = []string{
		"direct path: the store/FSM calls of Mempool.CheckMempool (proposer) and of CommitCertificate/ApplyAndValidateBlock/CheckAndSetLastCertificate (replica) are written out in the harness; mempool, p2p, bft and controller.ValidateProposal/HandlePeerBlock are not executed (no controller-level node in env yet)",
		"the Reset calls on the rejection path are placed where CommitCertificate places them (before apply, deferred after any error); what is checked is that FSM.Reset restores everything, not that the controller calls it",
		"certificates are really signed by the committee; BLS, ed25519 and the hash are trusted",
		"one chain per worker process; proposer-path runs use FSM.Copy of that chain (as the mempool does)",
		"plugins are absent; protocol version 2 from genesis",
	}
	if r.Replay != "" {
		doReplay(r)
		return
	}
	pool := mc.NewProcPool(0)
	maxDepth, maxLen := 2, 3
	cfgNames := []string{"std", "small"}
	cov := map[string]any{}
	type st struct {
		cfg   string
		path  []int
		depth int
	}
	var states []st
	totalStates := 0
	for _, cn := range cfgNames {
		depth := maxDepth
		if !r.Quick() && cn == "std" {
			depth = maxDepth + 1
		}
		bs := mc.ReplayBFS(mc.BFSConfig{Tag: cn, NumOps: len(recipeNames), MaxDepth: depth, Pool: pool, OnViol: r.OnViol, Stop: r.Expired,
			OnState: func(path []int, _ *mc.ExecResult) {
				states = append(states, st{cn, append([]int{}, path...), len(path)})
			}})
		totalStates += bs.States
		cov["bfs_"+cn] = map[string]any{"states": bs.States, "frontier_per_depth": bs.Frontier, "disabled": bs.Disabled, "revisits": bs.Revisits, "complete": bs.Complete}
		fmt.Printf("recipe BFS cfg=%s depth<=%d: states=%d frontier=%v disabled=%d revisits=%d complete=%v\n", cn, depth, bs.States, bs.Frontier, bs.Disabled, bs.Revisits, bs.Complete)
		if !bs.Complete {
			r.Exhaustive = false
		}
	}
	// quick: the small-block configuration only on the states at depth <= 1
	sort.SliceStable(states, func(a, b int) bool {
		if states[a].depth != states[b].depth {
			return states[a].depth < states[b].depth
		}
		return states[a].cfg == "std" && states[b].cfg != "std"
	})
	var jobs []Job
	// failure-point instrumentation on the genesis state and on one deeper state
	jobs = append(jobs, Job{Kind: "fp", Cfg: "std", Path: []int{}}, Job{Kind: "fp", Cfg: "std", Path: []int{1}})
	for _, s := range states {
		if r.Quick() && s.cfg == "small" && s.depth > 1 {
			continue
		}
		jobs = append(jobs, Job{Kind: "o2", Cfg: s.cfg, Path: s.path})
		if s.cfg == "std" && (!r.Quick() || s.depth <= 1) {
			jobs = append(jobs, Job{Kind: "o3", Cfg: s.cfg, Path: s.path})
		}
		for f := range templates {
			jobs = append(jobs, Job{Kind: "o1", Cfg: s.cfg, Path: s.path, First: f, MaxLen: maxLen})
		}
	}
	budget := 85 * time.Second
	if !r.Quick() {
		budget = 25 * time.Minute
	}
	if f := flag.Lookup("budget"); f != nil {
		if d, err := time.ParseDuration(f.Value.String()); err == nil && d > 0 {
			budget = d
		}
	}
	for i := range jobs {
		jobs[i].DeadlineMs = startTime.Add(budget).UnixMilli()
	}
	fmt.Printf("jobs: %d over %d states\n", len(jobs), len(states))
	results, crashed := mc.Map[Job, Result](pool, jobs, r.Expired)
	var blocks, withFail, withOver, failingTxs, replicaRuns, commits, rejections, done, distinct int
	partial := 0
	stages := map[string]int{}
	nodeStages := map[string]int{}
	nodeRej := 0
	accepted := map[string]int{}
	statesDone := map[string]bool{}
	notes := map[string]bool{}
	fps := map[string]map[string]string{}
	for i, res := range results {
		if crashed[i] {
			r.Violation("C07:worker-crash", fmt.Sprintf("worker died twice on job %+v", jobs[i]), jobs[i])
			continue
		}
		if res == nil {
			continue
		}
		done++
		for _, v := range res.Viols {
			r.OnViol(v)
		}
		if res.Err != "" {
			r.Violation("C07:harness-error", fmt.Sprintf("job %+v: %s", jobs[i], res.Err), jobs[i])
			continue
		}
		if res.Partial {
			partial++
		}
		blocks += res.Blocks
		withFail += res.WithFailing
		withOver += res.WithOversize
		failingTxs += res.FailingTxs
		replicaRuns += res.ReplicaRuns
		commits += res.Commits
		if jobs[i].Kind == "o3" {
			nodeRej += res.Rejections
			for k, v := range res.RejStages {
				nodeStages[k] += v
			}
		} else {
			rejections += res.Rejections
			for k, v := range res.RejStages {
				stages[k] += v
			}
		}
		distinct += res.DistinctPost
		for _, a := range res.Accepted {
			accepted[a]++
		}
		for _, n := range res.Notes {
			notes[n] = true
		}
		if res.FailurePoints != nil {
			fps[fmt.Sprintf("state=%v", recipeList(jobs[i].Path))] = res.FailurePoints
		}
		if res.Sample != nil && (i%7 == 0 || len(r.Samples) < 2) {
			r.AddSample(res.Sample)
		}
		statesDone[fmt.Sprint(jobs[i].Cfg, jobs[i].Path)] = true
	}
	if done < len(jobs) || partial > 0 {
		r.Exhaustive = false
		r.Note("stopped at %d of %d jobs (deadline), %d of them cut short; states are processed in order of depth", done, len(jobs), partial)
	}
	for n := range notes {
		r.Note("%s", n)
	}
	for s, m := range fps {
		for t, v := range m {
			fmt.Printf("failure point %s %-24s %s\n", s, t, v)
		}
	}
	fmt.Printf("O1: %d blocks with dropped transactions (%d with failing txs, %d with size-excluded txs; %d failing txs in total) on %d states; %d replica-path reference runs; %d commits; %d distinct post-states\n",
		blocks, withFail, withOver, failingTxs, len(statesDone), replicaRuns, commits, distinct)
	fmt.Printf("O2 (direct path): %d rejections by stage %v; accepted (not rejections) %v\n", rejections, stages, accepted)
	fmt.Printf("O3 (controller.ValidateProposal / HandlePeerBlock on real controller nodes): %d rejections by path:stage %v\n", nodeRej, nodeStages)
	var tnames []map[string]string
	for _, t := range templates {
		tnames = append(tnames, map[string]string{"name": t.name, "fails": t.fail, "intended_point": t.where})
	}
	cov["states"] = totalStates
	cov["transitions"] = blocks + rejections + nodeRej
	cov["traces_validated_against_impl"] = blocks + rejections + nodeRej
	cov["o3_controller_rejections"] = nodeRej
	cov["o3_controller_rejections_by_path_stage"] = nodeStages
	cov["explanation"] = "states = distinct chain states of the recipe BFS (both block-size configurations); a transition = one whole block executed by canopy on such a state (proposer-path block with dropped transactions, or rejected replica block); every one is compared with canopy's own run of the reduced block / with the pre-call dumps"
	cov["o1_blocks"] = blocks
	cov["o1_blocks_with_failing_tx"] = withFail
	cov["o1_blocks_with_size_excluded_tx"] = withOver
	cov["o1_failing_txs"] = failingTxs
	cov["o1_reference_replica_runs"] = replicaRuns
	cov["o1_distinct_post_states_sum_over_jobs"] = distinct
	cov["commits"] = commits
	cov["o2_rejections"] = rejections
	cov["o2_rejections_by_stage"] = stages
	cov["o2_accepted_variants"] = accepted
	cov["states_with_work_done"] = len(statesDone)
	cov["templates"] = tnames
	cov["failure_points_instrumented"] = fps
	cov["recipes"] = recipeNames
	cov["bounds"] = map[string]any{"recipe_depth_quick": maxDepth, "recipe_depth_thorough_std": maxDepth + 1, "block_len": maxLen, "templates": len(templates), "small_block_tx_bytes": configs["small"].sizeExtra}
	r.Finish(cov)
}

func doReplay(r *mc.Run) {
	var a replayArt
	if err := r.LoadReplay(&a); err != nil {
		fmt.Println("cannot load replay:", err)
		r.Finish(map[string]any{"states": 1, "transitions": 1, "traces_validated_against_impl": 0})
	}
	n := 0
	for i := 0; i < 5; i++ {
		var res Result
		if a.Kind == "o2" {
			res = o2Job(Job{Kind: "o2", Cfg: a.Cfg, Path: a.Path})
		} else if a.Kind == "o3" {
			res = o3Job(Job{Kind: "o3", Cfg: a.Cfg, Path: a.Path})
		} else {
			res = o1Job(Job{Kind: "o1", Cfg: a.Cfg, Path: a.Path, Seq: a.Seq, MaxLen: 3})
		}
		for _, v := range res.Viols {
			r.OnViol(v)
			n++
		}
		if res.Err != "" {
			fmt.Println("replay error:", res.Err)
		}
	}
	fmt.Printf("replay: %d violations in 5 runs\n", n)
	r.Finish(map[string]any{"states": 1, "transitions": 5, "traces_validated_against_impl": 5})
}
