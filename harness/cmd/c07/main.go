package main

import (
	"fmt"
	"math"
	"time"

	"github.com/canopy-network/canopy/lib"

	"verifharness/c07lib"
	"verifharness/env"
)

func main() {
	g := c07lib.Genesis(0)
	c, err := env.NewChain(g)
	if err != nil {
		panic(err)
	}
	defer c.Close()
	fmt.Println("height", c.Height(), "maxhdr", lib.MaxBlockHeaderSize)
	h := c.Height()
	t0 := time.Now()
	s1 := c07lib.Send(4, 5, 1000, h, c07lib.BaseTime+1)
	f1 := c07lib.Send(4, 5, 1<<62, h, c07lib.BaseTime+2)
	f2 := c07lib.DAOTransfer(5, math.MaxUint64-5, true, h, c07lib.BaseTime+3)
	cert, e := c07lib.CertResultsTx(c, c07lib.CertSpec{ChainHeight: 1, RootHeight: h, Proposer: 0, NonSigners: 1, RewardTo: 5}, h, c07lib.BaseTime+4)
	if e != nil {
		panic(e)
	}
	fmt.Println("tx sizes", len(s1), len(f1), len(f2), len(cert), "build", time.Since(t0))
	for i := 0; i < 3; i++ {
		t0 = time.Now()
		p := c07lib.ProposeOnCopy(c, [][]byte{s1, f1, f2, cert}, 0, true)
		fmt.Println("propose", time.Since(t0), p.Err, "kept", len(p.Kept), "failed", len(p.Res.Failed), "state", len(p.State))
		for _, f := range p.Res.Failed {
			fmt.Println("  failed:", f.Error)
		}
	}
	p := c07lib.ProposeOnCopy(c, [][]byte{s1, f1, f2, cert}, 0, true)
	t0 = time.Now()
	root, err := c07lib.ReplicaCommit(c, c07lib.BlockFromProposal(p), 0, nil, "")
	fmt.Println("commit", time.Since(t0), err, len(root), c.Height())
}
