package main

import (
	"encoding/json"
	"fmt"
	"os"
	"testing"
)

func TestJob(t *testing.T) {
	var j Job
	if err := json.Unmarshal([]byte(os.Getenv("JOB")), &j); err != nil {
		t.Fatal(err)
	}
	res := handle(j)
	bz, _ := json.MarshalIndent(res, "", " ")
	fmt.Println(string(bz))
}
