package main

// crashFS: a vfs.FS that delegates every call to pebble's crashable MemFS and keeps a
// *shadow* of MemFS's crash model (per directory: current / last-synced entries; per file:
// current / last-synced bytes), so that the set of possible post-crash images at any
// instant can be enumerated deterministically.
//
// Why a shadow and not only MemFS.CrashClone with a scripted RNG: CrashClone consumes one
// RNG draw per directory entry and per 4 KiB block while ranging over Go maps, i.e. in an
// order that changes from call to call, and it also spends draws on entries/blocks that
// are already synced. A scripted keep/drop vector therefore addresses different entries
// on different calls and "all 2^m vectors" would not be "all 2^m subsets". The shadow
// applies exactly the same rules (see vfs/mem_fs.go memNode.CrashClone) but only asks for
// a decision where keep and drop differ, in sorted order. The shadow is validated against
// the real thing at every crash point: CrashClone(0%) and CrashClone(100%) must be
// byte-identical to the shadow's drop-all / keep-all images, and every scripted-RNG clone
// that is taken must be a member of the shadow's enumerated set.

import (
	"bytes"
	"crypto/sha256"
	"encoding/hex"
	"fmt"
	"io"
	"math/rand/v2"
	"os"
	"path"
	"sort"
	"strings"
	"sync"

	"github.com/cockroachdb/pebble/v2/vfs"
)

const fsBlock = 4096 // MemFS crash granularity for file data

// ---------------------------------------------------------------------------------------
// shadow tree

type snode struct {
	isDir    bool
	children map[string]*snode
	synced   map[string]*snode
	data     []byte // never modified in place below len(data) once a snapshot may share it
	sdata    []byte
}

func newDir() *snode { return &snode{isDir: true, children: map[string]*snode{}} }

// snapshot copies the tree structure (file bytes are shared; they are append-only or
// replaced, never overwritten in place).
func (n *snode) snapshot(seen map[*snode]*snode) *snode {
	if n == nil {
		return nil
	}
	if c, ok := seen[n]; ok {
		return c
	}
	c := &snode{isDir: n.isDir, data: n.data, sdata: n.sdata}
	seen[n] = c
	if n.isDir {
		c.children = make(map[string]*snode, len(n.children))
		for k, v := range n.children {
			c.children[k] = v.snapshot(seen)
		}
		if n.synced != nil {
			c.synced = make(map[string]*snode, len(n.synced))
			for k, v := range n.synced {
				c.synced[k] = v.snapshot(seen)
			}
		}
	}
	return c
}

// image is a concrete file system content.
type image struct {
	Files map[string][]byte `json:"files"`
	Dirs  []string          `json:"dirs"`
}

func (im *image) hash() string {
	h := sha256.New()
	names := make([]string, 0, len(im.Files))
	for n := range im.Files {
		names = append(names, n)
	}
	sort.Strings(names)
	for _, n := range names {
		fmt.Fprintf(h, "F%d:%s:%d:", len(n), n, len(im.Files[n]))
		h.Write(im.Files[n])
	}
	ds := append([]string{}, im.Dirs...)
	sort.Strings(ds)
	for _, d := range ds {
		fmt.Fprintf(h, "D%d:%s:", len(d), d)
	}
	return hex.EncodeToString(h.Sum(nil)[:16])
}

// decider answers keep(true)/drop(false) for the next effective decision.
// p = path, blk = 4 KiB block index or -1 for "directory entry p".
type decider func(p string, blk int) bool

// crashImage builds the image for one decision sequence. Rules = memNode.CrashClone.
func (n *snode) crashImage(p string, d decider, im *image) {
	if n.isDir {
		if p != "" {
			im.Dirs = append(im.Dirs, p)
		}
		res := make(map[string]*snode, len(n.children))
		for k, v := range n.synced {
			res[k] = v
		}
		names := make([]string, 0, len(n.children))
		for k := range n.children {
			names = append(names, k)
		}
		sort.Strings(names)
		for _, k := range names {
			cur := n.children[k]
			if s, ok := n.synced[k]; ok && s == cur {
				continue // keep == drop
			}
			if d(p+"/"+k, -1) {
				res[k] = cur
			}
		}
		names = names[:0]
		for k := range res {
			names = append(names, k)
		}
		sort.Strings(names)
		for _, k := range names {
			res[k].crashImage(p+"/"+k, d, im)
		}
		return
	}
	out, own := n.sdata, false // shared with the snapshot until the first kept block changes it
	for i := 0; i < len(n.data); i += fsBlock {
		blk := n.data[i:min(i+fsBlock, len(n.data))]
		if i+len(blk) <= len(n.sdata) && bytes.Equal(n.sdata[i:i+len(blk)], blk) {
			continue // keep == drop
		}
		if d(p, i/fsBlock) {
			if !own {
				out, own = bytes.Clone(out), true
			}
			if grow := i + len(blk) - len(out); grow > 0 {
				out = append(out, make([]byte, grow)...)
			}
			copy(out[i:], blk)
		}
	}
	if out == nil {
		out = []byte{}
	}
	im.Files[p] = out
}

// ---------------------------------------------------------------------------------------
// the wrapper

type fsOp struct {
	Kind string
	Path string
	N    int // bytes for writes
	// Appended holds the bytes of a write that is a pure append (position = current length):
	// a crash DURING that write can leave any prefix of them behind the rest of the file
	Appended []byte
}

func (o fsOp) String() string {
	if o.N > 0 {
		return fmt.Sprintf("%s(%s,%dB)", o.Kind, o.Path, o.N)
	}
	return fmt.Sprintf("%s(%s)", o.Kind, o.Path)
}

type crashFS struct {
	inner *vfs.MemFS
	mu    sync.Mutex // serialises state-changing operations and the hook
	root  *snode
	ops   int64 // state-changing operations seen
	noops int64 // operations without effect on the crash model (SyncTo, Preallocate)
	// before is called under mu before every state-changing operation.
	before func(op fsOp)
}

func newCrashFS() *crashFS {
	return &crashFS{inner: vfs.NewCrashableMem(), root: newDir()}
}

func (c *crashFS) snapshot() *snode { return c.root.snapshot(map[*snode]*snode{}) }

func splitPath(fullname string) []string {
	var out []string
	for _, f := range strings.Split(fullname, "/") {
		if f == "" || f == "." {
			continue
		}
		out = append(out, f)
	}
	return out
}

// lookupDir returns the shadow directory holding the last fragment, and that fragment.
func (c *crashFS) lookupParent(fullname string) (*snode, string) {
	fr := splitPath(fullname)
	if len(fr) == 0 {
		return nil, ""
	}
	d := c.root
	for _, f := range fr[:len(fr)-1] {
		ch := d.children[f]
		if ch == nil || !ch.isDir {
			return nil, ""
		}
		d = ch
	}
	return d, fr[len(fr)-1]
}

func (c *crashFS) lookup(fullname string) *snode {
	fr := splitPath(fullname)
	d := c.root
	for _, f := range fr {
		if d == nil || !d.isDir {
			return nil
		}
		d = d.children[f]
	}
	return d
}

func (c *crashFS) pre(kind, p string, n int) {
	c.ops++
	if c.before != nil {
		c.before(fsOp{Kind: kind, Path: p, N: n})
	}
}

func (c *crashFS) preOp(op fsOp) {
	c.ops++
	if c.before != nil {
		c.before(op)
	}
}

func (c *crashFS) shadowCreate(name string) *snode {
	d, frag := c.lookupParent(name)
	if d == nil {
		panic("c09 shadow: create under missing directory " + name)
	}
	n := &snode{}
	d.children[frag] = n
	return n
}

func (c *crashFS) Create(name string, cat vfs.DiskWriteCategory) (vfs.File, error) {
	c.mu.Lock()
	defer c.mu.Unlock()
	c.pre("create", name, 0)
	f, err := c.inner.Create(name, cat)
	if err != nil {
		return nil, err
	}
	return &crashFile{fs: c, f: f, n: c.shadowCreate(name), name: name}, nil
}

func (c *crashFS) Link(oldname, newname string) error {
	c.mu.Lock()
	defer c.mu.Unlock()
	c.pre("link", oldname+"->"+newname, 0)
	if err := c.inner.Link(oldname, newname); err != nil {
		return err
	}
	n := c.lookup(oldname)
	d, frag := c.lookupParent(newname)
	if n == nil || d == nil {
		panic("c09 shadow: link out of step")
	}
	d.children[frag] = n
	return nil
}

func (c *crashFS) Open(name string, opts ...vfs.OpenOption) (vfs.File, error) {
	c.mu.Lock()
	defer c.mu.Unlock()
	f, err := c.inner.Open(name, opts...)
	if err != nil {
		return nil, err
	}
	n := c.lookup(name)
	if n == nil {
		panic("c09 shadow: open of a file the shadow does not have: " + name)
	}
	return &crashFile{fs: c, f: f, n: n, name: name}, nil
}

func (c *crashFS) OpenReadWrite(name string, cat vfs.DiskWriteCategory, opts ...vfs.OpenOption) (vfs.File, error) {
	c.mu.Lock()
	defer c.mu.Unlock()
	exists := c.lookup(name) != nil
	if !exists {
		c.pre("create", name, 0)
	}
	f, err := c.inner.OpenReadWrite(name, cat, opts...)
	if err != nil {
		return nil, err
	}
	var n *snode
	if exists {
		n = c.lookup(name)
	} else {
		n = c.shadowCreate(name)
	}
	return &crashFile{fs: c, f: f, n: n, name: name}, nil
}

func (c *crashFS) OpenDir(name string) (vfs.File, error) {
	c.mu.Lock()
	defer c.mu.Unlock()
	f, err := c.inner.OpenDir(name)
	if err != nil {
		return nil, err
	}
	n := c.lookup(name)
	if n == nil {
		panic("c09 shadow: opendir out of step: " + name)
	}
	return &crashFile{fs: c, f: f, n: n, name: name}, nil
}

func (c *crashFS) Remove(name string) error {
	c.mu.Lock()
	defer c.mu.Unlock()
	c.pre("remove", name, 0)
	if err := c.inner.Remove(name); err != nil {
		return err
	}
	d, frag := c.lookupParent(name)
	delete(d.children, frag)
	return nil
}

func (c *crashFS) RemoveAll(name string) error {
	c.mu.Lock()
	defer c.mu.Unlock()
	c.pre("removeall", name, 0)
	if err := c.inner.RemoveAll(name); err != nil {
		return err
	}
	if d, frag := c.lookupParent(name); d != nil {
		delete(d.children, frag)
	}
	return nil
}

func (c *crashFS) shadowRename(oldname, newname string) {
	od, of := c.lookupParent(oldname)
	n := od.children[of]
	delete(od.children, of)
	nd, nf := c.lookupParent(newname)
	if n == nil || nd == nil {
		panic("c09 shadow: rename out of step")
	}
	nd.children[nf] = n
}

func (c *crashFS) Rename(oldname, newname string) error {
	c.mu.Lock()
	defer c.mu.Unlock()
	c.pre("rename", oldname+"->"+newname, 0)
	if err := c.inner.Rename(oldname, newname); err != nil {
		return err
	}
	c.shadowRename(oldname, newname)
	return nil
}

func (c *crashFS) ReuseForWrite(oldname, newname string, cat vfs.DiskWriteCategory) (vfs.File, error) {
	c.mu.Lock()
	defer c.mu.Unlock()
	c.pre("reuse", oldname+"->"+newname, 0)
	f, err := c.inner.ReuseForWrite(oldname, newname, cat)
	if err != nil {
		return nil, err
	}
	c.shadowRename(oldname, newname)
	return &crashFile{fs: c, f: f, n: c.lookup(newname), name: newname}, nil
}

func (c *crashFS) MkdirAll(dir string, perm os.FileMode) error {
	c.mu.Lock()
	defer c.mu.Unlock()
	c.pre("mkdirall", dir, 0)
	if err := c.inner.MkdirAll(dir, perm); err != nil {
		return err
	}
	d := c.root
	for _, f := range splitPath(dir) {
		ch := d.children[f]
		if ch == nil {
			ch = newDir()
			d.children[f] = ch
		}
		d = ch
	}
	return nil
}

func (c *crashFS) Lock(name string) (io.Closer, error) {
	c.mu.Lock()
	defer c.mu.Unlock()
	c.pre("lock", name, 0)
	l, err := c.inner.Lock(name)
	if err != nil {
		return nil, err
	}
	c.shadowCreate(name) // MemFS.Lock creates the file
	return l, nil
}

func (c *crashFS) List(dir string) ([]string, error) { return c.inner.List(dir) }
func (c *crashFS) Stat(name string) (vfs.FileInfo, error) {
	return c.inner.Stat(name)
}
func (c *crashFS) PathBase(p string) string       { return path.Base(p) }
func (c *crashFS) PathJoin(elem ...string) string { return path.Join(elem...) }
func (c *crashFS) PathDir(p string) string        { return path.Dir(p) }
func (c *crashFS) GetDiskUsage(p string) (vfs.DiskUsage, error) {
	return c.inner.GetDiskUsage(p)
}
func (c *crashFS) Unwrap() vfs.FS { return nil }

type crashFile struct {
	fs   *crashFS
	f    vfs.File
	n    *snode
	name string
	pos  int
}

func (f *crashFile) Close() error { return f.f.Close() }

func (f *crashFile) Read(p []byte) (int, error) {
	f.fs.mu.Lock()
	defer f.fs.mu.Unlock()
	n, err := f.f.Read(p)
	f.pos += n
	return n, err
}

func (f *crashFile) ReadAt(p []byte, off int64) (int, error) { return f.f.ReadAt(p, off) }

func (f *crashFile) Write(p []byte) (int, error) {
	f.fs.mu.Lock()
	defer f.fs.mu.Unlock()
	if f.pos == len(f.n.data) && len(p) > 1 && len(p) <= 1<<20 {
		f.fs.preOp(fsOp{Kind: "write", Path: f.name, N: len(p), Appended: bytes.Clone(p)})
	} else {
		f.fs.pre("write", f.name, len(p))
	}
	n, err := f.f.Write(p)
	if err != nil {
		return n, err
	}
	sn := f.n
	if f.pos+len(p) <= len(sn.data) {
		nd := bytes.Clone(sn.data) // never overwrite shared bytes in place
		copy(nd[f.pos:], p)
		sn.data = nd
	} else {
		if grow := f.pos - len(sn.data); grow > 0 {
			sn.data = append(sn.data[:len(sn.data):len(sn.data)], make([]byte, grow)...)
		}
		if f.pos == len(sn.data) {
			sn.data = append(sn.data, p...) // pure append: bytes a snapshot can see are not touched
		} else {
			sn.data = append(sn.data[:f.pos:f.pos], p...) // truncating write: reallocate
		}
	}
	f.pos += len(p)
	return n, nil
}

func (f *crashFile) WriteAt(p []byte, ofs int64) (int, error) {
	f.fs.mu.Lock()
	defer f.fs.mu.Unlock()
	f.fs.pre("writeat", f.name, len(p))
	n, err := f.f.WriteAt(p, ofs)
	if err != nil {
		return n, err
	}
	sn := f.n
	nd := bytes.Clone(sn.data)
	if need := int(ofs) + len(p) - len(nd); need > 0 {
		nd = append(nd, make([]byte, need)...)
	}
	copy(nd[int(ofs):], p)
	sn.data = nd
	return n, nil
}

func (f *crashFile) Preallocate(offset, length int64) error {
	f.fs.mu.Lock()
	f.fs.noops++
	f.fs.mu.Unlock()
	return f.f.Preallocate(offset, length)
}
func (f *crashFile) Stat() (vfs.FileInfo, error) { return f.f.Stat() }

func (f *crashFile) sync(kind string, do func() error) error {
	f.fs.mu.Lock()
	defer f.fs.mu.Unlock()
	f.fs.pre(kind, f.name, 0)
	if err := do(); err != nil {
		return err
	}
	if f.n.isDir {
		f.n.synced = make(map[string]*snode, len(f.n.children))
		for k, v := range f.n.children {
			f.n.synced[k] = v
		}
	} else {
		f.n.sdata = f.n.data // bytes below len are immutable (see Write)
	}
	return nil
}

func (f *crashFile) Sync() error     { return f.sync("sync", f.f.Sync) }
func (f *crashFile) SyncData() error { return f.sync("syncdata", f.f.SyncData) }
func (f *crashFile) SyncTo(length int64) (bool, error) {
	// MemFS.SyncTo gives no durability at all (returns fullSync=false without syncing)
	f.fs.mu.Lock()
	f.fs.noops++
	f.fs.mu.Unlock()
	return f.f.SyncTo(length)
}
func (f *crashFile) Prefetch(offset, length int64) error { return f.f.Prefetch(offset, length) }
func (f *crashFile) Fd() uintptr                         { return f.f.Fd() }

// ---------------------------------------------------------------------------------------
// real MemFS -> image, image -> MemFS

func dumpFS(fs vfs.FS) *image {
	im := &image{Files: map[string][]byte{}}
	var walk func(dir string)
	walk = func(dir string) {
		names, err := fs.List(dir)
		if err != nil {
			panic(err)
		}
		sort.Strings(names)
		for _, n := range names {
			p := dir + "/" + n
			if dir == "/" {
				p = "/" + n
			}
			st, err := fs.Stat(p)
			if err != nil {
				panic(err)
			}
			if st.IsDir() {
				im.Dirs = append(im.Dirs, p)
				walk(p)
				continue
			}
			f, err := fs.Open(p)
			if err != nil {
				panic(err)
			}
			buf := make([]byte, st.Size())
			if len(buf) > 0 {
				if _, err := f.ReadAt(buf, 0); err != nil && err != io.EOF {
					panic(err)
				}
			}
			f.Close()
			im.Files[p] = buf
		}
	}
	walk("/")
	return im
}

// materialise builds a plain (non-crashable) MemFS holding the image, everything synced —
// the disk a restarted process finds.
func (im *image) materialise() *vfs.MemFS {
	fs := vfs.NewMem()
	for _, d := range im.Dirs {
		if err := fs.MkdirAll(d, 0o755); err != nil {
			panic(err)
		}
	}
	for p, bz := range im.Files {
		if err := fs.MkdirAll(path.Dir(p), 0o755); err != nil {
			panic(err)
		}
		f, err := fs.Create(p, vfs.WriteCategoryUnspecified)
		if err != nil {
			panic(err)
		}
		if len(bz) > 0 {
			if _, err := f.Write(bz); err != nil {
				panic(err)
			}
		}
		f.Close()
	}
	return fs
}

// ---------------------------------------------------------------------------------------
// scripted math/rand/v2 source for the real CrashClone

// scriptSource answers draw i with keep if script[i] (or dflt beyond the script).
// IntN(100) takes the high 32 bits: 0x01000000 -> 0 (keep at 50%), 0xFF000000 -> 99 (drop).
// Never 0 / small values: Lemire's rejection loop would spin.
type scriptSource struct {
	flip  int // index whose answer is !dflt (-1: none)
	dflt  bool
	calls int
}

func (s *scriptSource) Uint64() uint64 {
	keep := s.dflt
	if s.calls == s.flip {
		keep = !keep
	}
	s.calls++
	if keep {
		return 0x01000000 << 32
	}
	return 0xFF000000 << 32
}

func realClone(fs *vfs.MemFS, flip int, dflt bool) (*image, int) {
	src := &scriptSource{flip: flip, dflt: dflt}
	cl := fs.CrashClone(vfs.CrashCloneCfg{UnsyncedDataPercent: 50, RNG: rand.New(src)})
	return dumpFS(cl), src.calls
}

var vfsCfgZero = vfs.CrashCloneCfg{}
