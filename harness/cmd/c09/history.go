package main

// The block history, the way it is written to a store (production order of
// controller.CommitCertificate: state writes -> Root() for the header -> IndexQC ->
// IndexBlock(+txs,+events) -> Commit), the reference record of an uninterrupted run and
// the observation function that is applied to the reference run and to every recovered
// crash image alike.

import (
	"bytes"
	"crypto/ed25519"
	"crypto/sha256"
	"encoding/hex"
	"fmt"
	"sort"
	"strings"
	"sync"
	"sync/atomic"

	"github.com/canopy-network/canopy/fsm"
	"github.com/canopy-network/canopy/lib"
	"github.com/canopy-network/canopy/lib/crypto"
	"github.com/canopy-network/canopy/store"
	"github.com/cockroachdb/pebble/v2"
	"github.com/cockroachdb/pebble/v2/vfs"
)

const dbDir = "/data/canopy"

// ---------------------------------------------------------------------------------------
// logger that remembers Fatal (a production node would exit there)

type capLogger struct {
	mu     sync.Mutex
	fatals []string
	errors []string
	// Store.Compact calls that have returned (finished, skipped or failed); the store
	// starts them in goroutines it offers no way to join.
	compactDone atomic.Int64
}

func (l *capLogger) Debug(string) {}
func (l *capLogger) Info(string)  {}
func (l *capLogger) Warn(string)  {}
func (l *capLogger) Print(string) {}
func (l *capLogger) Debugf(f string, _ ...any) {
	if strings.HasPrefix(f, "key compaction finished") || strings.HasPrefix(f, "key compaction skipped") {
		l.compactDone.Add(1)
	}
}
func (l *capLogger) Infof(string, ...any)  {}
func (l *capLogger) Warnf(string, ...any)  {}
func (l *capLogger) Printf(string, ...any) {}
func (l *capLogger) Error(m string)        { l.add(&l.errors, m) }
func (l *capLogger) Errorf(f string, a ...any) {
	if strings.Contains(f, "key compaction failed") {
		l.compactDone.Add(1)
	}
	l.add(&l.errors, fmt.Sprintf(f, a...))
}
func (l *capLogger) Fatal(m string)            { l.add(&l.fatals, m) }
func (l *capLogger) Fatalf(f string, a ...any) { l.add(&l.fatals, fmt.Sprintf(f, a...)) }
func (l *capLogger) add(dst *[]string, m string) {
	l.mu.Lock()
	if len(*dst) < 8 {
		*dst = append(*dst, m)
	}
	l.mu.Unlock()
}
func (l *capLogger) fatal() string {
	l.mu.Lock()
	defer l.mu.Unlock()
	return strings.Join(l.fatals, " | ")
}

var _ lib.LoggerI = &capLogger{}

// ---------------------------------------------------------------------------------------
// scenario

type scenario struct {
	Name         string `json:"name"`
	Blocks       int    `json:"blocks"`       // blocks after genesis: commits = Blocks+1, versions 1..Blocks+1
	CompactEvery uint64 `json:"compactEvery"` // StoreConfig.LSSCompactionInterval (0 = never)
	Journal      bool   `json:"journal"`      // StoreConfig.StateChangeJournalEnabled
	RestartAfter int    `json:"restartAfter"` // clean Close()+reopen after this version (0 = never)
	RollbackTo   int    `json:"rollbackTo"`   // after the history: Rollback(to) (0 = none)
	NoWait       bool   `json:"noWait"`       // do not wait for background work between commits
	Big          int    `json:"big"`          // size of the one large state value per block (0 = 1500 bytes)
	ManyTxs      int    `json:"manyTxs"`      // block 2 carries this many transactions and events instead of 2 (0 = 2)
}

func (sc scenario) big() int {
	if sc.Big == 0 {
		return 1500
	}
	return sc.Big
}

func (sc scenario) commits() int { return sc.Blocks + 1 }

// compactCalls = Store.Compact calls MaybeCompact makes after committing version v.
func (sc scenario) compactCalls(v int) int64 {
	if sc.CompactEvery == 0 || uint64(v)%sc.CompactEvery != 0 {
		return 0
	}
	if (uint64(v)/sc.CompactEvery)%4 == 0 {
		return 2
	}
	return 1
}

// quietConfig: the same store configuration without the store's background compaction
// goroutines (they cannot be joined and panic when the DB is closed under them). Used for
// the reference run and for recovering images; what is read does not depend on compaction.
func (sc scenario) quietConfig() lib.Config {
	c := sc.config()
	c.StoreConfig.LSSCompactionInterval = 0
	return c
}

func (sc scenario) config() lib.Config {
	c := lib.DefaultConfig()
	c.StoreConfig.LSSCompactionInterval = sc.CompactEvery
	c.StoreConfig.StateChangeJournalEnabled = sc.Journal
	c.StoreConfig.IndexByAccount = true
	c.StoreConfig.BackupInterval = 0
	c.StoreConfig.InMemory = false
	return c
}

// ---------------------------------------------------------------------------------------
// block content (a pure function of the version)

const nKeys = 10

var (
	signer   = crypto.BytesToED25519Private(ed25519.NewKeyFromSeed(bytes.Repeat([]byte{0x09}, 32)))
	proposer = crypto.BytesToED25519Private(ed25519.NewKeyFromSeed(bytes.Repeat([]byte{0x19}, 32)))
)

func addr(i int) []byte {
	h := sha256.Sum256([]byte(fmt.Sprintf("c09-addr-%d", i)))
	return h[:20]
}

// stateKey i: the layout of an account key ([1][address]).
func stateKey(i int) []byte { return lib.JoinLenPrefix([]byte{1}, addr(i)) }

func stateVal(v uint64, i int, size int) []byte {
	var b []byte
	for c := 0; len(b) < size; c++ {
		h := sha256.Sum256([]byte(fmt.Sprintf("c09-val-%d-%d-%d", v, i, c)))
		b = append(b, h[:]...)
	}
	return b[:size]
}

type kvop struct {
	Key []byte
	Val []byte
	Del bool
}

// stateOps of the commit that produces version v. exists = keys present before (model).
func stateOps(v uint64, big int, exists func(k []byte) bool) []kvop {
	var ops []kvop
	if v == 1 { // genesis-like: sets only
		for i := 0; i < 7; i++ {
			ops = append(ops, kvop{Key: stateKey(i), Val: stateVal(v, i, 40+11*i)})
		}
		return ops
	}
	b := int(3 * v)
	ops = append(ops, kvop{Key: stateKey(0), Val: stateVal(v, 0, 48)})                      // hot key overwritten every block
	ops = append(ops, kvop{Key: stateKey(1 + b%9), Val: stateVal(v, 1, 64)})                // set
	ops = append(ops, kvop{Key: stateKey(1 + (b+1)%9), Val: stateVal(v, 2, big+int(v)*97)}) // large value
	ops = append(ops, kvop{Key: stateKey(1 + (b+2)%9), Val: stateVal(v, 3, 33)})            // set then ...
	ops = append(ops, kvop{Key: stateKey(1 + (b+2)%9), Del: true})                          // ... deleted in the same block
	dk := stateKey(1 + (b+5)%9)
	if exists(dk) {
		ops = append(ops, kvop{Key: dk, Del: true}) // delete of a key committed earlier
	} else {
		ops = append(ops, kvop{Key: dk, Val: stateVal(v, 4, 21)})
		// and delete some other committed key so that every block has a real delete
		for i := 1; i < nKeys; i++ {
			k := stateKey(i)
			used := false
			for _, o := range ops {
				if bytes.Equal(o.Key, k) {
					used = true
				}
			}
			if !used && exists(k) {
				ops = append(ops, kvop{Key: k, Del: true})
				break
			}
		}
	}
	// a key that holds the EMPTY value (how the state machine stores set membership, e.g. committee and delegate
	// keys: Set(key, nil)): written by every even version, deleted by every odd one
	ek := stateKey(nKeys)
	if v%2 == 0 {
		ops = append(ops, kvop{Key: ek, Val: []byte{}})
	} else if exists(ek) {
		ops = append(ops, kvop{Key: ek, Del: true})
	}
	return ops
}

// model: version -> key -> value (boring reference for the state component)
type stateModel struct {
	at []map[string]string // at[v] = full state at version v (at[0] empty)
}

func buildModel(maxV, big int) (*stateModel, [][]kvop) {
	m := &stateModel{at: []map[string]string{{}}}
	all := [][]kvop{nil}
	for v := 1; v <= maxV; v++ {
		cur := map[string]string{}
		for k, x := range m.at[v-1] {
			cur[k] = x
		}
		prev := m.at[v-1]
		ops := stateOps(uint64(v), big, func(k []byte) bool { _, ok := prev[string(k)]; return ok })
		for _, o := range ops {
			if o.Del {
				delete(cur, string(o.Key))
			} else {
				cur[string(o.Key)] = string(o.Val)
			}
		}
		m.at = append(m.at, cur)
		all = append(all, ops)
	}
	return m, all
}

func (m *stateModel) render(v int) string {
	ks := make([]string, 0, len(m.at[v]))
	for k := range m.at[v] {
		ks = append(ks, k)
	}
	sort.Strings(ks)
	var sb strings.Builder
	for _, k := range ks {
		fmt.Fprintf(&sb, "%x=%s,", k, short([]byte(m.at[v][k])))
	}
	return sb.String()
}

func short(b []byte) string {
	if len(b) <= 24 {
		return hex.EncodeToString(b)
	}
	h := sha256.Sum256(b)
	return fmt.Sprintf("%x..#%d:%x", b[:8], len(b), h[:8])
}

// blockObjects builds the indexed objects of block height H (= version-1) given the state
// root after the block's writes and the previous block hash.
// manyTxs is the scenario's ManyTxs (set by setScenario before any block object of the scenario is built;
// one scenario at a time per process).
var manyTxs int

func setScenario(sc scenario) { manyTxs = sc.ManyTxs }

func txsAt(H uint64) int {
	if H == 2 && manyTxs > 0 {
		return manyTxs
	}
	return 2
}

func blockObjects(H uint64, stateRoot, lastHash []byte) (*lib.BlockResult, *lib.QuorumCertificate) {
	var txs []*lib.TxResult
	n := txsAt(H)
	for i := 0; i < n; i++ {
		msg, e := lib.NewAny(&fsm.MessageSend{FromAddress: signer.PublicKey().Address().Bytes(), ToAddress: addr(int(H) + i), Amount: 1000*H + uint64(i)})
		if e != nil {
			panic(e)
		}
		tx := &lib.Transaction{MessageType: "send", Msg: msg, Time: 1_700_000_000_000_000 + H*1000 + uint64(i), CreatedHeight: H, Fee: 10000, NetworkId: 1, ChainId: 1, Memo: fmt.Sprintf("c09 %d/%d", H, i)}
		if e := tx.Sign(signer); e != nil {
			panic(e)
		}
		hash, e := tx.GetHash()
		if e != nil {
			panic(e)
		}
		txs = append(txs, &lib.TxResult{Sender: signer.PublicKey().Address().Bytes(), Recipient: addr(int(H) + i), MessageType: "send",
			Height: H, Index: uint64(i), Transaction: tx, TxHash: lib.BytesToString(hash)})
	}
	events := []*lib.Event{
		{EventType: "reward", Msg: &lib.Event_Reward{Reward: &lib.EventReward{Amount: 7 * H}}, Height: H, Reference: "begin_block", ChainId: 1, Address: addr(int(H))},
		{EventType: "reward", Msg: &lib.Event_Reward{Reward: &lib.EventReward{Amount: 9 * H}}, Height: H, Reference: "end_block", ChainId: 2, Address: signer.PublicKey().Address().Bytes()},
	}
	if H%2 == 0 {
		// a byte-identical twin of the first event (the same address rewarded the same amount twice in begin_block): events are
		// stored content-addressed, so both index positions point at one body and both must come back (sixth-round seed C09)
		events = append(events, &lib.Event{EventType: "reward", Msg: &lib.Event_Reward{Reward: &lib.EventReward{Amount: 7 * H}}, Height: H, Reference: "begin_block", ChainId: 1, Address: addr(int(H))})
	}
	for i := 2; i < n; i++ {
		events = append(events, &lib.Event{EventType: "reward", Msg: &lib.Event_Reward{Reward: &lib.EventReward{Amount: 11*H + uint64(i)}}, Height: H, Reference: txs[i].TxHash, ChainId: 1, Address: addr(int(H) + i)})
	}
	hdr := &lib.BlockHeader{Height: H, NetworkId: 1, Time: 1_700_000_000_000_000 + H*1_000_000, NumTxs: uint64(n), TotalTxs: 2 * H,
		TotalVdfIterations: 100 * H, LastBlockHash: lastHash, StateRoot: stateRoot,
		TransactionRoot: crypto.Hash([]byte(txs[0].TxHash + txs[1].TxHash)), ValidatorRoot: crypto.Hash([]byte("vals")), NextValidatorRoot: crypto.Hash([]byte("vals")),
		ProposerAddress: proposer.PublicKey().Address().Bytes()}
	hb, e := lib.Marshal(hdr)
	if e != nil {
		panic(e)
	}
	hdr.Hash = crypto.Hash(hb)
	qc := &lib.QuorumCertificate{
		Header:      &lib.View{NetworkId: 1, ChainId: 1, Height: H, RootHeight: H, Round: 0, Phase: lib.Phase_PRECOMMIT_VOTE},
		Results:     &lib.CertificateResult{RewardRecipients: &lib.RewardRecipients{PaymentPercents: []*lib.PaymentPercents{{Address: addr(int(H)), Percent: 100, ChainId: 1}}}},
		ResultsHash: crypto.Hash([]byte(fmt.Sprintf("results-%d", H))),
		BlockHash:   hdr.Hash,
		ProposerKey: proposer.PublicKey().Bytes(),
		Signature:   &lib.AggregateSignature{Signature: stateVal(H, 99, 96), Bitmap: []byte{0x0f}},
	}
	return &lib.BlockResult{BlockHeader: hdr, Transactions: txs, Events: events}, qc
}

// applyCommit writes the commit that produces version v on st, in production order, and
// returns the root. lastHash = hash of block v-2 (nil for the first block).
// beforeCommit is called immediately before Store.Commit().
func applyCommit(st *store.Store, v uint64, ops []kvop, lastHash []byte, beforeCommit func()) (root, blockHash []byte, err error) {
	defer func() {
		if p := recover(); p != nil {
			err = fmt.Errorf("panic while applying version %d: %v", v, p)
		}
	}()
	if st.Version() != v-1 {
		return nil, nil, fmt.Errorf("store at version %d, cannot apply the commit for version %d", st.Version(), v)
	}
	for _, o := range ops {
		var e lib.ErrorI
		if o.Del {
			e = st.Delete(bytes.Clone(o.Key))
		} else {
			e = st.Set(bytes.Clone(o.Key), bytes.Clone(o.Val))
		}
		if e != nil {
			return nil, nil, e
		}
	}
	hdrRoot, e := st.Root() // fsm.ApplyBlock takes the root for the header here
	if e != nil {
		return nil, nil, e
	}
	if v >= 2 { // version 1 is the genesis commit: state only, no block (fsm.NewFromGenesisFile)
		H := v - 1
		blk, qc := blockObjects(H, hdrRoot, lastHash)
		blockHash = blk.BlockHeader.Hash
		// written by the FSM while it applies a block (same batch)
		if H%2 == 0 {
			if e := st.IndexCheckpoint(7, &lib.Checkpoint{Height: H, BlockHash: crypto.Hash([]byte(fmt.Sprintf("cp-%d", H)))}); e != nil {
				return nil, nil, e
			}
		}
		if H%3 == 0 {
			if e := st.IndexDoubleSigner(addr(3), H); e != nil {
				return nil, nil, e
			}
		}
		if e := st.IndexQC(qc); e != nil {
			return nil, nil, e
		}
		if e := st.IndexBlock(blk); e != nil {
			return nil, nil, e
		}
	}
	if beforeCommit != nil {
		beforeCommit()
	}
	root, e = st.Commit()
	if e != nil {
		return nil, nil, e
	}
	if !bytes.Equal(root, hdrRoot) {
		return nil, nil, fmt.Errorf("version %d: Commit() root %x differs from Root() taken for the header %x", v, root, hdrRoot)
	}
	return root, blockHash, nil
}

// ---------------------------------------------------------------------------------------
// observation

type observation struct {
	Version uint64            `json:"version"`
	Root    string            `json:"root"`
	Latest  string            `json:"latest"`
	Hist    []string          `json:"hist"`  // Hist[v-1] = NewReadOnly(v) scan, v = 1..Version
	Index   []string          `json:"index"` // Index[H-1] for H = 1..maxH
	Misc    string            `json:"misc"`
	FSM     string            `json:"fsm"`
	RawKV   map[string]string `json:"rawkv"` // per top-level prefix: count:hash of all visible pebble entries
}

func scan(r lib.RStoreI) (s string) {
	defer func() {
		if p := recover(); p != nil {
			s = fmt.Sprintf("PANIC:%v", p)
		}
	}()
	var sb strings.Builder
	it, e := r.Iterator(nil)
	if e != nil {
		return "ERR:" + e.Error()
	}
	var keys [][]byte
	n := 0
	for ; it.Valid(); it.Next() {
		fmt.Fprintf(&sb, "%x=%s,", it.Key(), short(it.Value()))
		keys = append(keys, bytes.Clone(it.Key()))
		if n++; n > 1000 {
			it.Close()
			return "ERR:iterator does not end"
		}
	}
	it.Close()
	fwd := sb.String()
	// reverse iteration must be the mirror image, point reads must agree
	rit, e := r.RevIterator(nil)
	if e != nil {
		return "ERR:" + e.Error()
	}
	var rk []string
	for ; rit.Valid(); rit.Next() {
		rk = append(rk, fmt.Sprintf("%x=%s,", rit.Key(), short(rit.Value())))
		if len(rk) > 1000 {
			break
		}
	}
	rit.Close()
	var rsb strings.Builder
	for i := len(rk) - 1; i >= 0; i-- {
		rsb.WriteString(rk[i])
	}
	if rsb.String() != fwd {
		return "ERR:reverse iteration " + rsb.String() + " is not the mirror of forward " + fwd
	}
	for i := 0; i < nKeys; i++ {
		k := stateKey(i)
		val, e := r.Get(k)
		if e != nil {
			return "ERR:" + e.Error()
		}
		inScan := strings.Contains(fwd, fmt.Sprintf("%x=", k))
		if (val != nil) != inScan || (val != nil && !strings.Contains(fwd, fmt.Sprintf("%x=%s,", k, short(val)))) {
			return fmt.Sprintf("ERR:Get(%x)=%s disagrees with the scan %s", k, short(val), fwd)
		}
	}
	return fwd
}

func ser(msg any, e lib.ErrorI) string {
	if e != nil {
		return "ERR:" + e.Error()
	}
	switch x := msg.(type) {
	case *lib.BlockResult:
		if x == nil {
			return "nil"
		}
		bz, _ := lib.Marshal(x)
		return short(bz) + fmt.Sprintf("(h=%d,txs=%d,ev=%d)", x.GetBlockHeader().GetHeight(), len(x.Transactions), len(x.Events))
	case *lib.QuorumCertificate:
		if x == nil {
			return "nil"
		}
		bz, _ := lib.Marshal(x)
		return short(bz)
	case *lib.TxResult:
		if x == nil {
			return "nil"
		}
		bz, _ := lib.Marshal(x)
		return short(bz)
	case []*lib.TxResult:
		var sb strings.Builder
		for _, t := range x {
			bz, _ := lib.Marshal(t)
			sb.WriteString(short(bz) + ";")
		}
		return fmt.Sprintf("%d[%s]", len(x), sb.String())
	case []*lib.Event:
		var sb strings.Builder
		for _, t := range x {
			bz, _ := lib.Marshal(t)
			sb.WriteString(short(bz) + ";")
		}
		return fmt.Sprintf("%d[%s]", len(x), sb.String())
	case *lib.Page:
		if x == nil {
			return "nil"
		}
		return fmt.Sprintf("page(total=%d,count=%d)", x.TotalCount, x.Count)
	case lib.HexBytes:
		return hex.EncodeToString(x)
	}
	return fmt.Sprintf("%v", msg)
}

// guard turns a panic of the code under test into an observable string.
func guard(f func() string) (s string) {
	defer func() {
		if p := recover(); p != nil {
			s = fmt.Sprintf("PANIC:%v", p)
		}
	}()
	return f()
}

// observe reads everything the property talks about from an open store at its version.
// ref supplies the hashes to look up (block / tx hashes of the uninterrupted run).
func observe(st *store.Store, cfg lib.Config, maxH int, hashes *refHashes, log lib.LoggerI) *observation {
	o := &observation{Version: st.Version()}
	o.RawKV = rawKV(st.DB())
	o.Root = guard(func() string {
		root, e := st.Root()
		st.Reset() // Root() caches the tree on the store; production resets (FSM.Reset) before the next block
		if e != nil {
			return "ERR:" + e.Error()
		}
		return hex.EncodeToString(root)
	})
	o.Latest = scan(st)
	for v := uint64(1); v <= o.Version; v++ {
		o.Hist = append(o.Hist, guard(func() string {
			ro, e := st.NewReadOnly(v)
			if e != nil {
				return "ERR:" + e.Error()
			}
			defer ro.Discard()
			return scan(ro)
		}))
	}
	for H := uint64(1); H <= uint64(maxH); H++ {
		o.Index = append(o.Index, guard(func() string {
			var sb strings.Builder
			store.VerifC09PurgeBlockCache()
			fmt.Fprintf(&sb, "B:%s|", ser(st.GetBlockByHeight(H)))
			store.VerifC09PurgeBlockCache()
			fmt.Fprintf(&sb, "BH:%s|", ser(st.GetBlockByHash(hashes.block[H])))
			store.VerifC09PurgeBlockCache()
			fmt.Fprintf(&sb, "Q:%s|", ser(st.GetQCByHeight(H)))
			store.VerifC09PurgeBlockCache()
			fmt.Fprintf(&sb, "T:%s|", ser(st.GetTxsByHeightNonPaginated(H, false)))
			fmt.Fprintf(&sb, "E:%s|", ser(st.GetEventsNonPaginated(H, false)))
			for _, th := range hashes.txs[H] {
				fmt.Fprintf(&sb, "TH:%s|", ser(st.GetTxByHash(th)))
			}
			fmt.Fprintf(&sb, "CP:%s|", ser(st.GetCheckpoint(7, H)))
			if cfg.StoreConfig.StateChangeJournalEnabled {
				keys, avail, e := st.StateChangeKeys(H+1, nil)
				fmt.Fprintf(&sb, "J:%v,%d,%v|", avail, len(keys), e)
			}
			return sb.String()
		}))
	}
	o.Misc = guard(func() string {
		var sb strings.Builder
		fmt.Fprintf(&sb, "S:%s|", ser(st.GetTxsBySender(signer.PublicKey().Address(), false, lib.PageParams{PageNumber: 1, PerPage: 100})))
		fmt.Fprintf(&sb, "R:%s|", ser(st.GetTxsByRecipient(crypto.NewAddress(addr(2)), false, lib.PageParams{PageNumber: 1, PerPage: 100})))
		fmt.Fprintf(&sb, "EA:%s|", ser(st.GetEventsByAddress(signer.PublicKey().Address(), false, lib.PageParams{PageNumber: 1, PerPage: 100})))
		fmt.Fprintf(&sb, "EC:%s|", ser(st.GetEventsByChainId(2, false, lib.PageParams{PageNumber: 1, PerPage: 100})))
		ds, e := st.GetDoubleSigners()
		var hs []string
		for _, d := range ds {
			hs = append(hs, fmt.Sprintf("%x:%v", d.Id, d.Heights))
		}
		sort.Strings(hs)
		fmt.Fprintf(&sb, "DS:%v,%v|", hs, e)
		cps, e := st.GetAllCheckpoints(7)
		fmt.Fprintf(&sb, "CPS:%d,%v|", len(cps), e)
		return sb.String()
	})
	// the restart path of a node: fsm.New -> Initialize -> LoadBlock(version-1). Version 0
	// would read genesis.json from the OS file system and commit; that is block 1 of the
	// history here, so it is not invoked at version 0.
	if o.Version >= 1 {
		o.FSM = guard(func() string {
			store.VerifC09PurgeBlockCache()
			sm, e := fsm.New(cfg, st, nil, nil, log)
			if e != nil {
				return "ERR:" + e.Error()
			}
			return fmt.Sprintf("height=%d,vdf=%d", sm.Height(), sm.TotalVDFIterations())
		})
	}
	store.VerifC09PurgeBlockCache()
	return o
}

var topPrefixes = []string{"s/", "h/", "c/", "i/", "x/", "a/"}

// rawKV digests every visible pebble entry, grouped by the store's top-level prefix.
func rawKV(db *pebble.DB) map[string]string {
	out := map[string]string{}
	type acc struct {
		n int
		h interface {
			Write([]byte) (int, error)
			Sum([]byte) []byte
		}
	}
	accs := map[string]*acc{}
	it, err := db.NewIter(nil)
	if err != nil {
		return map[string]string{"ERR": err.Error()}
	}
	defer it.Close()
	for ok := it.First(); ok; ok = it.Next() {
		k := it.Key()
		grp := "?"
		for _, p := range topPrefixes {
			if bytes.HasPrefix(k, lib.JoinLenPrefix([]byte(p))) {
				grp = p
			}
		}
		a := accs[grp]
		if a == nil {
			a = &acc{h: sha256.New()}
			accs[grp] = a
		}
		a.n++
		fmt.Fprintf(a.h, "%d:%d:", len(k), len(it.Value()))
		a.h.Write(k)
		a.h.Write(it.Value())
	}
	for g, a := range accs {
		out[g] = fmt.Sprintf("%d:%x", a.n, a.h.Sum(nil)[:8])
	}
	return out
}

// ---------------------------------------------------------------------------------------
// reference: the uninterrupted run

type refHashes struct {
	block map[uint64][]byte
	txs   map[uint64][][]byte
}

type reference struct {
	sc     scenario
	maxV   int // versions 1..maxV are known (commits of the history + one continuation block)
	model  *stateModel
	ops    [][]kvop
	roots  []string // roots[v]
	bhash  [][]byte // bhash[v] = hash of the block committed at version v (nil for v<2)
	hashes *refHashes
	obs    []*observation // obs[v], v = 0..maxV, taken on the live uninterrupted store right after Commit(v)
	digest string
}

// buildReference runs versions 1..commits+1 without interruption on a plain MemFS store
// opened with the production options.
func buildReference(sc scenario) (*reference, error) {
	setScenario(sc)
	ref := &reference{sc: sc, maxV: sc.commits() + 1}
	ref.model, ref.ops = buildModel(ref.maxV, sc.big())
	cfg := sc.quietConfig()
	log := &capLogger{}
	// pass 1: roots and hashes
	run := func(withObs bool) error {
		store.VerifC09PurgeBlockCache()
		st, e := store.VerifC09OpenStoreFS(vfs.NewMem(), dbDir, cfg, log)
		if e != nil {
			return e
		}
		defer st.Close()
		if withObs {
			ref.obs = []*observation{observe(st, cfg, ref.maxV-1, ref.hashes, log)}
		} else {
			ref.roots = []string{""}
			ref.bhash = [][]byte{nil}
			ref.hashes = &refHashes{block: map[uint64][]byte{}, txs: map[uint64][][]byte{}}
		}
		var last []byte
		for v := 1; v <= ref.maxV; v++ {
			root, bh, err := applyCommit(st, uint64(v), ref.ops[v], last, nil)
			if err != nil {
				return err
			}
			if withObs {
				if hex.EncodeToString(root) != ref.roots[v] {
					return fmt.Errorf("reference run is not deterministic: root of version %d differs between two runs", v)
				}
				ref.obs = append(ref.obs, observe(st, cfg, ref.maxV-1, ref.hashes, log))
			} else {
				ref.roots = append(ref.roots, hex.EncodeToString(root))
				ref.bhash = append(ref.bhash, bh)
				if v >= 2 {
					H := uint64(v - 1)
					blk, _ := blockObjects(H, root, last)
					ref.hashes.block[H] = blk.BlockHeader.Hash
					for _, t := range blk.Transactions {
						hb, _ := lib.StringToBytes(t.TxHash)
						ref.hashes.txs[H] = append(ref.hashes.txs[H], hb)
					}
				}
			}
			last = bh
		}
		return nil
	}
	if err := run(false); err != nil {
		return nil, err
	}
	if err := run(true); err != nil {
		return nil, err
	}
	if f := log.fatal(); f != "" {
		return nil, fmt.Errorf("reference run logged Fatal: %s", f)
	}
	// sanity of the reference itself against the boring model and its own inputs
	for v := 0; v <= ref.maxV; v++ {
		o := ref.obs[v]
		if o.Version != uint64(v) {
			return nil, fmt.Errorf("reference: version %d expected, store says %d", v, o.Version)
		}
		if v > 0 && o.Root != ref.roots[v] {
			return nil, fmt.Errorf("reference: Root() after Commit(%d) = %s, Commit returned %s", v, o.Root, ref.roots[v])
		}
		if o.Latest != ref.model.render(v) {
			return nil, fmt.Errorf("reference: latest state at %d\n got  %s\n want %s", v, o.Latest, ref.model.render(v))
		}
		for w := 1; w <= v; w++ {
			if o.Hist[w-1] != ref.model.render(w) {
				return nil, fmt.Errorf("reference at %d: historical state at %d\n got  %s\n want %s", v, w, o.Hist[w-1], ref.model.render(w))
			}
		}
		for H := 1; H <= ref.maxV-1; H++ {
			present := strings.Contains(o.Index[H-1], fmt.Sprintf("(h=%d,txs=%d,ev=%d)", H, txsAt(uint64(H)), txsAt(uint64(H))+(1-H%2)))
			if present != (H+1 <= v) {
				return nil, fmt.Errorf("reference at version %d: block %d present=%v: %s", v, H, present, o.Index[H-1])
			}
		}
	}
	h := sha256.New()
	for v := 0; v <= ref.maxV; v++ {
		fmt.Fprintf(h, "%d|%s|%s|%v|%v|%s|%s|%v\n", v, ref.obs[v].Root, ref.obs[v].Latest, ref.obs[v].Hist, ref.obs[v].Index, ref.obs[v].Misc, ref.obs[v].FSM, sortedKV(ref.obs[v].RawKV))
	}
	ref.digest = hex.EncodeToString(h.Sum(nil)[:12])
	return ref, nil
}

func sortedKV(m map[string]string) string {
	ks := make([]string, 0, len(m))
	for k := range m {
		ks = append(ks, k)
	}
	sort.Strings(ks)
	var sb strings.Builder
	for _, k := range ks {
		fmt.Fprintf(&sb, "%s=%s ", k, m[k])
	}
	return sb.String()
}
