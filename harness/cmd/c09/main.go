// C09 — crash-consistent, all-or-nothing block commit (fault enumeration).
//
// A short block history (genesis commit + 4 blocks quick / 6 thorough; each block = state
// sets, overwrites, deletes, a set-then-delete, indexed QC + block + 2 txs + 2 events,
// checkpoints / double signers) is written ONCE per scenario through the real store
// (opened by the verif hook store.VerifC09OpenStoreFS with NewStore's pebble options) on
// crashFS, a wrapper around pebble's crashable MemFS (cfs.go). Before every
// state-changing file-system operation (create, write, sync, rename, remove, mkdir, lock,
// dir-sync, WAL reuse ...) issued by any goroutine — during pebble.Open, during and
// between Commit()s, during the store's background compaction, Close(), a clean reopen
// and (thorough) Rollback() — the crash state is snapshotted (= one crash point).
// For every crash point the possible post-crash disks are enumerated: all keep/drop
// subsets of the unsynced directory entries and 4 KiB blocks when there are m <= 10
// (thorough 12) of them, otherwise every subset with <= 2 (thorough 3 up to m = 20)
// departures from drop-all and from keep-all. Every distinct disk image is handed to a
// worker process that opens it the way a restarted node would and applies the oracle
// (checkImage): version = some h whose Commit() had started before the crash; Root(),
// latest state, NewReadOnly(v) for all v <= h, block/QC/tx/event/account/checkpoint
// indexes for all heights (incl. absence of everything above h), fsm.New, and the raw
// pebble content equal what the uninterrupted run had at h; then the uninterrupted run's
// next block is applied and must give the recorded root and observations of h+1.
package main

import (
	"bytes"
	"encoding/hex"
	"encoding/json"
	"fmt"
	"os"
	"runtime/pprof"
	"sort"
	"strings"
	"sync"
	"sync/atomic"
	"time"

	"github.com/canopy-network/canopy/store"

	"verifharness/mc"
)

var trace = os.Getenv("C09_TRACE") != ""

const (
	quickBudget    = 85 * time.Second
	thoroughBudget = 27 * time.Minute
)

// Enumeration bound per crash point (m = effective keep/drop decisions at that point):
// all 2^m subsets when m <= fullEnumM, otherwise every subset with at most boundDev(m)
// departures from drop-all and from keep-all. Quick: 10 / 2. Thorough: 12 / 3 (2 above 20).
var fullEnumM = 10

var thoroughBound = false

func boundDev(m int) int {
	if thoroughBound && m <= 20 {
		return 3
	}
	return 2
}

// ---------------------------------------------------------------------------------------
// crash points

type crashPoint struct {
	Idx     int
	Op      string
	Phase   string
	Started int // Commit() calls started before this instant (= highest version that may legitimately be on disk)
	snap    *snode
	// validation of the shadow against the real vfs.MemFS.CrashClone
	realDrop, realKeep string
	realRaw            int               // RNG draws the real CrashClone made (incl. draws without effect)
	realImgs           map[string]string // hash -> description of scripted single-flip clones
	// the operation about to run is a pure append: a crash during it leaves a prefix of these bytes
	tornPath string
	tornData []byte
	// enumeration result
	M      int
	Mode   string
	Images int
	Torn   int
}

type imgEntry struct {
	hash    string
	img     *image
	sc      *scenario
	started int // min over the crash points producing it
	cp      int // first crash point
	op      string
	phase   string
	vec     string
	count   int
	strict  bool // raw-KV comparison enforced (image reachable outside Rollback)
}

type decision struct {
	p    string
	blk  int
	keep bool
	torn string // set for the pseudo decision of a torn-append image
}

func vecString(ds []decision) string {
	if len(ds) == 0 {
		return "(no unsynced data)"
	}
	var sb strings.Builder
	for i, d := range ds {
		if i > 0 {
			sb.WriteString(" ")
		}
		if d.torn != "" {
			sb.WriteString(d.torn)
			continue
		}
		what := "drop"
		if d.keep {
			what = "KEEP"
		}
		if d.blk < 0 {
			fmt.Fprintf(&sb, "%s:entry(%s)", what, d.p)
		} else {
			fmt.Fprintf(&sb, "%s:%s#blk%d", what, d.p, d.blk)
		}
	}
	return sb.String()
}

// enumerate produces every image of the bound for one crash point.
func enumerate(cp *crashPoint, emit func(im *image, ds []decision)) {
	count := func(keep bool) int {
		n := 0
		cp.snap.crashImage("", func(string, int) bool { n++; return keep }, &image{Files: map[string][]byte{}})
		return n
	}
	m := max(count(false), count(true))
	cp.M = m
	run := func(keepDefault bool, maxDev int) {
		mc.ExploreChoices(func(c *mc.Chooser) {
			im := &image{Files: map[string][]byte{}}
			var ds []decision
			cp.snap.crashImage("", func(p string, blk int) bool {
				keep := (c.Choose(2) == 1) != keepDefault
				ds = append(ds, decision{p: p, blk: blk, keep: keep})
				return keep
			}, im)
			cp.Images++
			emit(im, ds)
		}, maxDev, nil)
	}
	if m <= fullEnumM {
		cp.Mode = "all-subsets"
		run(false, -1)
	} else {
		cp.Mode = fmt.Sprintf("<=%d-departures-from-drop-all-and-keep-all", boundDev(m))
		run(false, boundDev(m))
		run(true, boundDev(m))
	}
	// torn append: the crash happens DURING the operation this crash point precedes. Everything written
	// before survives (keep-all) and a byte prefix of the appended data made it to the file (file
	// lengths are byte-granular; MemFS only models whole 4 KiB blocks). Cuts on a coarse grid plus a fine grid over the tail; the
	// two ends (nothing / everything appended) are the ordinary images of this and the next crash point.
	if len(cp.tornData) > 1 {
		base := &image{Files: map[string][]byte{}}
		cp.snap.crashImage("", func(string, int) bool { return true }, base)
		key := ""
		for k := range base.Files {
			if k == cp.tornPath || strings.HasSuffix(k, "/"+strings.TrimPrefix(cp.tornPath, "/")) {
				key = k
			}
		}
		if key != "" {
			// cut points: a coarse grid over the whole append plus a fine grid over its last bytes (the
			// record that completes a batch / names the new commit comes last)
			n := len(cp.tornData)
			cutSet := map[int]bool{}
			coarse := tornCoarse
			if n/64 > coarse {
				coarse = n / 64
			}
			for cut := coarse; cut < n; cut += coarse {
				cutSet[cut] = true
			}
			for k := tornFine; k <= tornTail && k < n; k += tornFine {
				cutSet[n-k] = true
			}
			cutSet[1] = true
			cuts := make([]int, 0, len(cutSet))
			for c := range cutSet {
				cuts = append(cuts, c)
			}
			sort.Ints(cuts)
			for _, cut := range cuts {
				im := &image{Files: make(map[string][]byte, len(base.Files)), Dirs: base.Dirs}
				for k, v := range base.Files {
					im.Files[k] = v
				}
				im.Files[key] = append(bytes.Clone(base.Files[key]), cp.tornData[:cut]...)
				cp.Images++
				cp.Torn++
				emit(im, []decision{{p: key, keep: true, torn: fmt.Sprintf("KEEP:everything-written-before + first %d of the %d bytes being appended to %s", cut, len(cp.tornData), key)}})
			}
		}
	}
}

const (
	tornCoarse = 128
	tornFine   = 8
	tornTail   = 192
)

// ---------------------------------------------------------------------------------------
// the instrumented run

type runStats struct {
	Scenario          scenario       `json:"scenario"`
	CrashPoints       int            `json:"crash_points"`
	OpsByKind         map[string]int `json:"fs_ops_by_kind"`
	PointsByPhase     map[string]int `json:"crash_points_by_phase"`
	NoEffectOps       int64          `json:"fs_ops_without_crash_effect"`
	Images            int            `json:"images_enumerated"`
	TornImages        int            `json:"of_which_torn_append_images"`
	FullPoints        int            `json:"points_all_subsets"`
	BoundedPoints     int            `json:"points_bounded"`
	MaxM              int            `json:"max_effective_decisions"`
	RealClones        int            `json:"pebble_crashclone_images_validated"`
	RealRawMax        int            `json:"pebble_crashclone_max_rng_draws"`
	CommitsStarted    int            `json:"commits"`
	Distinct          int            `json:"distinct_images"`
	SharedWithEarlier int            `json:"distinct_images_already_recovered_for_earlier_scenario"`
	Recovered         string         `json:"recovered_versions"`
}

func phaseClass(p string) string {
	if i := strings.IndexByte(p, '('); i >= 0 {
		return p[:i]
	}
	return p
}

// crashRun executes the scenario on crashFS and returns the crash points.
func crashRun(sc scenario, ref *reference, scripted bool) ([]*crashPoint, *runStats, error) {
	setScenario(sc)
	cfs := newCrashFS()
	var points []*crashPoint
	var phase atomic.Value
	phase.Store("open-new")
	var started atomic.Int64
	st := &runStats{Scenario: sc, OpsByKind: map[string]int{}, PointsByPhase: map[string]int{}}
	record := func(op fsOp) {
		cp := &crashPoint{Idx: len(points), Op: op.String(), Phase: phase.Load().(string), Started: int(started.Load()), snap: cfs.snapshot(), tornPath: op.Path, tornData: op.Appended}
		st.OpsByKind[op.Kind]++
		st.PointsByPhase[phaseClass(cp.Phase)]++
		// the real thing, for validation of the shadow
		cp.realDrop = dumpFS(cfs.inner.CrashClone(vfsCfgZero)).hash()
		keepIm, raw := realClone(cfs.inner, -1, true)
		cp.realKeep, cp.realRaw = keepIm.hash(), raw
		if scripted {
			cp.realImgs = map[string]string{}
			for i := 0; i < raw; i++ {
				a, _ := realClone(cfs.inner, i, false)
				cp.realImgs[a.hash()] = fmt.Sprintf("drop-all but RNG draw %d", i)
				b, _ := realClone(cfs.inner, i, true)
				cp.realImgs[b.hash()] = fmt.Sprintf("keep-all but RNG draw %d", i)
			}
		}
		points = append(points, cp)
		if trace {
			fmt.Printf("   cp %3d started=%d phase=%-16s %s\n", cp.Idx, cp.Started, cp.Phase, cp.Op)
		}
	}
	cfs.before = record
	waitIdle := func() {
		if sc.NoWait {
			return
		}
		last, same := int64(-1), 0
		for same < 4 {
			time.Sleep(10 * time.Millisecond)
			cfs.mu.Lock()
			n := cfs.ops
			cfs.mu.Unlock()
			if n == last {
				same++
			} else {
				last, same = n, 0
			}
		}
	}
	cfg := sc.config()
	log := &capLogger{}
	var compactExpected int64
	// waitCompaction joins the store's compaction goroutines (via their log lines).
	waitCompaction := func() error {
		for t0 := time.Now(); log.compactDone.Load() < compactExpected; {
			if time.Since(t0) > 20*time.Second {
				return fmt.Errorf("background compaction did not finish (%d of %d Compact calls)", log.compactDone.Load(), compactExpected)
			}
			time.Sleep(time.Millisecond)
		}
		return nil
	}
	open := func() (*store.Store, error) {
		store.VerifC09PurgeBlockCache()
		s, e := store.VerifC09OpenStoreFS(cfs, dbDir, cfg, log)
		if e != nil {
			return nil, e
		}
		return s, nil
	}
	s, err := open()
	if err != nil {
		return nil, nil, err
	}
	waitIdle()
	var last []byte
	for v := 1; v <= sc.commits(); v++ {
		phase.Store(fmt.Sprintf("build(%d)", v))
		root, bh, err := applyCommit(s, uint64(v), ref.ops[v], last, func() {
			started.Store(int64(v))
			phase.Store(fmt.Sprintf("commit(%d)", v))
		})
		phase.Store(fmt.Sprintf("post-commit(%d)", v))
		if err != nil {
			return nil, nil, err
		}
		if hex.EncodeToString(root) != ref.roots[v] {
			return nil, nil, fmt.Errorf("instrumented run: root of version %d differs from the reference run", v)
		}
		last = bh
		compactExpected += sc.compactCalls(v)
		if !sc.NoWait {
			if err := waitCompaction(); err != nil {
				return nil, nil, err
			}
		}
		waitIdle()
		if sc.RestartAfter == v {
			if err := waitCompaction(); err != nil {
				return nil, nil, err
			}
			phase.Store(fmt.Sprintf("close(%d)", v))
			if e := s.Close(); e != nil {
				return nil, nil, e
			}
			phase.Store(fmt.Sprintf("reopen(%d)", v))
			if s, err = open(); err != nil {
				return nil, nil, err
			}
			if s.Version() != uint64(v) {
				return nil, nil, fmt.Errorf("clean reopen at version %d, expected %d", s.Version(), v)
			}
			waitIdle()
		}
	}
	if err := waitCompaction(); err != nil {
		return nil, nil, err
	}
	if sc.RollbackTo > 0 {
		phase.Store(fmt.Sprintf("rollback(%d)", sc.RollbackTo))
		if e := s.Rollback(uint64(sc.RollbackTo)); e != nil {
			return nil, nil, e
		}
		phase.Store(fmt.Sprintf("post-rollback(%d)", sc.RollbackTo))
		waitIdle()
	}
	phase.Store("close-final")
	if e := s.Close(); e != nil {
		return nil, nil, e
	}
	waitIdle()
	cfs.mu.Lock()
	phase.Store("end")
	record(fsOp{Kind: "end-of-run", Path: "-"})
	cfs.before = nil
	st.NoEffectOps = cfs.noops
	cfs.mu.Unlock()
	if f := log.fatal(); f != "" {
		return nil, nil, fmt.Errorf("instrumented run logged Fatal: %s", f)
	}
	st.CrashPoints = len(points)
	st.CommitsStarted = int(started.Load())
	return points, st, nil
}

// ---------------------------------------------------------------------------------------
// oracle (runs in a worker process)

type job struct {
	Scenario  scenario `json:"sc"`
	RefDigest string   `json:"ref"`
	Img       *image   `json:"img"`
	MaxH      int      `json:"maxh"`
	Strict    bool     `json:"strict"`
	Phase     string   `json:"phase"`
	CP        int      `json:"cp"`
	Op        string   `json:"op"`
	Vec       string   `json:"vec"`
	Hash      string   `json:"hash"`
}

type result struct {
	H     int       `json:"h"`
	Viols []mc.Viol `json:"v,omitempty"`
	Fatal string    `json:"fatal,omitempty"` // harness problem, not a property violation
}

var (
	refMu    sync.Mutex
	refCache = map[string]*reference{}
)

func refFor(sc scenario) (*reference, error) {
	refMu.Lock()
	defer refMu.Unlock()
	k := fmt.Sprintf("%d|%v|%d|%d", sc.Blocks, sc.Journal, sc.big(), sc.ManyTxs)
	if r, ok := refCache[k]; ok {
		return r, nil
	}
	r, err := buildReference(sc)
	if err != nil {
		return nil, err
	}
	refCache[k] = r
	return r, nil
}

func diffObs(kind string, want, got *observation, model *stateModel, strict bool) (string, string) {
	h := int(want.Version)
	if got.Root != want.Root {
		return "root-mismatch", fmt.Sprintf("%s: Root() = %s, the root recorded for version %d is %s", kind, got.Root, h, want.Root)
	}
	if got.Latest != model.render(h) {
		return "state-mismatch:latest", fmt.Sprintf("%s: latest state\n   got  %s\n   want %s", kind, got.Latest, model.render(h))
	}
	if len(got.Hist) != h {
		return "state-mismatch:historical", fmt.Sprintf("%s: %d historical views, want %d", kind, len(got.Hist), h)
	}
	for v := 1; v <= h; v++ {
		if got.Hist[v-1] != model.render(v) {
			return "state-mismatch:historical", fmt.Sprintf("%s: NewReadOnly(%d)\n   got  %s\n   want %s", kind, v, got.Hist[v-1], model.render(v))
		}
	}
	for i := range want.Index {
		if got.Index[i] != want.Index[i] {
			H := i + 1
			k := "index-mismatch"
			if H+1 > h {
				k = "future-visible"
			}
			return k, fmt.Sprintf("%s: block/QC/tx/event index of height %d (committed at version %d)\n   got  %s\n   want %s", kind, H, H+1, got.Index[i], want.Index[i])
		}
	}
	if got.Misc != want.Misc {
		return "index-mismatch", fmt.Sprintf("%s: account/chain/double-signer/checkpoint indexes\n   got  %s\n   want %s", kind, got.Misc, want.Misc)
	}
	if got.FSM != want.FSM {
		return "restart-fsm", fmt.Sprintf("%s: fsm.New on the store: %s, uninterrupted node: %s", kind, got.FSM, want.FSM)
	}
	if strict && sortedKV(got.RawKV) != sortedKV(want.RawKV) {
		return "raw-kv-mismatch", fmt.Sprintf("%s: visible pebble entries per store prefix (count:digest)\n   got  %s\n   want %s", kind, sortedKV(got.RawKV), sortedKV(want.RawKV))
	}
	return "", ""
}

var timing = os.Getenv("C09_TIMING") != ""

func checkImage(j job) (res result) {
	t0 := time.Now()
	lap := func(what string) {
		if timing {
			fmt.Fprintf(os.Stderr, "timing %-12s %6.1fms\n", what, float64(time.Since(t0).Microseconds())/1000)
			t0 = time.Now()
		}
	}
	defer lap("close")
	ref, err := refFor(j.Scenario)
	if err != nil {
		return result{Fatal: "reference run failed: " + err.Error()}
	}
	setScenario(j.Scenario)
	if j.RefDigest != "" && ref.digest != j.RefDigest {
		return result{Fatal: "reference run differs between parent and worker process (history is not deterministic)"}
	}
	where := fmt.Sprintf("scenario=%s crash before fs-op #%d %s [phase %s], surviving unsynced data: %s", j.Scenario.Name, j.CP, j.Op, j.Phase, j.Vec)
	rp := map[string]any{"job": j}
	viol := func(kind, what string) {
		res.Viols = append(res.Viols, mc.Viol{Sig: "C09:" + kind + ":phase=" + phaseClass(j.Phase), What: where + "\n   " + what, Replay: rp})
	}
	cfg := j.Scenario.quietConfig()
	log := &capLogger{}
	store.VerifC09PurgeBlockCache()
	lap("reference")
	fs := j.Img.materialise()
	lap("materialise")
	var st *store.Store
	openErr := guard(func() string {
		s, e := store.VerifC09OpenStoreFS(fs, dbDir, cfg, log)
		if e != nil {
			return e.Error()
		}
		st = s
		return ""
	})
	if openErr == "" && log.fatal() != "" {
		openErr = "Fatal: " + log.fatal()
	}
	if openErr != "" {
		res.H = -1
		class := "other"
		switch {
		case strings.Contains(openErr, "could not open manifest file") && markerWithoutManifest(j.Img):
			// exactly: the newest manifest marker's directory entry survived, the entry of the
			// MANIFEST file it names did not, and pebble.Open fails on the missing file
			class = "manifest-named-by-marker-is-missing"
		case strings.Contains(openErr, "could not open manifest file"):
			class = "manifest-unreadable"
		case strings.Contains(openErr, "PANIC"):
			class = "panic"
		case strings.HasPrefix(openErr, "Fatal"):
			class = "fatal"
		}
		viol("reopen-fails:"+class, "the restarted node cannot open its store: "+strings.Join(strings.Fields(openErr), " "))
		return
	}
	defer func() {
		// Store.Close() without its db.Flush() (which would write an sstable nobody reads)
		guard(func() string { st.Discard(); _ = st.DB().Close(); return "" })
	}()
	lap("open")
	h := int(st.Version())
	res.H = h
	if h > j.MaxH {
		viol("height-never-committed", fmt.Sprintf("reopened at version %d but only %d Commit() calls had started before the crash", h, j.MaxH))
		return
	}
	if h > ref.maxV-1 {
		viol("height-never-committed", fmt.Sprintf("reopened at version %d, the history has %d commits", h, ref.maxV-1))
		return
	}
	got := observe(st, cfg, ref.maxV-1, ref.hashes, log)
	lap("observe")
	if k, w := diffObs(fmt.Sprintf("reopened at version %d", h), ref.obs[h], got, ref.model, j.Strict); k != "" {
		viol(k, w)
		return
	}
	// continue from h with the uninterrupted run's next block
	root, _, e := applyCommit(st, uint64(h+1), ref.ops[h+1], ref.bhash[h], nil)
	if e != nil {
		viol("continue-fails", fmt.Sprintf("reopened at version %d; applying the next block fails: %v", h, e))
		return
	}
	if hex.EncodeToString(root) != ref.roots[h+1] {
		viol("continue-root-mismatch", fmt.Sprintf("reopened at version %d; the next block commits to root %x, uninterrupted run: %s", h, root, ref.roots[h+1]))
		return
	}
	lap("continue")
	got2 := observe(st, cfg, ref.maxV-1, ref.hashes, log)
	lap("observe2")
	if k, w := diffObs(fmt.Sprintf("after continuing from %d to %d", h, h+1), ref.obs[h+1], got2, ref.model, j.Strict); k != "" {
		viol("continue:"+k, w)
		return
	}
	if f := log.fatal(); f != "" {
		viol("reopen-fails", "Fatal logged while reading/continuing: "+f)
	}
	return
}

// markerWithoutManifest reports whether, in the image, the newest pebble manifest marker
// (marker.manifest.<iter>.MANIFEST-<n>) names a MANIFEST-<n> that is not in the directory.
func markerWithoutManifest(im *image) bool {
	best, named := "", ""
	for p := range im.Files {
		base := strings.TrimPrefix(p, dbDir+"/")
		if base == p || !strings.HasPrefix(base, "marker.manifest.") {
			continue
		}
		parts := strings.SplitN(base, ".", 4) // marker, manifest, <iter>, <file name>
		if len(parts) != 4 {
			continue
		}
		if parts[2] > best { // fixed-width decimal iteration numbers
			best, named = parts[2], parts[3]
		}
	}
	if named == "" {
		return false
	}
	_, present := im.Files[dbDir+"/"+named]
	return !present
}

// ---------------------------------------------------------------------------------------

func scenarios(quick bool) []scenario {
	if quick {
		return []scenario{
			{Name: "wal-only", Blocks: 4},
			{Name: "compaction-every-2", Blocks: 4, CompactEvery: 2, Big: 6000},
			{Name: "clean-restart-after-3", Blocks: 4, RestartAfter: 3},
			{Name: "wal-only-large-blocks", Blocks: 4, Big: 8000},
			{Name: "block-of-130-txs", Blocks: 2, ManyTxs: 130},
		}
	}
	return []scenario{
		{Name: "wal-only", Blocks: 6},
		{Name: "compaction-every-2", Blocks: 6, CompactEvery: 2, Big: 6000},
		{Name: "compaction-every-1", Blocks: 6, CompactEvery: 1},
		{Name: "clean-restart-after-3", Blocks: 6, RestartAfter: 3},
		{Name: "journal+compaction-every-3", Blocks: 6, CompactEvery: 3, Journal: true},
		{Name: "rollback-to-5", Blocks: 6, RollbackTo: 5},
		{Name: "rollback-to-3-after-compaction", Blocks: 6, CompactEvery: 4, RollbackTo: 3},
		{Name: "compaction-every-1-concurrent", Blocks: 6, CompactEvery: 1, NoWait: true},
		{Name: "wal-only-mid-blocks-a", Blocks: 6, Big: 3000},
		{Name: "wal-only-mid-blocks-b", Blocks: 6, Big: 4600},
		{Name: "journal-wal-only", Blocks: 6, Journal: true},
		{Name: "compaction-every-3+clean-restart-after-4", Blocks: 6, CompactEvery: 3, RestartAfter: 4, Big: 3000},
		{Name: "wal-only-large-blocks", Blocks: 6, Big: 8000},
		{Name: "block-of-130-txs", Blocks: 3, ManyTxs: 130},
		{Name: "block-of-300-txs+compaction", Blocks: 3, ManyTxs: 300, CompactEvery: 2},
	}
}

func main() {
	if mc.IsWorker() {
		if p := os.Getenv("C09_CPUPROFILE"); p != "" {
			f, _ := os.Create(p)
			_ = pprof.StartCPUProfile(f)
			go func() { time.Sleep(20 * time.Second); pprof.StopCPUProfile(); f.Close(); os.Exit(0) }()
		}
		mc.ServeWorker(func(j job) result {
			var res result
			if p := guard(func() string { res = checkImage(j); return "" }); p != "" {
				return result{Fatal: "worker: " + p}
			}
			return res
		})
	}
	r := mc.Start("C09", "fault_enumeration", quickBudget, thoroughBudget)
	r.Assumptions = []string{
		"pebble's crashable MemFS is the model of a disk: synced bytes / synced directory entries always survive, every unsynced 4 KiB block and every unsynced directory entry independently survives or not; removed-but-unsynced entries survive (MemFS never resurrects them selectively); no bit rot, no torn 4 KiB block",
		"crash images are produced by a shadow of MemFS's crash rules kept by the harness's vfs wrapper (MemFS.CrashClone draws its RNG in Go map order, so a scripted vector is not a stable subset); the shadow is validated at every crash point against the real CrashClone (0% and 100% byte-identical; every scripted single-flip clone is a member of the enumerated set)",
		"blocks are written by calling the store/indexer methods in the order of controller.CommitCertificate (Set/Delete, Root(), IndexCheckpoint/IndexDoubleSigner, IndexQC, IndexBlock with txs+events, Commit) with realistic objects; the controller, mempool and FSM transaction execution are not driven; version 1 is a state-only genesis commit as in fsm.NewFromGenesisFile",
		"the store is opened by store.VerifC09OpenStoreFS whose pebble options are a hand-kept mirror of store.NewStore",
		"file-system operations of concurrent goroutines (WAL flusher, flush/compaction, obsolete-file cleaner) are serialised by the wrapper and observed in the one order the Go scheduler produced in this run; other interleavings of background work are not enumerated (the harness waits for background work to settle after each commit except in the *-concurrent scenario)",
		"backups (MaybeBackup uses the OS file system directly) are disabled; a second crash during recovery is not explored",
		"each crash image is checked alone in a sequential worker process with the block LRU purged before every index read",
	}
	if r.Replay != "" {
		doReplay(r)
		return
	}
	if !r.Quick() {
		fullEnumM, thoroughBound = 12, true
	}
	t0 := time.Now()
	var stats []*runStats
	totalPoints, totalImages, totalDistinct := 0, 0, 0
	pool := mc.NewProcPool(0)
	heights := map[int]int{}
	heightsByScenario := map[string]map[int]int{}
	checked, imagesCovered, sharedAcross := 0, 0, 0
	globalSeen := map[string]bool{} // reference key | image hash: images already recovered for an earlier scenario
	// Under a deadline every scenario gets an equal share of what is left (a loaded machine
	// must not starve the later scenarios); without time pressure the shares are never hit.
	hardEnd := t0.Add(quickBudget)
	if !r.Quick() {
		hardEnd = t0.Add(thoroughBudget)
	}
	scs := scenarios(r.Quick())
	for si, sc := range scs {
		sc := sc
		sliceEnd := time.Now().Add(time.Until(hardEnd) / time.Duration(len(scs)-si))
		stop := func() bool { return r.Expired() || (si < len(scs)-1 && time.Now().After(sliceEnd)) }
		if r.Expired() {
			r.Note("scenario %s not run (deadline)", sc.Name)
			continue
		}
		ref, err := refFor(sc)
		if err != nil {
			fmt.Println("HARNESS-ERROR: reference run:", err)
			r.Violation("C09:uninterrupted-run-differs-from-model", err.Error(), map[string]any{"scenario": sc})
			continue
		}
		tRun := time.Now()
		points, st, err := crashRun(sc, ref, true)
		runWall := time.Since(tRun)
		tEnum := time.Now()
		if err != nil {
			fmt.Println("HARNESS-ERROR: instrumented run:", err)
			r.Violation("C09:harness:instrumented-run-fails", err.Error(), map[string]any{"scenario": sc})
			continue
		}
		// enumerate images of every crash point (pure computation, parallel)
		var mu sync.Mutex
		byHash := map[string]*imgEntry{}
		var shadowBad []string
		mc.ParallelFor(len(points), 0, nil, func(i int) {
			cp := points[i]
			seen := map[string]bool{}
			var dropAll, keepAll string
			enumerate(cp, func(im *image, ds []decision) {
				hs := im.hash()
				seen[hs] = true
				allDrop, allKeep := true, true
				if len(ds) == 1 && ds[0].torn != "" {
					allDrop, allKeep = false, false
				}
				for _, d := range ds {
					if d.keep {
						allDrop = false
					} else {
						allKeep = false
					}
				}
				if allDrop {
					dropAll = hs
				}
				if allKeep {
					keepAll = hs
				}
				mu.Lock()
				e := byHash[hs]
				if e == nil {
					e = &imgEntry{hash: hs, img: im, sc: &sc, started: cp.Started, cp: cp.Idx, op: cp.Op, phase: cp.Phase, vec: vecString(ds)}
					byHash[hs] = e
				} else if cp.Idx < e.cp {
					e.cp, e.op, e.phase, e.vec = cp.Idx, cp.Op, cp.Phase, vecString(ds)
				}
				if cp.Started < e.started {
					e.started = cp.Started
				}
				// raw pebble content is compared only for images that can arise without Rollback
				// (Rollback rewrites history; its result is judged through the store's API only)
				if sc.RollbackTo == 0 || !(strings.Contains(cp.Phase, "rollback") || cp.Phase == "close-final" || cp.Phase == "end") {
					e.strict = true
				}
				e.count++
				mu.Unlock()
			})
			var bad []string
			if dropAll != cp.realDrop {
				bad = append(bad, fmt.Sprintf("crash point %d (%s): shadow drop-all image differs from MemFS.CrashClone(0%%)", cp.Idx, cp.Op))
			}
			if keepAll != cp.realKeep {
				bad = append(bad, fmt.Sprintf("crash point %d (%s): shadow keep-all image differs from MemFS.CrashClone(100%%)", cp.Idx, cp.Op))
			}
			for hs, d := range cp.realImgs {
				if !seen[hs] {
					bad = append(bad, fmt.Sprintf("crash point %d (%s): MemFS.CrashClone image (%s) is not in the shadow's enumerated set", cp.Idx, cp.Op, d))
				}
			}
			if len(bad) > 0 {
				mu.Lock()
				shadowBad = append(shadowBad, bad...)
				mu.Unlock()
			}
			cp.snap = nil
		})
		if len(shadowBad) > 0 {
			sort.Strings(shadowBad)
			r.Violation("C09:harness:shadow-crash-model-diverges", strings.Join(shadowBad[:min(5, len(shadowBad))], "; "), map[string]any{"scenario": sc})
		}
		for _, cp := range points {
			st.Images += cp.Images
			st.TornImages += cp.Torn
			st.RealClones += len(cp.realImgs) + 2
			st.RealRawMax = max(st.RealRawMax, cp.realRaw)
			st.MaxM = max(st.MaxM, cp.M)
			if cp.Mode == "all-subsets" {
				st.FullPoints++
			} else {
				st.BoundedPoints++
			}
		}
		var es []*imgEntry
		refKey := fmt.Sprintf("%d|%v|%d|", sc.Blocks, sc.Journal, sc.big())
		// images that exist before the first Commit() can only recover version 0 and continue with
		// the genesis commit, which does not depend on the size of the blocks' large value
		keyOf := func(e *imgEntry) string {
			if e.started == 0 {
				return fmt.Sprintf("pre-genesis|%d|%v|", sc.Blocks, sc.Journal) + e.hash
			}
			return refKey + e.hash
		}
		for _, e := range byHash {
			if globalSeen[keyOf(e)] {
				st.SharedWithEarlier++
				sharedAcross++
				continue
			}
			es = append(es, e)
		}
		sort.Slice(es, func(a, b int) bool {
			// images from the first creation of the DB last: if time runs out they matter least
			if pa, pb := es[a].started == 0, es[b].started == 0; pa != pb {
				return pb
			}
			if es[a].cp != es[b].cp {
				return es[a].cp < es[b].cp
			}
			return es[a].hash < es[b].hash
		})
		st.Distinct = len(byHash)
		stats = append(stats, st)
		totalPoints += st.CrashPoints
		totalImages += st.Images
		totalDistinct += len(es)
		fmt.Printf("scenario %-32s commits=%d crash_points=%d images=%d distinct_images=%d (of which %d already recovered for an earlier scenario) all-subsets-points=%d bounded-points=%d max_m=%d ops=%v\n",
			sc.Name, st.CommitsStarted, st.CrashPoints, st.Images, len(byHash), st.SharedWithEarlier, st.FullPoints, st.BoundedPoints, st.MaxM, st.OpsByKind)
		fmt.Printf("   crash points by phase: %v; pebble CrashClone images validated against the shadow: %d (max RNG draws per clone %d)\n", st.PointsByPhase, st.RealClones, st.RealRawMax)
		fmt.Printf("   bound per crash point: %s\n", boundTable(points))
		byHash = nil

		// recover every distinct image in worker processes
		tRec := time.Now()
		jobs := make([]job, len(es))
		for i, e := range es {
			jobs[i] = job{Scenario: sc, RefDigest: ref.digest, Img: e.img, MaxH: e.started, Strict: e.strict, Phase: e.phase, CP: e.cp, Op: e.op, Vec: e.vec, Hash: e.hash}
		}
		if p := os.Getenv("C09_DUMPJOB"); p != "" && len(jobs) > 0 { // debugging aid: one job as a worker input line
			bz, _ := json.Marshal(jobs[len(jobs)/2])
			_ = os.WriteFile(p+"."+sc.Name, append(bz, '\n'), 0o644)
		}
		results, crashed := mc.Map[job, result](pool, jobs, stop)
		hs := map[int]int{}
		heightsByScenario[sc.Name] = hs
		done := 0
		for i, res := range results {
			e := es[i]
			if crashed[i] {
				r.Violation("C09:worker-crash:phase="+phaseClass(e.phase), fmt.Sprintf("worker process died twice while recovering the image of scenario=%s crash point %d %s, vector %s", sc.Name, e.cp, e.op, e.vec), map[string]any{"job": jobs[i]})
				continue
			}
			if res == nil {
				continue
			}
			if res.Fatal != "" {
				r.Violation("C09:harness:worker-error", res.Fatal, map[string]any{"job": jobs[i]})
				continue
			}
			done++
			globalSeen[keyOf(e)] = true
			imagesCovered += e.count
			heights[res.H]++
			hs[res.H]++
			for _, v := range res.Viols {
				r.OnViol(v)
			}
			if len(res.Viols) == 0 && res.H >= 1 && res.H < st.CommitsStarted && (i == len(results)/3 || i == 2*len(results)/3) {
				r.AddSample(map[string]any{"scenario": sc.Name, "crash_point": e.cp, "before_op": e.op, "phase": e.phase, "commits_started": e.started, "survival_vector": e.vec, "recovered_version": res.H, "same_image_from": e.count})
			}
		}
		checked += done
		st.Recovered = fmt.Sprint(hs)
		fmt.Printf("   instrumented run %.1fs, enumeration %.1fs, recovery of %d/%d images %.1fs; recovered versions %v\n", runWall.Seconds(), tRec.Sub(tEnum).Seconds(), done, len(es), time.Since(tRec).Seconds(), hs)
		if done < len(es) {
			r.Exhaustive = false
			r.Note("deadline / time share of the scenario used up: scenario %s: %d of %d distinct images recovered (crash points after the first Commit first, in crash-point order); the rest was not checked", sc.Name, done, len(es))
		}
	}
	fmt.Printf("total: %d crash points, %d images, %d distinct images, %d recovered and checked, wall %.1fs\n", totalPoints, totalImages, totalDistinct, checked, time.Since(t0).Seconds())
	delete(heights, -1) // -1 = the store could not be opened (reported above), not a recovered version
	if len(heights) < 2 && checked > 0 {
		r.Violation("C09:harness:vacuous", fmt.Sprintf("every one of %d images recovered the same version %v", checked, heights), nil)
	}
	fmt.Printf("recovered versions (distinct images per version): %v\n", heights)
	cov := map[string]any{
		"evaluations":                     checked,
		"distinct_nontrivial":             len(heights),
		"rule":                            "evaluations = distinct crash disk images (by content hash) opened and checked against the oracle; distinct_nontrivial = distinct versions a restarted store opened at",
		"crash_points":                    totalPoints,
		"images_enumerated":               totalImages,
		"images_covered_by_checked":       imagesCovered,
		"distinct_images":                 totalDistinct,
		"images_shared_between_scenarios": sharedAcross,
		"distinct_images_checked":         checked,
		"recovered_versions":              fmt.Sprint(heights),
		"recovered_versions_by_scen":      fmt.Sprint(heightsByScenario),
		"per_scenario":                    stats,
		"bound":                           fmt.Sprintf("all keep/drop subsets when a crash point has m <= %d effective decisions, else all subsets with <= %d (m <= 20) / <= %d (m > 20) departures from drop-all and from keep-all", fullEnumM, boundDev(20), boundDev(21)),
		"worker_crashes":                  pool.Crashes,
	}
	r.Finish(cov)
}

// boundTable compresses the per-crash-point bound into runs.
func boundTable(points []*crashPoint) string {
	var sb strings.Builder
	i := 0
	for i < len(points) {
		j := i
		for j+1 < len(points) && points[j+1].M == points[i].M && points[j+1].Mode == points[i].Mode && points[j+1].Images == points[i].Images {
			j++
		}
		mode := "all"
		if points[i].Mode != "all-subsets" {
			mode = fmt.Sprintf("<=%ddep", boundDev(points[i].M))
		}
		if j > i {
			fmt.Fprintf(&sb, "#%d-%d:m=%d,%s,%dimg ", i, j, points[i].M, mode, points[i].Images)
		} else {
			fmt.Fprintf(&sb, "#%d:m=%d,%s,%dimg ", i, points[i].M, mode, points[i].Images)
		}
		i = j + 1
	}
	return sb.String()
}

func doReplay(r *mc.Run) {
	var rp struct {
		Job job `json:"job"`
	}
	if err := r.LoadReplay(&rp); err != nil || rp.Job.Img == nil {
		fmt.Println("cannot load replay:", err)
		os.Exit(2)
	}
	rp.Job.RefDigest = ""
	heights := map[int]int{}
	for i := 0; i < 5; i++ {
		res := checkImage(rp.Job)
		heights[res.H]++
		if res.Fatal != "" {
			fmt.Println("HARNESS-ERROR:", res.Fatal)
		}
		for _, v := range res.Viols {
			r.OnViol(v)
		}
	}
	fmt.Printf("replayed image %s 5 times: recovered versions %v\n", rp.Job.Hash, heights)
	r.Finish(map[string]any{"evaluations": 5, "distinct_nontrivial": 2, "rule": "replay of one stored crash image"})
}
