package main

import (
	"encoding/json"
	"fmt"
	"os"
	"syscall"
	"testing"
	"time"
)

func cpu() time.Duration {
	var ru syscall.Rusage
	syscall.Getrusage(syscall.RUSAGE_SELF, &ru)
	return time.Duration(ru.Utime.Nano() + ru.Stime.Nano())
}

func TestJob(t *testing.T) {
	var j Job
	if err := json.Unmarshal([]byte(os.Getenv("JOB")), &j); err != nil {
		t.Fatal(err)
	}
	t0, w0 := cpu(), time.Now()
	res := handle(j)
	fmt.Println("cpu", cpu()-t0, "wall", time.Since(w0))
	if len(res.NonTriv) > 5 {
		res.NonTriv = map[string]int{"distinct": len(res.NonTriv)}
	}
	if len(res.Viols) > 3 {
		res.Viols = res.Viols[:3]
	}
	bz, _ := json.MarshalIndent(res, "", " ")
	fmt.Println(string(bz))
}
