// C13 — committee derivation and voting power.
//
// Part G (grid, built BY GENESIS, no transactions): populations of 5 validators with stake
// ties inside / at / across the cap boundary, every status mix (active, paused, unstaking,
// delegate)^5, committee membership patterns over two committees, and every cap value.
// Many populations are packed into one genesis (each population owns its two committee ids
// and its five keys, so populations cannot see each other). GetCommitteeMembers,
// GetDelegates and LoadCommittee are compared with a reference (filter, sort by stake desc
// then address desc, cap) computed from a RAW scan of the validator records; power = stake,
// TotalPower = sum, MinimumMaj23 = floor(2T/3)+1 (big-int). Every pack is built twice (second
// node: validators listed in reverse order in the genesis file) and re-read through a fresh
// fsm.New on the same store: all three must agree.
//
// Part H (history): replay-BFS over stake / delegate / edit-stake / pause / unpause /
// unstake / slash / cap-change recipes; after every block ALL earlier heights are asked
// again (LoadCommittee, and GetDelegates through TimeMachine) and compared with the answer
// recorded when the height was first asked and with the reference from a raw scan of that
// height. One chain of 70 heights crosses the 64-entry shared validator cache.
package main

import (
	"bytes"
	"context"
	"encoding/hex"
	"flag"
	"fmt"
	"math/big"
	"sort"
	"strings"
	"time"

	"github.com/canopy-network/canopy/fsm"
	"github.com/canopy-network/canopy/lib"
	"github.com/canopy-network/canopy/store"

	"verifharness/c07lib"
	"verifharness/env"
	"verifharness/mc"
)

// ---------------------------------------------------------------------------------------
// reference model

type valRec struct {
	addr, pub  []byte
	stake      uint64
	committees []uint64
	paused     bool
	unstaking  bool
	delegate   bool
}

// scanValidators reads the validator records straight from a store view (prefix scan + protobuf decode).
func scanValidators(r lib.RStoreI) ([]valRec, error) {
	it, err := r.Iterator(fsm.ValidatorPrefix())
	if err != nil {
		return nil, err
	}
	defer it.Close()
	var out []valRec
	for ; it.Valid(); it.Next() {
		v := new(fsm.Validator)
		if e := lib.Unmarshal(it.Value(), v); e != nil {
			return nil, e
		}
		out = append(out, valRec{addr: append([]byte{}, v.Address...), pub: append([]byte{}, v.PublicKey...), stake: v.StakedAmount,
			committees: append([]uint64{}, v.Committees...), paused: v.MaxPausedHeight != 0, unstaking: v.UnstakingHeight != 0, delegate: v.Delegate})
	}
	return out, nil
}

type refSet struct {
	members  []valRec
	eligible int
	total    *big.Int
	cutsTie  bool // a stake tie straddles the cap boundary
}

// reference: the highest-staked records registered for chain that are (delegates==wantDelegate),
// not paused, not unstaking; ties by address descending (documented order); capped (0 = unlimited).
func reference(all []valRec, chain uint64, wantDelegate bool, cap uint64) refSet {
	var el []valRec
	for _, v := range all {
		in := false
		for _, c := range v.committees {
			if c == chain {
				in = true
			}
		}
		if !in || v.paused || v.unstaking || v.delegate != wantDelegate {
			continue
		}
		el = append(el, v)
	}
	sort.SliceStable(el, func(i, j int) bool {
		if el[i].stake != el[j].stake {
			return el[i].stake > el[j].stake
		}
		return bytes.Compare(el[i].addr, el[j].addr) > 0
	})
	rs := refSet{eligible: len(el), total: new(big.Int)}
	n := len(el)
	if cap > 0 && uint64(n) > cap {
		n = int(cap)
		rs.cutsTie = el[n-1].stake == el[n].stake
	}
	rs.members = el[:n]
	for _, m := range rs.members {
		rs.total.Add(rs.total, new(big.Int).SetUint64(m.stake))
	}
	return rs
}

// render gives "pub:power,...|T=..|M=..|N=.." or "ERR" for the expected answer.
func (r refSet) render() string {
	if len(r.members) == 0 || r.total.Sign() == 0 {
		return "ERR:no-validators"
	}
	var sb strings.Builder
	for _, m := range r.members {
		fmt.Fprintf(&sb, "%s:%d,", hex.EncodeToString(m.pub[:6]), m.stake)
	}
	maj := new(big.Int).Mul(r.total, big.NewInt(2))
	maj.Div(maj, big.NewInt(3)).Add(maj, big.NewInt(1))
	fmt.Fprintf(&sb, "|T=%s|M=%s|N=%d", r.total, maj, len(r.members))
	return sb.String()
}

func renderVS(vs lib.ValidatorSet, err lib.ErrorI) string {
	if err != nil {
		if err.Code() == lib.ErrNoValidators().Code() {
			return "ERR:no-validators"
		}
		return "ERR:" + strings.ReplaceAll(err.Error(), "\n", " ")
	}
	var sb strings.Builder
	for _, m := range vs.ValidatorSet.ValidatorSet {
		fmt.Fprintf(&sb, "%s:%d,", hex.EncodeToString(m.PublicKey[:6]), m.VotingPower)
	}
	fmt.Fprintf(&sb, "|T=%d|M=%d|N=%d", vs.TotalPower, vs.MinimumMaj23, vs.NumValidators)
	return sb.String()
}

// classify names what differs between an answer and the reference (for canonical signatures).
func classify(got, want string) string {
	if strings.HasPrefix(got, "ERR") != strings.HasPrefix(want, "ERR") {
		return "error-vs-set"
	}
	if strings.HasPrefix(got, "ERR") {
		return "error-kind"
	}
	gp, wp := strings.SplitN(got, "|", 2), strings.SplitN(want, "|", 2)
	if gp[0] != wp[0] {
		gm, wm := strings.Split(gp[0], ","), strings.Split(wp[0], ",")
		sg, sw := append([]string{}, gm...), append([]string{}, wm...)
		sort.Strings(sg)
		sort.Strings(sw)
		if strings.Join(sg, ",") != strings.Join(sw, ",") {
			// same multiset of powers? then only the choice among tied validators differs
			pg, pw := powersOf(gm), powersOf(wm)
			if pg == pw {
				return "tie-at-cap-resolved-differently"
			}
			return "membership"
		}
		return "order"
	}
	if len(gp) > 1 && len(wp) > 1 {
		g, w := strings.Split(gp[1], "|"), strings.Split(wp[1], "|")
		for i := range g {
			if i < len(w) && g[i] != w[i] {
				switch g[i][0] {
				case 'T':
					return "total-power"
				case 'M':
					return "maj23-threshold"
				case 'N':
					return "num-validators"
				}
			}
		}
	}
	return "other"
}

func powersOf(ms []string) string {
	var ps []string
	for _, m := range ms {
		if i := strings.IndexByte(m, ':'); i >= 0 {
			ps = append(ps, m[i+1:])
		}
	}
	sort.Strings(ps)
	return strings.Join(ps, ",")
}

// ---------------------------------------------------------------------------------------
// grid populations

type population struct {
	Stakes [5]uint64 `json:"stakes"`
	Status [5]int    `json:"status"` // 0 active 1 paused 2 unstaking 3 delegate
	Comm   [5]int    `json:"comm"`   // bit0 = committee A, bit1 = committee B
}

var statusNames = []string{"active", "paused", "unstaking", "delegate"}

type capSetting struct{ Val, Del uint64 }

// MaxCommitteeSize = 0 is refused by genesis parameter validation (ErrInvalidParam), so the
// "unlimited" case for validators is a cap above the population; for delegates 0 is legal.
// The two caps are independent parameters: {2, 0} caps validators while delegates stay unlimited, {3, 1} the other way round
// (sixth-round seed: the unlimited delegate cap fell back to the validator cap; invisible while both caps are equal or the
// validator cap exceeds the population).
var capSettings = []capSetting{{100, 0}, {1, 1}, {2, 2}, {3, 3}, {5, 5}, {6, 6}, {2, 0}, {3, 1}}

func permutations(ms [5]uint64) [][5]uint64 {
	seen := map[[5]uint64]bool{}
	var out [][5]uint64
	var rec func(cur []uint64, used [5]bool)
	rec = func(cur []uint64, used [5]bool) {
		if len(cur) == 5 {
			var a [5]uint64
			copy(a[:], cur)
			if !seen[a] {
				seen[a] = true
				out = append(out, a)
			}
			return
		}
		for i := 0; i < 5; i++ {
			if !used[i] {
				u := used
				u[i] = true
				rec(append(cur, ms[i]), u)
			}
		}
	}
	rec(nil, [5]bool{})
	return out
}

var multisets = [][5]uint64{{1, 5, 5, 9, 9}, {0, 5, 5, 5, 9}}

// gridPart1: every status mix x stake permutations, committee pattern alternating between "all in both" and a mixed one.
// gridPart2: every committee pattern (4^5, including "none") x a few status mixes x two permutations.
func gridPopulations(quick bool) []population {
	var out []population
	patterns := [][5]int{{3, 3, 3, 3, 3}, {1, 2, 3, 3, 1}}
	for mi, ms := range multisets {
		perms := permutations(ms)
		for pi, perm := range perms {
			if quick && pi%10 != mi {
				continue
			}
			for s := 0; s < 1024; s++ {
				var st [5]int
				x := s
				for i := 0; i < 5; i++ {
					st[i] = x % 4
					x /= 4
				}
				if quick {
					out = append(out, population{perm, st, patterns[(s+pi)%2]})
				} else {
					out = append(out, population{perm, st, patterns[0]}, population{perm, st, patterns[1]})
				}
			}
		}
	}
	statuses := [][5]int{{0, 0, 0, 0, 0}, {3, 3, 3, 3, 3}, {0, 3, 0, 3, 0}, {0, 0, 1, 0, 2}, {3, 0, 3, 2, 1}, {0, 3, 3, 0, 0}, {1, 0, 0, 3, 3}, {2, 3, 0, 0, 3}, {0, 0, 3, 3, 3}}
	p2 := [][5]uint64{{5, 9, 5, 1, 9}, {5, 0, 5, 9, 5}}
	for c := 0; c < 1024; c++ {
		var cm [5]int
		x := c
		for i := 0; i < 5; i++ {
			cm[i] = x % 4
			x /= 4
		}
		for si, st := range statuses {
			if quick && (c+si)%16 != 0 {
				continue
			}
			for _, perm := range p2 {
				out = append(out, population{perm, st, cm})
			}
		}
	}
	return out
}

const packSize = 16

func commA(p int) uint64 { return uint64(100 + 2*p) }
func commB(p int) uint64 { return uint64(101 + 2*p) }

type keyMat struct{ pub, addr []byte }

var keyMemo = map[int]keyMat{}

// km memoizes the public key and address of env.BLS(i) (deriving a BLS public key is a scalar multiplication).
func km(i int) keyMat {
	if m, ok := keyMemo[i]; ok {
		return m
	}
	k := env.BLS(i)
	m := keyMat{pub: k.PublicKey().Bytes(), addr: env.Addr(k).Bytes()}
	keyMemo[i] = m
	return m
}

func packGenesis(pops []population, cs capSetting, reverse bool) *fsm.GenesisState {
	var vals []*fsm.Validator
	mk := func(key int, stake uint64, committees []uint64) *fsm.Validator {
		m := km(key)
		return &fsm.Validator{Address: m.addr, PublicKey: m.pub, NetAddress: fmt.Sprintf("tcp://v%d", key), StakedAmount: stake, Committees: committees, Output: m.addr}
	}
	for p, pop := range pops {
		for i := 0; i < 5; i++ {
			v := mk(5*p+i, pop.Stakes[i], []uint64{})
			if pop.Comm[i]&1 != 0 {
				v.Committees = append(v.Committees, commA(p))
			}
			if pop.Comm[i]&2 != 0 {
				v.Committees = append(v.Committees, commB(p))
			}
			// the order of a validator's committee list is the order its owner wrote (nothing sorts it):
			// every other member of both committees lists them in descending order
			if len(v.Committees) == 2 && (i+p)%2 == 1 {
				v.Committees[0], v.Committees[1] = v.Committees[1], v.Committees[0]
			}
			switch pop.Status[i] {
			case 1:
				v.MaxPausedHeight = 5000
			case 2:
				v.UnstakingHeight = 6000
			case 3:
				v.Delegate = true
			}
			vals = append(vals, v)
		}
	}
	// the node needs its own committee for chain 1
	vals = append(vals, mk(5*packSize, 100, []uint64{env.ChainID}))
	if reverse {
		for i, j := 0, len(vals)-1; i < j; i, j = i+1, j-1 {
			vals[i], vals[j] = vals[j], vals[i]
		}
	}
	g := env.NewGenesis(nil, nil, func(p *fsm.Params) {
		p.Consensus.ProtocolVersion = fsm.NewProtocolVersion(0, 2)
		p.Validator.MaxCommitteeSize = cs.Val
		p.Validator.MaximumDelegatesPerCommittee = cs.Del
	})
	g.Accounts = append(g.Accounts, &fsm.Account{Address: km(5 * packSize).addr, Amount: 1000})
	g.Validators = vals
	return g
}

// ---------------------------------------------------------------------------------------
// jobs

type Job struct {
	Tag  string `json:"t"`
	Path []int  `json:"p"`
	Kind string `json:"kind,omitempty"` // "" BFS exec (history) | "grid" | "big" | "long"
	Cap  int    `json:"cap,omitempty"`
	From int    `json:"from,omitempty"`
	N    int    `json:"n,omitempty"`
	Qk   bool   `json:"qk,omitempty"`
}

type Result struct {
	Key   string    `json:"k"`
	OK    bool      `json:"ok"`
	Viols []mc.Viol `json:"v,omitempty"`
	Info  string    `json:"i,omitempty"`

	Evals     int            `json:"evals,omitempty"`
	Pops      int            `json:"pops,omitempty"`
	NonTriv   map[string]int `json:"nontriv,omitempty"` // distinct outcomes of evaluations where a tie straddles the cap
	CapBinds  int            `json:"capbinds,omitempty"`
	CutsTie   int            `json:"cutstie,omitempty"`
	Empty     int            `json:"empty,omitempty"`
	Queries   int            `json:"queries,omitempty"`
	Requeries int            `json:"requeries,omitempty"`
	Changes   int            `json:"changes,omitempty"` // heights at which some set differs from the previous height
	Sample    any            `json:"sample,omitempty"`
	Err       string         `json:"err,omitempty"`
}

type replayArt struct {
	Kind   string      `json:"kind"`
	Cap    *capSetting `json:"cap,omitempty"`
	Pop    *population `json:"population,omitempty"`
	Slot   int         `json:"slot"`
	Chain  string      `json:"chain,omitempty"`
	Role   string      `json:"role,omitempty"`
	Path   []int       `json:"path,omitempty"`
	Ops    []string    `json:"ops,omitempty"`
	Height uint64      `json:"height,omitempty"`
	Got    string      `json:"got,omitempty"`
	Want   string      `json:"want,omitempty"`
}

func handle(j Job) (res Result) {
	defer func() {
		if p := recover(); p != nil {
			res.Err = fmt.Sprintf("panic: %v", p)
		}
	}()
	// store.blockCache is process-wide and keyed by height only; a worker runs many chains one after the other
	store.VerifC09PurgeBlockCache()
	switch j.Kind {
	case "":
		return histExec(j.Path, false)
	case "grid":
		return gridJob(j)
	case "big":
		return bigJob()
	case "long":
		return longJob(j)
	}
	return Result{Err: "unknown kind"}
}

// query asks every production reader for (chain, role) on a node and returns the answers by reader name.
func queryAll(c *env.Chain, chain uint64, delegate bool, full ...bool) map[string]string {
	out := map[string]string{}
	if delegate {
		out["GetDelegates"] = renderVS(c.FSM.GetDelegates(chain))
		tm, err := c.FSM.TimeMachine(c.Height())
		if err != nil {
			out["TimeMachine.GetDelegates"] = "ERR:" + err.Error()
		} else {
			out["TimeMachine.GetDelegates"] = renderVS(tm.GetDelegates(chain))
			if tm != c.FSM {
				tm.Discard()
			}
		}
		return out
	}
	out["GetCommitteeMembers"] = renderVS(c.FSM.GetCommitteeMembers(chain))
	out["LoadCommittee(h)"] = renderVS(c.FSM.LoadCommittee(chain, c.Height()))
	if len(full) == 0 || full[0] {
		out["LoadCommittee(0)"] = renderVS(c.FSM.LoadCommittee(chain, 0))
	}
	return out
}

func gridJob(j Job) (res Result) {
	all := gridPopulations(j.Qk)
	to := j.From + j.N
	if to > len(all) {
		to = len(all)
	}
	pops := all[j.From:to]
	cs := capSettings[j.Cap]
	res.NonTriv = map[string]int{}
	answers := map[string]string{} // node 1 answers, compared with node 2 and with a reopened FSM
	for node := 0; node < 2; node++ {
		c, err := env.NewChain(packGenesis(pops, cs, node == 1))
		if err != nil {
			return Result{Err: "genesis: " + err.Error()}
		}
		ro, e := c.Store.NewReadOnly(c.Store.Version())
		if e != nil {
			c.Close()
			return Result{Err: e.Error()}
		}
		recs, e2 := scanValidators(ro)
		ro.Discard()
		if e2 != nil {
			c.Close()
			return Result{Err: e2.Error()}
		}
		if len(recs) != 5*len(pops)+1 {
			c.Close()
			return Result{Err: fmt.Sprintf("raw scan found %d validator records, genesis has %d", len(recs), 5*len(pops)+1)}
		}
		for pass := 0; pass < 2-node; pass++ { // pass 1 (node 1 only): a fresh fsm.New on the same store ("reopened")
			if pass == 1 {
				c.FSM, e = fsm.New(c.Cfg, c.Store, nil, nil, c.Log)
				if e != nil {
					c.Close()
					return Result{Err: e.Error()}
				}
			}
			for p := range pops {
				pop := pops[p]
				for ci, chain := range []uint64{commA(p), commB(p)} {
					for _, delegate := range []bool{false, true} {
						capv, role := cs.Val, "validators"
						if delegate {
							capv, role = cs.Del, "delegates"
						}
						ref := reference(recs, chain, delegate, capv)
						want := ref.render()
						if node == 0 && pass == 0 {
							res.Evals++
							if capv > 0 && uint64(ref.eligible) > capv {
								res.CapBinds++
							}
							if ref.cutsTie {
								res.CutsTie++
								res.NonTriv[fmt.Sprintf("%s|cap%d|%s", role, capv, orderSig(ref, pop, p))]++
							}
							if strings.HasPrefix(want, "ERR") {
								res.Empty++
							}
						}
						for reader, got := range queryAll(c, chain, delegate, node == 0 && pass == 0) {
							res.Queries++
							key := fmt.Sprintf("%d/%d/%v/%s", p, ci, delegate, reader)
							if got != want {
								what := classify(got, want)
								sig := fmt.Sprintf("C13:grid:%s:%s", role, what)
								if what == "maj23-threshold" && ref.total.BitLen() >= 64 {
									sig += ":total-power>=2^63"
								}
								res.Viols = append(res.Viols, mc.Viol{Sig: sig,
									What: fmt.Sprintf("genesis population stakes=%v status=%v committees=%v caps(validators=%d,delegates=%d) committee=%s role=%s reader=%s node=%d reopened=%v: got %s want %s",
										pop.Stakes, statusList(pop.Status), pop.Comm, cs.Val, cs.Del, []string{"A", "B"}[ci], role, reader, node+1, pass == 1, got, want),
									Replay: replayArt{Kind: "grid", Cap: &cs, Pop: &pop, Slot: p, Chain: []string{"A", "B"}[ci], Role: role, Got: got, Want: want}})
							}
							if node == 0 && pass == 0 {
								answers[key] = got
							} else if answers[key] != got {
								res.Viols = append(res.Viols, mc.Viol{Sig: fmt.Sprintf("C13:grid:%s:nodes-disagree", role),
									What: fmt.Sprintf("population stakes=%v status=%v committees=%v caps=%v committee=%s reader=%s: node 1 answered %s, node %d (reopened=%v) answered %s",
										pop.Stakes, statusList(pop.Status), pop.Comm, cs, []string{"A", "B"}[ci], reader, answers[key], node+1, pass == 1, got),
									Replay: replayArt{Kind: "grid", Cap: &cs, Pop: &pop, Slot: p, Chain: []string{"A", "B"}[ci], Role: role, Got: got, Want: answers[key]}})
							}
							if len(res.Viols) > 8 {
								c.Close()
								return
							}
						}
						if res.Sample == nil && node == 0 && ref.cutsTie && p%7 == 3 {
							res.Sample = map[string]any{"part": "grid", "stakes": pop.Stakes, "status": statusList(pop.Status), "committees": pop.Comm, "committee": []string{"A", "B"}[ci],
								"role": role, "cap": capv, "eligible": ref.eligible, "answer": want, "tie_straddles_cap": true}
						}
					}
				}
			}
		}
		c.Close()
	}
	res.Pops = len(pops)
	return
}

func statusList(s [5]int) []string {
	var o []string
	for _, x := range s {
		o = append(o, statusNames[x])
	}
	return o
}

// orderSig describes an outcome independent of the concrete keys: member indices within the population.
func orderSig(r refSet, pop population, p int) string {
	var idx []string
	for _, m := range r.members {
		for i := 0; i < 5; i++ {
			if bytes.Equal(m.pub, km(5*p+i).pub) {
				idx = append(idx, fmt.Sprintf("%d(%d)", i, pop.Stakes[i]))
			}
		}
	}
	return strings.Join(idx, ">") + fmt.Sprintf("/%d", r.eligible)
}

// bigJob: total power at and above 2^63 (2*T overflows uint64).
func bigJob() (res Result) {
	pops := []population{
		{Stakes: [5]uint64{1 << 62, 1 << 62, 5, 5, 1}, Comm: [5]int{3, 3, 3, 3, 3}},
		{Stakes: [5]uint64{1 << 62, 1 << 62, 1 << 62, 5, 1}, Comm: [5]int{3, 3, 3, 3, 3}},
		{Stakes: [5]uint64{1<<62 - 1, 1 << 62, 0, 0, 0}, Comm: [5]int{3, 3, 3, 3, 3}},
	}
	cs := capSetting{100, 0}
	for _, pop := range pops {
		pop := pop
		// one genesis per population: the supply tracker refuses a genesis whose stakes sum above 2^64
		c, err := env.NewChain(packGenesis([]population{pop}, cs, false))
		if err != nil {
			return Result{Err: "genesis: " + err.Error()}
		}
		ro, _ := c.Store.NewReadOnly(c.Store.Version())
		recs, e := scanValidators(ro)
		ro.Discard()
		if e != nil {
			c.Close()
			return Result{Err: e.Error()}
		}
		ref := reference(recs, commA(0), false, cs.Val)
		want := ref.render()
		res.Evals++
		for reader, got := range queryAll(c, commA(0), false) {
			res.Queries++
			if got != want {
				what := classify(got, want)
				sig := "C13:grid:validators:" + what
				if ref.total.BitLen() >= 64 {
					sig += ":total-power>=2^63"
				}
				res.Viols = append(res.Viols, mc.Viol{Sig: sig,
					What:   fmt.Sprintf("genesis population stakes=%v (all active validators of one committee, total power %s) reader=%s: got %s want %s", pop.Stakes, ref.total, reader, got, want),
					Replay: replayArt{Kind: "big", Pop: &pop, Got: got, Want: want}})
			}
		}
		c.Close()
	}
	return
}

// ---------------------------------------------------------------------------------------
// history world

var histOps = []string{"empty", "stake-validator(5)", "stake-delegate(5)", "editstake-v3(+4)", "pause-v1", "unpause-v1", "unstake-v2", "slash-v0(50%)", "editstake-d5(+4)", "cap-3->2", "slash-v3(50%)"}

func histGenesis() *fsm.GenesisState {
	acc := map[int]uint64{}
	for i := 0; i < 40; i++ {
		acc[i] = 1_000_000_000
	}
	both := []uint64{env.ChainID, c07lib.Chain2}
	vals := []env.ValSpec{
		{Key: 0, Stake: 9, Committees: both, OutputKey: -1},
		{Key: 1, Stake: 5, Committees: []uint64{c07lib.Chain2, env.ChainID}, OutputKey: -1}, // listed in descending order
		{Key: 2, Stake: 5, Committees: both, OutputKey: -1},
		{Key: 3, Stake: 1, Committees: both, OutputKey: -1},
		{Key: 4, Stake: 5, Committees: []uint64{env.ChainID}, OutputKey: -1},
		{Key: 5, Stake: 5, Committees: both, OutputKey: -1, Delegate: true},
		{Key: 6, Stake: 5, Committees: []uint64{c07lib.Chain2, env.ChainID}, OutputKey: -1, Delegate: true},
		{Key: 7, Stake: 9, Committees: []uint64{c07lib.Chain2}, OutputKey: -1, Delegate: true},
	}
	return env.NewGenesis(acc, vals, func(p *fsm.Params) {
		p.Consensus.ProtocolVersion = fsm.NewProtocolVersion(0, 2)
		p.Validator.MaxCommitteeSize = 3
		p.Validator.MaximumDelegatesPerCommittee = 2
		p.Validator.DoubleSignSlashPercentage = 50
		p.Validator.MaxSlashPerCommittee = 100
		p.Validator.UnstakingBlocks = 3
		p.Validator.DelegateUnstakingBlocks = 3
		p.Validator.NonSignWindow = 1000
		p.Validator.MaxNonSign = 1000
	})
}

func ts(h uint64, slot int) uint64 { return c07lib.BaseTime + h*10_000 + uint64(slot) }

// applyHistOp commits one block; returns false if the operation is not enabled in this state.
func applyHistOp(c *env.Chain, op int) (bool, error) {
	h := c.Height()
	spec := env.BlockSpec{Proposer: 0}
	both := []uint64{env.ChainID, c07lib.Chain2}
	getVal := func(k int) *fsm.Validator {
		v, err := c.FSM.GetValidator(env.Addr(env.BLS(k)))
		if err != nil {
			return nil
		}
		return v
	}
	slash := func(k int) {
		spec.Results = func(c *env.Chain, blk *lib.Block, br *lib.BlockResult) *lib.CertificateResult {
			res := env.DefaultResults(c, blk, br)
			res.SlashRecipients.DoubleSigners = []*lib.DoubleSigner{{Id: env.BLS(k).PublicKey().Bytes(), Heights: []uint64{blk.BlockHeader.Height}}}
			return res
		}
	}
	switch op {
	case 0:
	case 1:
		cs := both
		if h%2 == 1 {
			cs = []uint64{c07lib.Chain2, env.ChainID}
		}
		spec.Txs = [][]byte{c07lib.Stake(10+int(h), 5, cs, h, ts(h, 1))}
	case 2:
		k := env.BLS(20 + int(h))
		spec.Txs = [][]byte{c07lib.MkTx(k, &fsm.MessageStake{PublicKey: k.PublicKey().Bytes(), Amount: 5, Committees: both, OutputAddress: env.Addr(k).Bytes(), Delegate: true, Compound: true}, c07lib.Fee, h, ts(h, 2), "")}
	case 3:
		v := getVal(3)
		if v == nil || v.UnstakingHeight != 0 {
			return false, nil
		}
		spec.Txs = [][]byte{c07lib.EditStake(3, v.StakedAmount+4, v.Committees, h, ts(h, 3))}
	case 4:
		v := getVal(1)
		if v == nil || v.MaxPausedHeight != 0 || v.UnstakingHeight != 0 {
			return false, nil
		}
		spec.Txs = [][]byte{c07lib.MkTx(env.BLS(1), &fsm.MessagePause{Address: env.Addr(env.BLS(1)).Bytes()}, c07lib.Fee, h, ts(h, 4), "")}
	case 5:
		v := getVal(1)
		if v == nil || v.MaxPausedHeight == 0 {
			return false, nil
		}
		spec.Txs = [][]byte{c07lib.MkTx(env.BLS(1), &fsm.MessageUnpause{Address: env.Addr(env.BLS(1)).Bytes()}, c07lib.Fee, h, ts(h, 5), "")}
	case 6:
		v := getVal(2)
		if v == nil || v.UnstakingHeight != 0 {
			return false, nil
		}
		spec.Txs = [][]byte{c07lib.MkTx(env.BLS(2), &fsm.MessageUnstake{Address: env.Addr(env.BLS(2)).Bytes()}, c07lib.Fee, h, ts(h, 6), "")}
	case 7:
		if getVal(0) == nil {
			return false, nil
		}
		slash(0)
	case 8:
		v := getVal(5)
		if v == nil || v.UnstakingHeight != 0 {
			return false, nil
		}
		k := env.BLS(5)
		spec.Txs = [][]byte{c07lib.MkTx(k, &fsm.MessageEditStake{Address: env.Addr(k).Bytes(), Amount: v.StakedAmount + 4, Committees: v.Committees, OutputAddress: env.Addr(k).Bytes(), Compound: v.Compound}, c07lib.Fee, h, ts(h, 8), "")}
	case 9:
		p, err := c.FSM.GetParamsVal()
		if err != nil || p.MaxCommitteeSize != 3 {
			return false, nil
		}
		tx, err := fsm.NewChangeParamTxUint64(env.BLS(8), fsm.ParamSpaceVal, fsm.ParamMaxCommitteeSize, 2, 1, 10000, env.NetworkID, env.ChainID, c07lib.Fee, h, "")
		if err != nil {
			return false, err
		}
		t := tx.(*lib.Transaction)
		t.Time = ts(h, 9)
		t.Signature = nil
		if e := t.Sign(env.BLS(8)); e != nil {
			return false, e
		}
		bz, _ := lib.Marshal(t)
		spec.Txs = [][]byte{bz}
	case 10:
		if getVal(3) == nil {
			return false, nil
		}
		slash(3)
	}
	cm, err := c.Step(spec)
	if err != nil {
		return false, nil // e.g. the committee would become unusable: operation not enabled
	}
	if len(cm.Failed) != 0 {
		return false, nil
	}
	return true, nil
}

type recorder struct {
	c       *env.Chain
	first   map[string]string // "h/chain/role" -> answer when first asked
	queries int
	requery int
	changes int
	prev    string
}

func capsAt(sm *fsm.StateMachine) (capSetting, error) {
	p, err := sm.GetParamsVal()
	if err != nil {
		return capSetting{}, err
	}
	return capSetting{p.MaxCommitteeSize, p.MaximumDelegatesPerCommittee}, nil
}

// askAll queries every committed height 1..H for both committees and both roles. For the newest
// height (checkNew) the answers are also compared with the reference from a raw scan of that height.
func (r *recorder) askAll(ops []string, path []int, checkNew bool, order string) (viols []mc.Viol) {
	c := r.c
	H := c.Height()
	hs := make([]uint64, 0, H)
	for h := uint64(1); h <= H; h++ {
		hs = append(hs, h)
	}
	if order == "desc" {
		for i, j := 0, len(hs)-1; i < j; i, j = i+1, j-1 {
			hs[i], hs[j] = hs[j], hs[i]
		}
	}
	var newest strings.Builder
	for _, h := range hs {
		for _, chain := range []uint64{env.ChainID, c07lib.Chain2} {
			for _, delegate := range []bool{false, true} {
				role := "validators"
				var got string
				if delegate {
					role = "delegates"
					tm, err := c.FSM.TimeMachine(h)
					if err != nil {
						got = "ERR:" + err.Error()
					} else {
						got = renderVS(tm.GetDelegates(chain))
						if tm != c.FSM {
							tm.Discard()
						}
					}
				} else {
					got = renderVS(c.FSM.LoadCommittee(chain, h))
				}
				r.queries++
				key := fmt.Sprintf("%d/%d/%s", h, chain, role)
				if h == H {
					fmt.Fprintf(&newest, "%d/%s=%s;", chain, role, got)
				}
				if old, ok := r.first[key]; ok {
					r.requery++
					if old != got {
						viols = append(viols, mc.Viol{Sig: fmt.Sprintf("C13:history:%s:answer-for-past-height-changed", role),
							What: fmt.Sprintf("ops=%v: committee %d %s at height %d was %s when first asked, asked again at height %d (%s order) it is %s",
								ops, chain, role, h, old, H, order, got),
							Replay: replayArt{Kind: "history", Path: path, Ops: ops, Height: h, Role: role, Got: got, Want: old}})
					}
					continue
				}
				r.first[key] = got
				if h == H && checkNew {
					ro, e := c.Store.NewReadOnly(c.Store.Version())
					if e != nil {
						viols = append(viols, mc.Viol{Sig: "C13:harness-error", What: e.Error()})
						continue
					}
					recs, e2 := scanValidators(ro)
					ro.Discard()
					tm, e3 := c.FSM.TimeMachine(h)
					if e2 != nil || e3 != nil {
						viols = append(viols, mc.Viol{Sig: "C13:harness-error", What: fmt.Sprint(e2, e3)})
						continue
					}
					cs, e4 := capsAt(tm)
					if tm != c.FSM {
						tm.Discard()
					}
					if e4 != nil {
						viols = append(viols, mc.Viol{Sig: "C13:harness-error", What: e4.Error()})
						continue
					}
					capv := cs.Val
					if delegate {
						capv = cs.Del
					}
					want := reference(recs, chain, delegate, capv).render()
					if got != want {
						viols = append(viols, mc.Viol{Sig: fmt.Sprintf("C13:history:%s:%s", role, classify(got, want)),
							What: fmt.Sprintf("ops=%v: committee %d %s at height %d (cap %d): got %s want %s (reference from a raw scan of the validator records committed at that height)",
								ops, chain, role, h, capv, got, want),
							Replay: replayArt{Kind: "history", Path: path, Ops: ops, Height: h, Role: role, Got: got, Want: want}})
					}
				}
			}
		}
	}
	if s := newest.String(); s != r.prev {
		r.changes++
		r.prev = s
	}
	return
}

func opNames(path []int) []string {
	var o []string
	for _, p := range path {
		o = append(o, histOps[p])
	}
	return o
}

// histExec replays a path of history operations; after every block every earlier height is asked again.
func histExec(path []int, verbose bool) (res Result) {
	c, err := env.NewChain(histGenesis())
	if err != nil {
		return Result{Err: err.Error(), Info: err.Error()}
	}
	defer c.Close()
	rec := &recorder{c: c, first: map[string]string{}}
	names := opNames(path)
	res.Viols = append(res.Viols, rec.askAll(names[:0], path[:0], len(path) == 0, "asc")...)
	for i, op := range path {
		ok, e := applyHistOp(c, op)
		if e != nil {
			return Result{Err: e.Error(), Info: e.Error()}
		}
		if !ok {
			return Result{OK: false}
		}
		rec.c = c
		order := "asc"
		if i%2 == 1 {
			order = "desc"
		}
		res.Viols = append(res.Viols, rec.askAll(names[:i+1], path[:i+1], i == len(path)-1, order)...)
		if i == len(path)-1 {
			// the same questions with the live machine's caches warm (a reader that looked at the current
			// parameters and validators first, as begin-block and the RPC handlers do): the answer for a past
			// height must not depend on what the live machine has cached
			_, _ = c.FSM.GetParams()
			_, _ = c.FSM.GetParamsVal()
			_, _ = c.FSM.GetCommitteeMembers(env.ChainID)
			_, _ = c.FSM.GetDelegates(c07lib.Chain2)
			res.Viols = append(res.Viols, rec.askAll(names[:i+1], path[:i+1], false, order)...)
			c.FSM.Reset()
		}
	}
	res.Viols = append(res.Viols, liveAfterApply(c, names, path)...)
	k, e := env.StateKey(c.FSM)
	if e != nil {
		return Result{Err: e.Error()}
	}
	res.OK, res.Key = true, mc.Hash(fmt.Sprintf("%d|%s", c.Height(), k))
	res.Queries, res.Requeries, res.Changes = rec.queries, rec.requery, rec.changes
	res.Info = fmt.Sprintf("%d,%d,%d", rec.queries, rec.requery, rec.changes)
	if verbose {
		res.Sample = map[string]any{"part": "history", "ops": names, "newest": rec.prev}
	}
	return
}

// liveAfterApply covers the production readers of a LIVE FSM: NewCertificateResults calls LotteryWinner ->
// GetDelegates / GetCommitteeMembers on the FSM right after ApplyBlock (proposer: mempool copy; replica:
// the main FSM), i.e. on the state "as of the next height" before it is committed. A block that stakes a
// new delegate and a new validator is applied on a Copy (proposer path); the live answers must equal the
// reference computed from a raw scan of that same uncommitted view.
func liveAfterApply(c *env.Chain, ops []string, path []int) (viols []mc.Viol) {
	h := c.Height()
	dk := env.BLS(31 + int(h)%8)
	both := []uint64{env.ChainID, c07lib.Chain2}
	txs := [][]byte{
		c07lib.MkTx(dk, &fsm.MessageStake{PublicKey: dk.PublicKey().Bytes(), Amount: 7, Committees: both, OutputAddress: env.Addr(dk).Bytes(), Delegate: true, Compound: true}, c07lib.Fee, h, ts(h, 50), ""),
		c07lib.Stake(39, 6, both, h, ts(h, 51)),
	}
	cp, err := c.FSM.Copy()
	if err != nil {
		return []mc.Viol{{Sig: "C13:harness-error", What: err.Error()}}
	}
	defer cp.Discard()
	lastQC, err := c.LastQC()
	if err != nil {
		return []mc.Viol{{Sig: "C13:harness-error", What: err.Error()}}
	}
	if lastQC != nil {
		if err = cp.Store().(lib.StoreI).IndexQC(lastQC); err != nil {
			return []mc.Viol{{Sig: "C13:harness-error", What: err.Error()}}
		}
	}
	blk := &lib.Block{BlockHeader: &lib.BlockHeader{Time: c07lib.BlockTime(h), ProposerAddress: env.Addr(env.BLS(0)).Bytes(), LastQuorumCertificate: lastQC}, Transactions: txs}
	if _, r, e := cp.ApplyBlock(context.Background(), blk, true); e != nil || len(r.Failed) != 0 {
		return nil // the extra block is not applicable in this state (not part of the property)
	}
	recs, e2 := scanValidators(cp.Store())
	cs, e3 := capsAt(cp)
	if e2 != nil || e3 != nil {
		return []mc.Viol{{Sig: "C13:harness-error", What: fmt.Sprint(e2, e3)}}
	}
	for _, chain := range both {
		for _, delegate := range []bool{true, false} {
			if !delegate && chain != env.ChainID {
				continue // LotteryWinner(id, true) only asks for the node's own committee
			}
			capv, role := cs.Val, "validators"
			var got string
			if delegate {
				capv, role = cs.Del, "delegates"
				got = renderVS(cp.GetDelegates(chain))
			} else {
				got = renderVS(cp.GetCommitteeMembers(chain))
			}
			want := reference(recs, chain, delegate, capv).render()
			if got != want {
				viols = append(viols, mc.Viol{Sig: fmt.Sprintf("C13:live-after-apply-block:%s:%s", role, classify(got, want)),
					What: fmt.Sprintf("ops=%v then proposer-path ApplyBlock of [stake delegate(7), stake validator(6)] at height %d: live FSM answers committee %d %s = %s, reference from the same uncommitted view = %s",
						ops, h, chain, role, got, want),
					Replay: replayArt{Kind: "history", Path: path, Ops: ops, Height: h, Role: role, Got: got, Want: want}})
			}
		}
	}
	// the committee OF A HEIGHT is a function of committed state: asked on the machine that holds the
	// uncommitted block (as consensus look-ups at the tip do while a proposal is applied) it must be the
	// answer the clean machine gives, now and after the commit
	for _, chain := range both {
		wantTip := renderVS(c.FSM.LoadCommittee(chain, h))
		for _, q := range []uint64{h, 0} {
			if gotTip := renderVS(cp.LoadCommittee(chain, q)); gotTip != wantTip {
				viols = append(viols, mc.Viol{Sig: "C13:tip-height-committee-sees-uncommitted-block:" + classify(gotTip, wantTip),
					What: fmt.Sprintf("ops=%v: LoadCommittee(%d, %d) asked at height %d on the machine holding the uncommitted block [stake delegate(7), stake validator(6)] = %s, on the clean machine = %s", ops, chain, q, h, gotTip, wantTip),
					Replay: replayArt{Kind: "history", Path: path, Ops: ops, Height: h, Role: "validators", Got: gotTip, Want: wantTip}})
			}
		}
	}
	// the block is rolled back (a refused proposal, a round interrupt): every live reader must be back at
	// the committed state
	cp.Reset()
	recs0, e4 := scanValidators(c.FSM.Store())
	cs0, e5 := capsAt(c.FSM)
	if e4 != nil || e5 != nil {
		return append(viols, mc.Viol{Sig: "C13:harness-error", What: fmt.Sprint(e4, e5)})
	}
	for _, chain := range both {
		for _, delegate := range []bool{true, false} {
			capv, role := cs0.Val, "validators"
			var got string
			if delegate {
				capv, role = cs0.Del, "delegates"
				got = renderVS(cp.GetDelegates(chain))
			} else {
				got = renderVS(cp.GetCommitteeMembers(chain))
			}
			if want := reference(recs0, chain, delegate, capv).render(); got != want {
				viols = append(viols, mc.Viol{Sig: fmt.Sprintf("C13:live-after-rollback:%s:%s", role, classify(got, want)),
					What: fmt.Sprintf("ops=%v then ApplyBlock of [stake delegate(7), stake validator(6)] at height %d, committee read, Reset(): live FSM answers committee %d %s = %s, reference from the committed state = %s",
						ops, h, chain, role, got, want),
					Replay: replayArt{Kind: "history", Path: path, Ops: ops, Height: h, Role: role, Got: got, Want: want}})
			}
		}
	}
	return
}

// longJob: one chain of N heights with a cyclic schedule; crosses the 64-entry shared validator cache.
func longJob(j Job) (res Result) {
	c, err := env.NewChain(histGenesis())
	if err != nil {
		return Result{Err: err.Error()}
	}
	defer c.Close()
	rec := &recorder{c: c, first: map[string]string{}}
	schedule := []int{1, 4, 2, 5, 3, 7, 0, 8, 9, 6, 1, 10, 4, 0, 5, 2, 7}
	var path []int
	res.Viols = append(res.Viols, rec.askAll(nil, nil, true, "asc")...)
	for i := 0; c.Height() < uint64(j.N); i++ {
		op := schedule[i%len(schedule)]
		ok, e := applyHistOp(c, op)
		if e != nil {
			return Result{Err: e.Error()}
		}
		if !ok {
			if ok2, _ := applyHistOp(c, 0); !ok2 {
				return Result{Err: fmt.Sprintf("empty block refused at height %d", c.Height())}
			}
			op = 0
		}
		path = append(path, op)
		order := "asc"
		if i%3 == 1 {
			order = "desc"
		}
		res.Viols = append(res.Viols, rec.askAll(opNames(path), path, true, order)...)
		if len(res.Viols) > 5 {
			break
		}
	}
	// the same FSM instance now asks all heights three more times (fills, evicts, refills the shared cache)
	for _, order := range []string{"desc", "asc", "desc"} {
		res.Viols = append(res.Viols, rec.askAll(opNames(path), path, false, order)...)
	}
	res.Queries, res.Requeries, res.Changes = rec.queries, rec.requery, rec.changes
	res.Sample = map[string]any{"part": "long-chain", "heights": c.Height(), "queries": rec.queries, "requeries_compared": rec.requery, "heights_where_a_set_changed": rec.changes, "newest": rec.prev}
	return
}

// ---------------------------------------------------------------------------------------

func main() {
	if mc.IsWorker() {
		mc.ServeWorker(handle)
	}
	r := mc.Start("C13", "model_checking", 85*time.Second, 25*time.Minute)
	r.Assumptions = []string{
		"grid populations are packed 64 to a genesis; each population owns its five keys and its two committee ids, so other populations are only visible as records that the committee filter must skip",
		"MaxCommitteeSize=0 is refused by genesis parameter validation, the unlimited case for validators is a cap (100) above the population; for delegates 0 (unlimited) is used",
		"the intended order is taken from the documentation (stake descending, then address descending: DESIGN.md / property anchor; code comment 'sort by highest stake then address')",
		"history is driven on the direct path (env.Chain.Step: proposer path on an FSM copy + CommitCertificate's store/FSM calls); readers are only asked at committed heights",
		"protocol version 2 from genesis; BLS and hashing trusted",
	}
	if r.Replay != "" {
		doReplay(r)
		return
	}
	pool := mc.NewProcPool(0)
	cov := map[string]any{}
	quick := r.Quick()

	// Part H first (BFS), then the long chain and the grid share the remaining budget.
	depth := 3
	if !quick {
		depth = 4
	}
	// the history search may use at most 45% of the budget; the grid gets the rest
	budget := 85 * time.Second
	if !quick {
		budget = 25 * time.Minute
	}
	if f := flag.Lookup("budget"); f != nil {
		if d, err := time.ParseDuration(f.Value.String()); err == nil && d > 0 {
			budget = d
		}
	}
	start := time.Now()
	histCut := false
	histStop := func() bool {
		if r.Expired() {
			return true
		}
		if time.Since(start) > budget*45/100 {
			histCut = true
			return true
		}
		return false
	}
	// the 70-height chain and the overflow populations run next to everything else from the start (own worker)
	sideJobs := []Job{{Kind: "long", N: 70}, {Kind: "big"}}
	type sideOut struct {
		res     []*Result
		crashed []bool
	}
	sideCh := make(chan sideOut, 1)
	go func() {
		rs, cr := mc.Map[Job, Result](mc.NewProcPool(1), sideJobs, nil)
		sideCh <- sideOut{rs, cr}
	}()
	var hq, hrq, hch int64
	bs := mc.ReplayBFS(mc.BFSConfig{Tag: "hist", NumOps: len(histOps), MaxDepth: depth, Pool: pool, OnViol: r.OnViol, Stop: histStop,
		OnState: func(path []int, er *mc.ExecResult) {
			var a, b, c int64
			fmt.Sscanf(er.Info, "%d,%d,%d", &a, &b, &c)
			hq, hrq, hch = hq+a, hrq+b, hch+c
		}})
	if !bs.Complete {
		r.Exhaustive = false
		if histCut {
			r.Note("history BFS stopped at its share of the budget: depth %d completed, %d states", bs.DepthDone, bs.States)
		}
	}
	fmt.Printf("history BFS depth<=%d: states=%d transitions=%d frontier=%v disabled=%d revisits=%d complete=%v; on distinct states: %d queries, %d re-queries of past heights compared, %d set changes\n",
		depth, bs.States, bs.Transitions, bs.Frontier, bs.Disabled, bs.Revisits, bs.Complete, hq, hrq, hch)
	for _, p := range bs.SamplePaths {
		r.AddSample(map[string]any{"part": "history", "ops": opNames(p)})
	}

	var jobs []Job
	jobs = append(jobs, sideJobs...) // placeholders: their results are filled in from the side worker below
	pops := gridPopulations(quick)
	for from := 0; from < len(pops); from += packSize {
		for ci := range capSettings {
			jobs = append(jobs, Job{Kind: "grid", Cap: ci, From: from, N: packSize, Qk: quick})
		}
	}
	// deterministic stride order, so that a run cut by the deadline still samples the whole grid
	if n := len(jobs) - 2; n > 1 {
		gcd := func(a, b int) int {
			for b != 0 {
				a, b = b, a%b
			}
			return a
		}
		stride := 389
		for gcd(n, stride) != 1 {
			stride++
		}
		perm := make([]Job, n)
		for i := 0; i < n; i++ {
			perm[i] = jobs[2+(i*stride)%n]
		}
		copy(jobs[2:], perm)
	}
	fmt.Printf("grid: %d populations x %d cap settings in %d packs\n", len(pops), len(capSettings), len(jobs)-2)
	results, crashed := make([]*Result, len(jobs)), make([]bool, len(jobs))
	gr, gc := mc.Map[Job, Result](pool, jobs[2:], r.Expired)
	copy(results[2:], gr)
	copy(crashed[2:], gc)
	side := <-sideCh
	copy(results[:2], side.res)
	copy(crashed[:2], side.crashed)
	var evals, gpops, capBinds, cutsTie, empty, queries, done int
	nontriv := map[string]int{}
	var longRes *Result
	for i, res := range results {
		if crashed[i] {
			r.Violation("C13:worker-crash", fmt.Sprintf("worker died twice on job %+v", jobs[i]), jobs[i])
			continue
		}
		if res == nil {
			continue
		}
		done++
		for _, v := range res.Viols {
			r.OnViol(v)
		}
		if res.Err != "" {
			r.Violation("C13:harness-error", fmt.Sprintf("job %+v: %s", jobs[i], res.Err), jobs[i])
			continue
		}
		if jobs[i].Kind == "long" {
			longRes = res
			r.AddSample(res.Sample)
			continue
		}
		evals += res.Evals
		gpops += res.Pops
		capBinds += res.CapBinds
		cutsTie += res.CutsTie
		empty += res.Empty
		queries += res.Queries
		for k, n := range res.NonTriv {
			nontriv[k] += n
		}
		if res.Sample != nil && i%97 == 5 {
			r.AddSample(res.Sample)
		}
	}
	if done < len(jobs) {
		r.Exhaustive = false
		r.Note("grid stopped at %d of %d jobs (deadline)", done, len(jobs))
	}
	fmt.Printf("grid: %d population x cap evaluations of %d (population,cap) pairs; cap binds in %d, a stake tie straddles the cap in %d (%d distinct outcomes), empty/zero-power sets %d; %d reader answers compared (2 nodes, fresh and reopened FSM)\n",
		evals, gpops, capBinds, cutsTie, len(nontriv), empty, queries)
	if longRes != nil {
		fmt.Printf("long chain: %d queries, %d re-queries compared, sets changed at %d heights\n", longRes.Queries, longRes.Requeries, longRes.Changes)
		cov["long_chain"] = longRes.Sample
	}
	cov["states"] = bs.States
	cov["transitions"] = int(bs.Transitions)
	cov["traces_validated_against_impl"] = int(bs.Transitions)
	cov["explanation"] = "states/transitions: history replay-BFS (a transition = one committed block followed by re-asking every earlier height); the grid part is reported under evaluations/distinct_nontrivial"
	cov["history"] = map[string]any{"depth": depth, "ops": histOps, "depth_completed": bs.DepthDone, "frontier_per_depth": bs.Frontier, "disabled": bs.Disabled, "revisits": bs.Revisits, "complete": bs.Complete,
		"queries_on_distinct_states": hq, "requeries_of_past_heights_compared": hrq, "set_changes_observed": hch}
	cov["evaluations"] = evals
	cov["distinct_nontrivial"] = len(nontriv)
	cov["rule"] = "an evaluation = one (population, cap, committee, role) set derivation compared over all readers; non-trivial = more eligible records than the cap AND equal stakes on both sides of the cap boundary; distinct = distinct (role, cap, ordered member positions with stakes, eligible count)"
	cov["grid"] = map[string]any{"population_cap_pairs": gpops, "cap_binds": capBinds, "tie_straddles_cap": cutsTie, "empty_or_zero_power": empty, "reader_answers_compared": queries,
		"cap_settings": capSettings, "stake_multisets": multisets, "pack_size": packSize}
	r.Finish(cov)
}

func doReplay(r *mc.Run) {
	var a replayArt
	if err := r.LoadReplay(&a); err != nil {
		fmt.Println("cannot load replay:", err)
		r.Finish(map[string]any{"states": 1, "transitions": 1, "traces_validated_against_impl": 0})
	}
	n := 0
	for i := 0; i < 5; i++ {
		var res Result
		switch a.Kind {
		case "history":
			res = histExec(a.Path, true)
		case "big":
			res = bigJob()
		default:
			if a.Pop != nil && a.Cap != nil {
				res = replayGrid(*a.Pop, *a.Cap, a.Slot)
			}
		}
		for _, v := range res.Viols {
			r.OnViol(v)
			n++
		}
		if res.Err != "" {
			fmt.Println("replay error:", res.Err)
		}
	}
	fmt.Printf("replay: %d violations in 5 runs\n", n)
	r.Finish(map[string]any{"states": 1, "transitions": 5, "traces_validated_against_impl": 5})
}

func replayGrid(pop population, cs capSetting, slot int) (res Result) {
	pops := make([]population, slot+1) // the same keys (hence addresses) as in the original pack
	pops[slot] = pop
	c, err := env.NewChain(packGenesis(pops, cs, false))
	if err != nil {
		return Result{Err: err.Error()}
	}
	defer c.Close()
	ro, _ := c.Store.NewReadOnly(c.Store.Version())
	recs, e := scanValidators(ro)
	ro.Discard()
	if e != nil {
		return Result{Err: e.Error()}
	}
	for ci, chain := range []uint64{commA(slot), commB(slot)} {
		for _, delegate := range []bool{false, true} {
			capv, role := cs.Val, "validators"
			if delegate {
				capv, role = cs.Del, "delegates"
			}
			ref := reference(recs, chain, delegate, capv)
			want := ref.render()
			for reader, got := range queryAll(c, chain, delegate) {
				if got != want {
					what := classify(got, want)
					sig := fmt.Sprintf("C13:grid:%s:%s", role, what)
					if what == "maj23-threshold" && ref.total.BitLen() >= 64 {
						sig += ":total-power>=2^63"
					}
					res.Viols = append(res.Viols, mc.Viol{Sig: sig, What: fmt.Sprintf("population %+v caps %+v committee %d reader %s: got %s want %s", pop, cs, ci, reader, got, want)})
				}
			}
		}
	}
	return
}
