package main

// Part 3 of C10 - "what a reader observes as of height v - state, committee, blocks - never changes once v is
// committed": the same statement one layer up. The store worlds decide it for keys; here a real chain (fsm.StateMachine
// over a real store) with a HETEROGENEOUS validator population (validators and delegates, two committees, a paused one,
// different stakes) commits a history that keeps changing that population, and after every block every past height is
// read again through every reader the node has - committee of each chain, delegate set of each chain, root-chain info,
// block by height, account state of a TimeMachine - in EVERY ORDER of the committee-type questions (a reader that
// answers the second question at a height from what the first one left behind is order dependent). The answer recorded
// when the height was first readable is the reference; every later answer must be byte-identical, and a fresh
// TimeMachine and the long-lived one must agree.
//
// The chain runs in a child process of its own (one store per process, see DESIGN 1.1).

import (
	"encoding/json"
	"fmt"
	"os"
	"os/exec"
	"sort"
	"strings"

	"github.com/canopy-network/canopy/fsm"
	"github.com/canopy-network/canopy/lib"

	"verifharness/c07lib"
	"verifharness/env"
	"verifharness/mc"
)

const histChain2 = uint64(2)

type histResult struct {
	Heights   int       `json:"heights"`
	Queries   int       `json:"queries"`
	Requeries int       `json:"requeries"`
	Orders    int       `json:"orders"`
	Distinct  int       `json:"distinct_answers"`
	Viols     []mc.Viol `json:"viols"`
	Sample    []string  `json:"sample"`
	Err       string    `json:"err,omitempty"`
}

func histGenesis() *fsm.GenesisState {
	acc := map[int]uint64{}
	for i := 0; i < 14; i++ {
		acc[i] = 1_000_000_000
	}
	both := []uint64{env.ChainID, histChain2}
	vals := []env.ValSpec{
		{Key: 0, Stake: 900_000, Committees: both, OutputKey: -1},
		{Key: 1, Stake: 700_000, Committees: both, OutputKey: -1},
		{Key: 2, Stake: 800_000, Committees: []uint64{histChain2}, OutputKey: -1},
		{Key: 3, Stake: 600_000, Committees: []uint64{env.ChainID}, OutputKey: -1},
		{Key: 4, Stake: 500_000, Committees: both, Delegate: true, OutputKey: -1},
		{Key: 5, Stake: 400_000, Committees: []uint64{histChain2}, Delegate: true, OutputKey: -1},
		{Key: 6, Stake: 950_000, Committees: both, OutputKey: -1, MaxPaused: 500},
	}
	return env.NewGenesis(acc, vals, func(p *fsm.Params) {
		p.Validator.UnstakingBlocks = 2
		p.Validator.MaxCommitteeSize = 3
		p.Validator.MaximumDelegatesPerCommittee = 0
	})
}

// histBlocks: the transactions of block h (heights start at 1).
func histBlocks(h uint64) [][]byte {
	t := c07lib.BlockTime(h)
	switch h {
	case 2:
		return [][]byte{c07lib.Stake(8, 850_000, []uint64{histChain2}, h, t+1)}
	case 3:
		return [][]byte{c07lib.EditStake(1, 990_000, []uint64{env.ChainID, histChain2}, h, t+1), c07lib.Send(10, 11, 777, h, t+2)}
	case 4:
		return [][]byte{c07lib.MkTx(env.BLS(0), &fsm.MessageUnstake{Address: env.Addr(env.BLS(0)).Bytes()}, c07lib.Fee, h, t+1, "")}
	case 5:
		return [][]byte{c07lib.MkTx(env.BLS(2), &fsm.MessagePause{Address: env.Addr(env.BLS(2)).Bytes()}, c07lib.Fee, h, t+1, ""),
			c07lib.MkTx(env.BLS(9), &fsm.MessageStake{PublicKey: env.BLS(9).PublicKey().Bytes(), Amount: 450_000, Committees: []uint64{env.ChainID, histChain2},
				OutputAddress: env.Addr(env.BLS(9)).Bytes(), Delegate: true, Compound: true}, c07lib.Fee, h, t+2, "")}
	case 6:
		return [][]byte{c07lib.MkTx(env.BLS(6), &fsm.MessageUnpause{Address: env.Addr(env.BLS(6)).Bytes()}, c07lib.Fee, h, t+1, "")}
	case 7:
		return [][]byte{c07lib.EditStake(3, 1_200_000, []uint64{env.ChainID, histChain2}, h, t+1)}
	case 8:
		return [][]byte{c07lib.Send(11, 12, 5, h, t+1)}
	}
	return nil
}

func vsStr(vs lib.ValidatorSet, err lib.ErrorI) string {
	if err != nil {
		return "ERR:" + fmt.Sprint(err.Code())
	}
	if vs.ValidatorSet == nil {
		return "nil"
	}
	var sb strings.Builder
	for _, v := range vs.ValidatorSet.ValidatorSet {
		fmt.Fprintf(&sb, "%x:%d,", v.PublicKey[:4], v.VotingPower)
	}
	fmt.Fprintf(&sb, "|n=%d|tp=%d|maj=%d", vs.NumValidators, vs.TotalPower, vs.MinimumMaj23)
	return sb.String()
}

// the committee-type questions; every order of them is asked on its own fresh TimeMachine
var histQs = []struct {
	name string
	ask  func(tm *fsm.StateMachine, live *fsm.StateMachine, v uint64) string
}{
	{"committee(1)", func(tm, _ *fsm.StateMachine, _ uint64) string { return vsStr(tm.GetCommitteeMembers(env.ChainID)) }},
	{"committee(2)", func(tm, _ *fsm.StateMachine, _ uint64) string { return vsStr(tm.GetCommitteeMembers(histChain2)) }},
	{"delegates(1)", func(tm, _ *fsm.StateMachine, _ uint64) string { return vsStr(tm.GetDelegates(env.ChainID)) }},
	{"delegates(2)", func(tm, _ *fsm.StateMachine, _ uint64) string { return vsStr(tm.GetDelegates(histChain2)) }},
}

func permsOf(n int) [][]int {
	var out [][]int
	var rec func(cur []int, used []bool)
	rec = func(cur []int, used []bool) {
		if len(cur) == n {
			out = append(out, append([]int{}, cur...))
			return
		}
		for i := 0; i < n; i++ {
			if !used[i] {
				used[i] = true
				rec(append(cur, i), used)
				used[i] = false
			}
		}
	}
	rec(nil, make([]bool, n))
	return out
}

func fsmHistChild() {
	res := histResult{}
	defer func() {
		if r := recover(); r != nil {
			res.Err = fmt.Sprint("panic: ", r)
		}
		bz, _ := json.Marshal(res)
		fmt.Println("HIST-RESULT " + string(bz))
	}()
	c, err := env.NewChain(histGenesis())
	if err != nil {
		res.Err = err.Error()
		return
	}
	defer c.Close()
	ref := map[string]string{} // "v|question" -> first answer
	distinct := map[string]bool{}
	perms := permsOf(len(histQs))
	res.Orders = len(perms)
	seenViol := map[string]bool{}
	bad := func(sig, what string, replay map[string]any) {
		if !seenViol[sig] && len(res.Viols) < 8 {
			seenViol[sig] = true
			res.Viols = append(res.Viols, mc.Viol{Sig: sig, What: what, Replay: replay})
		}
	}
	check := func(v uint64, q, got, how string, tip uint64) {
		res.Queries++
		k := fmt.Sprintf("%d|%s", v, q)
		distinct[got] = true
		if want, ok := ref[k]; !ok {
			ref[k] = got
			if len(res.Sample) < 6 {
				res.Sample = append(res.Sample, fmt.Sprintf("as of height %d %s = %s", v, q, got))
			}
		} else {
			res.Requeries++
			if want != got {
				bad("C10:fsm-history:"+strings.SplitN(q, "(", 2)[0]+":answer-for-committed-height-changed",
					fmt.Sprintf("as of committed height %d, %s was first answered %s; asked again (%s) with the chain at height %d it is %s", v, q, want, how, tip, got),
					map[string]any{"part": "fsm-history", "height": v, "question": q, "how": how, "tip": tip})
			}
		}
	}
	const last = 9
	for h := uint64(1); h <= last; h++ {
		if _, e := c.Step(env.BlockSpec{Txs: histBlocks(h), Proposer: 1, Time: c07lib.BlockTime(h)}); e != nil {
			res.Err = fmt.Sprintf("block %d: %v", h, e)
			return
		}
		res.Heights = int(h)
		tip := c.FSM.Height()
		// every committed version v (the state after block v-1 ... the FSM convention: TimeMachine(v) reads version v-1)
		for v := uint64(1); v <= tip; v++ {
			for pi, perm := range perms {
				tm, e := c.FSM.TimeMachine(v)
				if e != nil {
					check(v, "timemachine", "ERR:"+fmt.Sprint(e.Code()), "open", tip)
					continue
				}
				for _, qi := range perm {
					q := histQs[qi]
					check(v, q.name, q.ask(tm, c.FSM, v), fmt.Sprintf("order %v, fresh view", perm), tip)
				}
				if pi == 0 {
					// the same view, asked once more after all four (what the first pass left behind must not matter)
					for qi := len(histQs) - 1; qi >= 0; qi-- {
						q := histQs[qi]
						check(v, q.name, q.ask(tm, c.FSM, v), "second pass on one view", tip)
					}
					acc, e2 := tm.GetAccount(env.Addr(env.BLS(11)))
					s := "ERR"
					if e2 == nil {
						s = fmt.Sprint(acc.Amount)
					}
					check(v, "account(A11)", s, "fresh view", tip)
				}
				tm.Discard()
			}
			// the readers that take a height and open their own view
			for _, ch := range []uint64{env.ChainID, histChain2} {
				check(v, fmt.Sprintf("committee(%d)", ch), vsStr(c.FSM.LoadCommittee(ch, v)), "LoadCommittee(chain, height) on the live machine", tip)
			}
			for _, ch := range []uint64{histChain2, env.ChainID} {
				check(v, fmt.Sprintf("committee(%d)", ch), vsStr(c.FSM.LoadCommittee(ch, v)), "LoadCommittee(chain, height) on the live machine, other order", tip)
			}
			if v < tip {
				blk, e := c.Store.GetBlockByHeight(v)
				s := "ERR"
				if e == nil && blk != nil && blk.BlockHeader != nil {
					bz, _ := lib.Marshal(blk)
					s = fmt.Sprintf("%x#%d", blk.BlockHeader.Hash, len(bz))
				}
				check(v, "block", s, "GetBlockByHeight", tip)
			}
		}
	}
	res.Distinct = len(distinct)
}

// runFsmHistory starts the child and folds its result into the run.
func runFsmHistory(r *mc.Run, cov map[string]any) {
	exe, err := os.Executable()
	if err != nil {
		r.Note("fsm-history part not run: %v", err)
		return
	}
	cmd := exec.Command(exe, "-fsmhist-child")
	cmd.Env = append(os.Environ(), "GOMAXPROCS=2")
	out, err := cmd.Output()
	var res histResult
	found := false
	for _, ln := range strings.Split(string(out), "\n") {
		if strings.HasPrefix(ln, "HIST-RESULT ") {
			found = json.Unmarshal([]byte(strings.TrimPrefix(ln, "HIST-RESULT ")), &res) == nil
		}
	}
	if !found || res.Err != "" {
		// a harness problem, not a verdict
		r.Note("fsm-history part did not complete (err=%v, child says %q)", err, res.Err)
		r.Exhaustive = false
		cov["fsm_history"] = map[string]any{"completed": false}
		return
	}
	sort.Slice(res.Viols, func(i, j int) bool { return res.Viols[i].Sig < res.Viols[j].Sig })
	for _, v := range res.Viols {
		r.OnViol(v)
	}
	cov["fsm_history"] = map[string]any{"completed": true, "blocks": res.Heights, "queries": res.Queries, "requeries_compared_with_first_answer": res.Requeries,
		"question_orders_per_height": res.Orders, "distinct_answers": res.Distinct, "samples": res.Sample}
	fmt.Printf("fsm-history: %d blocks, %d queries, %d re-queries compared with the first answer, %d question orders per height, %d distinct answers, %d violations\n",
		res.Heights, res.Queries, res.Requeries, res.Orders, res.Distinct, len(res.Viols))
}
