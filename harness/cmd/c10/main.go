// C10 — store read semantics and immutability of committed history.
//
// Explorer (c): replay-BFS over operation sequences on the real store.Store against a
// boring reference model (a versioned map plus a stack of pending overlays). After every
// operation of every explored sequence every reader that exists (live store, every open
// nested txn, the copy, every read-only view ever opened, a fresh read-only view at every
// committed version) is queried for all keys and all prefixes in both directions and
// compared with the model.
//
// World 2 drives store.VersionedStore directly (exported constructor) so that both
// iterator strategies (seek / linear) are exercised on all small multi-version layouts.
package main

import (
	"bytes"
	"fmt"
	"os"
	"sort"
	"strings"
	"sync/atomic"
	"time"

	"github.com/canopy-network/canopy/lib"
	"github.com/canopy-network/canopy/store"
	"github.com/cockroachdb/pebble/v2"
	"github.com/cockroachdb/pebble/v2/vfs"

	"verifharness/mc"
)

// ---------------------------------------------------------------------------------------
// key universes

type universe struct {
	name     string
	keys     [][]byte
	prefixes [][]byte
	class    string // "" or "segprefix" (one key is a whole-segment prefix of another)
}

func k(segs ...string) []byte {
	var b [][]byte
	for _, s := range segs {
		b = append(b, []byte(s))
	}
	return lib.JoinLenPrefix(b...)
}

var uniPlain = universe{
	name: "plain",
	keys: [][]byte{k("a", "b"), k("a", "c"), k("a", "bb"), k("ab"), k("b", "a")},
	// nil prefix = everything; [a] matches three keys; [a][b] exactly one; [b] one; [c] none
	prefixes: [][]byte{nil, k("a"), k("a", "b"), k("ab"), k("c")},
}

var uniSeg = universe{
	name:     "segprefix",
	keys:     [][]byte{k("a"), k("a", "b"), k("a", "b", "c"), k("a", "c"), k("ab")},
	prefixes: [][]byte{nil, k("a"), k("a", "b"), k("ab")},
	class:    "segprefix",
}

// uniNarrow trades width for depth: two keys under one prefix, a smaller operation alphabet, so
// that histories of 7-8 operations (delete in one version, re-set later, rollback in between;
// a pending parent write shadowed by a nested delete that is flushed) are enumerated in full.
var uniNarrow = universe{
	name:     "narrow",
	keys:     [][]byte{k("a", "b"), k("a", "c")},
	prefixes: [][]byte{nil, k("a"), k("a", "b")},
}

var vals = [][]byte{[]byte("x"), []byte("yy")}

// ---------------------------------------------------------------------------------------
// reference model

type ver struct {
	v    uint64
	val  string
	dead bool
}

type pend struct {
	val  string
	dead bool
}

type overlay map[string]pend

type viewM struct {
	version uint64
	obs     string // what the view returned when first opened
}

type model struct {
	version uint64
	hist    map[string][]ver // committed writes per key, ascending version
	levels  []overlay        // levels[0] = live pending; higher = nested txns
	cp      *copyM
	views   []viewM
}

type copyM struct {
	version uint64
	hist    map[string][]ver
	pending overlay
}

func newModel() *model { return &model{hist: map[string][]ver{}, levels: []overlay{{}}} }

func cloneHist(h map[string][]ver) map[string][]ver {
	o := map[string][]ver{}
	for k, v := range h {
		o[k] = append([]ver{}, v...)
	}
	return o
}
func cloneOverlay(o overlay) overlay {
	n := overlay{}
	for k, v := range o {
		n[k] = v
	}
	return n
}

// committedAt returns value of key as of version v.
func committedAt(h map[string][]ver, key string, v uint64) (string, bool) {
	var best *ver
	for i := range h[key] {
		if h[key][i].v <= v {
			best = &h[key][i]
		}
	}
	if best == nil || best.dead {
		return "", false
	}
	return best.val, true
}

// read through overlays[0..lvl] over committed state at version
func readThrough(h map[string][]ver, version uint64, ov []overlay, key string) (string, bool) {
	for i := len(ov) - 1; i >= 0; i-- {
		if p, ok := ov[i][key]; ok {
			if p.dead {
				return "", false
			}
			return p.val, true
		}
	}
	return committedAt(h, key, version)
}

// expectObs renders the full expected observation of a reader.
func expectObs(u *universe, get func(key string) (string, bool)) string {
	var sb strings.Builder
	for _, key := range u.keys {
		v, ok := get(string(key))
		fmt.Fprintf(&sb, "G%x=%v:%s;", key, ok, v)
	}
	for _, p := range u.prefixes {
		var ks []string
		for _, key := range u.keys {
			if bytes.HasPrefix(key, p) {
				if _, ok := get(string(key)); ok {
					ks = append(ks, string(key))
				}
			}
		}
		sort.Strings(ks)
		fmt.Fprintf(&sb, "F%x[", p)
		for _, key := range ks {
			v, _ := get(key)
			fmt.Fprintf(&sb, "%x=%s,", key, v)
		}
		fmt.Fprintf(&sb, "]R%x[", p)
		for i := len(ks) - 1; i >= 0; i-- {
			v, _ := get(ks[i])
			fmt.Fprintf(&sb, "%x=%s,", ks[i], v)
		}
		sb.WriteString("];")
	}
	return sb.String()
}

// actualObs queries a real reader the same way.
func actualObs(u *universe, r lib.RStoreI) (s string, err error) {
	defer func() {
		if p := recover(); p != nil {
			err = fmt.Errorf("panic: %v", p)
		}
	}()
	var sb strings.Builder
	for _, key := range u.keys {
		v, e := r.Get(key)
		if e != nil {
			return "", e
		}
		fmt.Fprintf(&sb, "G%x=%v:%s;", key, v != nil, v)
	}
	for _, p := range u.prefixes {
		for _, rev := range []bool{false, true} {
			var it lib.IteratorI
			var e lib.ErrorI
			if rev {
				it, e = r.RevIterator(p)
			} else {
				it, e = r.Iterator(p)
			}
			if e != nil {
				return "", e
			}
			if rev {
				fmt.Fprintf(&sb, "R%x[", p)
			} else {
				fmt.Fprintf(&sb, "F%x[", p)
			}
			n := 0
			var plain strings.Builder
			for ; it.Valid(); it.Next() {
				fmt.Fprintf(&plain, "%x=%s,", it.Key(), it.Value())
				if n++; n > 64 {
					it.Close()
					return "", fmt.Errorf("iterator does not terminate")
				}
			}
			it.Close()
			sb.WriteString(plain.String())
			sb.WriteString("]")
			// the same iteration with a point read between opening the iterator and its first use (a key below and a
			// key above the prefix): an open iterator is a snapshot of its range, other reads must not disturb it
			for _, probe := range [][]byte{u.keys[0], u.keys[len(u.keys)-1]} {
				var it2 lib.IteratorI
				if rev {
					it2, e = r.RevIterator(p)
				} else {
					it2, e = r.Iterator(p)
				}
				if e != nil {
					return "", e
				}
				if _, e = r.Get(probe); e != nil {
					it2.Close()
					return "", e
				}
				var again strings.Builder
				for n = 0; it2.Valid(); it2.Next() {
					fmt.Fprintf(&again, "%x=%s,", it2.Key(), it2.Value())
					if n++; n > 64 {
						break
					}
				}
				it2.Close()
				if again.String() != plain.String() {
					fmt.Fprintf(&sb, "!after-Get(%x)-between-open-and-first-use:[%s]", probe, again.String())
				}
			}
		}
		sb.WriteString(";")
	}
	return sb.String(), nil
}

// key for BFS de-duplication: the complete model state.
func (m *model) key() string {
	var sb strings.Builder
	fmt.Fprintf(&sb, "v%d|", m.version)
	dumpHist(&sb, m.hist)
	for i, o := range m.levels {
		fmt.Fprintf(&sb, "|L%d:", i)
		dumpOverlay(&sb, o)
	}
	if m.cp != nil {
		fmt.Fprintf(&sb, "|C%d:", m.cp.version)
		dumpHist(&sb, m.cp.hist)
		dumpOverlay(&sb, m.cp.pending)
	}
	for _, v := range m.views {
		fmt.Fprintf(&sb, "|V%d:%s", v.version, v.obs)
	}
	return sb.String()
}
func dumpHist(sb *strings.Builder, h map[string][]ver) {
	ks := make([]string, 0, len(h))
	for k := range h {
		ks = append(ks, k)
	}
	sort.Strings(ks)
	for _, k := range ks {
		fmt.Fprintf(sb, "%x:", k)
		for _, v := range h[k] {
			fmt.Fprintf(sb, "(%d,%s,%v)", v.v, v.val, v.dead)
		}
	}
}
func dumpOverlay(sb *strings.Builder, o overlay) {
	ks := make([]string, 0, len(o))
	for k := range o {
		ks = append(ks, k)
	}
	sort.Strings(ks)
	for _, k := range ks {
		fmt.Fprintf(sb, "%x=%s,%v;", k, o[k].val, o[k].dead)
	}
}

// ---------------------------------------------------------------------------------------
// operations

type opKind int

const (
	opSet opKind = iota
	opDel
	opNest
	opFlush
	opDiscard
	opCommit
	opReset
	opCopy
	opCopySet
	opCompact
	opView        // open a read-only view at version arg (relative: version - arg)
	opRollback    // rollback to version-arg
	opDiscardKeep // Discard() of the innermost nested transaction, which stays in use afterwards
	opFlushKeep   // Flush() of the innermost nested transaction into its parent; it stays in use afterwards
)

type op struct {
	kind opKind
	key  int
	val  int
	arg  int
}

func (o op) String() string {
	switch o.kind {
	case opSet:
		return fmt.Sprintf("Set(k%d,v%d)", o.key, o.val)
	case opDel:
		return fmt.Sprintf("Delete(k%d)", o.key)
	case opNest:
		return "NewTxn"
	case opFlush:
		return "NestedFlush"
	case opDiscard:
		return "NestedDiscard"
	case opCommit:
		return "Commit"
	case opReset:
		return "Reset"
	case opCopy:
		return "Copy"
	case opCopySet:
		return fmt.Sprintf("CopySet(k%d,v%d)", o.key, o.val)
	case opCompact:
		return "CompactAll"
	case opView:
		return fmt.Sprintf("OpenView(version-%d)", o.arg)
	case opRollback:
		return fmt.Sprintf("Rollback(version-%d)", o.arg)
	case opDiscardKeep:
		return "NestedDiscard(keep using it)"
	case opFlushKeep:
		return "NestedFlush(keep using it)"
	}
	return "?"
}

func alphabet(u *universe, thorough bool) []op {
	var a []op
	for i := range u.keys {
		for j := range vals {
			a = append(a, op{kind: opSet, key: i, val: j})
		}
	}
	for i := range u.keys {
		a = append(a, op{kind: opDel, key: i})
	}
	if u.name == "narrow" {
		return append(a, op{kind: opCommit}, op{kind: opNest}, op{kind: opFlush}, op{kind: opDiscard},
			op{kind: opRollback, arg: 1}, op{kind: opRollback, arg: 2}, op{kind: opView, arg: 1}, op{kind: opDiscardKeep}, op{kind: opFlushKeep})
	}
	a = append(a, op{kind: opCommit}, op{kind: opNest}, op{kind: opFlush}, op{kind: opDiscard},
		op{kind: opReset}, op{kind: opCopy}, op{kind: opCopySet, key: 0, val: 1},
		op{kind: opView, arg: 0}, op{kind: opView, arg: 1}, op{kind: opCompact}, op{kind: opRollback, arg: 1})
	a = append(a, op{kind: opDiscardKeep}, op{kind: opFlushKeep}) // appended: earlier indices (replay artefacts) stay valid
	if thorough {
		a = append(a, op{kind: opView, arg: 2}, op{kind: opRollback, arg: 2})
	}
	return a
}

// world is one live instance: real store + model.
type world struct {
	u      *universe
	st     *store.Store
	nested []lib.StoreI
	cp     lib.StoreI
	views  []lib.StoreI
	m      *model
}

func newWorld(u *universe) *world {
	s, err := store.NewStoreInMemory(lib.NewNullLogger())
	if err != nil {
		panic(err)
	}
	return &world{u: u, st: s.(*store.Store), m: newModel()}
}

func (w *world) close() {
	for _, v := range w.views {
		v.Discard()
	}
	if w.cp != nil {
		w.cp.Discard()
	}
	_ = w.st.Close()
}

func (w *world) top() lib.StoreI {
	if len(w.nested) > 0 {
		return w.nested[len(w.nested)-1]
	}
	return w.st
}

// apply returns enabled=false if the operation makes no sense in this state.
func (w *world) apply(o op) (enabled bool, err error) {
	defer func() {
		if p := recover(); p != nil {
			err = fmt.Errorf("panic in %s: %v", o, p)
		}
	}()
	m := w.m
	lvl := len(m.levels) - 1
	switch o.kind {
	case opSet:
		key := w.u.keys[o.key]
		if e := w.top().Set(bytes.Clone(key), bytes.Clone(vals[o.val])); e != nil {
			return true, e
		}
		m.levels[lvl][string(key)] = pend{val: string(vals[o.val])}
	case opDel:
		key := w.u.keys[o.key]
		if e := w.top().Delete(bytes.Clone(key)); e != nil {
			return true, e
		}
		m.levels[lvl][string(key)] = pend{dead: true}
	case opNest:
		if lvl >= 2 {
			return false, nil
		}
		w.nested = append(w.nested, w.top().NewTxn())
		m.levels = append(m.levels, overlay{})
	case opFlush:
		if lvl == 0 {
			return false, nil
		}
		if e := w.top().Flush(); e != nil {
			return true, e
		}
		w.nested = w.nested[:len(w.nested)-1]
		for k, v := range m.levels[lvl] {
			m.levels[lvl-1][k] = v
		}
		m.levels = m.levels[:lvl]
	case opDiscard:
		if lvl == 0 {
			return false, nil
		}
		w.top().Discard()
		w.nested = w.nested[:len(w.nested)-1]
		m.levels = m.levels[:lvl]
	case opDiscardKeep:
		if lvl == 0 || len(m.levels[lvl]) == 0 {
			return false, nil
		}
		w.iterateAll(w.top()) // whatever an iteration leaves behind in the transaction must not survive the Discard
		w.top().Discard()
		m.levels[lvl] = overlay{}
	case opFlushKeep:
		if lvl == 0 || len(m.levels[lvl]) == 0 {
			return false, nil
		}
		w.iterateAll(w.top())
		if e := w.top().Flush(); e != nil {
			return true, e
		}
		for k, v := range m.levels[lvl] {
			m.levels[lvl-1][k] = v
		}
		m.levels[lvl] = overlay{}
	case opCommit:
		if lvl != 0 || m.version >= 4 {
			return false, nil
		}
		if _, e := w.st.Commit(); e != nil {
			return true, e
		}
		m.version++
		for k, p := range m.levels[0] {
			m.hist[k] = append(m.hist[k], ver{v: m.version, val: p.val, dead: p.dead})
		}
		m.levels[0] = overlay{}
	case opReset:
		if lvl != 0 || len(m.levels[0]) == 0 {
			return false, nil
		}
		w.iterateAll(w.st)
		w.st.Reset()
		m.levels[0] = overlay{}
	case opCopy:
		if lvl != 0 {
			return false, nil
		}
		if w.cp != nil {
			w.cp.Discard()
		}
		c, e := w.st.Copy()
		if e != nil {
			return true, e
		}
		w.cp = c
		m.cp = &copyM{version: m.version, hist: cloneHist(m.hist), pending: cloneOverlay(m.levels[0])}
	case opCopySet:
		if m.cp == nil {
			return false, nil
		}
		key := w.u.keys[o.key]
		if e := w.cp.Set(bytes.Clone(key), bytes.Clone(vals[o.val])); e != nil {
			return true, e
		}
		m.cp.pending[string(key)] = pend{val: string(vals[o.val])}
	case opCompact:
		if m.version == 0 {
			return false, nil
		}
		if e := w.st.CompactAll(m.version); e != nil {
			return true, e
		}
	case opView:
		if uint64(o.arg) >= m.version || len(m.views) >= 2 {
			return false, nil
		}
		v := m.version - uint64(o.arg)
		ro, e := w.st.NewReadOnly(v)
		if e != nil {
			return true, e
		}
		w.views = append(w.views, ro)
		hist := m.hist
		m.views = append(m.views, viewM{version: v, obs: expectObs(w.u, func(key string) (string, bool) { return committedAt(hist, key, v) })})
	case opRollback:
		if lvl != 0 || uint64(o.arg) >= m.version {
			return false, nil
		}
		t := m.version - uint64(o.arg)
		if e := w.st.Rollback(t); e != nil {
			return true, e
		}
		m.version = t
		for k, vs := range m.hist {
			var keep []ver
			for _, v := range vs {
				if v.v <= t {
					keep = append(keep, v)
				}
			}
			if len(keep) == 0 {
				delete(m.hist, k)
			} else {
				m.hist[k] = keep
			}
		}
		m.levels[0] = overlay{}
		// views above the rollback target refer to discarded history; the property only
		// speaks about rollback to a height >= v, so they are dropped from the oracle
		var kv []viewM
		var kr []lib.StoreI
		for i, v := range m.views {
			if v.version <= t {
				kv = append(kv, v)
				kr = append(kr, w.views[i])
			} else {
				w.views[i].Discard()
			}
		}
		m.views, w.views = kv, kr
	}
	return true, nil
}

// iterateAll opens and consumes a forward and a reverse iterator for every prefix of the universe (results ignored:
// the readers are compared with the model at the end of the path).
func (w *world) iterateAll(r lib.RStoreI) {
	for _, p := range w.u.prefixes {
		for _, rev := range []bool{false, true} {
			var it lib.IteratorI
			var e lib.ErrorI
			if rev {
				it, e = r.RevIterator(p)
			} else {
				it, e = r.Iterator(p)
			}
			if e != nil {
				continue
			}
			for n := 0; it.Valid() && n < 64; n++ {
				it.Next()
			}
			it.Close()
		}
	}
}

// mismatch is one reader whose observation differs from the model.
type mismatch struct {
	reader, want, got string
	// pair: the committed history this reader sits on holds a key together with a whole-segment
	// extension of it (the key shape of the recorded finding); false = the shape only exists in
	// pending (uncommitted) layers or not at all
	pair bool
}

// committedPair reports whether hist, as of version v, holds some key and a whole-segment extension of it
// (any version counts, dead or alive: tombstones are stored and stepped over like values).
func committedPair(u *universe, hist map[string][]ver, v uint64) bool {
	has := func(key []byte) bool {
		for _, x := range hist[string(key)] {
			if x.v <= v {
				return true
			}
		}
		return false
	}
	for _, a := range u.keys {
		for _, b := range u.keys {
			if len(b) > len(a) && bytes.HasPrefix(b, a) && has(a) && has(b) {
				return true
			}
		}
	}
	return false
}

// check compares every reader with the model; returns every reader that disagrees.
func (w *world) check() (out []mismatch) {
	m := w.m
	add := func(reader, want, got string, hist map[string][]ver, v uint64) {
		out = append(out, mismatch{reader, want, got, committedPair(w.u, hist, v)})
	}
	// live store and every nested level
	for lvl := 0; lvl < len(m.levels); lvl++ {
		var r lib.RStoreI = w.st
		if lvl > 0 {
			r = w.nested[lvl-1]
		}
		ov := m.levels[:lvl+1]
		want := expectObs(w.u, func(key string) (string, bool) { return readThrough(m.hist, m.version, ov, key) })
		got, err := actualObs(w.u, r)
		if err != nil {
			got = "ERROR " + err.Error()
		}
		if got != want {
			add(fmt.Sprintf("level%d", lvl), want, got, m.hist, m.version)
		}
	}
	if m.cp != nil {
		c := m.cp
		want := expectObs(w.u, func(key string) (string, bool) { return readThrough(c.hist, c.version, []overlay{c.pending}, key) })
		got, err := actualObs(w.u, w.cp)
		if err != nil {
			got = "ERROR " + err.Error()
		}
		if got != want {
			add("copy", want, got, c.hist, c.version)
		}
	}
	for i, v := range m.views {
		got, err := actualObs(w.u, w.views[i])
		if err != nil {
			got = "ERROR " + err.Error()
		}
		if got != v.obs {
			add(fmt.Sprintf("heldview@%d", v.version), v.obs, got, m.hist, v.version)
		}
	}
	for v := uint64(1); v <= m.version; v++ {
		ro, e := w.st.NewReadOnly(v)
		if e != nil {
			add(fmt.Sprintf("freshview@%d", v), "", "ERROR "+e.Error(), m.hist, v)
			continue
		}
		vv := v
		want := expectObs(w.u, func(key string) (string, bool) { return committedAt(m.hist, key, vv) })
		got, err := actualObs(w.u, ro)
		ro.Discard()
		if err != nil {
			got = "ERROR " + err.Error()
		}
		if got != want {
			add(fmt.Sprintf("freshview@%d", v), want, got, m.hist, v)
		}
	}
	return
}

type replay struct {
	World    string   `json:"world"`
	Universe string   `json:"universe"`
	Ops      []string `json:"ops"`
	Path     []int    `json:"path"`
	Reader   string   `json:"reader,omitempty"`
	Want     string   `json:"want,omitempty"`
	Got      string   `json:"got,omitempty"`
}

// execPath runs one operation sequence on a fresh world, checking after the LAST op only
// (earlier prefixes were checked when they were the last op of a shorter path).
func execPath(u *universe, alpha []op, path []int) (res mc.ExecResult) {
	w := newWorld(u)
	defer w.close()
	names := make([]string, 0, len(path))
	for i, oi := range path {
		names = append(names, alpha[oi].String())
		en, err := w.apply(alpha[oi])
		if err != nil {
			res.Viols = append(res.Viols, mc.Viol{Sig: sig(u, "op-error", alpha[oi].String()),
				What:   fmt.Sprintf("operation %s failed after %v: %v", alpha[oi], names[:i], err),
				Replay: replay{World: "store", Universe: u.name, Ops: names, Path: path}})
			return
		}
		if !en {
			return
		}
	}
	if ms := w.check(); len(ms) > 0 {
		seen := map[string]bool{}
		for _, mm := range ms {
			kind := "read-mismatch"
			if getPart(mm.want) == getPart(mm.got) {
				kind = "iteration-mismatch"
			}
			sg := sig(u, kind, readerClass(mm.reader))
			if u.class == "segprefix" && !mm.pair {
				// the recorded finding needs BOTH keys of a segment-prefix pair in committed history; a
				// disagreement without such a pair is something else and is reported under its own class
				sg = "C10:" + kind + ":" + readerClass(mm.reader) + ":class=segprefix-pending-only"
			}
			if seen[sg] {
				continue
			}
			seen[sg] = true
			res.Viols = append(res.Viols, mc.Viol{Sig: sg,
				What:   fmt.Sprintf("universe=%s after %v reader %s returned\n   got  %s\n   want %s", u.name, names, mm.reader, mm.got, mm.want),
				Replay: replay{World: "store", Universe: u.name, Ops: names, Path: path, Reader: mm.reader, Want: mm.want, Got: mm.got}})
		}
		return
	}
	res.Key, res.OK = mc.Hash(w.m.key()), true
	return
}

// getPart extracts the point-read part of an observation string.
func getPart(obs string) string {
	if i := strings.Index(obs, "F["); i >= 0 {
		return obs[:i]
	}
	return obs
}

func readerClass(reader string) string {
	if i := strings.IndexByte(reader, '@'); i >= 0 {
		return reader[:i]
	}
	if strings.HasPrefix(reader, "level") {
		if reader == "level0" {
			return "live"
		}
		return "nested"
	}
	return reader
}

func sig(u *universe, kind, detail string) string {
	s := "C10:" + kind + ":" + detail
	if u.class != "" {
		s += ":class=" + u.class
	}
	return s
}

// ---------------------------------------------------------------------------------------
// world 2: VersionedStore directly, both iterator strategies.

type vsCase struct {
	writes [][]int // per version: per key 0=untouched 1=set x 2=set yy 3=delete
}

var world2Until = 1.0

func runVersionedStore(r *mc.Run, u *universe, nVersions, maxTouched int) (cases int64, distinct int) {
	nk := 4 // first four keys of the universe
	// enumerate per-version write vectors with <= maxTouched touched keys
	var vecs [][]int
	var gen func(i int, cur []int, touched int)
	gen = func(i int, cur []int, touched int) {
		if i == nk {
			vecs = append(vecs, append([]int{}, cur...))
			return
		}
		gen(i+1, append(cur, 0), touched)
		if touched < maxTouched {
			for c := 1; c <= 3; c++ {
				gen(i+1, append(cur, c), touched+1)
			}
		}
	}
	gen(0, nil, 0)
	total := 1
	for i := 0; i < nVersions; i++ {
		total *= len(vecs)
	}
	var n int64
	obsSet := make([]map[string]bool, 16)
	for i := range obsSet {
		obsSet[i] = map[string]bool{}
	}
	done := mc.ParallelFor(total, 0, func() bool { return r.ExpiredFrac(world2Until) }, func(idx int) {
		c := vsCase{}
		x := idx
		for i := 0; i < nVersions; i++ {
			c.writes = append(c.writes, vecs[x%len(vecs)])
			x /= len(vecs)
		}
		o := runVSCase(r, u, c)
		atomic.AddInt64(&n, 1)
		_ = o
	})
	if done < total {
		r.Note("versioned-store world stopped at %d of %d layouts (deadline)", done, total)
	}
	return n, total
}

func runVSCase(r *mc.Run, u *universe, c vsCase) string {
	db, err := pebble.Open("", &pebble.Options{FS: vfs.NewMem(), FormatMajorVersion: pebble.FormatColumnarBlocks, Logger: lib.NewNullLogger()})
	if err != nil {
		panic(err)
	}
	defer db.Close()
	hist := map[string][]ver{}
	prefix := lib.JoinLenPrefix([]byte("h/"))
	for vi, w := range c.writes {
		version := uint64(vi + 1)
		b := db.NewBatch()
		vs := store.NewVersionedStore(nil, b, version)
		for ki, code := range w {
			key := lib.Append(prefix, u.keys[ki])
			switch code {
			case 1, 2:
				if e := vs.SetAt(key, vals[code-1], version); e != nil {
					panic(e)
				}
				hist[string(u.keys[ki])] = append(hist[string(u.keys[ki])], ver{v: version, val: string(vals[code-1])})
			case 3:
				if e := vs.DeleteAt(key, version); e != nil {
					panic(e)
				}
				hist[string(u.keys[ki])] = append(hist[string(u.keys[ki])], ver{v: version, dead: true})
			}
		}
		if e := db.Apply(b, pebble.NoSync); e != nil {
			panic(e)
		}
		b.Close()
	}
	for v := uint64(0); v <= uint64(len(c.writes))+1; v++ {
		for _, seek := range []bool{true, false} {
			snap := db.NewSnapshot()
			vs := store.NewVersionedStore(snap, nil, v)
			// wrap in a Txn with the prefix (this is how Store wires its readers)
			txn := store.NewTxn(vs, nil, prefix, false, false, seek)
			vv := v
			want := expectObs(u, func(key string) (string, bool) { return committedAt(hist, key, vv) })
			got, e := actualObs(u, txn)
			snap.Close()
			if e != nil {
				got = "ERROR " + e.Error()
			}
			if got != want {
				mode := "linear"
				if seek {
					mode = "seek"
				}
				r.Violation(sig(u, "versioned-iter-mismatch", mode),
					fmt.Sprintf("universe=%s writes=%v read at version %d mode=%s\n   got  %s\n   want %s", u.name, c.writes, v, mode, got, want),
					map[string]any{"world": "versioned_store", "universe": u.name, "writes": c.writes, "version": v, "seek": seek, "want": want, "got": got})
				return ""
			}
		}
	}
	return ""
}

// ---------------------------------------------------------------------------------------

func uniByName(n string) *universe {
	if n == "segprefix" {
		return &uniSeg
	}
	if n == "narrow" {
		return &uniNarrow
	}
	return &uniPlain
}

func main() {
	for _, a := range os.Args[1:] {
		if a == "-fsmhist-child" {
			fsmHistChild()
			return
		}
	}
	if mc.IsWorker() {
		// tag = "<universe>|<quick|thorough>"
		mc.ServeWorker(func(j mc.BFSJob) mc.ExecResult {
			parts := strings.SplitN(j.Tag, "|", 2)
			u := uniByName(parts[0])
			return execPath(u, alphabet(u, parts[1] == "thorough"), j.Path)
		})
	}
	r := mc.Start("C10", "model_checking", 110*time.Second, 25*time.Minute)
	r.Assumptions = []string{
		"keys are well-formed length-prefixed segment streams (the store panics otherwise by contract)",
		"the 64-bit in-memory key hash (lib.MemHash) does not collide on the key universe",
		"pebble's in-memory FS behaves like the on-disk one for reads",
		"background compaction timing inside pebble is not scheduled by the explorer (CompactAll is an explicit operation)",
		"each explored world runs alone in its worker process (canopy closes pooled pebble batches more than once, which is only harmless without a concurrent second store in the process)",
	}
	if r.Replay != "" {
		doReplay(r)
		return
	}
	depth := map[string]int{"plain": 4, "segprefix": 3, "narrow": 7}
	if !r.Quick() {
		depth = map[string]int{"plain": 6, "segprefix": 4, "narrow": 9}
	}
	cov := map[string]any{}
	var totalStates int
	var totalTrans int64
	var perUni []map[string]any
	pool := mc.NewProcPool(0)
	// every part owns a share of the soft deadline (cumulative fractions), so that a slow machine
	// shortens each search instead of dropping the later ones; the narrow-deep universe runs last
	// and takes whatever is left
	until := map[string]float64{"plain": 0.30, "segprefix": 0.42, "world2": 0.62, "narrow": 1.0}
	runStore := func(u *universe) {
		alpha := alphabet(u, !r.Quick())
		frac := until[u.name]
		st := mc.ReplayBFS(mc.BFSConfig{
			Tag: u.name + "|" + r.Tier, NumOps: len(alpha), MaxDepth: depth[u.name], Pool: pool,
			OnViol: r.OnViol, Stop: func() bool { return r.ExpiredFrac(frac) },
		})
		totalStates += st.States
		totalTrans += st.Transitions
		if !st.Complete {
			r.Exhaustive = false
		}
		perUni = append(perUni, map[string]any{"universe": u.name, "alphabet": len(alpha), "states": st.States, "transitions": st.Transitions,
			"depth_completed": st.DepthDone, "frontier_per_depth": st.Frontier, "disabled": st.Disabled, "revisits": st.Revisits, "complete": st.Complete})
		for _, p := range st.SamplePaths {
			var names []string
			for _, oi := range p {
				names = append(names, alpha[oi].String())
			}
			r.AddSample(map[string]any{"universe": u.name, "ops": names})
		}
		fmt.Printf("store world universe=%s depth=%d states=%d transitions=%d frontier=%v complete=%v\n", u.name, st.DepthDone, st.States, st.Transitions, st.Frontier, st.Complete)
	}
	runStore(&uniPlain)
	runStore(&uniSeg)
	world2Until = until["world2"]
	// world 2
	nv := map[string]int{"plain": 3, "segprefix": 2}
	if !r.Quick() {
		nv = map[string]int{"plain": 4, "segprefix": 3}
	}
	var vsCases int64
	for _, u := range []*universe{&uniPlain, &uniSeg} {
		n, total := runVersionedStore(r, u, nv[u.name], 2)
		vsCases += n
		fmt.Printf("versioned-store world universe=%s layouts=%d/%d versions=%d (each read at every version, seek+linear, fwd+rev)\n", u.name, n, total, nv[u.name])
	}
	runStore(&uniNarrow)
	cov["states"] = totalStates
	cov["transitions"] = totalTrans
	cov["traces_validated_against_impl"] = int(totalTrans)
	cov["explanation"] = "every transition is a replay of the operation path on the real store.Store followed by a comparison of every reader (live, nested txns, copy, held views, a fresh view at every version) with the reference model; there is no separate model trace"
	cov["store_world"] = perUni
	cov["versioned_store_layouts"] = vsCases
	cov["versioned_store_versions"] = nv
	cov["depth_bound"] = depth
	// part 3: the same statement at the level of the state machine (committees, delegates, blocks as of a committed height)
	runFsmHistory(r, cov)
	r.Finish(cov)
}

func doReplay(r *mc.Run) {
	var rp replay
	if err := r.LoadReplay(&rp); err != nil {
		fmt.Println("cannot load replay:", err)
		r.Finish(map[string]any{"states": 1, "transitions": 1, "traces_validated_against_impl": 0})
	}
	var part struct {
		Part string `json:"part"`
	}
	if _ = r.LoadReplay(&part); part.Part == "fsm-history" {
		// the whole fixed history is the case: run it again (the child reports the first violation of every class)
		cov := map[string]any{"states": 1, "transitions": 1, "traces_validated_against_impl": 1}
		for i := 0; i < 5; i++ {
			runFsmHistory(r, cov)
		}
		r.Finish(cov)
		return
	}
	u := uniByName(rp.Universe)
	alpha := alphabet(u, true)
	// map op names back to indices (replay artefacts store names so that alphabets may grow)
	var path []int
	for _, n := range rp.Ops {
		for i, a := range alpha {
			if a.String() == n {
				path = append(path, i)
				break
			}
		}
	}
	for i := 0; i < 5; i++ {
		res := execPath(u, alpha, path)
		for _, v := range res.Viols {
			r.OnViol(v)
		}
	}
	r.Finish(map[string]any{"states": 1, "transitions": len(path), "traces_validated_against_impl": 1})
}
