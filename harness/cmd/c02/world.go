package main

import (
	"bytes"
	"context"
	"fmt"
	"sort"
	"strings"

	"github.com/canopy-network/canopy/fsm"
	"github.com/canopy-network/canopy/lib"
	"github.com/canopy-network/canopy/store"
	"github.com/canopy-network/canopy/lib/crypto"

	"verifharness/env"
)

// ---------------------------------------------------------------------------------------
// configurations

const unit = uint64(1) // stakes are the literal small integers so that subset powers hit floor(2T/3) and floor(2T/3)+1 exactly

type cfgSpec struct {
	Name   string
	Stakes []uint64 // genesis stake per validator key index, in units
}

// block 1 raises the LAST validator's stake to bump units, so that the committee in force
// from root height 2 on differs from the genesis committee (root height 1) in power
// distribution and (n>1) in member order.
const bump = 4

var configs = []cfgSpec{
	{"n1", []uint64{1}},
	{"n3-equal", []uint64{1, 1, 1}},
	{"n3-3/2/1", []uint64{3, 2, 1}},
	{"n3-5/1/1", []uint64{5, 1, 1}},
	{"n4-equal", []uint64{1, 1, 1, 1}},
	{"n4-3/2/1/1", []uint64{3, 2, 1, 1}},
	{"n4-5/1/1/1", []uint64{5, 1, 1, 1}},
	// total power above 2^63: 2*T does not fit in 64 bits
	{"n4-whale", []uint64{1 << 62, 1 << 62, 2, 1}},
}

func cfgByName(n string) cfgSpec {
	for _, c := range configs {
		if c.Name == n {
			return c
		}
	}
	panic("unknown config " + n)
}

// ---------------------------------------------------------------------------------------
// harness-side committee model (independent of canopy: stakes come from the genesis the
// harness wrote and the one edit-stake it submitted; only the member ORDER is read from the node)

type committee struct {
	keys    []int          // BLS key index per bitmap position
	power   map[int]uint64 // by key index
	total   uint64
	thr     uint64 // floor(2T/3)+1
	keyList string // ordered public keys (identity of the aggregation domain)
}

func (c *committee) idx(key int) int {
	for i, k := range c.keys {
		if k == key {
			return i
		}
	}
	return -1
}

func (c *committee) n() int { return len(c.keys) }

func (c *committee) powerOf(keys []int) (p uint64) {
	for _, k := range keys {
		p += c.power[k]
	}
	return
}

func stakeModel(cfg cfgSpec, old bool) map[int]uint64 {
	m := map[int]uint64{}
	for i, s := range cfg.Stakes {
		m[i] = s * unit
	}
	if !old {
		m[len(cfg.Stakes)-1] = bump * unit
	}
	return m
}

// committeeFromNode takes the member order from the node and everything else from the model.
func committeeFromNode(n *env.Node, rootHeight uint64, model map[int]uint64) (*committee, error) {
	vs, e := n.Committee(rootHeight)
	if e != nil {
		return nil, e
	}
	c := &committee{power: map[int]uint64{}}
	var kl strings.Builder
	for _, v := range vs.ValidatorSet.ValidatorSet {
		key := -1
		for i := 0; i < 16; i++ {
			if bytes.Equal(env.BLS(i).PublicKey().Bytes(), v.PublicKey) {
				key = i
			}
		}
		if key < 0 {
			return nil, fmt.Errorf("unknown committee member")
		}
		want, ok := model[key]
		if !ok || want != v.VotingPower {
			return nil, fmt.Errorf("committee at root height %d: member key %d has power %d, stake model says %d", rootHeight, key, v.VotingPower, want)
		}
		c.keys = append(c.keys, key)
		c.power[key] = want
		c.total += want
		fmt.Fprintf(&kl, "%x|", v.PublicKey)
	}
	if len(c.keys) != len(model) {
		return nil, fmt.Errorf("committee at root height %d has %d members, model %d", rootHeight, len(c.keys), len(model))
	}
	// floor(2T/3)+1 without forming 2T (T may exceed 2^63): 2T/3 = 2*(T/3) + (2*(T%3))/3
	c.thr = 2*(c.total/3) + (2*(c.total%3))/3 + 1
	c.keyList = kl.String()
	return c, nil
}

// ---------------------------------------------------------------------------------------
// certificates with provenance

// payload is what a validator signs (the certificate minus block, results and signature).
type payload struct {
	Net, Chain, Height, RootHeight, Round uint64
	Phase                                 lib.Phase
	BlockHash, ResultsHash, ProposerKey   []byte
}

func (p payload) view() *lib.View {
	return &lib.View{NetworkId: p.Net, ChainId: p.Chain, Height: p.Height, RootHeight: p.RootHeight, Round: p.Round, Phase: p.Phase}
}

func (p payload) qc() *lib.QuorumCertificate {
	return &lib.QuorumCertificate{Header: p.view(), BlockHash: p.BlockHash, ResultsHash: p.ResultsHash, ProposerKey: p.ProposerKey}
}

// signedPart is the projection of the payload that the signature covers (ELECTION_VOTE
// certificates are signed over header + proposer key only).
func (p payload) signedPart() string {
	if p.Phase == lib.Phase_ELECTION_VOTE {
		return fmt.Sprintf("EV|%d|%d|%d|%d|%d|%d|%x", p.Net, p.Chain, p.Height, p.RootHeight, p.Round, p.Phase, p.ProposerKey)
	}
	return fmt.Sprintf("%d|%d|%d|%d|%d|%d|%x|%x|%x", p.Net, p.Chain, p.Height, p.RootHeight, p.Round, p.Phase, p.BlockHash, p.ResultsHash, p.ProposerKey)
}

// provenance is the harness's ground truth about a signature blob.
type provenance struct {
	garbage bool
	signed  string // payload.signedPart() of what the signers signed
	signers []int  // key indices whose individual signatures were aggregated
	keyList string // ordered key list of the committee the aggregate was formed in
	note    string
}

type cert struct {
	payload
	Block   []byte
	Results *lib.CertificateResult
	Sig     []byte
	Bitmap  []byte
	prov    provenance
	// blockIs names the carried block bytes: "b", "b2", "" (something else)
	blockIs string
}

func (c cert) clone() cert {
	o := c
	o.BlockHash, o.ResultsHash, o.ProposerKey = bytes.Clone(c.BlockHash), bytes.Clone(c.ResultsHash), bytes.Clone(c.ProposerKey)
	o.Block, o.Sig, o.Bitmap = bytes.Clone(c.Block), bytes.Clone(c.Sig), bytes.Clone(c.Bitmap)
	o.prov.signers = append([]int{}, c.prov.signers...)
	return o
}

func (c cert) toQC() *lib.QuorumCertificate {
	q := c.payload.qc()
	q.Block, q.Results = c.Block, c.Results
	q.Signature = &lib.AggregateSignature{Signature: c.Sig, Bitmap: c.Bitmap}
	return q
}

func (c cert) describe() string {
	return fmt.Sprintf("hdr{net=%d chain=%d h=%d rh=%d round=%d phase=%d} blockHash=%x resultsHash=%x proposer=%x block=%q(%dB) results=%v sig=%x.. bitmap=%x signedBy=%v over{%s} %s",
		c.Net, c.Chain, c.Height, c.RootHeight, c.Round, c.Phase, short(c.BlockHash), short(c.ResultsHash), short(c.ProposerKey), c.blockIs, len(c.Block), c.Results != nil,
		short(c.Sig), c.Bitmap, c.prov.signers, c.prov.signed, c.prov.note)
}

func short(b []byte) []byte {
	if len(b) > 6 {
		return b[:6]
	}
	return b
}

// aggregate signs p with the given key indices inside committee com (true bitmap).
func aggregate(vs lib.ValidatorSet, com *committee, p payload, signers []int) (sig, bitmap []byte, prov provenance, err error) {
	sb := p.qc().SignBytes()
	mk := vs.MultiKey.Copy()
	ss := append([]int{}, signers...)
	sort.Ints(ss)
	for _, k := range ss {
		i := com.idx(k)
		if i < 0 {
			return nil, nil, prov, fmt.Errorf("key %d not in committee", k)
		}
		if e := mk.AddSigner(env.BLS(k).Sign(sb), i); e != nil {
			return nil, nil, prov, e
		}
	}
	sig, e := mk.AggregateSignatures()
	if e != nil {
		return nil, nil, prov, e
	}
	return sig, bytes.Clone(mk.Bitmap()), provenance{signed: p.signedPart(), signers: ss, keyList: com.keyList}, nil
}

// ---------------------------------------------------------------------------------------
// the world of one configuration

type world struct {
	cfg    cfgSpec
	g      *fsm.GenesisState
	prefix []*lib.BlockMessage // committed chain prefix (heights 1..len)
	h      uint64              // height under test = len(prefix)+1
	P      *env.Node           // block factory (holds the prefix, never commits a test case)
	N      *env.Node           // node under test
	old    *committee          // in force at root height 1
	cur    *committee          // in force at root heights >= 2
	vsOld  lib.ValidatorSet
	vsCur  lib.ValidatorSet
	// two valid blocks for height h and their results
	b, b2     *env.Proposal
	resOther  *lib.CertificateResult // well-formed results that differ from b's
	proposer  int
	rebuilds  int
	commits   int
	nodeKey   int
	lastStage string
	sanity    map[string]cert
	midRound  bool
	edge      bool
	primes    []tcase // honest non-committing certificates shown to every fresh node before the cases
	quick     bool
}

func (w *world) close() {
	if w.N != nil {
		w.N.Close()
	}
	if w.P != nil {
		w.P.Close()
	}
}

func genesisFor(cfg cfgSpec) *fsm.GenesisState {
	acc := map[int]uint64{}
	var vals []env.ValSpec
	for i, s := range cfg.Stakes {
		acc[i] = 100_000_000
		vals = append(vals, env.ValSpec{Key: i, Stake: s * unit, OutputKey: -1})
	}
	acc[10], acc[11] = 100_000_000, 100_000_000
	return env.NewGenesis(acc, vals, nil)
}

// committeeAt resolves a certificate root height the way the node's root chain does:
// 0 and heights beyond the tip mean "latest".
func (w *world) committeeAt(rh uint64) (*committee, lib.ValidatorSet) {
	if rh == 1 {
		return w.old, w.vsOld
	}
	return w.cur, w.vsCur
}

func mustTx(tx lib.TransactionI, e lib.ErrorI) []byte {
	if e != nil {
		panic(e)
	}
	bz, e := lib.Marshal(tx)
	if e != nil {
		panic(e)
	}
	return bz
}

// buildWorld creates the factory node P, commits the prefix (block 1 = the stake bump,
// then empty blocks up to height extra) and prepares the candidate blocks at height h.
func buildWorld(cfg cfgSpec, prefixLen int) (*world, error) {
	w := &world{cfg: cfg, g: genesisFor(cfg), proposer: 0, nodeKey: 0}
	var err error
	if w.P, err = env.NewNode(w.g, env.NodeOpts{Name: "P", Key: 0}); err != nil {
		return nil, err
	}
	last := len(cfg.Stakes) - 1
	for blk := 1; blk <= prefixLen; blk++ {
		if blk == 1 {
			k := env.BLS(last)
			// earlyWithdrawal=true => Compound=false: rewards never change a stake, the stake model stays exact
			tx := mustTx(fsm.NewEditStakeTx(k, env.Addr(k), env.Addr(k), fmt.Sprintf("tcp://v%d", last), []uint64{env.ChainID}, bump*unit, env.NetworkID, env.ChainID, 10000, 1, true, ""))
			if es := w.P.SubmitTxs(tx); es[0] != nil {
				return nil, es[0]
			}
		}
		p, e := w.P.Propose()
		if e != nil {
			return nil, fmt.Errorf("prefix propose %d: %v", blk, e)
		}
		if blk == 1 && len(p.Block.Transactions) != 1 {
			return nil, fmt.Errorf("stake bump was not included in block 1")
		}
		qc, e := w.P.Certify(p, w.proposer, nil, 0)
		if e != nil {
			return nil, e
		}
		msg := &lib.BlockMessage{ChainId: env.ChainID, BlockAndCertificate: qc, Time: 1_700_000_000_000_000}
		wire, e := env.WireCopy(msg)
		if e != nil {
			return nil, e
		}
		if e = w.P.HandlePeerBlock(msg, false); e != nil {
			return nil, fmt.Errorf("prefix commit %d: %v", blk, e)
		}
		w.prefix = append(w.prefix, wire)
	}
	w.h = uint64(prefixLen) + 1
	if err = w.loadCommittees(w.P); err != nil {
		return nil, err
	}
	return w, nil
}

func (w *world) loadCommittees(n *env.Node) error {
	var err error
	if w.old, err = committeeFromNode(n, 1, stakeModel(w.cfg, true)); err != nil {
		return err
	}
	if w.cur, err = committeeFromNode(n, w.h, stakeModel(w.cfg, false)); err != nil {
		return err
	}
	var e lib.ErrorI
	if w.vsOld, e = n.Committee(1); e != nil {
		return e
	}
	if w.vsCur, e = n.Committee(w.h); e != nil {
		return e
	}
	if len(w.cfg.Stakes) > 1 && w.old.keyList == w.cur.keyList {
		return fmt.Errorf("old and current committee have the same member order; the stake bump did not reorder")
	}
	return nil
}

// prepareCandidates builds two different valid blocks for height h on P.
func (w *world) prepareCandidates() error {
	p, e := w.P.Propose()
	if e != nil {
		return e
	}
	w.b = p
	tx := mustTx(fsm.NewSendTransaction(env.BLS(10), env.Addr(env.BLS(11)), 12345, env.NetworkID, env.ChainID, 10000, w.h, ""))
	if es := w.P.SubmitTxs(tx); es[0] != nil {
		return es[0]
	}
	if p, e = w.P.Propose(); e != nil {
		return e
	}
	if len(p.Block.Transactions) != 1 || bytes.Equal(p.Block.BlockHeader.Hash, w.b.Block.BlockHeader.Hash) {
		return fmt.Errorf("second candidate block is not different")
	}
	w.b2 = p
	// another well-formed result: pay a different address
	w.resOther = &lib.CertificateResult{
		RewardRecipients: &lib.RewardRecipients{PaymentPercents: []*lib.PaymentPercents{{Address: env.Addr(env.BLS(11)).Bytes(), Percent: 100, ChainId: env.ChainID}}},
		SlashRecipients:  &lib.SlashRecipients{},
	}
	if bytes.Equal(w.resOther.Hash(), w.b.Results.Hash()) {
		return fmt.Errorf("alternative results equal the real ones")
	}
	return nil
}

// freshN builds a new node under test and replays the prefix through the sync path
// (HandlePeerBlock(msg,true)); the case itself is then fed with syncing=false, whose
// CommitCertificate refreshes the mempool FSM from the committed state.
func (w *world) freshN() error {
	if w.N != nil {
		w.N.Close()
		w.N = nil
	}
	n, err := env.NewNode(w.g, env.NodeOpts{Name: "N", Key: w.nodeKey})
	if err != nil {
		return err
	}
	for i, m := range w.prefix {
		wire, e := env.WireCopy(m)
		if e != nil {
			return e
		}
		if e = n.HandlePeerBlock(wire, true); e != nil {
			n.Close()
			return fmt.Errorf("replaying prefix block %d on the node under test: %v", i+1, e)
		}
	}
	w.N = n
	w.rebuilds++
	return nil
}

// basePayload is the honest commit payload for block p at the height under test.
func (w *world) basePayload(p *env.Proposal) payload {
	return payload{Net: env.NetworkID, Chain: env.ChainID, Height: w.h, RootHeight: w.h, Round: 0, Phase: lib.Phase_PRECOMMIT_VOTE,
		BlockHash: bytes.Clone(p.Block.BlockHeader.Hash), ResultsHash: p.Results.Hash(), ProposerKey: env.BLS(w.proposer).PublicKey().Bytes()}
}

// makeCert: the certificate for payload pl signed by signers, carrying block p.
func (w *world) makeCert(pl payload, p *env.Proposal, blockIs string, signers []int) (cert, error) {
	com, vs := w.committeeAt(pl.RootHeight)
	sig, bm, prov, err := aggregate(vs, com, pl, signers)
	if err != nil {
		return cert{}, err
	}
	return cert{payload: pl, Block: bytes.Clone(p.BlockBytes), Results: p.Results, Sig: sig, Bitmap: bm, prov: prov, blockIs: blockIs}, nil
}

func allKeys(n int) []int {
	o := make([]int, n)
	for i := range o {
		o[i] = i
	}
	return o
}

// ---------------------------------------------------------------------------------------
// the independent predicate

type verdict struct {
	ok      bool
	reasons []string
}

func (v *verdict) fail(f string, a ...any) {
	v.ok = false
	v.reasons = append(v.reasons, fmt.Sprintf(f, a...))
}

// bitmapSigners decodes the signer positions a bitmap claims for a committee of n members
// (ok=false: wrong length). Bits at positions >= n are returned separately.
func bitmapSigners(bm []byte, n int) (pos []int, padding []int, ok bool) {
	if len(bm) != (n+7)/8 {
		return nil, nil, false
	}
	for i := 0; i < len(bm)*8; i++ {
		if bm[i/8]&(1<<(i%8)) != 0 {
			if i < n {
				pos = append(pos, i)
			} else {
				padding = append(padding, i)
			}
		}
	}
	return pos, padding, true
}

// signatureValid: does the signature blob verify for this certificate? Ground truth only:
// an aggregate verifies iff it was formed over exactly the bytes the certificate's fields
// produce, in the same ordered committee, by exactly the members the bitmap names
// (cryptographic assumption; padding bits beyond n are outside the committee and ignored
// by the scheme).
func (w *world) signatureValid(c cert, v *verdict) (signers []int, com *committee) {
	com, _ = w.committeeAt(c.RootHeight)
	if c.prov.garbage {
		v.fail("signature bytes are not an aggregate of honest signatures")
		return nil, com
	}
	if len(c.Sig) != crypto.BLS12381SignatureSize {
		v.fail("signature length %d", len(c.Sig))
		return nil, com
	}
	if c.prov.signed != c.payload.signedPart() {
		v.fail("signers signed {%s}, certificate says {%s}", c.prov.signed, c.payload.signedPart())
	}
	if c.prov.keyList != com.keyList {
		v.fail("aggregate was formed in another committee than the one in force at root height %d", c.RootHeight)
	}
	pos, _, ok := bitmapSigners(c.Bitmap, com.n())
	if !ok {
		v.fail("bitmap length %d for a committee of %d", len(c.Bitmap), com.n())
		return nil, com
	}
	var claimed []int
	for _, p := range pos {
		claimed = append(claimed, com.keys[p])
	}
	sort.Ints(claimed)
	if fmt.Sprint(claimed) != fmt.Sprint(c.prov.signers) && !(len(claimed) == 0 && len(c.prov.signers) == 0) {
		v.fail("bitmap names members %v, aggregate contains signatures of %v", claimed, c.prov.signers)
	}
	return c.prov.signers, com
}

// validCommitCert: is c a valid +2/3 commit certificate for exactly (network, chain, h,
// hash(carried block), hash(carried results)) with the carried block being one of the
// blocks that are valid on top of the node's chain?
func (w *world) validCommitCert(c cert) verdict {
	v := verdict{ok: true}
	if c.Net != env.NetworkID {
		v.fail("network id %d", c.Net)
	}
	if c.Chain != env.ChainID {
		v.fail("chain id %d", c.Chain)
	}
	if c.Height != w.h {
		v.fail("height %d, node expects %d", c.Height, w.h)
	}
	if c.Phase != lib.Phase_PRECOMMIT_VOTE {
		v.fail("phase %d is not the commit-justifying phase", c.Phase)
	}
	signers, com := w.signatureValid(c, &v)
	if p := com.powerOf(signers); p < com.thr {
		v.fail("signed power %d < floor(2*%d/3)+1 = %d", p, com.total, com.thr)
	}
	// binding of the carried block and results to the signed hashes
	switch c.blockIs {
	case "b":
		if !bytes.Equal(c.BlockHash, w.b.Block.BlockHeader.Hash) {
			v.fail("block hash does not name the carried block b")
		}
	case "b2":
		if !bytes.Equal(c.BlockHash, w.b2.Block.BlockHeader.Hash) {
			v.fail("block hash does not name the carried block b'")
		}
	default:
		v.fail("carried block is not a valid block for this height (%q)", c.blockIs)
	}
	if c.Results == nil {
		v.fail("no results carried")
	} else if !bytes.Equal(c.ResultsHash, c.Results.Hash()) {
		v.fail("results hash does not name the carried results")
	}
	return v
}

// ---------------------------------------------------------------------------------------
// observation of one HandlePeerBlock call

type outcome struct {
	accepted bool
	err      string
	problems []string // invariant breaches independent of the predicate
}

func (w *world) feed(n *env.Node, qc *lib.QuorumCertificate, syncing bool) outcome {
	h := n.Height()
	ver := n.Store().Version()
	msg := &lib.BlockMessage{ChainId: env.ChainID, BlockAndCertificate: qc, Time: 1_700_000_000_000_000}
	wire, e := env.WireCopy(msg)
	var o outcome
	if e != nil {
		// cannot even be put on the wire: nothing reaches the node
		o.err = "unmarshalable: " + e.Error()
		return o
	}
	func() {
		defer func() {
			if p := recover(); p != nil {
				e = lib.NewError(lib.CodeInvalidArgument, lib.ConsensusModule, fmt.Sprintf("PANIC: %v", p))
				o.problems = append(o.problems, fmt.Sprintf("HandlePeerBlock panicked: %v", p))
			}
		}()
		e = n.HandlePeerBlock(wire, syncing)
	}()
	if e != nil {
		o.err = e.Error()
		if n.Store().Version() != ver {
			o.problems = append(o.problems, fmt.Sprintf("rejected but store version moved %d -> %d", ver, n.Store().Version()))
		}
		if n.Height() != h {
			o.problems = append(o.problems, fmt.Sprintf("rejected but FSM height moved %d -> %d", h, n.Height()))
		}
		// nothing readable at the height under test (through the node and through a fresh view of the database)
		// only the block LRU: the signature cache of a real node persists across messages, and a
		// certificate must not become acceptable because of what the node verified before
		store.VerifC09PurgeBlockCache()
		if br, e2 := n.FSM().LoadBlock(h); e2 == nil && br != nil && br.BlockHeader != nil && br.BlockHeader.Height == h {
			o.problems = append(o.problems, fmt.Sprintf("rejected but a block is readable at height %d", h))
		}
		if q, e2 := n.Store().GetQCByHeight(h); e2 == nil && q != nil && q.Header != nil {
			o.problems = append(o.problems, fmt.Sprintf("rejected but a certificate is readable at height %d", h))
		}
		return o
	}
	o.accepted = true
	if n.Store().Version() != ver+1 || n.Height() != h+1 {
		o.problems = append(o.problems, fmt.Sprintf("accepted but version %d -> %d, height %d -> %d", ver, n.Store().Version(), h, n.Height()))
	}
	return o
}

// committedHash returns the hash of the block the node holds at height h.
func committedHash(n *env.Node, h uint64) []byte {
	env.PurgeProcessCaches()
	br, e := n.FSM().LoadBlock(h)
	if e != nil || br == nil || br.BlockHeader == nil {
		return nil
	}
	return br.BlockHeader.Hash
}

// scratchHeader computes the header of a block on a copy of the node's FSM (proposer semantics).
func scratchHeader(n *env.Node, blk *lib.Block) (*lib.BlockHeader, lib.ErrorI) {
	cp, e := n.FSM().Copy()
	if e != nil {
		return nil, e
	}
	defer cp.Discard()
	if blk.BlockHeader.LastQuorumCertificate != nil && blk.BlockHeader.LastQuorumCertificate.Header != nil {
		if e = cp.Store().(lib.StoreI).IndexQC(blk.BlockHeader.LastQuorumCertificate); e != nil {
			return nil, e
		}
	}
	hdr, _, e := cp.ApplyBlock(context.Background(), blk, true)
	return hdr, e
}
