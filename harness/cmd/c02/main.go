// C02 — finality gate: only a +2/3-certified, correctly bound block is ever committed.
//
// Level: exploration (bounded exhaustive enumeration of the certificate space an attacker
// can assemble from honestly produced signatures). A real controller.Controller
// (env.Node: controller.New on an in-memory store, mock root-chain manager answering from
// the node's own chain) sits at height h on top of a committed prefix in which block 1
// changed the committee, so two different committees are in force at root height 1 and at
// root heights >= 2. The harness plays every validator: it owns each individual signature
// over the honest commit payload for block b at h and over every competing payload, and
// therefore knows for every signature blob who signed what (provenance).
//
// Parts (per configuration = committee size x stake vector):
//
//	subsets   every signer subset x {current, old} committee root height, true bitmap:
//	          HandlePeerBlock(msg,false) commits IFF signed power >= floor(2T/3)+1
//	singles   every single deviation from the full-quorum certificate (+ the listed
//	          two-step composites); thorough adds every pair
//	last      the same subsets and deviations applied to the LastQuorumCertificate embedded
//	          in block h+1 (CheckAndSetLastCertificate)
//	fastsync  syncing=true at a checkpoint height (h=100): non-quorum subsets and forged
//	          certificates are rejected, the valid one is accepted; at a non-checkpoint height
//	          an unsigned certificate is recorded as accepted (not claimed by the property)
//
// Oracle: validCommitCert (world.go) — written from the harness's ground truth, never calls
// the code under test. accepted => predicate; for subsets also predicate => accepted. On
// rejection store.Version() and the FSM height are unchanged and neither a block nor a
// certificate is readable at h (through the node and through a fresh view of the database).
package main

import (
	"bytes"
	"encoding/hex"
	"flag"
	"fmt"
	"os"
	"runtime/debug"
	"sort"
	"strings"
	"time"

	"github.com/canopy-network/canopy/fsm"
	"github.com/canopy-network/canopy/lib"

	"verifharness/env"
	"verifharness/mc"
)

type job struct {
	Cfg   string `json:"cfg"`
	Part  string `json:"part"` // subsets | singles | pairs | last | fastsync
	Lo    int    `json:"lo"`
	Hi    int    `json:"hi"`   // case index range [lo,hi); hi<0 = all
	Only  string `json:"only"` // replay: run just the case with this name
	Quick bool   `json:"quick"`
	// MidRound: the node under test is a replica in the middle of the round on block b: it validated the
	// leader's proposal (bft keeps the block result) before the certificate arrives from a peer
	MidRound bool `json:"mid_round,omitempty"`
	// Edge: the certified block is the FIRST one under the new committee (prefix of one block: the certificate's
	// root height is the height at which the committee changed, the root height before it has the old committee)
	Edge bool `json:"edge,omitempty"`
}

func (j job) prefix() int {
	if j.Edge {
		return 1
	}
	return 2
}

type caseRec struct {
	Name     string `json:"name"`
	Accepted bool   `json:"accepted"`
	Valid    bool   `json:"valid"`
	Err      string `json:"err,omitempty"`
}

type result struct {
	Job          job            `json:"job"`
	Cases        int            `json:"cases"`
	Total        int            `json:"total"` // number of cases the part has for this config
	Accepted     int            `json:"accepted"`
	Rejected     int            `json:"rejected"`
	Noop         int            `json:"noop"`
	Rebuilds     int            `json:"rebuilds"`
	Primed       int            `json:"primed"`
	ErrClasses   map[string]int `json:"err_classes"`
	CertClasses  map[string]int `json:"cert_classes"` // distinct certificates by (mutation classes, outcome)
	Viols        []mc.Viol      `json:"viols,omitempty"`
	ValidRejects []string       `json:"valid_rejects,omitempty"` // predicate true but rejected (informational outside `subsets`)
	Observations map[string]int `json:"observations,omitempty"`
	Samples      []caseRec      `json:"samples,omitempty"`
	HarnessErr   string         `json:"harness_err,omitempty"`
	CPUms        int64          `json:"cpu_ms"`
}

func errClass(s string) string {
	// canopy errors render as "\nModule: m\nCode: n\nMessage: text": keep module + message, digits stripped
	if i := strings.Index(s, "Message:"); i >= 0 {
		mod := ""
		if j := strings.Index(s, "Module:"); j >= 0 && j < i {
			mod = strings.TrimSpace(strings.SplitN(s[j+7:], "\n", 2)[0]) + ": "
		}
		s = mod + strings.TrimSpace(s[i+8:])
	}
	s = strings.TrimSpace(s)
	if i := strings.IndexByte(s, '\n'); i >= 0 {
		s = s[:i]
	}
	var b strings.Builder
	for _, r := range s {
		if r >= '0' && r <= '9' {
			continue
		}
		b.WriteRune(r)
	}
	s = b.String()
	if len(s) > 70 {
		s = s[:70]
	}
	return s
}

// ---------------------------------------------------------------------------------------

type tcase struct {
	name    string
	classes []string
	c       cert
	iff     bool // predicate => accepted is required too
}

func (w *world) subsetsCases() ([]tcase, error) {
	var out []tcase
	for _, rh := range []uint64{w.h, 1} {
		com, _ := w.committeeAt(rh)
		pl := w.basePayload(w.b)
		pl.RootHeight = rh
		for m := 0; m < 1<<com.n(); m++ {
			s := subsetOf(m, com.n())
			c, err := w.makeCert(pl, w.b, "b", s)
			if err != nil {
				return nil, err
			}
			tag := "cur"
			if rh == 1 {
				tag = "old"
			}
			out = append(out, tcase{name: fmt.Sprintf("subset:%s:%v", tag, s), classes: []string{"subset-" + tag}, c: c, iff: true})
		}
	}
	return out, nil
}

func (w *world) deviationCases(base cert, target, other *env.Proposal, forLast, pairs bool) ([]tcase, error) {
	ms, err := w.mutationList(base, target, other, forLast)
	if err != nil {
		return nil, err
	}
	baseBz, _ := lib.Marshal(base.toQC())
	var out []tcase
	seen := map[string]bool{string(baseBz): true}
	emit := func(name string, classes []string, c cert) {
		bz, e := lib.Marshal(c.toQC())
		key := string(bz) + "|" + c.blockIs
		if e == nil && seen[key] {
			return
		}
		seen[key] = true
		out = append(out, tcase{name: name, classes: classes, c: c})
	}
	if !pairs {
		for _, m := range ms {
			c := base.clone()
			m.apply(&c)
			emit(m.name, []string{m.class}, c)
		}
		for _, p := range w.explicitComposites(ms) {
			c := base.clone()
			ms[p[0]].apply(&c)
			ms[p[1]].apply(&c)
			emit(ms[p[0]].name+"+"+ms[p[1]].name, []string{ms[p[0]].class, ms[p[1]].class}, c)
		}
		return out, nil
	}
	for i := range ms {
		for j := range ms {
			if i == j {
				continue
			}
			// ordered pairs: the later mutation wins on a shared field; both orders are distinct inputs
			c := base.clone()
			ms[i].apply(&c)
			ms[j].apply(&c)
			emit(ms[i].name+"+"+ms[j].name, []string{ms[i].class, ms[j].class}, c)
		}
	}
	return out, nil
}

func classSig(prefix string, classes []string) string {
	cs := append([]string{}, classes...)
	sort.Strings(cs)
	return "C02:" + prefix + ":" + strings.Join(cs, "+")
}

// runCases feeds the cases [lo,hi) to the node under test, rebuilding it after every commit.
func (w *world) runCases(res *result, part string, cases []tcase, lo, hi int, only string,
	qcOf func(tc tcase) (*lib.QuorumCertificate, error), valid func(tc tcase) verdict) {
	res.Total = len(cases)
	if hi < 0 || hi > len(cases) {
		hi = len(cases)
	}
	for i := lo; i < hi; i++ {
		tc := cases[i]
		if only != "" && tc.name != only {
			continue
		}
		if w.N == nil {
			if err := w.freshN(); err != nil {
				res.HarnessErr = err.Error()
				return
			}
			// the attacker first shows the node every honestly produced certificate that does not
			// commit (all non-quorum signer subsets with their true bitmaps): whatever the node
			// remembers from verifying them (caches) must not make a forged combination acceptable
			for _, pc := range w.primes {
				pq, err := qcOf(pc)
				if err != nil {
					continue
				}
				if o := w.feed(w.N, pq, false); o.accepted {
					res.HarnessErr = "priming certificate " + pc.name + " was accepted (the subsets part reports this class)"
					return
				}
				res.Primed++
			}
		}
		qc, err := qcOf(tc)
		if err != nil {
			res.HarnessErr = fmt.Sprintf("case %s: %v", tc.name, err)
			return
		}
		if w.midRound {
			// the replica validated the leader's proposal of block b: the result stays cached in bft until the round ends
			if _, e := w.N.ValidateProposal(w.b, w.proposer, true); e != nil {
				res.HarnessErr = fmt.Sprintf("case %s: mid-round validation of the honest proposal failed: %v", tc.name, e)
				return
			}
		}
		v := valid(tc)
		o := w.feed(w.N, qc, false)
		res.Cases++
		rec := caseRec{Name: tc.name, Accepted: o.accepted, Valid: v.ok, Err: errClass(o.err)}
		outc := "rejected"
		if o.accepted {
			outc = "accepted"
			res.Accepted++
		} else {
			res.Rejected++
			res.ErrClasses[errClass(o.err)]++
		}
		cs := append([]string{}, tc.classes...)
		sort.Strings(cs)
		res.CertClasses[strings.Join(cs, "+")+"=>"+outc]++
		rp := map[string]any{"cfg": w.cfg.Name, "part": part, "case": tc.name, "mid_round": w.midRound, "edge": w.edge}
		for _, p := range o.problems {
			res.Viols = append(res.Viols, mc.Viol{Sig: classSig("invariant-on-"+outc, tc.classes), What: fmt.Sprintf("config %s part %s case %s: %s\n   certificate: %s", w.cfg.Name, part, tc.name, p, tc.c.describe()), Replay: rp})
		}
		// a replica in the middle of the round on block b commits its OWN validated copy of b (the cached
		// block result); the carried block bytes are then not executed. If the certificate names b and is
		// otherwise valid, and what was committed is exactly b, the gate held: the statement is about the
		// block that is appended.
		if o.accepted && !v.ok && w.midRound && len(v.reasons) == 1 && strings.HasPrefix(v.reasons[0], "carried block") && bytes.Equal(tc.c.BlockHash, w.b.Block.BlockHeader.Hash) {
			if br, e := w.N.FSM().LoadBlock(w.h); e == nil && br != nil && br.BlockHeader != nil && bytes.Equal(br.BlockHeader.Hash, w.b.Block.BlockHeader.Hash) && sameTxs(br.Transactions, w.b.Block.Transactions) {
				v.ok = true
				res.Observations["mid-round replica committed its own validated copy of the certified block; the carried block bytes ("+tc.c.blockIs+") were ignored"]++
			}
		}
		switch {
		case o.accepted && !v.ok:
			res.Viols = append(res.Viols, mc.Viol{Sig: classSig(part+"-committed-without-valid-certificate", tc.classes),
				What:   fmt.Sprintf("config %s (stakes %v, then last validator -> %d) part %s case %s: HandlePeerBlock committed height %d although the certificate is not a valid +2/3 commit certificate: %s\n   certificate: %s", w.cfg.Name, w.cfg.Stakes, bump, part, tc.name, w.h, strings.Join(v.reasons, "; "), tc.c.describe()),
				Replay: rp})
		case !o.accepted && v.ok && tc.iff:
			res.Viols = append(res.Viols, mc.Viol{Sig: classSig(part+"-valid-certificate-rejected", tc.classes),
				What:   fmt.Sprintf("config %s part %s case %s: a valid +2/3 commit certificate signed with its true bitmap was rejected: %s\n   certificate: %s", w.cfg.Name, part, tc.name, o.err, tc.c.describe()),
				Replay: rp})
		case !o.accepted && v.ok:
			res.ValidRejects = append(res.ValidRejects, tc.name+": "+errClass(o.err))
		}
		if o.accepted {
			if part == "last" && tc.c.Phase != lib.Phase_PRECOMMIT_VOTE {
				res.Observations[fmt.Sprintf("last-certificate accepted with phase %d (not claimed by C02: the phase clause is about the certificate a block arrives with)", tc.c.Phase)]++
			}
			if _, pad, _ := bitmapSigners(tc.c.Bitmap, len(w.cfg.Stakes)); len(pad) > 0 {
				res.Observations["valid quorum certificate accepted with extra bitmap bits set beyond the committee size (bits ignored)"]++
			}
			if tc.c.RootHeight > w.h+1 {
				res.Observations["certificate naming a root height beyond the tip accepted (resolved to the latest committee)"]++
			}
			if _, e := w.N.Propose(); e != nil {
				cs2 := append([]string{}, tc.classes...)
				sort.Strings(cs2)
				res.Observations[fmt.Sprintf("part %s: after committing on a certificate of class [%s] (predicate=%v) the node cannot build the next block: %s", part, strings.Join(cs2, "+"), v.ok, errClass(e.Error()))]++
			}
			w.N.Close()
			w.N = nil
		}
		if len(res.Samples) < 3 && (i-lo)%7 == 3 {
			res.Samples = append(res.Samples, rec)
		}
	}
	// the node must still be functional after all the rejections: the honest certificate commits
	if w.N != nil && only == "" && res.Rejected > 0 {
		if c, ok := w.sanity[part]; ok {
			qc, err := qcOf(tcase{c: c})
			if err == nil {
				if o := w.feed(w.N, qc, false); !o.accepted {
					res.Viols = append(res.Viols, mc.Viol{Sig: "C02:" + part + ":honest-certificate-rejected-after-rejections",
						What:   fmt.Sprintf("config %s part %s: after %d rejected certificates the honest full-quorum certificate is refused: %s", w.cfg.Name, part, res.Rejected, o.err),
						Replay: map[string]any{"cfg": w.cfg.Name, "part": part, "lo": lo, "hi": hi}})
				}
				w.N.Close()
				w.N = nil
			}
		}
	}
	res.Rebuilds = w.rebuilds
}

// ---------------------------------------------------------------------------------------

func runJob(j job) (res result) {
	t0 := time.Now()
	res = result{Job: j, ErrClasses: map[string]int{}, CertClasses: map[string]int{}, Observations: map[string]int{}}
	defer func() {
		res.CPUms = time.Since(t0).Milliseconds()
		if p := recover(); p != nil {
			res.HarnessErr = fmt.Sprintf("panic: %v\n%s", p, debug.Stack())
		}
	}()
	cfg := cfgByName(j.Cfg)
	switch j.Part {
	case "subsets", "singles", "pairs":
		w, err := buildWorld(cfg, j.prefix())
		if err != nil {
			res.HarnessErr = err.Error()
			return
		}
		defer w.close()
		w.quick = j.Quick
		w.midRound = j.MidRound
		w.edge = j.Edge
		if err = w.prepareCandidates(); err != nil {
			res.HarnessErr = err.Error()
			return
		}
		base, err := w.makeCert(w.basePayload(w.b), w.b, "b", allKeys(len(cfg.Stakes)))
		if err != nil {
			res.HarnessErr = err.Error()
			return
		}
		w.sanity = map[string]cert{j.Part: base}
		if j.Part != "subsets" {
			if sc, e := w.subsetsCases(); e == nil {
				for _, tc := range sc {
					if !w.validCommitCert(tc.c).ok && strings.HasPrefix(tc.name, "subset:cur:") {
						w.primes = append(w.primes, tc)
					}
				}
			}
		}
		var cases []tcase
		if j.Part == "subsets" {
			cases, err = w.subsetsCases()
		} else {
			cases, err = w.deviationCases(base, w.b, w.b2, false, j.Part == "pairs")
		}
		if err != nil {
			res.HarnessErr = err.Error()
			return
		}
		w.runCases(&res, j.Part, cases, j.Lo, j.Hi, j.Only,
			func(tc tcase) (*lib.QuorumCertificate, error) { return tc.c.toQC(), nil },
			func(tc tcase) verdict { return w.validCommitCert(tc.c) })
	case "last", "lastpairs":
		runLast(cfg, j, &res)
	case "fastsync":
		runFastSync(cfg, j, &res)
	default:
		res.HarnessErr = "unknown part " + j.Part
	}
	return
}

// runLast: deviations of the LastQuorumCertificate embedded in block h+1.
func runLast(cfg cfgSpec, j job, res *result) {
	w, err := buildWorld(cfg, j.prefix())
	if err != nil {
		res.HarnessErr = err.Error()
		return
	}
	defer w.close()
	w.quick = j.Quick
	w.edge = j.Edge
	if err = w.prepareCandidates(); err != nil {
		res.HarnessErr = err.Error()
		return
	}
	// commit b at h on P with the honest full certificate and extend the prefix
	q0, err := w.makeCert(w.basePayload(w.b), w.b, "b", allKeys(len(cfg.Stakes)))
	if err != nil {
		res.HarnessErr = err.Error()
		return
	}
	msg := &lib.BlockMessage{ChainId: env.ChainID, BlockAndCertificate: q0.toQC(), Time: 1_700_000_000_000_000}
	wire, _ := env.WireCopy(msg)
	if e := w.P.HandlePeerBlock(msg, false); e != nil {
		res.HarnessErr = "committing b on P: " + e.Error()
		return
	}
	w.prefix = append(w.prefix, wire)
	hb := w.h // height of the block the last-certificate is about
	w.h++     // the node under test now expects h+1
	// honest next block from P (its LastQuorumCertificate is the stored certificate, hashes only)
	next, e := w.P.Propose()
	if e != nil {
		res.HarnessErr = "proposing h+1: " + e.Error()
		return
	}
	honestLast := next.Block.BlockHeader.LastQuorumCertificate
	if honestLast == nil || !bytes.Equal(honestLast.BlockHash, w.b.Block.BlockHeader.Hash) {
		res.HarnessErr = "P's proposal for h+1 does not embed the certificate of b"
		return
	}
	// the base last-certificate as a cert object (block omitted, results as stored)
	baseL := q0.clone()
	baseL.Block, baseL.blockIs = nil, "nil"
	baseL.Results = honestLast.Results
	// the predicate for a last-certificate: a +2/3 certificate for exactly (net, chain, hb, hash(b), hash(results of b))
	lw := *w
	lw.h = hb
	validLast := func(tc tcase) verdict {
		c := tc.c
		v := verdict{ok: true}
		if c.Net != env.NetworkID {
			v.fail("network id %d", c.Net)
		}
		if c.Chain != env.ChainID {
			v.fail("chain id %d", c.Chain)
		}
		if c.Height != hb {
			v.fail("height %d, previous block is %d", c.Height, hb)
		}
		signers, com := lw.signatureValid(c, &v)
		if p := com.powerOf(signers); p < com.thr {
			v.fail("signed power %d < %d", p, com.thr)
		}
		if !bytes.Equal(c.BlockHash, w.b.Block.BlockHeader.Hash) {
			v.fail("block hash is not the committed block's")
		}
		if !bytes.Equal(c.ResultsHash, w.b.Results.Hash()) {
			v.fail("results hash is not the committed results'")
		}
		if c.Results != nil && !bytes.Equal(c.ResultsHash, c.Results.Hash()) {
			v.fail("carried results do not hash to the results hash")
		}
		return v
	}
	// cases: subsets (iff) + deviations
	var cases []tcase
	for _, rh := range []uint64{hb, 1} {
		com, _ := lw.committeeAt(rh)
		pl := lw.basePayload(w.b)
		pl.RootHeight = rh
		for m := 0; m < 1<<com.n(); m++ {
			s := subsetOf(m, com.n())
			c, err := lw.makeCert(pl, w.b, "nil", s)
			if err != nil {
				res.HarnessErr = err.Error()
				return
			}
			c.Block, c.Results = nil, honestLast.Results
			tag := "cur"
			if rh == 1 {
				tag = "old"
			}
			// old-committee certificates are additionally refused by the FSM's monotonic root-height rule
			// (HandleCertificateResults), so only the current committee is checked in both directions
			cases = append(cases, tcase{name: fmt.Sprintf("subset:%s:%v", tag, s), classes: []string{"subset-" + tag}, c: c, iff: rh != 1})
		}
	}
	if j.Part == "lastpairs" {
		cases = nil
	}
	dev, err := lw.deviationCases(baseL, w.b, nil, true, j.Part == "lastpairs")
	if err != nil {
		res.HarnessErr = err.Error()
		return
	}
	cases = append(cases, dev...)
	w.sanity = map[string]cert{j.Part: baseL}
	// building block h+1 around a last-certificate: header recomputed on a scratch copy of
	// the node under test, then certified by the whole current committee
	qcOf := func(tc tcase) (*lib.QuorumCertificate, error) {
		l := tc.c.toQC()
		blk := &lib.Block{BlockHeader: &lib.BlockHeader{Time: next.Block.BlockHeader.Time, ProposerAddress: next.Block.BlockHeader.ProposerAddress, LastQuorumCertificate: l},
			Transactions: next.Block.Transactions}
		hdr, e := scratchHeader(w.N, blk)
		if e != nil || hdr == nil {
			// the scratch application refused it: keep the honest header and only swap the certificate
			h2 := *next.Block.BlockHeader
			h2.LastQuorumCertificate = l
			hdr = &h2
			if _, e2 := hdr.SetHash(); e2 != nil {
				return nil, e2
			}
		}
		blk.BlockHeader = hdr
		bz, e := lib.Marshal(blk)
		if e != nil {
			return nil, e
		}
		p := &env.Proposal{RCBuildHeight: w.h, BlockBytes: bz, Block: blk, Results: next.Results}
		return w.N.Certify(p, w.proposer, nil, 0)
	}
	w.runCases(res, j.Part, cases, j.Lo, j.Hi, j.Only, qcOf, validLast)
}

// runFastSync: what the statement says about fast-sync — certificates are checked at checkpoint heights.
func runFastSync(cfg cfgSpec, j job, res *result) {
	g := genesisFor(cfg)
	// prefix of 99 blocks produced on the direct path (block 1 = stake bump), synced into the node with syncing=true
	ch, err := env.NewChain(g)
	if err != nil {
		res.HarnessErr = err.Error()
		return
	}
	last := len(cfg.Stakes) - 1
	var msgs []*lib.BlockMessage
	for blk := 1; blk <= 99; blk++ {
		spec := env.BlockSpec{Proposer: 0}
		if blk == 1 {
			k := env.BLS(last)
			_ = k
			spec.Txs = [][]byte{mustTx(fsmEditStake(last))}
		}
		cm, e := ch.Step(spec)
		if e != nil {
			ch.Close()
			res.HarnessErr = fmt.Sprintf("direct-path block %d: %v", blk, e)
			return
		}
		m, e := env.WireCopy(&lib.BlockMessage{ChainId: env.ChainID, BlockAndCertificate: cm.QC, Time: 1})
		if e != nil {
			ch.Close()
			res.HarnessErr = e.Error()
			return
		}
		msgs = append(msgs, m)
	}
	// block 100 (one send) is proposed on the direct path as well
	blk100, _, e100 := ch.Propose(env.BlockSpec{Proposer: 0, Txs: [][]byte{mustTx(fsmSend(100))}})
	if e100 != nil {
		ch.Close()
		res.HarnessErr = "propose 100: " + e100.Error()
		return
	}
	res100 := env.DefaultResults(ch, blk100, nil)
	bz100, _ := lib.Marshal(blk100)
	p := &env.Proposal{RCBuildHeight: 100, BlockBytes: bz100, Block: blk100, Results: res100}
	ch.Close()
	env.PurgeProcessCaches()
	w := &world{cfg: cfg, g: g, proposer: 0}
	defer w.close()
	n, err := env.NewNode(g, env.NodeOpts{Name: "S", Key: 0})
	if err != nil {
		res.HarnessErr = err.Error()
		return
	}
	w.N = n
	// (a) at a non-checkpoint height an unsigned certificate is not looked at (recorded, not claimed)
	{
		m0, _ := env.WireCopy(msgs[0])
		m0.BlockAndCertificate.Signature = &lib.AggregateSignature{Signature: make([]byte, 96), Bitmap: make([]byte, (len(cfg.Stakes)+7)/8)}
		if e := n.HandlePeerBlock(m0, true); e == nil {
			res.Observations["fast-sync at a non-checkpoint height committed a block whose certificate carries an all-zero signature (outside the claim)"]++
		} else {
			m1, _ := env.WireCopy(msgs[0])
			if e2 := n.HandlePeerBlock(m1, true); e2 != nil {
				res.HarnessErr = "sync block 1: " + e2.Error()
				return
			}
		}
	}
	for i := 1; i < len(msgs); i++ {
		if e := n.HandlePeerBlock(msgs[i], true); e != nil {
			res.HarnessErr = fmt.Sprintf("sync block %d: %v", i+1, e)
			return
		}
	}
	w.h = 100
	if err = w.loadCommittees(n); err != nil {
		res.HarnessErr = err.Error()
		return
	}
	w.b, w.b2 = p, p
	w.resOther = p.Results
	base, err := w.makeCert(w.basePayload(p), p, "b", allKeys(len(cfg.Stakes)))
	if err != nil {
		res.HarnessErr = err.Error()
		return
	}
	var cases []tcase
	com := w.cur
	for m := 0; m < 1<<com.n(); m++ {
		s := subsetOf(m, com.n())
		if com.powerOf(s) >= com.thr {
			continue
		}
		c, err := w.makeCert(w.basePayload(p), p, "b", s)
		if err != nil {
			res.HarnessErr = err.Error()
			return
		}
		cases = append(cases, tcase{name: fmt.Sprintf("subset:cur:%v", s), classes: []string{"subset-cur"}, c: c})
	}
	for _, f := range []struct {
		name, class string
		f           func(c *cert)
	}{
		{"sig:zero", "sig-garbage", func(c *cert) { c.Sig = make([]byte, 96); c.prov.garbage = true }},
		{"field:phase4", "field-phase", func(c *cert) { c.Phase = lib.Phase_PROPOSE_VOTE }},
		{"field:round1", "field-round", func(c *cert) { c.Round = 1 }},
		{"field:chain2", "field-chain", func(c *cert) { c.Chain = 2 }},
		{"field:rootheight1", "field-rootheight-oldcommittee", func(c *cert) { c.RootHeight = 1 }},
		{"bitmap:zero", "bitmap-zero", func(c *cert) { c.Bitmap = make([]byte, len(c.Bitmap)) }},
	} {
		c := base.clone()
		f.f(&c)
		cases = append(cases, tcase{name: f.name, classes: []string{f.class}, c: c})
	}
	cases = append(cases, tcase{name: "honest", classes: []string{"honest"}, c: base, iff: true})
	res.Total = len(cases)
	for _, tc := range cases {
		if j.Only != "" && tc.name != j.Only {
			continue
		}
		v := w.validCommitCert(tc.c)
		o := w.feed(n, tc.c.toQC(), true)
		res.Cases++
		if o.accepted {
			res.Accepted++
		} else {
			res.Rejected++
			res.ErrClasses[errClass(o.err)]++
		}
		rp := map[string]any{"cfg": cfg.Name, "part": "fastsync", "case": tc.name}
		for _, pr := range o.problems {
			res.Viols = append(res.Viols, mc.Viol{Sig: classSig("fastsync-invariant", tc.classes), What: pr + " | " + tc.c.describe(), Replay: rp})
		}
		if o.accepted && !v.ok {
			res.Viols = append(res.Viols, mc.Viol{Sig: classSig("fastsync-checkpoint-height-committed-without-valid-certificate", tc.classes),
				What: fmt.Sprintf("config %s: syncing node at checkpoint height 100 committed on an invalid certificate: %s\n   certificate: %s", cfg.Name, strings.Join(v.reasons, "; "), tc.c.describe()), Replay: rp})
		}
		if !o.accepted && v.ok && tc.iff {
			res.Viols = append(res.Viols, mc.Viol{Sig: "C02:fastsync-valid-certificate-rejected", What: fmt.Sprintf("config %s: syncing node refused the honest certificate at height 100: %s", cfg.Name, o.err), Replay: rp})
		}
		if o.accepted {
			break
		}
	}
}

// ---------------------------------------------------------------------------------------

func main() {
	if mc.IsWorker() {
		mc.ServeWorker(func(j job) result { return runJob(j) })
	}
	filter := flag.String("filter", "", "only run jobs whose cfg/part contains this substring (mutant runs)")
	r := mc.Start("C02", "exploration", 85*time.Second, 25*time.Minute)
	r.Assumptions = []string{
		"cryptographic assumption (Dolev-Yao attacker): an aggregate BLS signature verifies iff it was formed over exactly the certificate's sign bytes, inside the same ordered committee, by exactly the members named by the bitmap; the attacker recombines honest signatures and signs with no honest key",
		"the harness plays every validator and therefore also signs payloads an honest validator would not sign (other phases, heights, chains); the predicate, not the signer's honesty, decides validity",
		"own-root chain: the committee in force at a root height is the node's own state at that height; a root height of 0 or beyond the tip is answered with the latest committee (RPC semantics mirrored by the mock root-chain manager)",
		"bitmap bits at positions >= committee size are not signer bits: the scheme ignores them, so a valid quorum certificate with such bits set is still a valid certificate (recorded as an observation)",
		"the validity of the carried results CONTENT is not part of the finality gate (only their hash binding): HandlePeerBlock trusts +2/3 for it; ValidateProposal is where results are recomputed (C03/C11)",
		"last-certificate part: the phase of an embedded LastQuorumCertificate is not constrained by the statement; acceptances with another phase are reported as observations",
		"governance vote mode REJECT_ALL (bft.Start never runs; see env/node.go), no transactions in the candidate block except one send",
		"one world per worker process; process-wide block LRU and signature cache purged on every role switch",
	}
	if r.Replay != "" {
		doReplay(r)
		return
	}
	quick := r.Quick()
	// job list: per config x part, deviation parts chunked
	var jobs []job
	for _, c := range configs {
		// case lists are deterministic per configuration, so index ranges are stable across workers
		jobs = append(jobs, job{Cfg: c.Name, Part: "subsets", Hi: -1, Quick: quick})
		jobs = append(jobs, job{Cfg: c.Name, Part: "singles", Lo: 0, Hi: 50, Quick: quick}, job{Cfg: c.Name, Part: "singles", Lo: 50, Hi: 100, Quick: quick}, job{Cfg: c.Name, Part: "singles", Lo: 100, Hi: -1, Quick: quick})
		jobs = append(jobs, job{Cfg: c.Name, Part: "subsets", Hi: -1, Quick: quick, MidRound: true})
		jobs = append(jobs, job{Cfg: c.Name, Part: "singles", Lo: 0, Hi: 70, Quick: quick, MidRound: true}, job{Cfg: c.Name, Part: "singles", Lo: 70, Hi: -1, Quick: quick, MidRound: true})
		if len(c.Stakes) > 1 {
			jobs = append(jobs, job{Cfg: c.Name, Part: "subsets", Hi: -1, Quick: quick, Edge: true}, job{Cfg: c.Name, Part: "last", Hi: -1, Quick: quick, Edge: true})
		}
		jobs = append(jobs, job{Cfg: c.Name, Part: "last", Lo: 0, Hi: 40, Quick: quick}, job{Cfg: c.Name, Part: "last", Lo: 40, Hi: 80, Quick: quick}, job{Cfg: c.Name, Part: "last", Lo: 80, Hi: 120, Quick: quick}, job{Cfg: c.Name, Part: "last", Lo: 120, Hi: -1, Quick: quick})
	}
	fs := []string{"n4-5/1/1/1"}
	if !quick {
		fs = []string{"n1", "n3-3/2/1", "n4-equal", "n4-5/1/1/1"}
	}
	for _, c := range fs {
		jobs = append(jobs, job{Cfg: c, Part: "fastsync", Hi: -1, Quick: quick})
	}
	if !quick {
		// pairs: chunked (the case list is deterministic per config, so ranges are stable across workers)
		for _, c := range configs {
			for _, part := range []string{"pairs", "lastpairs"} {
				const chunk = 400
				for lo := 0; lo < 12000; lo += chunk {
					jobs = append(jobs, job{Cfg: c.Name, Part: part, Lo: lo, Hi: lo + chunk})
				}
			}
		}
	}
	if *filter != "" {
		var keep []job
		for _, j := range jobs {
			if strings.Contains(j.Cfg+"/"+j.Part, *filter) {
				keep = append(keep, j)
			}
		}
		jobs = keep
		r.Exhaustive = false
	}
	// longest first
	sort.SliceStable(jobs, func(a, b int) bool { return rank(jobs[a]) > rank(jobs[b]) })
	pool := mc.NewProcPool(0)
	results, crashed := mc.Map[job, result](pool, jobs, r.Expired)
	type agg struct{ cases, accepted, rejected, total int }
	per := map[string]*agg{}
	errs := map[string]int{}
	certClasses := map[string]int{}
	obs := map[string]int{}
	validRejects := map[string]int{}
	var evals, rebuilds int
	var cpu int64
	for i, res := range results {
		if crashed[i] {
			r.Violation("C02:worker-crash", fmt.Sprintf("worker died twice on job %+v", jobs[i]), jobs[i])
			continue
		}
		if res == nil {
			r.Exhaustive = false
			continue
		}
		if res.HarnessErr != "" {
			fmt.Fprintf(os.Stderr, "HARNESS ERROR job %+v: %s\n", jobs[i], res.HarnessErr)
			r.Note("harness error in job %s/%s[%d:%d]: %.300s", res.Job.Cfg, res.Job.Part, res.Job.Lo, res.Job.Hi, res.HarnessErr)
			r.Exhaustive = false
			continue
		}
		k := res.Job.Cfg + "/" + res.Job.Part
		if per[k] == nil {
			per[k] = &agg{}
		}
		a := per[k]
		a.cases += res.Cases
		a.accepted += res.Accepted
		a.rejected += res.Rejected
		if res.Total > a.total {
			a.total = res.Total
		}
		evals += res.Cases
		rebuilds += res.Rebuilds
		cpu += res.CPUms
		for e, n := range res.ErrClasses {
			errs[e] += n
		}
		for e, n := range res.CertClasses {
			certClasses[e] += n
		}
		for e, n := range res.Observations {
			obs[e] += n
		}
		for _, e := range res.ValidRejects {
			validRejects[res.Job.Part+": "+stripIdx(e)]++
		}
		for _, v := range res.Viols {
			r.OnViol(v)
		}
		for _, s := range res.Samples {
			r.AddSample(map[string]any{"config": res.Job.Cfg, "part": res.Job.Part, "case": s})
		}
	}
	var table []map[string]any
	keys := make([]string, 0, len(per))
	for k := range per {
		keys = append(keys, k)
	}
	sort.Strings(keys)
	for _, k := range keys {
		a := per[k]
		if a.cases < a.total && !strings.Contains(k, "fastsync") {
			r.Exhaustive = false
		}
		table = append(table, map[string]any{"config/part": k, "cases_run": a.cases, "cases_in_part": a.total, "committed": a.accepted, "rejected": a.rejected})
		fmt.Printf("%-28s cases=%d/%d committed=%d rejected=%d\n", k, a.cases, a.total, a.accepted, a.rejected)
	}
	fmt.Printf("distinct (deviation classes => outcome): %d; distinct rejection reasons: %d; worlds rebuilt after a commit: %d; cpu %.1fs\n", len(certClasses), len(errs), rebuilds, float64(cpu)/1000)
	for o, n := range obs {
		r.Note("observation x%d: %s", n, o)
	}
	cov := map[string]any{
		"evaluations":         evals,
		"distinct_nontrivial": len(certClasses),
		"rule":                "a case is one certificate (or one block h+1 around one last-certificate) fed to HandlePeerBlock on a node at the height under test; distinct_nontrivial counts distinct (sorted set of deviation classes, outcome) pairs, e.g. 'field-phase+sig-from-phase=>rejected'; byte-identical certificates are fed once",
		"per_config_part":     table,
		"rejection_reasons":   errs,
		"class_outcomes":      certClasses,
		"valid_but_rejected":  validRejects,
		"observations":        obs,
		"worlds_rebuilt":      rebuilds,
		"worker_cpu_seconds":  float64(cpu) / 1000,
		"configs":             configs,
		"pairs_in_this_tier":  !quick,
		"committee_change":    fmt.Sprintf("block 1 raises the last validator's stake to %d units; root height 1 = genesis committee, root heights >= 2 = new committee", bump),
		"height_under_test":   3,
		"fastsync_configs":    fs,
	}
	r.Finish(cov)
}

// rank orders the job queue: the one long job first, then the parts in order of importance
// (a deadline cuts the tail, never the subsets / singles parts).
func rank(j job) int {
	switch j.Part {
	case "fastsync":
		return 9
	case "subsets":
		return 8
	case "singles":
		return 7
	case "last":
		return 6
	case "pairs":
		return 5
	}
	return 1
}

func stripIdx(s string) string {
	var b strings.Builder
	for _, r := range s {
		if r >= '0' && r <= '9' {
			continue
		}
		b.WriteRune(r)
	}
	return b.String()
}

func doReplay(r *mc.Run) {
	var rp struct {
		Cfg  string `json:"cfg"`
		Part string `json:"part"`
		Case string `json:"case"`
		Mid  bool   `json:"mid_round"`
		Edge bool   `json:"edge"`
	}
	if err := r.LoadReplay(&rp); err != nil {
		fmt.Println("cannot load replay:", err)
		r.Finish(map[string]any{"evaluations": 0, "distinct_nontrivial": 0, "rule": "replay"})
	}
	n := 0
	for i := 0; i < 5; i++ {
		res := runJob(job{Cfg: rp.Cfg, Part: rp.Part, Hi: -1, Only: rp.Case, MidRound: rp.Mid, Edge: rp.Edge})
		if res.HarnessErr != "" {
			fmt.Println("harness error:", res.HarnessErr)
		}
		n += res.Cases
		for _, v := range res.Viols {
			r.OnViol(v)
		}
		fmt.Printf("replay %d: cases=%d accepted=%d rejected=%d errs=%v observations=%v\n", i, res.Cases, res.Accepted, res.Rejected, res.ErrClasses, res.Observations)
	}
	r.Finish(map[string]any{"evaluations": n, "distinct_nontrivial": 1, "rule": "replay of one case x5"})
}

var _ = hex.EncodeToString

func fsmEditStake(last int) (lib.TransactionI, lib.ErrorI) {
	k := env.BLS(last)
	return fsm.NewEditStakeTx(k, env.Addr(k), env.Addr(k), fmt.Sprintf("tcp://v%d", last), []uint64{env.ChainID}, bump*unit, env.NetworkID, env.ChainID, 10000, 1, true, "")
}

func fsmSend(height uint64) (lib.TransactionI, lib.ErrorI) {
	return fsm.NewSendTransaction(env.BLS(10), env.Addr(env.BLS(11)), 12345, env.NetworkID, env.ChainID, 10000, height, "")
}

func sameTxs(got []*lib.TxResult, want [][]byte) bool {
	if len(got) != len(want) {
		return false
	}
	for i, r := range got {
		bz, e := lib.Marshal(r.Transaction)
		if e != nil || !bytes.Equal(bz, want[i]) {
			return false
		}
	}
	return true
}
