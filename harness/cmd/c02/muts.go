package main

import (
	"bytes"
	"fmt"
	"sort"

	"github.com/canopy-network/canopy/lib"

	"verifharness/env"
)

// A mutation turns a certificate into another one, keeping the provenance truthful.
type mutation struct {
	name  string // unique
	class string // canonical class (no indices) used in violation signatures
	apply func(c *cert)
}

// subsets of key indices
func subsetOf(mask, n int) []int {
	var s []int
	for i := 0; i < n; i++ {
		if mask&(1<<i) != 0 {
			s = append(s, i)
		}
	}
	return s
}

// minimalQuorum / maximalNonQuorum pick canonical subsets for a committee.
func (w *world) minimalQuorum(com *committee) []int {
	n := com.n()
	best, bestP := []int(nil), uint64(0)
	for m := 0; m < 1<<n; m++ {
		s := subsetOf(m, n)
		p := com.powerOf(s)
		if p >= com.thr && (best == nil || p < bestP || (p == bestP && len(s) < len(best))) {
			best, bestP = s, p
		}
	}
	return best
}

func (w *world) maximalNonQuorum(com *committee) []int {
	n := com.n()
	best, bestP := []int{}, uint64(0)
	for m := 0; m < 1<<n; m++ {
		s := subsetOf(m, n)
		p := com.powerOf(s)
		if p < com.thr && (p > bestP || (p == bestP && len(s) > len(best))) {
			best, bestP = s, p
		}
	}
	return best
}

// competing payloads the honest validators also signed (the harness owns all of these
// individual signatures). Each is signed by the whole committee in force at its root height.
type competing struct {
	name  string
	class string
	pl    payload
	// what has to be carried for the certificate to be self-consistent
	block   *env.Proposal
	blockIs string
	results *lib.CertificateResult
}

func (w *world) competingPayloads(base payload, target *env.Proposal, other *env.Proposal) []competing {
	var out []competing
	add := func(name, class string, f func(p *payload), blk *env.Proposal, blockIs string, res *lib.CertificateResult) {
		p := base
		p.BlockHash, p.ResultsHash, p.ProposerKey = bytes.Clone(base.BlockHash), bytes.Clone(base.ResultsHash), bytes.Clone(base.ProposerKey)
		f(&p)
		out = append(out, competing{name: name, class: class, pl: p, block: blk, blockIs: blockIs, results: res})
	}
	if other != nil {
		add("otherblock", "otherblock", func(p *payload) {
			p.BlockHash = bytes.Clone(other.Block.BlockHeader.Hash)
			p.ResultsHash = other.Results.Hash()
		}, other, "b2", other.Results)
	}
	add("height+1", "height", func(p *payload) { p.Height++ }, target, "b", target.Results)
	add("height-1", "height", func(p *payload) { p.Height-- }, target, "b", target.Results)
	add("chain2", "chain", func(p *payload) { p.Chain = 2 }, target, "b", target.Results)
	add("net2", "network", func(p *payload) { p.Net = 2 }, target, "b", target.Results)
	for ph := lib.Phase(0); ph <= lib.Phase_PACEMAKER; ph++ {
		if ph == lib.Phase_PRECOMMIT_VOTE {
			continue
		}
		if w.quick && other == nil && ph != lib.Phase_ELECTION_VOTE && ph != lib.Phase_PROPOSE_VOTE && ph != lib.Phase_COMMIT {
			continue // quick tier, last-certificate part: three representative phases (each acceptance costs a world rebuild)
		}
		phv := ph
		add(fmt.Sprintf("phase%d", ph), "phase", func(p *payload) { p.Phase = phv }, target, "b", target.Results)
	}
	add("round1", "round", func(p *payload) { p.Round = 1 }, target, "b", target.Results)
	add("rootheight1", "rootheight-oldcommittee", func(p *payload) { p.RootHeight = 1 }, target, "b", target.Results)
	add("rootheight-future", "rootheight-future", func(p *payload) { p.RootHeight = base.Height + 5 }, target, "b", target.Results)
	add("results2", "results", func(p *payload) { p.ResultsHash = w.resOther.Hash() }, target, "b", w.resOther)
	add("proposer2", "proposerkey", func(p *payload) { p.ProposerKey = w.otherProposerKey() }, target, "b", target.Results)
	return out
}

func (w *world) otherProposerKey() []byte {
	if len(w.cfg.Stakes) > 1 {
		return env.BLS(1).PublicKey().Bytes()
	}
	return env.BLS(7).PublicKey().Bytes()
}

// mutationList builds every atomic deviation for a base certificate over target block
// `target` (with alternative block `other`, nil when there is none, e.g. for a last-certificate).
func (w *world) mutationList(base cert, target, other *env.Proposal, forLast bool) ([]mutation, error) {
	var ms []mutation
	add := func(name, class string, f func(c *cert)) { ms = append(ms, mutation{name, class, f}) }
	comps := w.competingPayloads(base.payload, target, other)
	// precompute full-committee aggregates over every competing payload
	type agg struct {
		sig, bm []byte
		prov    provenance
	}
	aggs := map[string]agg{}
	for _, cp := range comps {
		com, vs := w.committeeAt(cp.pl.RootHeight)
		sig, bm, prov, err := aggregate(vs, com, cp.pl, allKeys(com.n()))
		if err != nil {
			return nil, err
		}
		prov.note = "all over " + cp.name
		aggs[cp.name] = agg{sig, bm, prov}
	}
	// --- header / hash fields only (signature untouched)
	for _, cp := range comps {
		cp := cp
		add("field:"+cp.name, "field-"+cp.class, func(c *cert) {
			c.Net, c.Chain, c.Height, c.RootHeight, c.Round, c.Phase = cp.pl.Net, cp.pl.Chain, cp.pl.Height, cp.pl.RootHeight, cp.pl.Round, cp.pl.Phase
			c.BlockHash, c.ResultsHash, c.ProposerKey = bytes.Clone(cp.pl.BlockHash), bytes.Clone(cp.pl.ResultsHash), bytes.Clone(cp.pl.ProposerKey)
		})
		// --- signature only
		add("sig:"+cp.name, "sig-from-"+cp.class, func(c *cert) {
			a := aggs[cp.name]
			c.Sig, c.Bitmap, c.prov = bytes.Clone(a.sig), bytes.Clone(a.bm), a.prov
		})
		// --- consistent re-targeting: fields, carried data and signature all from the competing payload
		add("retarget:"+cp.name, "retarget-"+cp.class, func(c *cert) {
			a := aggs[cp.name]
			c.payload = cp.pl
			c.BlockHash, c.ResultsHash, c.ProposerKey = bytes.Clone(cp.pl.BlockHash), bytes.Clone(cp.pl.ResultsHash), bytes.Clone(cp.pl.ProposerKey)
			c.Sig, c.Bitmap, c.prov = bytes.Clone(a.sig), bytes.Clone(a.bm), a.prov
			if !forLast {
				c.Block, c.blockIs, c.Results = bytes.Clone(cp.block.BlockBytes), cp.blockIs, cp.results
			} else if cp.results != nil {
				c.Results = cp.results
			}
		})
	}
	add("field:rootheight0", "field-rootheight-zero", func(c *cert) { c.RootHeight = 0 })
	// --- carried data
	add("results:content", "results-content", func(c *cert) { c.Results = w.resOther })
	add("results:nil", "results-nil", func(c *cert) { c.Results = nil })
	if !forLast {
		add("block:other-hash-kept", "block-bytes", func(c *cert) { c.Block, c.blockIs = bytes.Clone(other.BlockBytes), "b2" })
		add("block:header-kept-txs-other", "block-txs", func(c *cert) {
			blk := &lib.Block{BlockHeader: target.Block.BlockHeader, Transactions: other.Block.Transactions}
			bz, _ := lib.Marshal(blk)
			c.Block, c.blockIs = bz, "hdr(b)+txs(b')"
		})
		add("block:nil", "block-nil", func(c *cert) { c.Block, c.blockIs = nil, "nil" })
		// non-canonical block bytes: the header field occurs twice. A raw-bytes reader sees the first
		// occurrence, a protobuf decoder merges them (the later one wins field by field)
		add("block:dup-header(b,b2)+txs(b2)", "block-duplicate-header", func(c *cert) {
			c.Block, c.blockIs = append(firstField(target.BlockBytes), other.BlockBytes...), "hdr(b)++block(b2)"
		})
		add("block:dup-header(b2,b)+txs(b)", "block-duplicate-header", func(c *cert) {
			c.Block, c.blockIs = append(firstField(other.BlockBytes), target.BlockBytes...), "hdr(b2)++block(b)"
		})
		// the same with the second header reduced to the fields in which b2 differs from b: embedded
		// messages both headers share (the last certificate) are then not merged twice
		add("block:hdr(b)++hdr-delta(b2)+txs(b2)", "block-duplicate-header", func(c *cert) {
			c.Block, c.blockIs = dupHeaderDelta(target.BlockBytes, other.BlockBytes), "hdr(b)++delta(b2)+txs(b2)"
		})
		add("block:b++hdr(b2)", "block-duplicate-header", func(c *cert) {
			c.Block, c.blockIs = append(bytes.Clone(target.BlockBytes), firstField(other.BlockBytes)...), "block(b)++hdr(b2)"
		})
	} else {
		add("block:attached", "block-attached", func(c *cert) { c.Block, c.blockIs = bytes.Clone(target.BlockBytes), "b" })
	}
	// --- signature blobs from other signer sets
	com, vs := w.committeeAt(base.RootHeight)
	for _, tag := range []string{"minquorum", "maxnonquorum"} {
		s := w.minimalQuorum(com)
		if tag == "maxnonquorum" {
			s = w.maximalNonQuorum(com)
		}
		sig, bm, prov, err := aggregate(vs, com, base.payload, s)
		if err != nil {
			return nil, err
		}
		prov.note = tag
		add("signers:"+tag, "signers-"+tag, func(c *cert) { c.Sig, c.Bitmap, c.prov = bytes.Clone(sig), bytes.Clone(bm), prov })
		add("sigbytes:"+tag+"-bitmap-kept", "sigbytes-other-subset", func(c *cert) { c.Sig = bytes.Clone(sig); c.prov = prov })
		add("bitmap:"+tag+"-sig-kept", "bitmap-other-subset", func(c *cert) { c.Bitmap = bytes.Clone(bm) })
	}
	// --- bitmap bit level
	nbits := len(base.Bitmap) * 8
	for i := 0; i < nbits; i++ {
		i := i
		if i >= com.n() {
			if w.quick && i != com.n() && i != nbits-1 {
				continue // quick tier: first and last padding bit only
			}
			add(fmt.Sprintf("bitmap:set-padding-bit%d", i), "bitmap-padding-bit", func(c *cert) {
				if i/8 < len(c.Bitmap) {
					c.Bitmap[i/8] |= 1 << (i % 8)
				}
			})
		} else {
			add(fmt.Sprintf("bitmap:set-signer-bit%d", i), "bitmap-set-signer-bit", func(c *cert) {
				if i/8 < len(c.Bitmap) {
					c.Bitmap[i/8] |= 1 << (i % 8)
				}
			})
			add(fmt.Sprintf("bitmap:clear-signer-bit%d", i), "bitmap-clear-signer-bit", func(c *cert) {
				if i/8 < len(c.Bitmap) {
					c.Bitmap[i/8] &^= 1 << (i % 8)
				}
			})
		}
	}
	add("bitmap:len+1", "bitmap-length", func(c *cert) { c.Bitmap = append(c.Bitmap, 0) })
	add("bitmap:len+1-set", "bitmap-length", func(c *cert) { c.Bitmap = append(c.Bitmap, 0xff) })
	add("bitmap:len-1", "bitmap-length", func(c *cert) { c.Bitmap = c.Bitmap[:len(c.Bitmap)-1] })
	add("bitmap:zero", "bitmap-zero", func(c *cert) { c.Bitmap = make([]byte, len(c.Bitmap)) })
	// --- garbage signatures
	add("sig:flipbyte", "sig-garbage", func(c *cert) {
		c.Sig = bytes.Clone(c.Sig)
		if len(c.Sig) > 40 {
			c.Sig[40] ^= 0x01
		}
		c.prov.garbage = true
	})
	add("sig:zero", "sig-garbage", func(c *cert) { c.Sig = make([]byte, 96); c.prov.garbage = true })
	add("sig:empty", "sig-garbage", func(c *cert) { c.Sig = nil; c.prov.garbage = true })
	sort.SliceStable(ms, func(i, j int) bool { return false })
	return ms, nil
}

// explicitComposites are two-step deviations that the quick tier (singles only) must still cover.
func (w *world) explicitComposites(ms []mutation) [][2]int {
	idx := map[string]int{}
	for i, m := range ms {
		idx[m.name] = i
	}
	var out [][2]int
	for i, m := range ms {
		for _, tag := range []string{"signers:minquorum", "signers:maxnonquorum"} {
			if (m.class == "bitmap-set-signer-bit" || m.class == "bitmap-padding-bit") && idx[tag] != i {
				out = append(out, [2]int{idx[tag], i})
			}
		}
	}
	return out
}

// firstField returns the bytes of the first top-level protobuf field (tag, length, payload) of a
// length-delimited message start, i.e. the encoded block header of marshalled block bytes.
func firstField(bz []byte) []byte {
	if len(bz) < 2 || bz[0]&7 != 2 {
		return nil
	}
	l, n := uint64(0), 1
	for s := uint(0); n < len(bz); s += 7 {
		b := bz[n]
		n++
		l |= uint64(b&0x7f) << s
		if b < 0x80 {
			break
		}
	}
	if n+int(l) > len(bz) {
		return nil
	}
	return bytes.Clone(bz[:n+int(l)])
}

// protoFields cuts a protobuf message into its top-level fields (number -> raw bytes of each occurrence, in order).
func protoFields(bz []byte) (nums []uint64, raws [][]byte) {
	uv := func(b []byte) (uint64, int) {
		var v uint64
		n := 0
		for s := uint(0); n < len(b); s += 7 {
			c := b[n]
			n++
			v |= uint64(c&0x7f) << s
			if c < 0x80 {
				return v, n
			}
		}
		return 0, -1
	}
	for i := 0; i < len(bz); {
		start := i
		tag, n := uv(bz[i:])
		if n < 0 {
			return nil, nil
		}
		i += n
		switch tag & 7 {
		case 0:
			_, n = uv(bz[i:])
			if n < 0 {
				return nil, nil
			}
			i += n
		case 1:
			i += 8
		case 2:
			l, n := uv(bz[i:])
			if n < 0 {
				return nil, nil
			}
			i += n + int(l)
		case 5:
			i += 4
		default:
			return nil, nil
		}
		if i > len(bz) {
			return nil, nil
		}
		nums = append(nums, tag>>3)
		raws = append(raws, bz[start:i])
	}
	return
}

func lenDelim(num uint64, payload []byte) []byte {
	out := []byte{byte(num<<3 | 2)}
	l := uint64(len(payload))
	for l >= 0x80 {
		out = append(out, byte(l)|0x80)
		l >>= 7
	}
	out = append(out, byte(l))
	return append(out, payload...)
}

// dupHeaderDelta: header(x) ++ header(fields of y's header that differ from x's) ++ the rest of y.
func dupHeaderDelta(x, y []byte) []byte {
	hx := firstField(x)
	hy := firstField(y)
	if hx == nil || hy == nil {
		return nil
	}
	_, rx := protoFields(x)
	_, ry := protoFields(y)
	if len(rx) == 0 || len(ry) == 0 {
		return nil
	}
	// payloads of the two header fields
	inner := func(f []byte) []byte {
		_, raws := protoFields(f)
		if len(raws) != 1 {
			return nil
		}
		// strip tag + length
		i := 1
		for f[i] >= 0x80 {
			i++
		}
		return f[i+1:]
	}
	nx, fx := protoFields(inner(hx))
	ny, fy := protoFields(inner(hy))
	have := map[string]bool{}
	for i := range nx {
		have[string(fx[i])] = true
	}
	var delta []byte
	for i := range ny {
		if !have[string(fy[i])] {
			delta = append(delta, fy[i]...)
		}
	}
	out := append(bytes.Clone(hx), lenDelim(1, delta)...)
	for _, r := range ry[1:] {
		out = append(out, r...)
	}
	return out
}
