package main

// Parts 2 and 3: the real store.Store at production width, one world per job, jobs run in worker
// processes (sequential inside, GOMAXPROCS=1). A job is a chain of blocks; every block is a list
// of Set/Delete calls plus a mode that says where Root(), Reset() and Commit() are called. After
// every Root()/Commit() the returned root is compared with the reference root of the state the
// model says the store is in; after every Commit() the committed state is scanned through the
// store's own iterator and the reference is recomputed from that scan.

import (
	"bytes"
	"crypto/sha256"
	"encoding/hex"
	"fmt"
	"os"
	"sort"
	"strings"

	"github.com/canopy-network/canopy/lib"
	"github.com/canopy-network/canopy/store"
	"github.com/cockroachdb/pebble/v2"

	"verifharness/mc"
)

const (
	mPlain       = iota // ops; Commit
	mRootCommit         // ops; Root; Commit
	mSpecDiscard        // ops + one extra write; Root; Reset; ops; Commit
	mStale              // first half of ops; Root; second half; Commit
	mDetour             // before every op the opposite op on the same key (insert-then-delete, delete-then-insert, overwrite); Commit
	mResetFirst         // unrelated writes; Reset; ops; Commit
	mIdleRoot           // Root() while nothing is pending (a speculative read of the committed root); Reset; ops; Commit
	nModes
)

var modeName = []string{"plain", "root-then-commit", "speculative-root-then-reset", "write-after-root", "detour-in-batch", "reset-then-write", "idle-root-then-reset"}

const parallelThreshold = store.NumSubtrees * 2 // smt.go: CommitParallel falls back to Commit below this many pending operations

type block struct {
	Ops   []sop `json:"ops"`
	Mode  int   `json:"mode,omitempty"`
	Order []int `json:"order,omitempty"` // part 3: completion order of the active subtree workers
}

type sjob struct {
	Blocks []block `json:"b"`
	Digest bool    `json:"d,omitempty"`
}

type sobs struct {
	State string `json:"s"`
	Root  string `json:"r"`
	Par   bool   `json:"p,omitempty"`
	Spec  bool   `json:"x,omitempty"` // speculative (Root() of a state that was not committed)
}

type sres struct {
	Final  string    `json:"f"`
	Obs    []sobs    `json:"o"`
	Viols  []mc.Viol `json:"v,omitempty"`
	Digest string    `json:"d,omitempty"`
	Parks  int64     `json:"k,omitempty"`
	NoHook bool      `json:"n,omitempty"` // a scheduled tree commit ran without any worker passing the seam
	Active []int     `json:"a,omitempty"`
}

func describeOps(ops []sop) string {
	var parts []string
	for _, o := range ops {
		if o.C == 0 {
			parts = append(parts, "Delete("+uni[o.K].name+")")
		} else {
			parts = append(parts, fmt.Sprintf("Set(%s,v%d)", uni[o.K].name, o.C))
		}
	}
	return strings.Join(parts, " ")
}

func describeJob(j sjob) string {
	var sb strings.Builder
	for i, b := range j.Blocks {
		fmt.Fprintf(&sb, "block %d [%s", i+1, modeName[b.Mode])
		if b.Order != nil {
			fmt.Fprintf(&sb, ", worker completion order %v", b.Order)
		}
		fmt.Fprintf(&sb, "]: %s; ", describeOps(b.Ops))
	}
	return sb.String()
}

func stateKeyOf(m map[int]int) string {
	ks := make([]int, 0, len(m))
	for k := range m {
		ks = append(ks, k)
	}
	sort.Ints(ks)
	var sb strings.Builder
	for _, k := range ks {
		fmt.Fprintf(&sb, "%s=%d,", uni[k].name, m[k])
	}
	return sb.String()
}

func refOfModel(m map[int]int) []byte {
	kv := make(map[string][]byte, len(m))
	for k, c := range m {
		kv[string(uni[k].key)] = valueBytes(c)
	}
	return refRootKV(160, kv)
}

type sworld struct {
	st        *store.Store
	committed map[int]int
	pending   map[int]int // 0 = delete
	job       sjob
	res       *sres
	bi        int
	failed    bool
	firstRoot []byte // root returned by the first Root() of the current pending batch (mStale diagnosis)
}

func (w *sworld) viol(sig, what string) {
	w.failed = true
	w.res.Viols = append(w.res.Viols, mc.Viol{Sig: sig, What: what + " | job: " + describeJob(w.job), Replay: map[string]any{"part": 2, "job": w.job}})
}

func (w *sworld) apply(o sop) bool {
	var e lib.ErrorI
	if o.C == 0 {
		e = w.st.Delete(bytes.Clone(uni[o.K].key))
	} else {
		e = w.st.Set(bytes.Clone(uni[o.K].key), valueBytes(o.C))
	}
	if e != nil {
		w.viol("C08:store-write-failed", fmt.Sprintf("block %d: %v", w.bi+1, e))
		return false
	}
	w.pending[o.K] = o.C
	return true
}

func (w *sworld) expect() map[int]int {
	m := make(map[int]int, len(w.committed)+len(w.pending))
	for k, c := range w.committed {
		m[k] = c
	}
	for k, c := range w.pending {
		if c == 0 {
			delete(m, k)
		} else {
			m[k] = c
		}
	}
	return m
}

func (w *sworld) pathName() string {
	if len(w.pending) >= parallelThreshold {
		if w.job.Blocks[w.bi].Order != nil {
			return "parallel-scheduled-completion-order"
		}
		return "parallel"
	}
	return "sequential"
}

// activeSubtrees lists the subtrees that have at least one pending operation (ascending).
func (w *sworld) activeSubtrees() []int {
	var seen [8]bool
	for k := range w.pending {
		seen[uni[k].sub] = true
	}
	var out []int
	for i, s := range seen {
		if s {
			out = append(out, i)
		}
	}
	return out
}

// treeCall wraps a call that may compute the tree (Root or Commit) with the part-3 schedule.
func (w *sworld) treeCall(f func() ([]byte, lib.ErrorI)) (root []byte, err error) {
	defer func() {
		if p := recover(); p != nil {
			err = fmt.Errorf("panic: %v", p)
		}
	}()
	order := w.job.Blocks[w.bi].Order
	scheduled := order != nil && len(w.pending) >= parallelThreshold && !w.st.IsRootCached()
	parksBefore := store.VerifC08Parks.Load()
	if scheduled {
		store.VerifC08SetOrder(order)
		defer store.VerifC08SetOrder(nil)
	}
	root, e := f()
	if e != nil {
		return nil, fmt.Errorf("%v", e)
	}
	if scheduled {
		rep, stray := store.VerifC08Observed()
		if store.VerifC08Parks.Load() == parksBefore {
			w.res.NoHook = true // call site not compiled into CommitParallel: the order was not controlled
		} else if fmt.Sprint(rep) != fmt.Sprint(order) || len(stray) != 0 {
			return root, fmt.Errorf("HARNESS: schedule %v not applied: workers reported in order %v, unscheduled workers %v", order, rep, stray)
		}
	}
	return root, nil
}

func (w *sworld) checkRoot(at string, got []byte, spec bool) bool {
	m := w.expect()
	want := refOfModel(m)
	mode := w.job.Blocks[w.bi].Mode
	w.res.Obs = append(w.res.Obs, sobs{State: stateKeyOf(m), Root: hex.EncodeToString(got), Par: len(w.pending) >= parallelThreshold, Spec: spec})
	if bytes.Equal(got, want) {
		return true
	}
	if mode == mStale && w.firstRoot != nil && bytes.Equal(got, w.firstRoot) {
		w.viol("C08:stale-cached-root:write-after-Root",
			fmt.Sprintf("block %d: %s returned %x, which is the root that Root() computed earlier in the same block, before the later writes (Store.Root() caches the tree until Reset/Commit and Set/Delete do not invalidate it); the state being committed is {%s} with reference root %x",
				w.bi+1, at, got, stateKeyOf(m), want))
		return false
	}
	w.viol(fmt.Sprintf("C08:root-differs-from-reference:store:%s:%s:%s", w.pathName(), modeName[mode], at),
		fmt.Sprintf("block %d (%d pending operations, %s tree commit): %s returned %x, reference root of state {%s} is %x", w.bi+1, len(w.pending), w.pathName(), at, got, stateKeyOf(m), want))
	return false
}

func (w *sworld) root(spec bool) bool {
	got, err := w.treeCall(func() ([]byte, lib.ErrorI) { return w.st.Root() })
	if err != nil {
		w.viol("C08:root-computation-failed:"+w.pathName(), fmt.Sprintf("block %d: Root(): %v", w.bi+1, err))
		return false
	}
	if w.firstRoot == nil {
		w.firstRoot = got
	}
	return w.checkRoot("Root()", got, spec)
}

func (w *sworld) reset() {
	w.st.Reset()
	w.pending = map[int]int{}
	w.firstRoot = nil
}

func (w *sworld) commit() bool {
	got, err := w.treeCall(func() ([]byte, lib.ErrorI) { return w.st.Commit() })
	if err != nil {
		w.viol("C08:root-computation-failed:"+w.pathName(), fmt.Sprintf("block %d: Commit(): %v", w.bi+1, err))
		return false
	}
	if !w.checkRoot("Commit()", got, false) {
		return false
	}
	w.committed = w.expect()
	w.pending = map[int]int{}
	w.firstRoot = nil
	// full scan of the committed state through the store's own iterator
	kv := map[string][]byte{}
	it, e := w.st.Iterator(nil)
	if e != nil {
		w.viol("C08:state-scan-failed", fmt.Sprintf("block %d: %v", w.bi+1, e))
		return false
	}
	for ; it.Valid(); it.Next() {
		kv[string(bytes.Clone(it.Key()))] = bytes.Clone(it.Value())
	}
	it.Close()
	want := map[string][]byte{}
	for k, c := range w.committed {
		want[string(uni[k].key)] = valueBytes(c)
	}
	same := len(kv) == len(want)
	for k, v := range want {
		if !bytes.Equal(kv[k], v) {
			same = false
		}
	}
	if !same {
		w.viol("C08:committed-state-differs-from-writes", fmt.Sprintf("block %d: a scan of the committed state yields %d pairs, the writes imply %d pairs {%s}", w.bi+1, len(kv), len(want), stateKeyOf(w.committed)))
		return false
	}
	if scanRoot := refRootKV(160, kv); !bytes.Equal(scanRoot, got) {
		w.viol("C08:root-differs-from-state-scan", fmt.Sprintf("block %d: Commit() returned %x, reference over the scanned state is %x", w.bi+1, got, scanRoot))
		return false
	}
	return true
}

const junkKeyName = "N3"

func runStoreJob(j sjob) (res sres) {
	if mc.IsWorker() {
		// a job takes milliseconds; a worker stuck in the code under test kills itself so that the
		// parent reports a worker crash for this job instead of waiting for ever
		wd := watch(func() { os.Exit(3) })
		defer wd.done()
	}
	s, err := store.NewStoreInMemory(lib.NewNullLogger())
	if err != nil {
		panic(err)
	}
	w := &sworld{st: s.(*store.Store), committed: map[int]int{}, pending: map[int]int{}, job: j, res: &res}
	defer func() { _ = w.st.Close() }()
	junk := sop{K: uniByNm[junkKeyName], C: 9}
	for bi, b := range j.Blocks {
		w.bi = bi
		ok := true
		applyAll := func(ops []sop) bool {
			for _, o := range ops {
				if !w.apply(o) {
					return false
				}
			}
			return true
		}
		switch b.Mode {
		case mPlain:
			ok = applyAll(b.Ops)
		case mRootCommit:
			ok = applyAll(b.Ops) && w.root(false)
		case mSpecDiscard:
			ok = applyAll(b.Ops) && w.apply(junk) && w.root(true)
			if ok {
				w.reset()
				ok = applyAll(b.Ops)
			}
		case mStale:
			h := len(b.Ops) / 2
			ok = applyAll(b.Ops[:h]) && w.root(true) && applyAll(b.Ops[h:])
		case mDetour:
			for _, o := range b.Ops {
				_, present := w.expect()[o.K]
				var opp sop
				switch {
				case o.C == 0: // (insert or overwrite) then delete
					opp = sop{K: o.K, C: 1}
				case present: // delete then insert
					opp = sop{K: o.K, C: 0}
				case o.C == 1: // insert another value, then overwrite
					opp = sop{K: o.K, C: 2}
				default:
					opp = sop{K: o.K, C: 1}
				}
				if ok = w.apply(opp) && w.apply(o); !ok {
					break
				}
			}
		case mIdleRoot:
			ok = w.root(false)
			if ok {
				w.reset()
				ok = applyAll(b.Ops)
			}
		case mResetFirst:
			ok = w.apply(junk) && applyAll(b.Ops)
			if ok {
				w.reset()
				ok = applyAll(b.Ops)
			}
		}
		if bi == len(j.Blocks)-1 {
			res.Active = w.activeSubtrees()
		}
		if ok {
			ok = w.commit()
		}
		if !ok || w.failed {
			return
		}
	}
	res.Final = stateKeyOf(w.committed)
	res.Parks = store.VerifC08Parks.Load()
	if j.Digest {
		res.Digest = rawTreeDigest(w.st)
	}
	return
}

// rawTreeDigest hashes every raw database entry under the prefix the tree nodes are written to.
func rawTreeDigest(st *store.Store) string {
	lo := lib.JoinLenPrefix([]byte("x/"))
	hi := append(bytes.Clone(lo[:len(lo)-1]), lo[len(lo)-1]+1)
	it, err := st.DB().NewIter(&pebble.IterOptions{LowerBound: lo, UpperBound: hi})
	if err != nil {
		return "error:" + err.Error()
	}
	defer it.Close()
	h := sha256.New()
	n := 0
	for ok := it.First(); ok; ok = it.Next() {
		v, _ := it.ValueAndErr()
		fmt.Fprintf(h, "%d:%x=%d:%x;", len(it.Key()), it.Key(), len(v), v)
		n++
	}
	return fmt.Sprintf("%d-%x", n, h.Sum(nil)[:12])
}

// ---- alphabets -----------------------------------------------------------------------------

// coreBatches: every batch of lo..hi operations on distinct keys, codes 0 (delete), 1, 2.
func coreBatches(keys []int, lo, hi int) [][]sop {
	var out [][]sop
	var rec func(start int, cur []sop)
	rec = func(start int, cur []sop) {
		if len(cur) >= lo {
			out = append(out, append([]sop{}, cur...))
		}
		if len(cur) == hi {
			return
		}
		for i := start; i < len(keys); i++ {
			for c := 0; c <= 2; c++ {
				rec(i+1, append(cur, sop{keys[i], c}))
			}
		}
	}
	rec(0, nil)
	return out
}

// fillers: 16 operations on the border-adjacent keys L0..L7, H0..H7 (two per subtree, so all 8
// workers are active). depth makes the written value differ from block to block.
func fillers(depth int) [][]sop {
	var ls, hs []int
	for p := 0; p < 8; p++ {
		ls = append(ls, uniByNm[fmt.Sprintf("L%d", p)])
		hs = append(hs, uniByNm[fmt.Sprintf("H%d", p)])
	}
	mk := func(lc, hc int) []sop {
		var o []sop
		for i := range ls {
			o = append(o, sop{ls[i], lc}, sop{hs[i], hc})
		}
		return o
	}
	return [][]sop{
		mk(4+depth, 4+depth), // set all to a value that is new in this block
		mk(0, 0),             // delete all (absent ones: delete of absent keys)
		mk(4+depth, 0),       // set the low-border keys, delete the high-border keys
		mk(0, 4+depth),       // and the other way round
		mk(3, 3),             // set all to one fixed value (second time: overwrite with the same value)
		mk(4+depth, 4+depth)[:parallelThreshold-1], // 15 operations: one below the threshold (parallel only together with a core operation)
	}
}

type alphabetCfg struct {
	seqKeys      []int
	seqMax       int
	parKeys      []int
	parMax       int
	parFillerSel []int // which fillers
}

func blocksAt(cfg alphabetCfg, depth int) []block {
	var out []block
	for _, b := range coreBatches(cfg.seqKeys, 1, cfg.seqMax) {
		out = append(out, block{Ops: b})
	}
	fs := fillers(depth)
	for _, fi := range cfg.parFillerSel {
		for _, b := range coreBatches(cfg.parKeys, 0, cfg.parMax) {
			out = append(out, block{Ops: append(append([]sop{}, fs[fi]...), b...)})
		}
	}
	return out
}
