package main

// Part 1: store.SMT on a map-backed lib.RWStoreI, driven through store.VerifC08Commit (the entry
// point Store.Root() uses; on a non-*Txn store it takes the sequential path). Explicit-state
// search whose nodes are *store images* (the complete content of the backing map), so a history
// that leaves different nodes behind is a different node of the search and is expanded too.

import (
	"bytes"
	"crypto/sha256"
	"encoding/hex"
	"fmt"
	"sort"
	"strings"
	"sync"
	"sync/atomic"
	"time"

	"github.com/canopy-network/canopy/lib"
	"github.com/canopy-network/canopy/lib/crypto"
	"github.com/canopy-network/canopy/store"

	"verifharness/mc"
)

// ---- map-backed store ----------------------------------------------------------------------

type mapStore struct{ m map[string][]byte }

func (s *mapStore) Get(k []byte) ([]byte, lib.ErrorI) {
	v, ok := s.m[string(k)]
	if !ok {
		return nil, nil
	}
	return bytes.Clone(v), nil
}
func (s *mapStore) Set(k, v []byte) lib.ErrorI { s.m[string(k)] = bytes.Clone(v); return nil }
func (s *mapStore) Delete(k []byte) lib.ErrorI { delete(s.m, string(k)); return nil }
func (s *mapStore) Iterator([]byte) (lib.IteratorI, lib.ErrorI) {
	return nil, store.ErrStoreGet(fmt.Errorf("map store has no iterator"))
}
func (s *mapStore) RevIterator([]byte) (lib.IteratorI, lib.ErrorI) {
	return nil, store.ErrStoreGet(fmt.Errorf("map store has no iterator"))
}

func cloneMap(m map[string][]byte) map[string][]byte {
	o := make(map[string][]byte, len(m)+8)
	for k, v := range m {
		o[k] = v // values are never mutated in place (Set clones)
	}
	return o
}

func imageKey(m map[string][]byte) string {
	ks := make([]string, 0, len(m))
	for k := range m {
		ks = append(ks, k)
	}
	sort.Strings(ks)
	h := sha256.New()
	for _, k := range ks {
		h.Write([]byte{byte(len(k))})
		h.Write([]byte(k))
		h.Write([]byte{byte(len(m[k]))})
		h.Write(m[k])
	}
	return string(h.Sum(nil)[:16])
}

// ---- world description ---------------------------------------------------------------------

type sop struct {
	K int `json:"k"` // key index in the world's universe
	C int `json:"c"` // 0 = delete, n>0 = set value n
}

type smallWorld struct {
	name      string
	w         int
	keys      [][]byte
	labels    []string // leaf bit pattern (or universe name) per key
	nvals     int
	batchKeys []int // sub-universe for multi-operation batches
	maxBatch  int
}

// valueBytes maps a value code to bytes. Besides ordinary short values the alphabet holds the shapes a
// commitment scheme can get wrong: code 2 is exactly 32 bytes long AND is the SHA-256 of value 1 (a value
// that looks like a digest; {k: v1} and {k: v2} must still have different roots), code 3 is the empty
// value (the state machine stores keys with empty values: committee / delegate membership keys).
func valueBytes(c int) []byte {
	switch c {
	case 2:
		h := sha256.Sum256([]byte("value-1"))
		return h[:]
	case 3:
		return []byte{}
	}
	return []byte(fmt.Sprintf("value-%d", c))
}

// setKey renders a state (value code per key, 0 = absent).
func setKey(st []uint8) string { return string(st) }

func (w *smallWorld) describe(st []uint8) string {
	var sb strings.Builder
	sb.WriteString("{")
	for i, c := range st {
		if c != 0 {
			fmt.Fprintf(&sb, "%s=v%d ", w.labels[i], c)
		}
	}
	sb.WriteString("}")
	return sb.String()
}

func (w *smallWorld) describeBatch(b []sop) string {
	var parts []string
	for _, o := range b {
		if o.C == 0 {
			parts = append(parts, "del "+w.labels[o.K])
		} else {
			parts = append(parts, fmt.Sprintf("set %s=v%d", w.labels[o.K], o.C))
		}
	}
	return "[" + strings.Join(parts, ", ") + "]"
}

// batches enumerates every batch: all single operations over all keys, and every batch of
// 2..maxBatch operations on distinct keys of the sub-universe (a pending-write set holds at most
// one operation per key, exactly like Txn.ops).
func (w *smallWorld) batches() [][]sop {
	var out [][]sop
	for k := range w.keys {
		for c := 0; c <= w.nvals; c++ {
			out = append(out, []sop{{k, c}})
		}
	}
	var rec func(start int, cur []sop)
	rec = func(start int, cur []sop) {
		if len(cur) >= 2 {
			out = append(out, append([]sop{}, cur...))
		}
		if len(cur) == w.maxBatch {
			return
		}
		for i := start; i < len(w.batchKeys); i++ {
			for c := 0; c <= w.nvals; c++ {
				rec(i+1, append(cur, sop{w.batchKeys[i], c}))
			}
		}
	}
	rec(0, nil)
	return out
}

func (w *smallWorld) refRoot(st []uint8) []byte {
	ls := make([]refLeaf, 0, len(st))
	for i, c := range st {
		if c != 0 {
			ls = append(ls, refLeaf{bits: bitsOf(crypto.Hash(w.keys[i]), w.w), val: crypto.Hash(valueBytes(int(c)))})
		}
	}
	r, _ := refTree(w.w, ls)
	return r
}

func (w *smallWorld) refNodeCount(st []uint8) int {
	ls := make([]refLeaf, 0, len(st))
	for i, c := range st {
		if c != 0 {
			ls = append(ls, refLeaf{bits: bitsOf(crypto.Hash(w.keys[i]), w.w), val: crypto.Hash(valueBytes(int(c)))})
		}
	}
	_, n := refTree(w.w, ls)
	return len(n)
}

// applyBatch runs one batch on a fresh SMT object over a clone of img (a fresh object per batch
// is what Store.Root() does). Returns the new image and the root.
func (w *smallWorld) applyBatch(img map[string][]byte, b []sop) (out map[string][]byte, root []byte, reloaded []byte, err error) {
	defer func() {
		if p := recover(); p != nil {
			err = fmt.Errorf("panic: %v", p)
		}
	}()
	ms := &mapStore{m: cloneMap(img)}
	t := store.NewSMT(store.RootKey, w.w, ms)
	ops := make([]store.VerifC08Op, len(b))
	for i, o := range b {
		ops[i] = store.VerifC08Op{Key: w.keys[o.K], Delete: o.C == 0}
		if o.C != 0 {
			ops[i].Value = valueBytes(o.C)
		}
	}
	if e := store.VerifC08Commit(t, ops); e != nil {
		return nil, nil, nil, fmt.Errorf("commit error: %v", e)
	}
	root = t.Root()
	// what a later block would start from: a new SMT object reading the root back from the store
	reloaded = store.NewSMT(store.RootKey, w.w, &mapStore{m: ms.m}).Root()
	return ms.m, root, reloaded, nil
}

type p1replay struct {
	Part    int     `json:"part"`
	World   string  `json:"world"`
	History [][]sop `json:"history"` // batches from the empty tree; the last one is the failing transition
	Want    string  `json:"want_root,omitempty"`
	Got     string  `json:"got_root,omitempty"`
}

type p1node struct {
	img  map[string][]byte
	st   []uint8
	hist [][]sop
}

type p1stats struct {
	World       string `json:"world"`
	Width       int    `json:"width_bits"`
	Keys        int    `json:"keys"`
	Values      int    `json:"values"`
	States      int    `json:"states"`
	StatesTotal int    `json:"states_possible"`
	Images      int    `json:"store_images"`
	Batches     int    `json:"batches_per_state"`
	Transitions int64  `json:"transitions"`
	Roots       int    `json:"distinct_roots"`
	Garbage     int    `json:"images_with_leftover_nodes"`
	Complete    bool   `json:"complete"`
}

func opClass(st []uint8, b []sop) string {
	if len(b) > 1 {
		return fmt.Sprintf("batch%d", len(b))
	}
	o := b[0]
	switch {
	case o.C == 0 && st[o.K] == 0:
		return "delete-absent"
	case o.C == 0:
		return "delete"
	case st[o.K] == 0:
		return "insert"
	case int(st[o.K]) == o.C:
		return "overwrite-same"
	}
	return "update"
}

func runSmallWorld(r *mc.Run, w *smallWorld) p1stats {
	batches := w.batches()
	stt := p1stats{World: w.name, Width: w.w, Keys: len(w.keys), Values: w.nvals, Batches: len(batches), Complete: true}
	stt.StatesTotal = 1
	for range w.keys {
		stt.StatesTotal *= w.nvals + 1
	}
	class := fmt.Sprintf("width%d", w.w)
	// reference roots of every state, and their injectivity
	refOf := map[string]string{}
	refInv := map[string]string{}
	{
		st := make([]uint8, len(w.keys))
		for {
			rr := string(w.refRoot(st))
			if o, dup := refInv[rr]; dup {
				r.Violation("C08:reference-collision", fmt.Sprintf("world %s: reference gives the same root for %s and %s", w.name, w.describe([]uint8(o)), w.describe(st)), nil)
			}
			refInv[rr] = setKey(st)
			refOf[setKey(st)] = rr
			i := 0
			for ; i < len(st); i++ {
				if int(st[i]) < w.nvals {
					st[i]++
					break
				}
				st[i] = 0
			}
			if i == len(st) {
				break
			}
		}
	}
	// initial image: an empty store on which NewSMT has laid out root, min and max
	ms := &mapStore{m: map[string][]byte{}}
	t0 := store.NewSMT(store.RootKey, w.w, ms)
	empty := make([]uint8, len(w.keys))
	if got := string(t0.Root()); got != refOf[setKey(empty)] {
		r.Violation("C08:root-differs-from-reference:"+class+":empty-tree", fmt.Sprintf("world %s: empty tree root %x, reference %x", w.name, got, refOf[setKey(empty)]),
			p1replay{Part: 1, World: w.name})
	}
	seenImg := map[string]bool{imageKey(ms.m): true}
	imgsOfState := map[string]int{setKey(empty): 1}
	rootSeen := map[string]string{string(t0.Root()): setKey(empty)} // observed root -> state
	frontier := []*p1node{{img: ms.m, st: empty}}
	var mu sync.Mutex
	var nviol atomic.Int64
	stop := func() bool { return r.Expired() || nviol.Load() > 200 }
	for len(frontier) > 0 {
		var next []*p1node
		done := mc.ParallelFor(len(frontier), 0, stop, func(i int) {
			n := frontier[i]
			type res struct {
				img  map[string][]byte
				ik   string
				st   []uint8
				root string
				b    []sop
			}
			local := make([]res, 0, len(batches))
			for _, b := range batches {
				st2 := append([]uint8{}, n.st...)
				for _, o := range b {
					st2[o.K] = uint8(o.C)
				}
				hist := func() [][]sop { return append(append([][]sop{}, n.hist...), b) }
				wd := watch(func() {
					r.Violation("C08:tree-commit-does-not-terminate:"+class+":"+opClass(n.st, b),
						fmt.Sprintf("world %s: state %s, batch %s: the tree commit has been running for more than %v (history %s)", w.name, w.describe(n.st), w.describeBatch(b), watchLimit, w.describeHist(hist())),
						p1replay{Part: 1, World: w.name, History: hist()})
					r.Finish(map[string]any{"states": 1, "transitions": 1, "traces_validated_against_impl": 1, "exhaustive": false, "aborted": "a tree commit did not terminate"})
				})
				img2, root, reloaded, err := w.applyBatch(n.img, b)
				wd.done()
				if err != nil {
					nviol.Add(1)
					r.Violation("C08:tree-commit-failed:"+class+":"+opClass(n.st, b),
						fmt.Sprintf("world %s: state %s, batch %s: %v (history %v)", w.name, w.describe(n.st), w.describeBatch(b), err, hist()),
						p1replay{Part: 1, World: w.name, History: hist()})
					continue
				}
				want := refOf[setKey(st2)]
				if string(root) != want {
					nviol.Add(1)
					r.Violation("C08:root-differs-from-reference:"+class+":"+opClass(n.st, b),
						fmt.Sprintf("world %s (%d-bit tree on a map store): state %s, batch %s -> state %s: root %x, reference %x; history from the empty tree: %s",
							w.name, w.w, w.describe(n.st), w.describeBatch(b), w.describe(st2), root, want, w.describeHist(hist())),
						p1replay{Part: 1, World: w.name, History: hist(), Want: hex.EncodeToString([]byte(want)), Got: hex.EncodeToString(root)})
					continue // do not explore below a wrong tree: everything there is a consequence
				}
				if !bytes.Equal(root, reloaded) {
					r.Violation("C08:persisted-root-differs:"+class,
						fmt.Sprintf("world %s: state %s, batch %s: Root() %x but the root node read back from the store has %x", w.name, w.describe(n.st), w.describeBatch(b), root, reloaded),
						p1replay{Part: 1, World: w.name, History: hist()})
					continue
				}
				local = append(local, res{img: img2, ik: imageKey(img2), st: st2, root: string(root), b: b})
			}
			mu.Lock()
			stt.Transitions += int64(len(batches))
			for _, x := range local {
				if o, ok := rootSeen[x.root]; ok && o != setKey(x.st) {
					r.Violation("C08:root-collision:"+class, fmt.Sprintf("world %s: states %s and %s have the same root %x", w.name, w.describe([]uint8(o)), w.describe(x.st), x.root), nil)
				}
				rootSeen[x.root] = setKey(x.st)
				if !seenImg[x.ik] {
					seenImg[x.ik] = true
					imgsOfState[setKey(x.st)]++
					next = append(next, &p1node{img: x.img, st: x.st, hist: append(append([][]sop{}, n.hist...), x.b)})
				}
			}
			mu.Unlock()
		})
		if done < len(frontier) {
			stt.Complete = false
			if nviol.Load() > 200 {
				r.Note("world %s abandoned after more than 200 failing transitions", w.name)
			}
			break
		}
		// deterministic order of the next level
		sort.Slice(next, func(a, b int) bool { return fmt.Sprint(next[a].hist) < fmt.Sprint(next[b].hist) })
		// information only: nodes in the store beyond the reference tree's node set
		for _, n := range next {
			if len(n.img) != w.refNodeCount(n.st) {
				stt.Garbage++
			}
		}
		frontier = next
	}
	stt.States = len(imgsOfState)
	stt.Images = len(seenImg)
	stt.Roots = len(rootSeen)
	return stt
}

func (w *smallWorld) describeHist(h [][]sop) string {
	var parts []string
	for _, b := range h {
		parts = append(parts, w.describeBatch(b))
	}
	return strings.Join(parts, " ; ")
}

// replayP1 re-runs one recorded history and reports the same violations.
func replayP1(r *mc.Run, w *smallWorld, h [][]sop) {
	ms := &mapStore{m: map[string][]byte{}}
	store.NewSMT(store.RootKey, w.w, ms)
	img := ms.m
	st := make([]uint8, len(w.keys))
	for i, b := range h {
		img2, root, _, err := w.applyBatch(img, b)
		prev := append([]uint8{}, st...)
		for _, o := range b {
			st[o.K] = uint8(o.C)
		}
		if err != nil {
			r.Violation(fmt.Sprintf("C08:tree-commit-failed:width%d:%s", w.w, opClass(prev, b)), fmt.Sprintf("replay step %d %s: %v", i, w.describeBatch(b), err), nil)
			return
		}
		want := w.refRoot(st)
		fmt.Printf("  step %d %s -> %s root %x reference %x\n", i, w.describeBatch(b), w.describe(st), root, want)
		if !bytes.Equal(root, want) {
			r.Violation(fmt.Sprintf("C08:root-differs-from-reference:width%d:%s", w.w, opClass(prev, b)), fmt.Sprintf("replay step %d %s: root %x reference %x", i, w.describeBatch(b), root, want), nil)
			return
		}
		img = img2
	}
}

// ---- the worlds ----------------------------------------------------------------------------

func smallWorlds(quick bool) []*smallWorld {
	var ws []*smallWorld
	// width 4: every leaf that is not min (0000), max (1111) or the root's own key (0111)
	var pat []string
	for i := 1; i < 15; i++ {
		if i != 7 {
			pat = append(pat, fmt.Sprintf("%04b", i))
		}
	}
	w4 := &smallWorld{name: "w4-all-leaves", w: 4, keys: smallKeys(4, pat), labels: pat, nvals: 1, maxBatch: 2}
	if !quick {
		w4.maxBatch = 3
	}
	// batch sub-universe: next to min, next to max, two sibling pairs around the middle
	for i, p := range pat {
		switch p {
		case "0001", "1110", "0100", "0101", "1000", "1001":
			w4.batchKeys = append(w4.batchKeys, i)
		}
	}
	ws = append(ws, w4)
	p5 := []string{"00001", "11110", "01010", "01011", "01000", "10000"}
	ws = append(ws, &smallWorld{name: "w5-shared-prefixes", w: 5, keys: smallKeys(5, p5), labels: p5, nvals: 2, batchKeys: []int{0, 1, 2, 3, 4, 5}, maxBatch: 3})
	p6 := []string{"000001", "111110", "010100", "010101", "010110", "100000"}
	ws = append(ws, &smallWorld{name: "w6-shared-prefixes", w: 6, keys: smallKeys(6, p6), labels: p6, nvals: 2, batchKeys: []int{0, 1, 2, 3, 4, 5}, maxBatch: 3})
	// widths that are not below one byte: 9 bits (two data bytes, one significant bit in the last)
	p9 := []string{"000000001", "111111110", "010101010", "010101011", "010101000", "100000000"}
	ws = append(ws, &smallWorld{name: "w9-byte-boundary", w: 9, keys: smallKeys(9, p9), labels: p9, nvals: 2, batchKeys: []int{0, 1, 2, 3, 4, 5}, maxBatch: 2})
	// production width on the map store (sequential path): ten keys of the production universe
	names := []string{"A", "B", "C", "D", "E", "F", "L0", "H7", "L2", "H2"}
	pw := &smallWorld{name: "w160-map-store-10keys", w: 160, labels: names, nvals: 1, maxBatch: 2}
	for i, id := range ids(names...) {
		pw.keys = append(pw.keys, uni[id].key)
		pw.batchKeys = append(pw.batchKeys, i)
	}
	if !quick {
		pw.name = "w160-map-store-8keys-2values"
		pw.maxBatch = 2
		pw.nvals = 2
		pw.keys, pw.labels, pw.batchKeys = pw.keys[:8], pw.labels[:8], pw.batchKeys[:8]
	}
	ws = append(ws, pw)
	return ws
}

// ---- liveness guard ------------------------------------------------------------------------
// A tree commit on these universes takes microseconds (map store) to milliseconds (pebble). A
// defect can make traverse() walk a cycle for ever; the guard turns that into a reported
// violation instead of a hung check. The limit is four to six orders of magnitude above the
// normal duration, so machine load cannot trip it.

const watchLimit = 90 * time.Second

type watchdog struct{ t *time.Timer }

func watch(onTimeout func()) watchdog { return watchdog{t: time.AfterFunc(watchLimit, onTimeout)} }
func (w watchdog) done()              { w.t.Stop() }
