package main

// Key universes. All state keys are lib.JoinLenPrefix("c8", <counter bytes>); the counters are
// found by preimage search on crypto.Hash so that the 160-bit (or reduced-width) hash prefix
// has the stated shape. The production-width counters are cached in fixture.go (regenerate with
// `C08_GEN=1 ./c08`) and every stated shape is re-verified at start-up by verifyFixture().

import (
	"encoding/binary"
	"fmt"
	"os"
	"runtime"
	"sort"
	"strings"
	"sync"

	"github.com/canopy-network/canopy/lib"
	"github.com/canopy-network/canopy/lib/crypto"
)

func keyOf(counter uint64) []byte {
	var b [8]byte
	binary.BigEndian.PutUint64(b[:], counter)
	i := 0
	for i < 7 && b[i] == 0 {
		i++
	}
	return lib.JoinLenPrefix([]byte("c8"), b[i:])
}

func hashBitsOf(counter uint64, w int) bitstr { return bitsOf(crypto.Hash(keyOf(counter)), w) }

func shared(a, b bitstr) int {
	n := 0
	for n < len(a) && n < len(b) && a[n] == b[n] {
		n++
	}
	return n
}

// findCounter returns the smallest counter >= 1 whose hash satisfies pred (parallel search in
// blocks; the result does not depend on the number of workers).
func findCounter(pred func(c uint64, h []byte) bool) uint64 {
	const block = 1 << 16
	workers := runtime.NumCPU()
	for base := uint64(1); ; base += uint64(workers) * block {
		found := make([]uint64, workers)
		var wg sync.WaitGroup
		for w := 0; w < workers; w++ {
			wg.Add(1)
			go func(w int) {
				defer wg.Done()
				lo := base + uint64(w)*block
				for c := lo; c < lo+block; c++ {
					if pred(c, crypto.Hash(keyOf(c))) {
						found[w] = c
						return
					}
				}
			}(w)
		}
		wg.Wait()
		for _, f := range found {
			if f != 0 {
				return f
			}
		}
	}
}

func hasPrefix(h []byte, pattern string) bool {
	for i := 0; i < len(pattern); i++ {
		if (h[i/8]>>(7-uint(i%8)))&1 != pattern[i]-'0' {
			return false
		}
	}
	return true
}

// ---------------------------------------------------------------------------------------
// reduced-width universes: one preimage per wanted leaf pattern (cheap, searched at start-up)

func smallKeys(w int, patterns []string) [][]byte {
	out := make([][]byte, len(patterns))
	for i, p := range patterns {
		if len(p) != w {
			panic("pattern width")
		}
		for c := uint64(1); ; c++ {
			if hasPrefix(crypto.Hash(keyOf(c)), p) {
				out[i] = keyOf(c)
				break
			}
		}
	}
	return out
}

// ---------------------------------------------------------------------------------------
// production-width universe

type uspec struct {
	name    string
	pattern string // required hash prefix
	rel     string // name of the key it is related to ("" = none)
	lo, hi  int    // number of leading hash bits shared with rel must be in [lo,hi]
}

func sub(p int) string { return fmt.Sprintf("%03b", p) }

func universeSpec() []uspec {
	var s []uspec
	for p := 0; p < 8; p++ {
		// border-adjacent: right after the 3-bit subtree prefix a run of 17 zeros / ones, i.e. the
		// key shares >= 20 bits with the synthetic low / high border of its subtree (and with the
		// min / max sentinel for p = 0 / 7)
		s = append(s, uspec{name: fmt.Sprintf("L%d", p), pattern: sub(p) + strings.Repeat("0", 17)})
		s = append(s, uspec{name: fmt.Sprintf("H%d", p), pattern: sub(p) + strings.Repeat("1", 17)})
		// two unremarkable keys per subtree
		s = append(s, uspec{name: fmt.Sprintf("M%d", p), pattern: sub(p) + "01"})
		s = append(s, uspec{name: fmt.Sprintf("N%d", p), pattern: sub(p) + "10"})
	}
	// a second pair hugging the borders of subtree 5 (shares >= 20 bits with L5 / H5)
	s = append(s, uspec{name: "L5b", pattern: "101" + strings.Repeat("0", 17), rel: "L5", lo: 20, hi: 159})
	s = append(s, uspec{name: "H5b", pattern: "101" + strings.Repeat("1", 17), rel: "H5", lo: 20, hi: 159})
	// a cluster in subtree 2 with pairwise shared prefixes of >=24, 16..23, 8..15, 4..7 and exactly 3 bits
	s = append(s, uspec{name: "A", pattern: "0100"})
	s = append(s, uspec{name: "B", pattern: "010", rel: "A", lo: 24, hi: 159})
	s = append(s, uspec{name: "C", pattern: "010", rel: "A", lo: 16, hi: 23})
	s = append(s, uspec{name: "D", pattern: "010", rel: "A", lo: 8, hi: 15})
	s = append(s, uspec{name: "E", pattern: "010", rel: "A", lo: 4, hi: 7})
	s = append(s, uspec{name: "F", pattern: "010", rel: "A", lo: 3, hi: 3})
	return s
}

type ukey struct {
	name string
	key  []byte
	bits bitstr
	sub  int
}

var (
	uni     []ukey
	uniByNm = map[string]int{}
)

func genFixture() {
	spec := universeSpec()
	got := map[string]uint64{}
	for _, sp := range spec {
		var relBits bitstr
		if sp.rel != "" {
			relBits = hashBitsOf(got[sp.rel], 160)
		}
		used := map[uint64]bool{}
		for _, c := range got {
			used[c] = true
		}
		sp := sp
		c := findCounter(func(c uint64, h []byte) bool {
			if used[c] || !hasPrefix(h, sp.pattern) { // one preimage must not serve two names
				return false
			}
			if relBits != nil {
				n := shared(bitsOf(h, 160), relBits)
				if n < sp.lo || n > sp.hi || n == 160 {
					return false
				}
			}
			return true
		})
		got[sp.name] = c
	}
	names := make([]string, 0, len(got))
	for n := range got {
		names = append(names, n)
	}
	sort.Strings(names)
	fmt.Println("package main\n\n// generated by `C08_GEN=1 c08`; verified at start-up by verifyFixture()\nvar fixtureCounters = map[string]uint64{")
	for _, n := range names {
		fmt.Printf("\t%q: %d,\n", n, got[n])
	}
	fmt.Println("}")
}

// verifyFixture builds the universe from the cached counters and re-checks every stated shape.
func verifyFixture() {
	spec := universeSpec()
	seen := map[string]string{}
	for _, sp := range spec {
		c, ok := fixtureCounters[sp.name]
		if !ok {
			panic("fixture: missing key " + sp.name)
		}
		k := ukey{name: sp.name, key: keyOf(c), bits: hashBitsOf(c, 160)}
		k.sub = int(k.bits[0])<<2 | int(k.bits[1])<<1 | int(k.bits[2])
		if !hasPrefix(crypto.Hash(k.key), sp.pattern) {
			fmt.Fprintf(os.Stderr, "C08 cannot run: fixture key %s no longer has hash prefix %s. crypto.Hash or lib.JoinLenPrefix in /repo behave differently from when fixture.go was generated (a foreign edit or mutant in /repo/lib?). This is not a C08 violation. Regenerate with C08_GEN=1 if the change is intended.\n", sp.name, sp.pattern)
			os.Exit(2)
		}
		if o, dup := seen[k.bits.String()]; dup {
			panic("fixture: " + sp.name + " and " + o + " have the same hash")
		}
		seen[k.bits.String()] = sp.name
		uniByNm[sp.name] = len(uni)
		uni = append(uni, k)
	}
	for _, sp := range spec {
		if sp.rel == "" {
			continue
		}
		n := shared(uni[uniByNm[sp.name]].bits, uni[uniByNm[sp.rel]].bits)
		if n < sp.lo || n > sp.hi {
			panic(fmt.Sprintf("fixture: %s shares %d bits with %s, want %d..%d", sp.name, n, sp.rel, sp.lo, sp.hi))
		}
	}
}

func ids(names ...string) []int {
	out := make([]int, len(names))
	for i, n := range names {
		j, ok := uniByNm[n]
		if !ok {
			panic("unknown key " + n)
		}
		out[i] = j
	}
	return out
}
