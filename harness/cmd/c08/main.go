// C08 — the state root is a pure, collision-free function of the state.
//
// Part 1 (part1.go): store.SMT at reduced widths (4, 5, 6, 9 bits) and at production width on a
//
//	map-backed store; explicit-state search over *all* key sets of the universe (nodes of the
//	search are store images), all single operations and all small batches from every image.
//
// Part 2 (part2.go): the real store.Store (pebble in memory) at production width in worker
//
//	processes: chains of blocks below and above the parallel threshold over a universe of keys
//	whose hashes share long prefixes and hug the subtree borders; Root()/Reset()/Commit() modes.
//
// Part 3: all completion orders of the parallel subtree workers (seam store/verif_c08.go).
//
// Oracle everywhere: root == reference root (ref.go) of the state; one root per state; one state
// per root.
package main

import (
	"fmt"
	"os"
	"sort"
	"time"

	"github.com/canopy-network/canopy/store"

	"verifharness/mc"
)

type replayAny struct {
	Part    int     `json:"part"`
	World   string  `json:"world"`
	History [][]sop `json:"history"`
	Job     sjob    `json:"job"`
}

// ---- parent-side bookkeeping of root observations of parts 2 and 3 ----------------------------

type rootBook struct {
	rootOf    map[string]string // state -> root
	stateOf   map[string]string // root -> state
	obs       int64
	specObs   int64
	parObs    int64
	committed map[string]bool
}

func newRootBook() *rootBook {
	return &rootBook{rootOf: map[string]string{}, stateOf: map[string]string{}, committed: map[string]bool{}}
}

func (b *rootBook) add(r *mc.Run, res *sres, j sjob) {
	for _, o := range res.Obs {
		b.obs++
		if o.Spec {
			b.specObs++
		}
		if o.Par {
			b.parObs++
		}
		if prev, ok := b.rootOf[o.State]; ok && prev != o.Root {
			r.Violation("C08:same-state-different-root:store", fmt.Sprintf("state {%s} had root %s in one history and %s in another (job: %s)", o.State, prev, o.Root, describeJob(j)), map[string]any{"part": 2, "job": j})
		} else if !ok {
			b.rootOf[o.State] = o.Root
		}
		if prev, ok := b.stateOf[o.Root]; ok && prev != o.State {
			r.Violation("C08:root-collision:store", fmt.Sprintf("states {%s} and {%s} have the same root %s (job: %s)", prev, o.State, o.Root, describeJob(j)), map[string]any{"part": 2, "job": j})
		} else if !ok {
			b.stateOf[o.Root] = o.State
		}
	}
}

// runJobs executes jobs in worker processes and feeds violations / observations to the books.
func runJobs(r *mc.Run, pool *mc.ProcPool, book *rootBook, jobs []sjob) (results []*sres, complete bool) {
	results, crashed := mc.Map[sjob, sres](pool, jobs, r.Expired)
	complete = true
	for i, res := range results {
		if crashed[i] {
			r.Violation("C08:worker-crash", "worker process died twice on job: "+describeJob(jobs[i]), map[string]any{"part": 2, "job": jobs[i]})
			continue
		}
		if res == nil {
			complete = false
			continue
		}
		for _, v := range res.Viols {
			r.OnViol(v)
		}
		if len(res.Viols) == 0 { // a wrong root is reported once, by its cause; the books hold verified observations
			book.add(r, res, jobs[i])
		}
	}
	return
}

func chainWith(chain []block, b block) []block {
	return append(append([]block{}, chain...), b)
}

// ---- part 2 ---------------------------------------------------------------------------------------

type p2stats struct {
	Depth          int     `json:"chain_depth"`
	BlocksPerState []int   `json:"blocks_per_state"`
	FrontierPerLvl []int   `json:"new_committed_states_per_depth"`
	JobsPerLvl     []int   `json:"jobs_per_depth"`
	ModeJobs       int     `json:"jobs_with_root_reset_modes"`
	Complete       bool    `json:"complete"`
	WallS          float64 `json:"wall_s"`
	SeqKeys        []string
	ParKeys        []string
	FromCap        []int `json:"states_expanded_per_depth_cap"`
	ModeCap        []int `json:"states_expanded_with_modes_per_depth_cap"`
}

func names(ids []int) []string {
	var o []string
	for _, i := range ids {
		o = append(o, uni[i].name)
	}
	return o
}

func runPart2(r *mc.Run, pool *mc.ProcPool, book *rootBook) p2stats {
	t0 := time.Now()
	cfg := alphabetCfg{
		seqKeys: ids("A", "B", "C", "L0", "H7", "L2"), seqMax: 2,
		parKeys: ids("A", "B", "L5b", "H5b", "M0", "N7"), parMax: 1,
		parFillerSel: []int{0, 1, 2, 3, 4, 5},
	}
	// per chain depth: from how many states of the level the search continues (plain blocks) and
	// from how many of those the Root()/Reset() modes are run as well
	fromCap, modeCap := []int{1, 40, 8}, []int{1, 8, 3}
	if !r.Quick() {
		cfg.seqKeys = ids("A", "B", "C", "D", "E", "F", "L0", "H7")
		cfg.parMax = 2
		cfg.parFillerSel = []int{0, 1, 2, 3, 4, 5}
		fromCap, modeCap = []int{1, 250, 250}, []int{1, 30, 30}
	}
	depth := len(fromCap)
	st := p2stats{Depth: depth, Complete: true, SeqKeys: names(cfg.seqKeys), ParKeys: names(cfg.parKeys), FromCap: fromCap, ModeCap: modeCap}
	type fnode struct {
		chain []block
		key   string
	}
	frontier := []fnode{{}}
	seen := map[string]bool{"": true}
	for d := 0; d < depth && len(frontier) > 0; d++ {
		alpha := blocksAt(cfg, d)
		st.BlocksPerState = append(st.BlocksPerState, len(alpha))
		var jobs []sjob
		for _, f := range frontier {
			for _, b := range alpha {
				jobs = append(jobs, sjob{Blocks: chainWith(f.chain, b)})
			}
		}
		nPlain := len(jobs)
		// Root()/Reset() modes: every block of the alphabet, from the first modeCap states of the level
		for fi, f := range frontier {
			if fi >= modeCap[d] {
				break
			}
			for _, b := range alpha {
				for m := 1; m < nModes; m++ {
					jobs = append(jobs, sjob{Blocks: chainWith(f.chain, block{Ops: b.Ops, Mode: m})})
					st.ModeJobs++
				}
			}
		}
		if d == 0 {
			// chains whose FIRST commits write no state at all (one and two leading empty blocks): the committed root of
			// the empty state is the reference's empty-set root, and what follows builds on it
			for _, b := range alpha {
				for _, m := range []int{mPlain, mRootCommit} {
					jobs = append(jobs, sjob{Blocks: []block{{Mode: m}, {Ops: b.Ops}}}, sjob{Blocks: []block{{Mode: m}, {Mode: mPlain}, {Ops: b.Ops, Mode: mRootCommit}}})
					st.ModeJobs += 2
				}
			}
		}
		st.JobsPerLvl = append(st.JobsPerLvl, len(jobs))
		results, complete := runJobs(r, pool, book, jobs)
		if !complete {
			st.Complete = false
			break
		}
		var next []fnode
		for i := 0; i < nPlain; i++ {
			res := results[i]
			if res == nil || len(res.Viols) > 0 {
				continue
			}
			book.committed[res.Final] = true
			if !seen[res.Final] {
				seen[res.Final] = true
				next = append(next, fnode{chain: jobs[i].Blocks, key: res.Final})
			}
		}
		for i := nPlain; i < len(jobs); i++ {
			if results[i] != nil && len(results[i].Viols) == 0 {
				book.committed[results[i].Final] = true
			}
		}
		st.FrontierPerLvl = append(st.FrontierPerLvl, len(next))
		// the next level starts from a spread of the new states: sort by state key and take every
		// n-th (the bound is stated in the evidence; no state is picked at random)
		sort.Slice(next, func(a, b int) bool { return next[a].key < next[b].key })
		if d+1 < depth && len(next) > fromCap[d+1] {
			step := float64(len(next)) / float64(fromCap[d+1])
			var sel []fnode
			for i := 0; i < fromCap[d+1]; i++ {
				sel = append(sel, next[int(float64(i)*step)])
			}
			next = sel
		}
		frontier = next
		fmt.Printf("part 2 depth %d: %d jobs (%d plain, %d with Root/Reset modes), %d new committed states, %.1fs\n", d+1, len(jobs), nPlain, len(jobs)-nPlain, st.FrontierPerLvl[d], time.Since(t0).Seconds())
	}
	st.WallS = time.Since(t0).Seconds()
	return st
}

// ---- part 3 ---------------------------------------------------------------------------------------

func permutations(xs []int) [][]int {
	if len(xs) <= 1 {
		return [][]int{append([]int{}, xs...)}
	}
	var out [][]int
	for i := range xs {
		rest := append(append([]int{}, xs[:i]...), xs[i+1:]...)
		for _, p := range permutations(rest) {
			out = append(out, append([]int{xs[i]}, p...))
		}
	}
	return out
}

type p3scenario struct {
	Name     string   `json:"name"`
	Active   []int    `json:"active_subtrees"`
	Orders   int      `json:"completion_orders"`
	Digests  int      `json:"distinct_raw_tree_images"`
	Roots    int      `json:"distinct_roots"`
	Complete bool     `json:"complete"`
	Ops      []string `json:"-"`
}

// subtreeOps builds a block of >= 16 operations (every universe key of the given subtrees). variant 0: all
// sets; variant 1: the keys that the base block inserted are deleted / overwritten alternately.
func subtreeOps(subs []int, variant int) []sop {
	var ops []sop
	for _, p := range subs {
		var ks []int
		for _, n := range []string{"L", "H", "M", "N"} {
			ks = append(ks, uniByNm[fmt.Sprintf("%s%d", n, p)])
		}
		if p == 2 {
			ks = append(ks, ids("A", "B", "C", "D", "E", "F")...)
		}
		if p == 5 {
			ks = append(ks, ids("L5b", "H5b")...)
		}
		for i, k := range ks {
			c := 1
			if variant == 1 {
				c = []int{0, 2}[i%2]
			}
			ops = append(ops, sop{k, c})
		}
	}
	if len(ops) < parallelThreshold {
		panic("part 3: block below the parallel threshold")
	}
	return ops
}

type p3sc struct {
	name string
	subs []int
}

func part3Scenarios(quick bool) (first, last []p3sc) {
	type sc = p3sc
	var scs []sc
	if quick {
		scs = []sc{{"two subtrees incl. the cluster", []int{2, 5}}, {"three subtrees incl. both ends", []int{0, 2, 7}}, {"four subtrees", []int{0, 2, 5, 7}}, {"four adjacent subtrees", []int{2, 3, 4, 5}}}
	} else {
		scs = []sc{{"two subtrees", []int{2, 5}}, {"three subtrees", []int{0, 2, 7}}, {"four subtrees", []int{0, 2, 5, 7}}, {"four adjacent subtrees", []int{2, 3, 4, 5}},
			{"five subtrees", []int{0, 2, 3, 5, 7}}, {"six subtrees", []int{0, 1, 2, 5, 6, 7}}, {"seven subtrees", []int{0, 1, 2, 3, 5, 6, 7}}, {"all eight subtrees", []int{0, 1, 2, 3, 4, 5, 6, 7}}}
	}
	if len(scs) > 6 {
		return scs[:6], scs[6:]
	}
	return scs, nil
}

func runPart3(r *mc.Run, pool *mc.ProcPool, book *rootBook, scs []p3sc) (scen []p3scenario, execs int, hookLive bool) {
	for _, s := range scs {
		if r.Expired() {
			r.Note("part 3 scenario %q not started (deadline)", s.name)
			continue
		}
		// base block (free schedule) fills the subtrees; the scheduled block deletes / overwrites
		// there; a probe block afterwards touches every subtree again on the sequential path
		base := block{Ops: subtreeOps(s.subs, 0)}
		for variant := 0; variant < 2; variant++ {
			var chainPrefix []block
			if variant == 1 {
				chainPrefix = []block{base}
			}
			perms := permutations(s.subs)
			probe := block{Ops: []sop{{uniByNm["M0"], 2}, {uniByNm["A"], 2}, {uniByNm["H7"], 0}, {uniByNm["L5b"], 2}}}
			var jobs []sjob
			for _, p := range perms {
				jobs = append(jobs, sjob{Blocks: append(chainWith(chainPrefix, block{Ops: subtreeOps(s.subs, variant), Order: p}), probe), Digest: true})
			}
			results, complete := runJobs(r, pool, book, jobs)
			ps := p3scenario{Name: fmt.Sprintf("%s, variant %d", s.name, variant), Active: s.subs, Complete: complete}
			digests, roots := map[string]bool{}, map[string]bool{}
			for _, res := range results {
				if res == nil {
					continue
				}
				ps.Orders++
				execs++
				if res.Parks > 0 && !res.NoHook {
					hookLive = true
				}
				if len(res.Viols) > 0 {
					continue
				}
				digests[res.Digest] = true
				for _, o := range res.Obs {
					roots[o.State+"="+o.Root] = true
				}
			}
			ps.Digests, ps.Roots = len(digests), len(roots)
			scen = append(scen, ps)
			fmt.Printf("part 3 %-40s active=%v orders=%d distinct raw tree images=%d complete=%v\n", ps.Name, s.subs, ps.Orders, ps.Digests, complete)
		}
	}
	return
}

// ---------------------------------------------------------------------------------------------------

func main() {
	if os.Getenv("C08_GEN") != "" {
		genFixture()
		return
	}
	verifyFixture()
	if os.Getenv("C08_RACE") != "" {
		// development aid: `go build -race -tags verif`, then C08_RACE=1 ./c08 runs parallel tree
		// commits with all 8 workers in this process (free schedule) so that the race detector can
		// check that the workers share no mutable data
		all := []int{0, 1, 2, 3, 4, 5, 6, 7}
		for i := 0; i < 20; i++ {
			res := runStoreJob(sjob{Blocks: []block{{Ops: subtreeOps(all, 0)}, {Ops: subtreeOps(all, 1), Mode: mRootCommit}, {Ops: subtreeOps(all, 0), Mode: mSpecDiscard}}})
			fmt.Printf("race run %d: %d root observations, %d violations\n", i, len(res.Obs), len(res.Viols))
			for _, v := range res.Viols {
				fmt.Println("  ", v.Sig, v.What)
			}
		}
		return
	}
	if mc.IsWorker() {
		mc.ServeWorker(func(j sjob) sres { return runStoreJob(j) })
	}
	r := mc.Start("C08", "model_checking", 85*time.Second, 27*time.Minute)
	r.Assumptions = []string{
		"crypto.Hash (SHA-256) has no collisions on the inputs used; the reference and the tree use the same hash function, only the tree construction is independent",
		"no state key hashes to the reserved bit strings (all zeros, all ones, the root's own key 0111..1) or exactly onto a synthetic subtree border (probability 2^-157 per key at production width); the reduced-width universes exclude those leaves",
		"reduced-width trees and the production-width tree on a map store run the sequential commit path only (the parallel path needs a *store.Txn over a *VersionedStore); the parallel path is covered at production width through store.Store",
		"the 64-bit in-memory key hash lib.MemHash does not collide on the universe (Txn.ops is keyed by it)",
		"each store.Store world runs alone in a worker process (canopy closes pooled pebble batches more than once); worker processes run with GOMAXPROCS=1, the completion order of the subtree workers is chosen by the explorer through the verif seam, their internal interleaving is not (they share no mutable data: private subtreeStore, private SMT, private node cache, read-only snapshot)",
		"a fresh SMT object per tree commit, as Store.Root() creates it; re-using one SMT object (and its node cache) across commits is outside the property",
	}
	if r.Replay != "" {
		doReplay(r)
		return
	}
	cov := map[string]any{}
	var states int
	var transitions int64

	// Order of work: the small tree worlds, the worker schedules, the store chains, and last the
	// largest tree world - so that a deadline on a loaded machine cuts the most repetitive part.
	t1 := time.Now()
	var p1 []p1stats
	var p1wall float64
	runWorlds := func(ws []*smallWorld) {
		t := time.Now()
		for _, w := range ws {
			if r.Expired() {
				r.Note("part 1 world %s not started (deadline)", w.name)
				continue
			}
			s := runSmallWorld(r, w)
			p1 = append(p1, s)
			states += s.States
			transitions += s.Transitions
			if !s.Complete {
				r.Exhaustive = false
			}
			fmt.Printf("part 1 %-28s width=%d keys=%d values=%d states=%d/%d store-images=%d batches/state=%d transitions=%d distinct-roots=%d images-with-leftover-nodes=%d complete=%v\n",
				s.World, s.Width, s.Keys, s.Values, s.States, s.StatesTotal, s.Images, s.Batches, s.Transitions, s.Roots, s.Garbage, s.Complete)
			if s.Complete && s.States != s.StatesTotal && r.Violations() == 0 {
				r.Note("world %s: only %d of %d states reached", s.World, s.States, s.StatesTotal)
			}
		}
		p1wall += time.Since(t).Seconds()
	}
	worlds := smallWorlds(r.Quick())
	runWorlds(worlds[1:])
	fmt.Printf("part 1 (small worlds) done in %.1fs\n", time.Since(t1).Seconds())

	// parts 3 and 2
	pool := mc.NewProcPool(0)
	book := newRootBook()
	t3 := time.Now()
	p3first, p3last := part3Scenarios(r.Quick())
	scen, p3execs, hookLive := runPart3(r, pool, book, p3first)
	p3wall := time.Since(t3).Seconds()
	p2 := runPart2(r, pool, book)
	cov["part2"] = p2
	if !p2.Complete {
		r.Exhaustive = false
	}
	runWorlds(worlds[:1])
	if len(p3last) > 0 { // the 7! and 8! schedule sets come last
		t := time.Now()
		s2, e2, h2 := runPart3(r, pool, book, p3last)
		scen, p3execs, hookLive = append(scen, s2...), p3execs+e2, hookLive || h2
		p3wall += time.Since(t).Seconds()
	}
	cov["part3_scenarios"] = scen
	cov["part3_executions"] = p3execs
	cov["part3_hook_live"] = hookLive
	cov["part3_wall_s"] = p3wall
	if !hookLive {
		r.Exhaustive = false
		r.Note("part 3 NOT executed: the call site `defer verifC08Park(idx)()` is missing from store/smt.go CommitParallel (no worker passed the seam); completion orders were not controlled")
	}
	for _, s := range scen {
		if !s.Complete {
			r.Exhaustive = false
		}
		if s.Digests > 1 {
			r.Note("part 3 %s: %d different raw tree images across completion orders (information: roots are compared by the oracle, leftover nodes are not part of the statement)", s.Name, s.Digests)
		}
	}
	cov["part1_worlds"] = p1
	cov["part1_wall_s"] = p1wall
	states += len(book.rootOf)
	transitions += book.obs
	cov["store_states_with_observed_root"] = len(book.rootOf)
	cov["store_committed_states"] = len(book.committed)
	cov["store_root_observations"] = book.obs
	cov["store_root_observations_parallel_path"] = book.parObs
	cov["store_root_observations_speculative"] = book.specObs
	cov["store_distinct_roots"] = len(book.stateOf)
	cov["worker_process_crashes"] = pool.Crashes
	cov["states"] = states
	cov["transitions"] = transitions
	cov["traces_validated_against_impl"] = int(transitions)
	cov["explanation"] = "a transition is one tree commit of the real code (SMT batch commit in part 1; Store.Root()/Commit() in parts 2-3) from a known state, followed by comparison of the root with the independent reference of the successor state; states are distinct key/value sets. There is no separate model trace: every transition is executed on the implementation."
	fmt.Printf("store worlds: %d states with an observed root, %d root observations (%d on the parallel path, %d speculative), %d distinct roots, %d worker crashes\n",
		len(book.rootOf), book.obs, book.parObs, book.specObs, len(book.stateOf), pool.Crashes)
	r.AddSample(map[string]any{"part": 2, "universe": uniDescription()})
	r.Finish(cov)
}

func uniDescription() map[string]string {
	o := map[string]string{}
	for _, k := range uni {
		o[k.name] = fmt.Sprintf("key %x hash %s...", k.key, k.bits.String()[:32])
	}
	return o
}

func doReplay(r *mc.Run) {
	var rp replayAny
	if err := r.LoadReplay(&rp); err != nil {
		fmt.Println("cannot load replay:", err)
		r.Finish(map[string]any{"states": 1, "transitions": 1, "traces_validated_against_impl": 0})
	}
	n := 0
	if rp.Part == 1 {
		for _, w := range smallWorlds(false) {
			if w.name == rp.World {
				for i := 0; i < 5; i++ {
					replayP1(r, w, rp.History)
					n++
				}
			}
		}
		if n == 0 {
			for _, w := range smallWorlds(true) {
				if w.name == rp.World {
					replayP1(r, w, rp.History)
					n++
				}
			}
		}
	} else {
		for i := 0; i < 5; i++ {
			res := runStoreJob(rp.Job)
			for _, o := range res.Obs {
				fmt.Printf("  run %d: state {%s} root %s\n", i, o.State, o.Root)
			}
			for _, v := range res.Viols {
				r.OnViol(v)
			}
			n++
		}
	}
	_ = store.RootKey
	r.Finish(map[string]any{"states": 1, "transitions": n, "traces_validated_against_impl": n})
}
