package main

// Independent reference: the canonical compressed sparse Merkle tree described in the header
// and the "Understanding Node Keys" comment of store/smt.go. It does not import package store.
//
//   leaves     = {min = 0^w (value 20x0x00), max = 1^w (value 20x0xFF)} ∪ {(H(k)[:w], H(v))}
//   inner node = one per branching point of the binary trie over the leaf bit-strings, its key is
//                the greatest common prefix of the leaves below it
//   value(n)   = H( enc(left.key) ‖ left.value ‖ enc(right.key) ‖ right.value )
//   root       = the branching point at depth 0 (min starts with 0, max with 1); only its value
//                is the commitment, its own key never enters a hash
//   enc(bits)  = all bits but the last 1..8 packed MSB first, then one byte holding the remaining
//                r bits right-aligned, then one meta byte = number of leading zero bits among
//                those r bits (r-1 if they are all zero)

import (
	"bytes"
	"sort"

	"github.com/canopy-network/canopy/lib/crypto"
)

type bitstr []byte // one byte per bit, 0 or 1

func bitsOf(h []byte, w int) bitstr {
	b := make(bitstr, w)
	for i := 0; i < w; i++ {
		b[i] = (h[i/8] >> (7 - uint(i%8))) & 1
	}
	return b
}

func (b bitstr) String() string {
	s := make([]byte, len(b))
	for i, x := range b {
		s[i] = '0' + x
	}
	return string(s)
}

func encBits(b bitstr) []byte {
	n := len(b)
	if n == 0 {
		panic("ref: empty node key is never encoded")
	}
	full := (n - 1) / 8
	out := make([]byte, full+2)
	for i := 0; i < full*8; i++ {
		out[i/8] |= b[i] << (7 - uint(i%8))
	}
	r := n - full*8
	var last byte
	lead, one := 0, false
	for i := 0; i < r; i++ {
		x := b[full*8+i]
		last = last<<1 | x
		if x == 1 {
			one = true
		}
		if !one {
			lead++
		}
	}
	if !one {
		lead = r - 1
	}
	out[full], out[full+1] = last, byte(lead)
	return out
}

type refLeaf struct {
	bits bitstr
	val  []byte
}

type refNode struct {
	key         []byte // encoded key ("" for the root position)
	value       []byte
	left, right []byte // encoded child keys, nil for leaves
}

// refTree returns the root value and every node of the canonical tree (root under key "").
func refTree(w int, leaves []refLeaf) (root []byte, nodes map[string]refNode) {
	all := make([]refLeaf, 0, len(leaves)+2)
	all = append(all, refLeaf{bits: make(bitstr, w), val: bytes.Repeat([]byte{0}, 20)})
	ones := make(bitstr, w)
	for i := range ones {
		ones[i] = 1
	}
	all = append(all, refLeaf{bits: ones, val: bytes.Repeat([]byte{255}, 20)})
	all = append(all, leaves...)
	sort.Slice(all, func(i, j int) bool { return bytes.Compare(all[i].bits, all[j].bits) < 0 })
	for i := 1; i < len(all); i++ {
		if bytes.Equal(all[i].bits, all[i-1].bits) {
			panic("ref: two leaves with the same bit string (reserved key or hash collision in the universe)")
		}
	}
	nodes = map[string]refNode{}
	var build func(ls []refLeaf, depth int) (bitstr, []byte)
	build = func(ls []refLeaf, depth int) (bitstr, []byte) {
		if len(ls) == 1 {
			nodes[string(encBits(ls[0].bits))] = refNode{key: encBits(ls[0].bits), value: ls[0].val}
			return ls[0].bits, ls[0].val
		}
		p := depth
		for ls[0].bits[p] == ls[len(ls)-1].bits[p] { // sorted: first and last agree => all agree
			p++
		}
		cut := sort.Search(len(ls), func(i int) bool { return ls[i].bits[p] == 1 })
		lk, lv := build(ls[:cut], p+1)
		rk, rv := build(ls[cut:], p+1)
		le, re := encBits(lk), encBits(rk)
		in := make([]byte, 0, len(le)+len(lv)+len(re)+len(rv))
		in = append(append(append(append(in, le...), lv...), re...), rv...)
		v := crypto.Hash(in)
		k := ""
		var ke []byte
		if p > 0 {
			ke = encBits(ls[0].bits[:p])
			k = string(ke)
		}
		nodes[k] = refNode{key: ke, value: v, left: le, right: re}
		return ls[0].bits[:p], v
	}
	_, root = build(all, 0)
	return root, nodes
}

// refRootKV is the reference root of a key/value set at width w.
func refRootKV(w int, kv map[string][]byte) []byte {
	ls := make([]refLeaf, 0, len(kv))
	for k, v := range kv {
		ls = append(ls, refLeaf{bits: bitsOf(crypto.Hash([]byte(k)), w), val: crypto.Hash(v)})
	}
	r, _ := refTree(w, ls)
	return r
}
