package main

// The two worlds: (i) small sparse Merkle trees built by the real store.SMT over a map-backed
// lib.RWStoreI at reduced bit width, (ii) the real store.Store at production width.

import (
	"bytes"
	"fmt"
	"reflect"
	"sort"
	"unsafe"

	"github.com/canopy-network/canopy/lib"
	"github.com/canopy-network/canopy/store"
)

// ---------------------------------------------------------------------------------------
// map-backed lib.RWStoreI

type mapStore struct{ m map[string][]byte }

func newMapStore() *mapStore { return &mapStore{m: map[string][]byte{}} }

func (s *mapStore) Get(k []byte) ([]byte, lib.ErrorI) {
	v, ok := s.m[string(k)]
	if !ok {
		return nil, nil
	}
	return bytes.Clone(v), nil
}
func (s *mapStore) Set(k, v []byte) lib.ErrorI { s.m[string(k)] = bytes.Clone(v); return nil }
func (s *mapStore) Delete(k []byte) lib.ErrorI { delete(s.m, string(k)); return nil }
func (s *mapStore) Iterator([]byte) (lib.IteratorI, lib.ErrorI) {
	return nil, store.ErrStoreGet(fmt.Errorf("c16 map store: no iterators"))
}
func (s *mapStore) RevIterator([]byte) (lib.IteratorI, lib.ErrorI) {
	return nil, store.ErrStoreGet(fmt.Errorf("c16 map store: no iterators"))
}

// ---------------------------------------------------------------------------------------
// driving SMT.Commit from outside the package. Commit is exported but its parameter type
// (map[uint64]valueOp) is not nameable here; the type parameter V is inferred from the method
// value and a value is built through a layout-identical mirror struct. checkMirror verifies
// the layout against the real type by reflection before anything is trusted.

type opMirror struct {
	key     []byte
	value   []byte
	version uint64
	op      uint8 // 0 = delete, 1 = set (store/txn.go: opDelete, opSet)
}

func checkMirror[V any]() {
	var v V
	rt, mt := reflect.TypeOf(v), reflect.TypeOf(opMirror{})
	bad := rt.Kind() != reflect.Struct || rt.NumField() != mt.NumField() || rt.Size() != mt.Size()
	for i := 0; !bad && i < mt.NumField(); i++ {
		a, b := rt.Field(i), mt.Field(i)
		bad = a.Name != b.Name || a.Offset != b.Offset || a.Type.Kind() != b.Type.Kind() || a.Type.Size() != b.Type.Size()
	}
	if bad {
		panic(fmt.Sprintf("c16 harness: store.valueOp layout changed (%v); update opMirror", rt))
	}
}

func commitOps[V any](commit func(map[uint64]V) lib.ErrorI, ops []opMirror) lib.ErrorI {
	checkMirror[V]()
	m := make(map[uint64]V, len(ops))
	for i := range ops {
		m[uint64(i)] = *(*V)(unsafe.Pointer(&ops[i]))
	}
	return commit(m)
}

// ---------------------------------------------------------------------------------------
// small-tree world

type smtCfg struct {
	name     string
	bits     int
	statePos []string // leaf positions of the keys a state may contain
	probePos []string // leaf positions of keys that are never present
	keys     [][]byte // user keys (preimages), state keys first then probes
	leaf     []string // leaf position per key
	class    []string // coverage class of a probe key
}

func (c *smtCfg) nStates() int { return 1 << len(c.statePos) }
func (c *smtCfg) nKeys() int   { return len(c.keys) }

// positions 0…0 (minimum), 1…1 (maximum) and the truncation of store.RootKey (0 1…1) are
// reserved by the tree and never used.
var smtCfgs = []*smtCfg{
	// width 3: every usable leaf position is a state key -> every tree of that width
	{name: "w3", bits: 3, statePos: []string{"001", "010", "100", "101", "110"}},
	// width 4: eight positions incl. both neighbours of min/max and two sibling pairs
	{name: "w4", bits: 4, statePos: []string{"0001", "0010", "0011", "0100", "1000", "1100", "1101", "1110"}, probePos: []string{"0101", "1010"}},
	// width 6: adversarial prefix sharing: neighbour of min, a deepest-level sibling pair, the key that creates
	// node "0", two keys in the right half; probes: shares 4 bits with the pair, neighbour of 010000, right
	// half far from everything, neighbour of max
	{name: "w6", bits: 6, statePos: []string{"000001", "000110", "000111", "010000", "100000", "110101"},
		probePos: []string{"000100", "010001", "101010", "111110"}},
	// width 17: keys that share the whole first byte (0x55) and differ in the second byte and the last bit, plus
	// one key across the first byte boundary. Node keys here end INSIDE a byte next to leaves whose following
	// byte is small (0x01, 0x02, 0x03: the values a compacted 1-2 bit tail takes), large or a power of two:
	// the shapes in which the byte-level and the bit-level view of a key prefix differ.
	{name: "w17", bits: 17, statePos: []string{"01010101" + "00000001" + "0", "01010101" + "00000010" + "0", "01010101" + "10000000" + "0",
		"01010101" + "10000001" + "1", "01010101" + "11000000" + "0", "01010100" + "00000001" + "0"},
		probePos: []string{"01010101" + "00000000" + "1", "01010101" + "11111111" + "0"}},
	// the width-6 sub-universe used for malformed proofs in the quick tier
	{name: "w6s", bits: 6, statePos: []string{"000110", "000111", "010000", "110101"}, probePos: []string{"000100", "101010"}},
}

func cfgByName(n string) *smtCfg {
	for _, c := range smtCfgs {
		if c.name == n {
			c.init()
			return c
		}
	}
	panic("unknown smt config " + n)
}

func (c *smtCfg) init() {
	if c.keys != nil {
		return
	}
	for i, pos := range append(append([]string{}, c.statePos...), c.probePos...) {
		for n := 0; ; n++ {
			k := []byte(fmt.Sprintf("c16/%d/%d", c.bits, n))
			if leafBits(k, c.bits) == pos {
				c.keys = append(c.keys, k)
				c.leaf = append(c.leaf, pos)
				break
			}
		}
		if i >= len(c.statePos) {
			c.class = append(c.class, "never-present")
		} else {
			c.class = append(c.class, "state-key")
		}
	}
}

func (c *smtCfg) stateOf(mask int) *state {
	st := &state{present: map[int]bool{}, value: map[int][]byte{}}
	for i := range c.keys {
		st.value[i] = []byte(fmt.Sprintf("value-of-%d", i))
		if i < len(c.statePos) && mask>>uint(i)&1 == 1 {
			st.present[i] = true
		}
	}
	return st
}

// smtInstance is one committed small tree plus a fresh SMT object opened over the same nodes
// the way Store.NewReadOnly opens one for proofs.
type smtInstance struct {
	ms     *mapStore
	root   []byte
	prover *store.SMT
}

// buildSMT commits the state. history 0: one commit setting the members; history 1: commit all
// state keys, then a second SMT object over the same nodes commits the deletion of the rest.
func buildSMT(c *smtCfg, st *state, history int) (inst *smtInstance, err error) {
	defer func() {
		if p := recover(); p != nil {
			err = fmt.Errorf("panic while committing: %v", p)
		}
	}()
	ms := newMapStore()
	var sets, dels []opMirror
	for i := range c.statePos {
		if st.present[i] || history == 1 {
			sets = append(sets, opMirror{key: c.keys[i], value: st.value[i], op: 1})
		}
		if !st.present[i] && history == 1 {
			dels = append(dels, opMirror{key: c.keys[i], op: 0})
		}
	}
	t := store.NewSMT(store.RootKey, c.bits, ms)
	if e := commitOps(t.Commit, sets); e != nil {
		return nil, e
	}
	if history == 1 {
		t = store.NewSMT(store.RootKey, c.bits, ms)
		if e := commitOps(t.Commit, dels); e != nil {
			return nil, e
		}
	}
	inst = &smtInstance{ms: ms, root: t.Root()}
	// harness self-check, independent of proofs: the node store holds a leaf for exactly the members
	for i := range c.statePos {
		_, has := ms.m[string(lib.JoinLenPrefix(encodeKey(c.leaf[i])))]
		if has != st.present[i] {
			return nil, fmt.Errorf("harness self-check: leaf %s stored=%v, state says present=%v (history %d)", c.leaf[i], has, st.present[i], history)
		}
	}
	inst.prover = store.NewSMT(store.RootKey, c.bits, ms)
	if !bytes.Equal(inst.prover.Root(), inst.root) {
		return nil, fmt.Errorf("re-opened tree has root %x, committed root was %x", inst.prover.Root(), inst.root)
	}
	return inst, nil
}

// ---------------------------------------------------------------------------------------
// store world (production width, real store.Store)

const storeBits = store.MaxKeyBitLength

type storeKeys struct {
	names []string
	keys  [][]byte
	leaf  []string
	class []string
	idx   map[string]int
}

func storeKey(name string) []byte { return lib.JoinLenPrefix([]byte("c16/"), []byte(name)) }

// findSharing returns the first key "<tag>N" whose hash shares >=min and <max leading bits with the hash of target.
func findSharing(tag string, target []byte, min, max int) (string, []byte) {
	th := valueHash(target)
	for n := 0; ; n++ {
		name := fmt.Sprintf("%s%d", tag, n)
		k := storeKey(name)
		h := valueHash(k)
		cp := 0
		for cp < 160 && h[cp/8]>>(7-uint(cp%8))&1 == th[cp/8]>>(7-uint(cp%8))&1 {
			cp++
		}
		if cp >= min && cp < max {
			return name, k
		}
	}
}

var theStoreKeys *storeKeys

func getStoreKeys() *storeKeys {
	if theStoreKeys != nil {
		return theStoreKeys
	}
	u := &storeKeys{idx: map[string]int{}}
	add := func(name string, k []byte, class string) {
		u.idx[name] = len(u.names)
		u.names = append(u.names, name)
		u.keys = append(u.keys, k)
		u.leaf = append(u.leaf, leafBits(k, storeBits))
		u.class = append(u.class, class)
	}
	for i := 0; i < 20; i++ {
		n := fmt.Sprintf("k%d", i)
		add(n, storeKey(n), "state-key")
	}
	// q1: a state key whose hash shares >=16 bits with k0 (deep compressed pair)
	n, k := findSharing("q", u.keys[0], 16, 160)
	add("q1", k, "state-key:shares>=16bits-with-k0")
	_ = n
	// a2: never present, shares >=16 bits with k1 (its insertion point is the leaf k1 itself)
	_, k = findSharing("a", u.keys[1], 16, 160)
	add("a2", k, "never-present:shares>=16bits-with-k1")
	// a3: never present, shares 10..15 bits with k0 and therefore with q1: ends at their common ancestor
	_, k = findSharing("b", u.keys[0], 10, 16)
	add("a3", k, "never-present:shares-10..15bits-with-pair-k0/q1")
	for i := 0; i < 4; i++ {
		n := fmt.Sprintf("n%d", i)
		add(n, storeKey(n), "never-present")
	}
	theStoreKeys = u
	return u
}

// the committed history: per version the keys set (with a version-specific value) and deleted.
type verOps struct {
	set []string
	del []string
}

func names(prefix string, from, to int) (o []string) {
	for i := from; i <= to; i++ {
		o = append(o, fmt.Sprintf("%s%d", prefix, i))
	}
	return
}

var storeHistory = []verOps{
	{set: names("k", 0, 17)}, // 18 operations: parallel commit path
	{set: []string{"q1", "k4", "k5", "k18"}, del: []string{"k2", "k3"}},                                            // 6 operations: sequential path
	{set: append(names("k", 11, 17), "q1", "k19", "k2", "k3"), del: []string{"k0", "k6", "k7", "k8", "k9", "k10"}}, // 17 operations with deletions: parallel path
	{del: append(append(names("k", 2, 5), names("k", 11, 19)...), []string{}...)},                                  // leaves k1 and q1
	{del: []string{"k1", "q1"}}, // empty state
}

const (
	pathLive     = "store-live"     // live store between Root() and Commit()
	pathReadOnly = "store-readonly" // NewReadOnly(v) opened right after the commit of v and again after all commits
	// NewReadOnly(v) opened while block v+1 is in flight: its writes are pending and Root() was already computed
	// for it (what ApplyBlock leaves behind until Commit / Reset)
	pathReadOnlyPending = "store-readonly-while-next-block-pending"
)

type storeProof struct {
	paths []string
	proof []*lib.Node
	err   string // GetProof error / panic, if any (then proof is nil)
}

type storeWorld struct {
	u        *storeKeys
	st       *store.Store
	verifier lib.StoreI
	states   []*state          // index version-1
	roots    [][]byte          // root returned by Commit for each version
	proofs   [][][]*storeProof // [version-1][key] -> distinct proofs with the paths that produced them
	notes    []string
}

func getProofSafe(s lib.ProveStoreI, k []byte) (p []*lib.Node, errS string) {
	defer func() {
		if r := recover(); r != nil {
			p, errS = nil, fmt.Sprintf("panic: %v", r)
		}
	}()
	p, e := s.GetProof(bytes.Clone(k))
	if e != nil {
		return nil, "error: " + e.Error()
	}
	return cloneProof(p), ""
}

func (w *storeWorld) record(v, ki int, path string, p []*lib.Node, errS string) {
	for _, sp := range w.proofs[v][ki] {
		if sp.err == errS && proofBytes(sp.proof) == proofBytes(p) {
			for _, have := range sp.paths {
				if have == path {
					return
				}
			}
			sp.paths = append(sp.paths, path)
			return
		}
	}
	w.proofs[v][ki] = append(w.proofs[v][ki], &storeProof{paths: []string{path}, proof: p, err: errS})
}

// afterRollback: between version 1 and version 2 of the history the store commits two versions of an ABANDONED
// branch (other keys, other values) and is rolled back to version 1 (the offline maintenance operation): everything
// from version 2 on is built on a database that once held another future.
func buildStoreWorld(afterRollback bool) (w *storeWorld, err error) {
	defer func() {
		if p := recover(); p != nil {
			err = fmt.Errorf("panic while building the store history: %v", p)
		}
	}()
	u := getStoreKeys()
	s, e := store.NewStoreInMemory(lib.NewNullLogger())
	if e != nil {
		return nil, e
	}
	w = &storeWorld{u: u, st: s.(*store.Store)}
	cur := map[int][]byte{}
	for vi, ops := range storeHistory {
		version := uint64(vi + 1)
		for _, n := range ops.set {
			val := []byte(fmt.Sprintf("v%d-%s", version, n))
			if (version == 2 && n == "k4") || (version == 3 && (n == "k16" || n == "k3")) {
				// present with an EMPTY value (what the state machine stores for its committee / delegate index entries):
				// still a member, provable as one, and not provable absent
				val = []byte{}
			}
			if e := w.st.Set(bytes.Clone(u.keys[u.idx[n]]), val); e != nil {
				return nil, e
			}
			cur[u.idx[n]] = val
		}
		for _, n := range ops.del {
			if e := w.st.Delete(bytes.Clone(u.keys[u.idx[n]])); e != nil {
				return nil, e
			}
			delete(cur, u.idx[n])
		}
		st := &state{present: map[int]bool{}, value: map[int][]byte{}}
		for i, n := range u.names {
			if v, ok := cur[i]; ok {
				st.present[i], st.value[i] = true, v
			} else {
				st.value[i] = []byte("absent-" + n)
			}
		}
		w.states = append(w.states, st)
		w.proofs = append(w.proofs, make([][]*storeProof, len(u.keys)))
		liveRoot, e := w.st.Root()
		if e != nil {
			return nil, e
		}
		for ki, k := range u.keys {
			p, errS := getProofSafe(w.st, k)
			w.record(vi, ki, pathLive, p, errS)
		}
		if vi > 0 {
			ro, e := w.st.NewReadOnly(version - 1)
			if e != nil {
				return nil, e
			}
			for ki, k := range u.keys {
				p, errS := getProofSafe(ro, k)
				w.record(vi-1, ki, pathReadOnlyPending, p, errS)
			}
			ro.Discard()
		}
		root, e := w.st.Commit()
		if e != nil {
			return nil, e
		}
		if !bytes.Equal(root, liveRoot) {
			w.notes = append(w.notes, fmt.Sprintf("version %d: Root() before Commit %x differs from the root returned by Commit %x", version, liveRoot, root))
		}
		w.roots = append(w.roots, root)
		ro, e := w.st.NewReadOnly(version)
		if e != nil {
			return nil, e
		}
		for ki, k := range u.keys {
			p, errS := getProofSafe(ro, k)
			w.record(vi, ki, pathReadOnly, p, errS)
		}
		ro.Discard()
		if afterRollback && vi == 0 {
			for d := 0; d < 2; d++ {
				for _, n := range []string{"k18", "k19", "q1", "k1", "k5"} {
					if e := w.st.Set(bytes.Clone(u.keys[u.idx[n]]), []byte(fmt.Sprintf("abandoned-%d-%s", d, n))); e != nil {
						return nil, e
					}
				}
				for _, n := range []string{"k0", "k7", "k12"} {
					if e := w.st.Delete(bytes.Clone(u.keys[u.idx[n]])); e != nil {
						return nil, e
					}
				}
				if _, e := w.st.Commit(); e != nil {
					return nil, e
				}
			}
			if e := w.st.Rollback(1); e != nil {
				return nil, e
			}
			if w.st.Version() != 1 {
				return nil, fmt.Errorf("after Rollback(1) the store is at version %d", w.st.Version())
			}
		}
	}
	// historical read-only views after all commits
	for vi := range storeHistory {
		ro, e := w.st.NewReadOnly(uint64(vi + 1))
		if e != nil {
			return nil, e
		}
		for ki, k := range u.keys {
			p, errS := getProofSafe(ro, k)
			w.record(vi, ki, pathReadOnly, p, errS)
		}
		if vi == len(storeHistory)-1 {
			w.verifier = ro
		} else {
			ro.Discard()
		}
	}
	return w, nil
}

func sortedKeys(m map[string]int64) []string {
	ks := make([]string, 0, len(m))
	for k := range m {
		ks = append(ks, k)
	}
	sort.Strings(ks)
	return ks
}
