// C16 — Merkle proofs: complete for true statements, unforgeable for false ones.
//
// Exhaustive enumeration (no sampling) of
//
//	(i)  small trees: every subset of a small key universe committed through the real store.SMT
//	     (store.NewSMT over a map-backed lib.RWStoreI) at 3, 4 and 6 bits,
//	(ii) the real store.Store at production width (160 bit): five committed versions (parallel and
//	     sequential commit path, deletions, the empty state), proofs obtained from the live store
//	     between Root() and Commit() and from NewReadOnly(v),
//
// and, for every state and every universe key A, of
//
//	sound:  the honest proof for A presented for every claim (B, w, membership?) over the universe
//	        with w in {value of B, value of A, a third value}; B = A gives the completeness check;
//	struct: every structural malformation of the honest proof (truncations, deletions, swaps,
//	        duplications, bitmask values, degenerate keys/values, key‖value re-splits, an ancestor
//	        presented as the proven node) presented for every claim;
//	flip:   every single-bit flip of key / value bytes presented for the claims about A.
//
// Oracle (exactly the property): a true claim about A with A's own proof is accepted against the
// root committed for that version; no false claim is ever accepted; VerifyProof / GetProof never
// panic and always return. Truth of a claim comes from the harness's own map of the state; nothing
// in the oracle calls the SMT.
//
// VerifyProof opens an in-memory pebble instance per call and never closes it (≈0.2 MB and four
// goroutines leak per call), so the work is cut into jobs of about a thousand calls and every job
// runs in a fresh sequential child process (GOMAXPROCS=1). A per-call watchdog (process CPU time)
// turns a call that does not return into a reported violation; the job is then continued after that
// case (see hangCap for the budget rule). When the soft deadline passes no new job is started and
// children still running after a grace period are killed; their cases are not counted.
//
// Nothing in /repo is needed or touched: small trees are committed through the exported SMT.Commit
// (see commitOps in worlds.go). Case numbering is deterministic, so a replay artefact names
// (world, config, phase, unit, case) and `-replay` re-runs exactly that call five times.
package main

import (
	"bufio"
	"bytes"
	"encoding/json"
	"flag"
	"fmt"
	"io"
	"os"
	"os/exec"
	"runtime"
	"runtime/debug"
	"sort"
	"strings"
	"sync"
	"syscall"
	"time"

	"github.com/canopy-network/canopy/lib"

	"verifharness/mc"
)

// ---------------------------------------------------------------------------------------
// wire types

type Job struct {
	World       string   `json:"w"`  // "smt" | "store"
	Cfg         string   `json:"c"`  // smt config name
	Phase       string   `json:"p"`  // "sound" | "struct" | "flip"
	Lo          int      `json:"lo"` // unit range [Lo,Hi)
	Hi          int      `json:"hi"`
	StartCase   int64    `json:"sc"`           // in unit Lo: first case number to evaluate (continuation after a hang)
	Only        int64    `json:"only"`         // >=0: evaluate only this case number (replay)
	MutMod      int      `json:"mm,omitempty"` // evaluate only mutations with index%MutMod==MutRem
	MutRem      int      `json:"mr,omitempty"`
	Histories   int      `json:"h"`  // smt world: 1 = single commit; 2 = also the set-all-then-delete history
	AllBits     bool     `json:"ab"` // flip phase: every value bit instead of first/last byte
	SkipClasses []string `json:"skip,omitempty"`
	// ConfirmHang: this job starts at a case whose VerifyProof call exceeded the CPU limit in another (long-running)
	// worker process; only if it exceeds the limit AGAIN, as the first call of this fresh process, is it a hang
	ConfirmHang bool `json:"ch,omitempty"`
}

type caseRef struct {
	World string `json:"world"`
	Cfg   string `json:"cfg,omitempty"`
	Phase string `json:"phase"`
	Unit  int    `json:"unit"`
	Case  int64  `json:"case"`
	Hist  int    `json:"histories,omitempty"`
	All   bool   `json:"all_bits,omitempty"`
	// descriptive (not needed to re-run)
	State    string `json:"state,omitempty"`
	KeyA     string `json:"key_A,omitempty"`
	KeyB     string `json:"key_B,omitempty"`
	Claim    string `json:"claim,omitempty"`
	Mutation string `json:"mutation,omitempty"`
	Proof    string `json:"proof,omitempty"`
	Root     string `json:"root,omitempty"`
	Got      string `json:"got,omitempty"`
}

type hangInfo struct {
	Unit    int    `json:"u"`
	Next    int64  `json:"n"`
	Class   string `json:"c"`
	Suspect bool   `json:"s,omitempty"` // not confirmed yet: re-run the same case first in a fresh process
}

type Result struct {
	Calls        int64            `json:"calls"`  // VerifyProof calls
	Proofs       int64            `json:"proofs"` // GetProof / GetMerkleProof calls
	States       int64            `json:"states"`
	HonestProofs int64            `json:"honest"`
	Mutations    int64            `json:"muts"`
	DupMutations int64            `json:"dup"`
	Nontrivial   int64            `json:"nt"`
	Accepted     int64            `json:"acc"`
	TrueAccepted int64            `json:"tacc"`
	SkippedHang  int64            `json:"skip"`
	SameHistory  int64            `json:"sameh"`
	DiffHistory  int64            `json:"diffh"`
	Outcomes     map[string]int64 `json:"out"`
	KeyClasses   map[string]int64 `json:"kc"`
	Viols        []mc.Viol        `json:"v,omitempty"`
	ViolCounts   map[string]int64 `json:"vc,omitempty"`
	Samples      map[string]any   `json:"s,omitempty"`
	Notes        []string         `json:"notes,omitempty"`
	Hung         *hangInfo        `json:"hung,omitempty"`
	Fatal        string           `json:"fatal,omitempty"`
}

func newResult() *Result {
	return &Result{Outcomes: map[string]int64{}, KeyClasses: map[string]int64{}, ViolCounts: map[string]int64{}, Samples: map[string]any{}}
}

func (r *Result) viol(sig, what string, ref caseRef) {
	r.ViolCounts[sig]++
	if r.ViolCounts[sig] == 1 {
		r.Viols = append(r.Viols, mc.Viol{Sig: sig, What: what, Replay: ref})
	}
}

func (r *Result) sample(kind string, s any) {
	if _, ok := r.Samples[kind]; !ok {
		r.Samples[kind] = s
	}
}

// ---------------------------------------------------------------------------------------
// watchdog: a VerifyProof call that consumes more than cpuLimit of process CPU time (a normal
// call needs about a millisecond) or blocks for wallLimit is reported as non-terminating; the
// partial result is written and the process exits (a spinning goroutine cannot be stopped).

const (
	cpuLimit  = 3 * time.Second
	wallLimit = 90 * time.Second
)

type watchdog struct {
	mu        sync.Mutex
	active    bool
	startCPU  time.Duration
	startWall time.Time
	onHang    func()
}

func cpuTime() time.Duration {
	var ru syscall.Rusage
	_ = syscall.Getrusage(syscall.RUSAGE_SELF, &ru)
	return time.Duration(ru.Utime.Nano() + ru.Stime.Nano())
}

func (w *watchdog) begin(onHang func()) {
	w.mu.Lock()
	w.active, w.startCPU, w.startWall, w.onHang = true, cpuTime(), time.Now(), onHang
	w.mu.Unlock()
}
func (w *watchdog) end() {
	w.mu.Lock()
	w.active = false
	w.mu.Unlock()
}
func (w *watchdog) run() {
	for {
		time.Sleep(25 * time.Millisecond)
		w.mu.Lock()
		if w.active && (cpuTime()-w.startCPU > cpuLimit || time.Since(w.startWall) > wallLimit) {
			w.onHang() // does not return
		}
		w.mu.Unlock()
	}
}

// ---------------------------------------------------------------------------------------
// evaluation of one case

type verifyFn func(k, v []byte, membership bool, root []byte, proof []*lib.Node) (bool, lib.ErrorI)

type unitCtx struct {
	job    *Job
	res    *Result
	wd     *watchdog
	emit   func() // write the result and exit (used by the watchdog)
	skip   map[string]bool
	unit   int
	caseNo int64
	count  bool // false when this unit's preamble was already counted by another job (continuation, mutation shard)

	verify    verifyFn
	root      []byte
	st        *state
	keys      [][]byte
	leaf      []string
	keyNames  []string
	stateDesc string
}

type caseIn struct {
	a, b, form int
	honest     bool
	paths      []string // honest proofs: which ways of obtaining a proof produced it
	mutClass   string
	mutDesc    string
	mutIdx     int
	first      bool // first case of its mutation (for counting malformed proofs)
	proof      []*lib.Node
}

func panicKind(s string) string {
	switch {
	case strings.Contains(s, "index out of range"):
		return "index-out-of-range"
	case strings.Contains(s, "slice bounds out of range"):
		return "slice-bounds"
	case strings.Contains(s, "nil pointer"):
		return "nil-dereference"
	case strings.Contains(s, "makeslice") || strings.Contains(s, "len out of range"):
		return "makeslice"
	case strings.Contains(s, "negative shift"):
		return "negative-shift"
	}
	return "other"
}

// canopyFrames extracts the innermost canopy function names from a stack dump.
func canopyFrames(stack []byte) string {
	var fr []string
	for _, l := range strings.Split(string(stack), "\n") {
		if i := strings.Index(l, "canopy-network/canopy/"); i >= 0 && !strings.HasPrefix(l, "\t") {
			f := l[i+len("canopy-network/canopy/"):]
			if k := strings.LastIndex(f, "("); k > 0 {
				f = f[:k]
			}
			// below the innermost four frames keep only the tree's own methods
			if len(fr) >= 4 && !strings.Contains(f, "(*SMT)") {
				continue
			}
			fr = append(fr, f)
			if len(fr) == 8 || strings.HasSuffix(f, "VerifyProof") {
				break
			}
		}
	}
	return strings.Join(fr, " < ")
}

func callVerify(f verifyFn, k, v []byte, membership bool, root []byte, proof []*lib.Node) (ok bool, errS string, pan string) {
	defer func() {
		if p := recover(); p != nil {
			ok, pan = false, fmt.Sprint(p)+" at "+canopyFrames(debug.Stack())
		}
	}()
	ok, err := f(k, v, membership, root, proof)
	if err != nil {
		errS = err.Error()
	}
	return
}

func (u *unitCtx) ref(c *caseIn, no int64, got string) caseRef {
	return caseRef{World: u.job.World, Cfg: u.job.Cfg, Phase: u.job.Phase, Unit: u.unit, Case: no, Hist: u.job.Histories, All: u.job.AllBits,
		State: u.stateDesc, KeyA: u.keyNames[c.a], KeyB: u.keyNames[c.b], Claim: formName[c.form], Mutation: c.mutDesc,
		Proof: proofString(c.proof), Root: fmt.Sprintf("%x", u.root), Got: got}
}

func (u *unitCtx) eval(c *caseIn) {
	no := u.caseNo
	u.caseNo++
	j := u.job
	if j.Only >= 0 && no != j.Only {
		return
	}
	if u.unit == j.Lo && no < j.StartCase {
		return
	}
	if j.MutMod > 1 && !c.honest && c.mutIdx%j.MutMod != j.MutRem {
		return
	}
	if c.first {
		u.res.Mutations++
	}
	rel, nodeHex := relation(c.proof, u.leaf[c.b])
	mutClass := c.mutClass
	if c.honest {
		mutClass = "honest"
	}
	// budget class of a case: a class that has hung hangCap times is not evaluated again
	hclass := mutClass + "|" + c.mutDesc + "|" + rel + "|" + nodeHex
	if u.skip[hclass] {
		u.res.SkippedHang++
		return
	}
	value, membership, truth := claimOf(u.st, c.a, c.b, c.form)
	refRoot := refRootMatches(c.proof, u.root)
	proof := cloneProof(c.proof)
	u.wd.begin(func() {
		if !(j.ConfirmHang && no == j.StartCase && u.unit == j.Lo) {
			// the limit is on PROCESS cpu time: a long-lived worker that has accumulated thousands of never-closed
			// in-memory stores (VerifyProof opens one per call) can spend seconds in the garbage collector during one
			// call. Not a verdict: the same case is re-run as the first call of a fresh process.
			u.res.Hung = &hangInfo{Unit: u.unit, Next: no, Class: hclass, Suspect: true}
			u.emit()
		}
		sig := "C16:hang:honest-proof-of-A-for-claim-about-B:" + rel
		if !c.honest {
			sig = "C16:malformed:" + c.mutClass + ":hang"
		} else if c.a == c.b {
			sig = "C16:hang:honest-proof-own-key"
		}
		u.res.Calls++
		u.res.Outcomes[j.Phase+"|"+mutClass+"|root-"+refRoot+"|hang"]++
		stacks := make([]byte, 1<<18)
		stacks = stacks[:runtime.Stack(stacks, true)]
		u.res.viol(sig, fmt.Sprintf("VerifyProof does not return (> %v CPU in one call; it is executing %s): %s, proof for %s [%s] presented for claim (%s, %s); the claimed key's leaf lies %s (node key %s); proof %s",
			cpuLimit, canopyFrames(stacks), u.stateDesc, u.keyNames[c.a], c.mutDescOr("honest"), u.keyNames[c.b], formName[c.form], rel, nodeHex, proofString(c.proof)), u.ref(c, no, "no return"))
		u.res.Hung = &hangInfo{Unit: u.unit, Next: no + 1, Class: hclass}
		u.emit()
	})
	ok, errS, pan := callVerify(u.verify, bytes.Clone(u.keys[c.b]), bytes.Clone(value), membership, bytes.Clone(u.root), proof)
	u.wd.end()
	u.res.Calls++
	if refRoot == "match" {
		u.res.Nontrivial++
	}
	verdict := "reject"
	switch {
	case pan != "":
		verdict = "panic"
	case ok:
		verdict = "accept"
		u.res.Accepted++
		if truth {
			u.res.TrueAccepted++
		}
	case errS != "":
		verdict = "error"
	}
	u.res.Outcomes[j.Phase+"|"+mutClass+"|root-"+refRoot+"|"+verdict]++
	got := fmt.Sprintf("(%v, err=%q)", ok, errS)
	describe := func() string {
		return fmt.Sprintf("%s; proof for %s [%s] presented for claim (key %s, %s); the claim is %v in that state; the claimed key's leaf lies %s; VerifyProof returned %s; proof %s root %x",
			u.stateDesc, u.keyNames[c.a], c.mutDescOr("honest"), u.keyNames[c.b], formName[c.form], truth, rel, got, proofString(c.proof), u.root)
	}
	switch {
	case pan != "":
		got = "panic: " + pan
		sig := "C16:panic:honest-proof:" + panicKind(pan)
		if !c.honest {
			sig = "C16:malformed:" + c.mutClass + ":panic"
		}
		u.res.viol(sig, "VerifyProof panicked ("+pan+"): "+describe(), u.ref(c, no, got))
	case ok && !truth:
		kind := "nonmember-accepted:" + rel
		if membership {
			kind = "member-accepted:" + rel + ":" + strings.TrimPrefix(formName[c.form], "member:")
		}
		sig := "C16:" + kind
		if !c.honest {
			sig = "C16:malformed:" + c.mutClass + ":false-claim-accepted"
		}
		u.res.viol(sig, "false claim accepted: "+describe(), u.ref(c, no, got))
	case !ok && truth && c.honest && c.a == c.b:
		cls := "absent-key"
		if u.st.present[c.a] {
			cls = "present-key"
		}
		for _, p := range c.paths {
			u.res.viol("C16:completeness:"+p+":"+cls, "true claim with the store's own proof rejected: "+describe(), u.ref(c, no, got))
		}
	}
	// samples
	switch {
	case c.honest && c.a == c.b && ok && truth:
		u.res.sample("complete:"+j.World, map[string]any{"kind": "honest proof accepted", "case": u.ref(c, no, got)})
	case c.honest && c.a != c.b && !ok && !truth && refRoot == "match":
		u.res.sample("sound:"+j.World, map[string]any{"kind": "honest proof for A, false claim about B rejected", "case": u.ref(c, no, got)})
	case !c.honest && refRoot == "match" && !ok:
		u.res.sample("malformed-root-preserving:"+j.World, map[string]any{"kind": "malformed proof that still hashes to the root, rejected", "case": u.ref(c, no, got)})
	}
}

func (c *caseIn) mutDescOr(d string) string {
	if c.honest {
		return d
	}
	return c.mutClass + ": " + c.mutDesc
}

// runPhases evaluates the job's phase for one honest proof pA of key a.
func (u *unitCtx) runPhases(a int, pA []*lib.Node, paths []string) {
	nKeys := len(u.keys)
	switch u.job.Phase {
	case "sound":
		for b := 0; b < nKeys; b++ {
			for form := 0; form < numForms; form++ {
				if form == formValueOfA && a == b {
					continue
				}
				u.eval(&caseIn{a: a, b: b, form: form, honest: true, paths: paths, proof: pA})
			}
		}
	case "struct":
		muts, dropped := structural(pA)
		if u.count {
			u.res.DupMutations += int64(dropped)
		}
		for mi, m := range muts {
			for b := 0; b < nKeys; b++ {
				for form := 0; form < numForms; form++ {
					if form == formValueOfA && a == b {
						continue
					}
					u.eval(&caseIn{a: a, b: b, form: form, mutClass: m.class, mutDesc: m.desc, mutIdx: mi, proof: m.proof, first: b == 0 && form == 0})
				}
			}
		}
	case "flip":
		for mi, m := range flips(pA, !u.job.AllBits) {
			for _, form := range []int{formOwnValue, formNonMember} {
				u.eval(&caseIn{a: a, b: a, form: form, mutClass: m.class, mutDesc: m.desc, mutIdx: mi, proof: m.proof, first: form == formOwnValue})
			}
		}
	}
}

// ---------------------------------------------------------------------------------------
// units

func smtProof(inst *smtInstance, k []byte) (p []*lib.Node, errS string) {
	defer func() {
		if r := recover(); r != nil {
			p, errS = nil, fmt.Sprintf("panic: %v", r)
		}
	}()
	p, e := inst.prover.GetMerkleProof(bytes.Clone(k))
	if e != nil {
		return nil, "error: " + e.Error()
	}
	return cloneProof(p), ""
}

func runSMTUnit(u *unitCtx, cfg *smtCfg, unit int) {
	mask, a := unit/cfg.nKeys(), unit%cfg.nKeys()
	st := cfg.stateOf(mask)
	var members []string
	for i := range cfg.statePos {
		if st.present[i] {
			members = append(members, cfg.leaf[i])
		}
	}
	u.st, u.keys, u.leaf = st, cfg.keys, cfg.leaf
	u.keyNames = make([]string, len(cfg.keys))
	for i := range cfg.keys {
		u.keyNames[i] = fmt.Sprintf("%q(leaf %s)", cfg.keys[i], cfg.leaf[i])
	}
	cls := "absent"
	if st.present[a] {
		cls = "present"
	} else if a >= len(cfg.statePos) {
		cls = "absent:never-present"
	}
	for i := range cfg.statePos {
		if !st.present[a] && st.present[i] && len(commonPrefix(cfg.leaf[i], cfg.leaf[a])) >= cfg.bits-1 {
			cls = "absent:neighbour-leaf-of-a-present-key"
		}
	}
	if a == 0 && u.count {
		u.res.States++
	}
	if u.count {
		u.res.KeyClasses["smt/"+cfg.name+":"+cls]++
	}
	var prev []*lib.Node
	var prevRoot []byte
	for h := 0; h < u.job.Histories; h++ {
		hist := []string{"one commit", "all keys committed, then the others deleted"}[h]
		u.stateDesc = fmt.Sprintf("small tree %s (%d bit) with leaves %v (%s)", cfg.name, cfg.bits, members, hist)
		inst, err := buildSMT(cfg, st, h)
		if err != nil {
			u.res.viol("C16:cannot-commit-state:smt", u.stateDesc+": "+err.Error(), caseRef{World: "smt", Cfg: cfg.name, Phase: u.job.Phase, Unit: unit, Case: -1, State: u.stateDesc})
			continue
		}
		pA, errS := smtProof(inst, cfg.keys[a])
		if u.count {
			u.res.Proofs++
		}
		if errS != "" {
			u.res.viol("C16:getproof-failed:smt", fmt.Sprintf("%s: GetMerkleProof(%s) failed: %s", u.stateDesc, u.keyNames[a], errS),
				caseRef{World: "smt", Cfg: cfg.name, Phase: u.job.Phase, Unit: unit, Case: -1, State: u.stateDesc, KeyA: u.keyNames[a], Got: errS})
			continue
		}
		if h == 1 && prev != nil && bytes.Equal(prevRoot, inst.root) && proofBytes(prev) == proofBytes(pA) {
			if u.count {
				u.res.SameHistory++ // same root and same proof as after the single commit: nothing new to present
			}
			continue
		} else if h == 1 && u.count {
			u.res.DiffHistory++
		}
		prev, prevRoot = pA, inst.root
		if u.count {
			u.res.HonestProofs++
		}
		u.root, u.verify = inst.root, inst.prover.VerifyProof
		u.runPhases(a, pA, []string{"smt"})
	}
}

func runStoreUnit(u *unitCtx, w *storeWorld, unit int) {
	nk := len(w.u.keys)
	vi, a := unit/nk, unit%nk
	st := w.states[vi]
	u.st, u.keys, u.leaf = st, w.u.keys, w.u.leaf
	u.keyNames = make([]string, nk)
	for i, n := range w.u.names {
		u.keyNames[i] = fmt.Sprintf("%s(hash %x…)", n, valueHash(w.u.keys[i])[:4])
	}
	var members []string
	for i, n := range w.u.names {
		if st.present[i] {
			members = append(members, n)
		}
	}
	u.stateDesc = fmt.Sprintf("store.Store version %d holding %v", vi+1, members)
	u.root, u.verify = w.roots[vi], w.verifier.VerifyProof
	cls := w.u.class[a]
	if st.present[a] {
		cls = "present"
	} else if cls == "state-key" || strings.HasPrefix(cls, "state-key:") {
		cls = "absent"
	}
	if a == 0 && u.count {
		u.res.States++
	}
	if u.count {
		u.res.KeyClasses["store:"+cls]++
	}
	for _, sp := range w.proofs[vi][a] {
		if u.count {
			u.res.Proofs += int64(len(sp.paths))
		}
		if sp.err != "" {
			for _, p := range sp.paths {
				u.res.viol("C16:getproof-failed:"+p, fmt.Sprintf("%s: GetProof(%s) via %s failed: %s", u.stateDesc, u.keyNames[a], p, sp.err),
					caseRef{World: "store", Phase: u.job.Phase, Unit: unit, Case: -1, State: u.stateDesc, KeyA: u.keyNames[a], Got: sp.err})
			}
			continue
		}
		if u.job.Phase != "sound" && refRootMatches(sp.proof, u.root) != "match" {
			continue // malformations are derived from proofs that hash to the committed root
		}
		if u.count {
			u.res.HonestProofs++
		}
		u.runPhases(a, sp.proof, sp.paths)
	}
}

// ---------------------------------------------------------------------------------------
// worker side: exactly one job per process

func runJob(j *Job, res *Result, wd *watchdog, emit func()) {
	skip := map[string]bool{}
	for _, s := range j.SkipClasses {
		skip[s] = true
	}
	var cfg *smtCfg
	var w *storeWorld
	if j.World == "smt" {
		cfg = cfgByName(j.Cfg)
	} else {
		var err error
		if w, err = buildStoreWorld(j.Cfg == "after-rollback"); err != nil {
			res.viol("C16:cannot-commit-state:store", "building the committed history failed: "+err.Error(), caseRef{World: "store", Phase: j.Phase, Unit: j.Lo, Case: -1})
			return
		}
		res.Notes = append(res.Notes, w.notes...)
	}
	for unit := j.Lo; unit < j.Hi; unit++ {
		u := &unitCtx{job: j, res: res, wd: wd, emit: emit, skip: skip, unit: unit}
		u.count = !(unit == j.Lo && j.StartCase > 0) && j.MutRem == 0
		if cfg != nil {
			runSMTUnit(u, cfg, unit)
		} else {
			runStoreUnit(u, w, unit)
		}
	}
}

func serveWorker() {
	realOut := os.Stdout
	os.Stdout = os.Stderr // canopy's default logger (opened inside VerifyProof) writes to stdout
	in := bufio.NewReaderSize(os.Stdin, 1<<20)
	line, _ := in.ReadBytes('\n')
	var j Job
	if err := json.Unmarshal(line, &j); err != nil {
		fmt.Fprintf(os.Stderr, "c16 worker: bad job: %v\n", err)
		os.Exit(3)
	}
	res := newResult()
	emit := func() {
		bz, err := json.Marshal(res)
		if err != nil {
			fmt.Fprintf(os.Stderr, "c16 worker: bad result: %v\n", err)
			os.Exit(3)
		}
		realOut.Write(append(bz, '\n'))
		os.Exit(0)
	}
	wd := &watchdog{}
	go wd.run()
	func() {
		defer func() {
			if p := recover(); p != nil {
				res.Fatal = fmt.Sprintf("harness panic: %v", p)
			}
		}()
		runJob(&j, res, wd, emit)
	}()
	emit()
}

// ---------------------------------------------------------------------------------------
// parent side: a pool of one-job child processes with continuation after a hang

// Budget rule for calls that do not return (each costs cpuLimit and the child process): cases are
// grouped by (malformation incl. the node it touches, where the claimed key's leaf lies relative to
// the presented proof, key of the proof node it falls under). A group is evaluated until one of its
// cases has hung hangCap times; the remaining cases of the group are then not evaluated and are
// counted in skipped_in_capped_hang_class. Nothing is skipped unless a hang was observed and reported.
const hangCap = 1

type pool struct {
	mu       sync.Mutex
	cond     *sync.Cond
	queue    []Job
	running  int
	hangs    map[string]int
	stop     func() bool
	stopped  bool
	grace    time.Duration // after stop() turns true, running children get this long before they are killed
	cut      chan struct{}
	cutJobs  int
	onResult func(j Job, r *Result)
	onCrash  func(j Job, why string)
}

var errCut = fmt.Errorf("cut by the deadline")

// execJob runs one job in a fresh child. cut, when closed, kills the child (hard deadline).
func execJob(j Job, cut <-chan struct{}) (*Result, error) {
	exe, err := os.Executable()
	if err != nil {
		return nil, err
	}
	cmd := exec.Command(exe, "-worker")
	cmd.Env = append(os.Environ(), "GOMAXPROCS=1")
	bz, _ := json.Marshal(j)
	cmd.Stdin = bytes.NewReader(append(bz, '\n'))
	cmd.Stderr = io.Discard
	if os.Getenv("VERIF_WORKER_STDERR") != "" {
		cmd.Stderr = os.Stderr
	}
	var out bytes.Buffer
	cmd.Stdout = &out
	if err := cmd.Start(); err != nil {
		return nil, err
	}
	done := make(chan error, 1)
	go func() { done <- cmd.Wait() }()
	select {
	case err = <-done:
	case <-cut:
		_ = cmd.Process.Kill()
		<-done
		return nil, errCut
	case <-time.After(20 * time.Minute):
		_ = cmd.Process.Kill()
		<-done
		return nil, fmt.Errorf("worker still running after 20 minutes, killed")
	}
	line := bytes.TrimSpace(out.Bytes())
	if len(line) == 0 {
		return nil, fmt.Errorf("worker ended without a result (%v)", err)
	}
	var r Result
	if e := json.Unmarshal(line, &r); e != nil {
		return nil, fmt.Errorf("unreadable worker result: %v", e)
	}
	return &r, nil
}

func (p *pool) run(jobs []Job, par int) {
	p.cond = sync.NewCond(&p.mu)
	p.queue = append(p.queue, jobs...)
	p.hangs = map[string]int{}
	p.cut = make(chan struct{})
	finished := make(chan struct{})
	go func() {
		for {
			select {
			case <-finished:
				return
			case <-time.After(200 * time.Millisecond):
			}
			if p.stop != nil && p.stop() {
				p.mu.Lock()
				p.stopped = true
				p.mu.Unlock()
				p.cond.Broadcast()
				select {
				case <-finished:
				case <-time.After(p.grace):
					close(p.cut)
				}
				return
			}
		}
	}()
	var wg sync.WaitGroup
	for i := 0; i < par; i++ {
		wg.Add(1)
		go func() {
			defer wg.Done()
			for {
				p.mu.Lock()
				for len(p.queue) == 0 && p.running > 0 {
					p.cond.Wait()
				}
				if len(p.queue) == 0 || p.stopped {
					p.mu.Unlock()
					p.cond.Broadcast()
					return
				}
				if p.stop != nil && p.stop() {
					p.stopped = true
					p.mu.Unlock()
					p.cond.Broadcast()
					return
				}
				j := p.queue[0]
				p.queue = p.queue[1:]
				j.SkipClasses = nil
				for c, n := range p.hangs {
					if n >= hangCap {
						j.SkipClasses = append(j.SkipClasses, c)
					}
				}
				sort.Strings(j.SkipClasses)
				p.running++
				p.mu.Unlock()
				r, err := execJob(j, p.cut)
				p.mu.Lock()
				p.running--
				if err == errCut {
					p.cutJobs++
				} else if err != nil {
					p.onCrash(j, err.Error())
				} else {
					p.onResult(j, r)
					if r.Hung != nil {
						c := j
						c.Lo, c.StartCase = r.Hung.Unit, r.Hung.Next
						c.ConfirmHang = r.Hung.Suspect
						if !r.Hung.Suspect {
							p.hangs[r.Hung.Class]++
						}
						p.queue = append([]Job{c}, p.queue...)
					}
				}
				p.mu.Unlock()
				p.cond.Broadcast()
			}
		}()
	}
	wg.Wait()
	close(finished)
}

// ---------------------------------------------------------------------------------------
// planning

func chunk(world, cfg, phase string, units []int, per int, proto Job) (jobs []Job) {
	// units are consecutive unit numbers unless stated otherwise; group runs of consecutive numbers
	for i := 0; i < len(units); {
		k := i
		for k+1 < len(units) && units[k+1] == units[k]+1 && k+1-i < per {
			k++
		}
		j := proto
		j.World, j.Cfg, j.Phase, j.Lo, j.Hi, j.Only = world, cfg, phase, units[i], units[k]+1, -1
		if j.MutMod > 1 {
			for r := 0; r < j.MutMod; r++ {
				jj := j
				jj.MutRem = r
				jobs = append(jobs, jj)
			}
		} else {
			jobs = append(jobs, j)
		}
		i = k + 1
	}
	return
}

func seq(n int) []int {
	o := make([]int, n)
	for i := range o {
		o[i] = i
	}
	return o
}

func plan(quick bool) (jobs []Job, bounds map[string]any) {
	bounds = map[string]any{}
	su := getStoreKeys()
	nk := len(su.keys)
	allStore := seq(len(storeHistory) * nk)
	smtUnits := func(name string) []int { c := cfgByName(name); return seq(c.nStates() * c.nKeys()) }
	hist := 1
	if !quick {
		hist = 2
	}
	// 1. completeness + honest proofs for other keys, every world
	jobs = append(jobs, chunk("store", "", "sound", allStore, 5, Job{})...)
	jobs = append(jobs, chunk("store", "after-rollback", "sound", allStore, 9, Job{})...)
	jobs = append(jobs, chunk("smt", "w3", "sound", smtUnits("w3"), 20, Job{Histories: 2})...)
	jobs = append(jobs, chunk("smt", "w6", "sound", smtUnits("w6"), 15, Job{Histories: hist})...)
	jobs = append(jobs, chunk("smt", "w17", "sound", smtUnits("w17"), 40, Job{Histories: 1})...)
	bounds["sound"] = "store: 5 versions x 27 keys, every distinct proof (live, read-only) x 27 claim keys x 4 claim forms; smt w3 (all 32 trees, both histories), w6 (all 64 subsets of 6 keys + 4 never-present keys)"
	if !quick {
		jobs = append(jobs, chunk("smt", "w4", "sound", smtUnits("w4"), 15, Job{Histories: 2})...)
		bounds["sound"] = bounds["sound"].(string) + ", w4 (all 256 subsets of 8 keys + 2 never-present, both histories)"
	}
	// 2. structural malformations
	if quick {
		// version 3 (fullest state after deletions), one key of every class
		var units []int
		for _, n := range []string{"k1", "q1", "k11", "k2", "k0", "a2", "a3", "n0"} {
			units = append(units, 2*nk+su.idx[n])
		}
		sort.Ints(units)
		jobs = append(jobs, chunk("store", "", "struct", units, 1, Job{MutMod: 12})...)
		jobs = append(jobs, chunk("smt", "w3", "struct", smtUnits("w3"), 1, Job{Histories: 1})...)
		jobs = append(jobs, chunk("smt", "w6s", "struct", smtUnits("w6s"), 1, Job{Histories: 1, MutMod: 2})...)
		bounds["struct"] = "store: version 3 x 8 keys (one per key class) x every structural malformation x 27 claim keys x 4 forms; smt w3 (all 32 trees x 5 keys), w6s (16 subsets of 4 keys + 2 never-present)"
	} else {
		jobs = append(jobs, chunk("store", "", "struct", allStore, 1, Job{MutMod: 12})...)
		jobs = append(jobs, chunk("smt", "w3", "struct", smtUnits("w3"), 1, Job{Histories: 2})...)
		jobs = append(jobs, chunk("smt", "w6", "struct", smtUnits("w6"), 1, Job{Histories: 1, MutMod: 4})...)
		bounds["struct"] = "store: 5 versions x 27 keys x every structural malformation x 27 claim keys x 4 forms; smt w3, w6 complete"
	}
	// 3. single-bit flips
	if quick {
		var units []int
		for _, n := range []string{"k1", "q1", "k0", "a3"} {
			units = append(units, 2*nk+su.idx[n])
		}
		sort.Ints(units)
		jobs = append(jobs, chunk("store", "", "flip", units, 1, Job{MutMod: 2})...)
		jobs = append(jobs, chunk("smt", "w3", "flip", smtUnits("w3"), 4, Job{Histories: 1})...)
		bounds["flip"] = "every key bit and the first and last value byte of every proof node: store version 3 x 4 keys; smt w3 complete; claims (A, own value, member) and (A, non-member)"
	} else {
		jobs = append(jobs, chunk("store", "", "flip", allStore, 1, Job{AllBits: true, MutMod: 6})...)
		jobs = append(jobs, chunk("smt", "w3", "flip", smtUnits("w3"), 1, Job{Histories: 1, AllBits: true, MutMod: 2})...)
		jobs = append(jobs, chunk("smt", "w6", "flip", smtUnits("w6"), 1, Job{Histories: 1, AllBits: true, MutMod: 3})...)
		bounds["flip"] = "every bit of every key and value byte of every proof node: store 5 versions x 27 keys; smt w3, w6 complete; claims (A, own value, member) and (A, non-member)"
	}
	jobs = interleave(jobs)
	return
}

// interleave orders the jobs so that a run cut by the deadline has seen a bit of every part:
// all "sound" jobs first, then the others, round-robin over (world, config, phase) within each group.
func interleave(jobs []Job) (out []Job) {
	for _, wantSound := range []bool{true, false} {
		var order []string
		groups := map[string][]Job{}
		for _, j := range jobs {
			if (j.Phase == "sound") != wantSound {
				continue
			}
			k := j.World + "/" + j.Cfg + "/" + j.Phase
			if _, ok := groups[k]; !ok {
				order = append(order, k)
			}
			groups[k] = append(groups[k], j)
		}
		for more := true; more; {
			more = false
			for _, k := range order {
				if len(groups[k]) > 0 {
					out = append(out, groups[k][0])
					groups[k] = groups[k][1:]
					more = true
				}
			}
		}
	}
	return
}

// ---------------------------------------------------------------------------------------

type agg struct {
	Result
	jobs  int
	hangs int
}

func main() {
	if mc.IsWorker() {
		serveWorker()
	}
	part := flag.String("part", "", "development aid: only run jobs whose part name (world/cfg/phase) contains this string; the run is then marked non-exhaustive")
	r := mc.Start("C16", "exploration", 80*time.Second, 25*time.Minute)
	r.Assumptions = []string{
		"SHA-256 does not collide on the inputs used; user keys of one universe have pairwise different leaf positions (truncated hashes), so a reduced-width tree is not confused by two keys sharing a leaf",
		"the adversary is bounded to proofs derived from an honest proof by the listed malformations, and to claims over the stated key universe",
		"small trees are committed through the exported SMT.Commit (sequential path) by building its unexported operation type through a layout-checked mirror struct; the parallel path is exercised only at production width through store.Store",
		"a call that uses more than 3 s of process CPU (normal: about 1 ms) is taken as non-terminating",
		"pebble's in-memory FS behaves like the on-disk one",
	}
	if r.Replay != "" {
		doReplay(r)
		return
	}
	jobs, bounds := plan(r.Quick())
	if *part != "" {
		var keep []Job
		for _, j := range jobs {
			if strings.Contains(j.World+"/"+j.Cfg+"/"+j.Phase, *part) {
				keep = append(keep, j)
			}
		}
		jobs = keep
		r.Exhaustive = false
		r.Note("restricted to parts containing %q (%d jobs)", *part, len(jobs))
	}
	per := map[string]*agg{}
	var mu sync.Mutex
	sampleKinds := map[string]bool{}
	p := &pool{stop: r.Expired, grace: 8 * time.Second}
	p.onResult = func(j Job, res *Result) {
		mu.Lock()
		defer mu.Unlock()
		k := j.World + "/" + j.Cfg + "/" + j.Phase
		if j.World == "store" {
			k = "store/" + j.Phase
		}
		a := per[k]
		if a == nil {
			a = &agg{Result: *newResult()}
			per[k] = a
		}
		a.jobs++
		a.Calls += res.Calls
		a.Proofs += res.Proofs
		a.States += res.States
		a.HonestProofs += res.HonestProofs
		a.Mutations += res.Mutations
		a.DupMutations += res.DupMutations
		a.Nontrivial += res.Nontrivial
		a.Accepted += res.Accepted
		a.TrueAccepted += res.TrueAccepted
		a.SkippedHang += res.SkippedHang
		a.SameHistory += res.SameHistory
		a.DiffHistory += res.DiffHistory
		for o, n := range res.Outcomes {
			a.Outcomes[o] += n
		}
		for o, n := range res.KeyClasses {
			a.KeyClasses[o] += n
		}
		for o, n := range res.ViolCounts {
			a.ViolCounts[o] += n
		}
		if res.Hung != nil && !res.Hung.Suspect {
			a.hangs++
		}
		for _, n := range res.Notes {
			r.Note("%s", n)
		}
		if res.Fatal != "" {
			r.Violation("C16:harness-failure", fmt.Sprintf("job %+v: %s", j, res.Fatal), j)
		}
		for _, v := range res.Viols {
			r.OnViol(v)
		}
		kinds := make([]string, 0, len(res.Samples))
		for kind := range res.Samples {
			kinds = append(kinds, kind)
		}
		sort.Strings(kinds)
		for _, kind := range kinds {
			if !sampleKinds[kind] {
				sampleKinds[kind] = true
				r.AddSample(res.Samples[kind])
			}
		}
	}
	p.onCrash = func(j Job, why string) {
		r.Violation("C16:worker-crash", fmt.Sprintf("the child process evaluating job %+v died: %s", j, why), j)
	}
	p.run(jobs, runtime.NumCPU())
	if p.stopped && (len(p.queue) > 0 || p.cutJobs > 0) {
		r.Exhaustive = false
		r.Note("soft deadline reached: %d of %d jobs not started, %d running jobs cut after the grace period (their cases are not counted)", len(p.queue), len(jobs), p.cutJobs)
	}

	var calls, proofs, nontrivial, accepted, skipped int64
	outcomes := map[string]int64{}
	violCounts := map[string]int64{}
	keyClasses := map[string]int64{}
	var table []map[string]any
	keys := make([]string, 0, len(per))
	for k := range per {
		keys = append(keys, k)
	}
	sort.Strings(keys)
	for _, k := range keys {
		a := per[k]
		calls += a.Calls
		proofs += a.Proofs
		nontrivial += a.Nontrivial
		accepted += a.Accepted
		skipped += a.SkippedHang
		for o, n := range a.Outcomes {
			outcomes[o] += n
		}
		for o, n := range a.ViolCounts {
			violCounts[o] += n
		}
		if strings.HasSuffix(k, "sound") {
			for o, n := range a.KeyClasses {
				keyClasses[o] += n
			}
		}
		row := map[string]any{"part": k, "jobs": a.jobs, "states": a.States, "honest_proofs": a.HonestProofs, "malformed_proofs": a.Mutations,
			"duplicate_malformations_dropped": a.DupMutations, "verify_calls": a.Calls, "calls_with_root_preserving_proof": a.Nontrivial,
			"accepted": a.Accepted, "accepted_true_claims": a.TrueAccepted, "hangs": a.hangs, "skipped_in_capped_hang_class": a.SkippedHang}
		if a.SameHistory+a.DiffHistory > 0 {
			row["delete_history_same_root_and_proof"], row["delete_history_differs"] = a.SameHistory, a.DiffHistory
		}
		table = append(table, row)
		fmt.Printf("%-18s jobs=%-4d states=%-4d honest=%-5d malformed=%-7d calls=%-8d root-preserving=%-7d accepted=%-6d (true %d) hangs=%d skipped=%d\n",
			k, a.jobs, a.States, a.HonestProofs, a.Mutations, a.Calls, a.Nontrivial, a.Accepted, a.TrueAccepted, a.hangs, a.SkippedHang)
	}
	for _, k := range sortedKeys(violCounts) {
		fmt.Printf("  violating cases  %-70s %d\n", k, violCounts[k])
	}
	fmt.Printf("evaluations=%d (VerifyProof %d + GetProof %d) root-preserving=%d distinct outcome classes=%d\n", calls+proofs, calls, proofs, nontrivial, len(outcomes))
	cov := map[string]any{
		"evaluations":         calls + proofs,
		"verify_calls":        calls,
		"getproof_calls":      proofs,
		"distinct_nontrivial": nontrivial,
		"rule": "every evaluated case is a distinct (world, state, key A, proof derivation, claim key B, claim form) tuple (malformations that reproduce another proof byte for byte are dropped); " +
			"a case counts as non-trivial when the presented proof, re-hashed by the harness's own reference chain, yields the committed root, i.e. the verdict was decided by the claim-dependent part of VerifyProof and not by a hash mismatch",
		"bounds":                         bounds,
		"parts":                          table,
		"outcome_classes":                outcomes,
		"distinct_outcome_classes":       len(outcomes),
		"key_classes_units":              keyClasses,
		"violating_cases_by_signature":   violCounts,
		"accepted_total":                 accepted,
		"skipped_in_capped_hang_class":   skipped,
		"hang_classes":                   p.hangs,
		"hang_cap_per_class":             hangCap,
		"jobs":                           len(jobs),
		"verifyproof_leak_note":          "VerifyProof never closes the in-memory store it opens: about 0.18 MB and 4 goroutines per call stay behind (measured); not part of the C16 statement, reported as information",
		"store_history":                  describeHistory(),
		"store_key_classes":              getStoreKeys().class,
		"store_key_names":                getStoreKeys().names,
		"smt_universes":                  smtUniverses(),
		"claim_forms":                    formName,
		"cpu_limit_per_call_before_hang": cpuLimit.String(),
	}
	r.Finish(cov)
}

func describeHistory() []string {
	var o []string
	for i, v := range storeHistory {
		o = append(o, fmt.Sprintf("version %d: set %v delete %v", i+1, v.set, v.del))
	}
	return o
}

func smtUniverses() map[string]any {
	o := map[string]any{}
	for _, c := range smtCfgs {
		c.init()
		o[c.name] = map[string]any{"bits": c.bits, "state_leaves": c.statePos, "never_present_leaves": c.probePos}
	}
	return o
}

func doReplay(r *mc.Run) {
	var ref caseRef
	if err := r.LoadReplay(&ref); err != nil {
		fmt.Println("cannot load replay:", err)
		r.Finish(map[string]any{"evaluations": 0, "distinct_nontrivial": 0, "rule": "replay"})
	}
	hist := ref.Hist
	if hist == 0 {
		hist = 1
	}
	j := Job{World: ref.World, Cfg: ref.Cfg, Phase: ref.Phase, Lo: ref.Unit, Hi: ref.Unit + 1, Only: ref.Case, Histories: hist, AllBits: ref.All}
	if ref.Case >= 0 {
		j.StartCase, j.ConfirmHang = ref.Case, true // a replay is a fresh process: an exceeded CPU limit is final
	}
	var calls int64
	for i := 0; i < 5; i++ {
		res, err := execJob(j, nil)
		if err != nil {
			r.Violation("C16:worker-crash", fmt.Sprintf("replay %d: %v", i, err), j)
			continue
		}
		calls += res.Calls
		fmt.Printf("replay %d: calls=%d violations=%d outcomes=%v\n", i+1, res.Calls, len(res.Viols), res.Outcomes)
		for _, v := range res.Viols {
			r.OnViol(v)
		}
	}
	r.Finish(map[string]any{"evaluations": calls, "distinct_nontrivial": 1, "rule": "replay of one case, five times"})
}
