package main

// Malformed proofs derived from one honest proof. Every mutation is identified by its index in
// the deterministic list returned by structural() / flips(), so that a replay artefact only
// has to name (world, state, key A, phase, mutation index, key B, claim form).

import (
	"bytes"
	"fmt"

	"github.com/canopy-network/canopy/lib"
)

type mutation struct {
	class string // canonical class (goes into the violation signature)
	desc  string // concrete description (goes into "what")
	proof []*lib.Node
}

func fill(n int, b byte) []byte { return bytes.Repeat([]byte{b}, n) }

// structural returns every structural malformation of p, de-duplicated by content (a mutation
// that reproduces the honest proof or an earlier mutation byte for byte is dropped).
func structural(p []*lib.Node) (out []mutation, dropped int) {
	L := len(p)
	seen := map[string]bool{proofBytes(p): true}
	add := func(class, desc string, q []*lib.Node) {
		k := proofBytes(q)
		if seen[k] {
			dropped++
			return
		}
		seen[k] = true
		out = append(out, mutation{class, desc, q})
	}
	// every truncation (keep the first n nodes), including the empty proof
	for n := 0; n < L; n++ {
		add("truncate", fmt.Sprintf("keep first %d of %d nodes", n, L), cloneProof(p[:n]))
	}
	// every truncation from the front (drop the proven node and the lowest siblings)
	for n := 1; n < L; n++ {
		add("drop-front", fmt.Sprintf("drop first %d of %d nodes", n, L), cloneProof(p[n:]))
	}
	// single-node deletion
	for i := 0; i < L; i++ {
		q := cloneProof(p)
		add("delete-node", fmt.Sprintf("delete node %d", i), append(q[:i:i], q[i+1:]...))
	}
	// adjacent swap
	for i := 0; i+1 < L; i++ {
		q := cloneProof(p)
		q[i], q[i+1] = q[i+1], q[i]
		add("swap-adjacent", fmt.Sprintf("swap nodes %d,%d", i, i+1), q)
	}
	// duplication
	for i := 0; i < L; i++ {
		q := cloneProof(p)
		d := cloneProof(p[i : i+1])[0]
		q = append(q[:i+1:i+1], append([]*lib.Node{d}, q[i+1:]...)...)
		add("duplicate-node", fmt.Sprintf("duplicate node %d", i), q)
	}
	// side bitmask
	for i := 0; i < L; i++ {
		for _, v := range []int32{1 - p[i].Bitmask, 2, -1} {
			q := cloneProof(p)
			q[i].Bitmask = v
			add("bitmask", fmt.Sprintf("node %d bitmask %d -> %d", i, p[i].Bitmask, v), q)
		}
	}
	// key / value replaced by degenerate byte strings
	for i := 0; i < L; i++ {
		for _, r := range []struct {
			class string
			b     []byte
		}{{"key-empty", []byte{}}, {"key-nil", nil}, {"key-1byte", []byte{0}}, {"key-1byte", []byte{0xFF}},
			{"key-255byte", fill(255, 0xFF)}, {"key-255byte", fill(255, 0x00)}, {"key-255byte", append(fill(254, 0xA5), 3)}} {
			q := cloneProof(p)
			q[i].Key = exact(r.b)
			add(r.class, fmt.Sprintf("node %d key := %d bytes %.4x…", i, len(r.b), r.b), q)
		}
		for _, r := range []struct {
			class string
			b     []byte
		}{{"value-empty", []byte{}}, {"value-nil", nil}, {"value-1byte", []byte{0}}, {"value-255byte", fill(255, 0xFF)}} {
			q := cloneProof(p)
			q[i].Value = exact(r.b)
			add(r.class, fmt.Sprintf("node %d value := %d bytes", i, len(r.b)), q)
		}
	}
	// re-split of key‖value boundaries: the parent hash input lkey‖lval‖rkey‖rval carries no
	// length framing, so bytes can be moved across a boundary without changing the hash input
	for i := 0; i < L; i++ {
		k, v := p[i].Key, p[i].Value
		if len(v) > 0 {
			q := cloneProof(p)
			q[i].Key, q[i].Value = exact(append(append([]byte{}, k...), v[0])), exact(v[1:])
			add("resplit", fmt.Sprintf("node %d: first value byte moved to the end of the key", i), q)
		}
		if len(k) > 0 {
			q := cloneProof(p)
			q[i].Key, q[i].Value = exact(k[:len(k)-1]), exact(append([]byte{k[len(k)-1]}, v...))
			add("resplit", fmt.Sprintf("node %d: last key byte moved to the front of the value", i), q)
		}
	}
	if L >= 2 {
		// the boundary between the two lowest nodes
		lo, hi := 0, 1 // order in the hash input: proven node then sibling
		if p[1].Bitmask == 0 {
			lo, hi = 1, 0
		}
		if len(p[lo].Value) > 0 {
			q := cloneProof(p)
			v := p[lo].Value
			q[lo].Value = exact(v[:len(v)-1])
			q[hi].Key = exact(append([]byte{v[len(v)-1]}, p[hi].Key...))
			add("resplit", fmt.Sprintf("last value byte of node %d moved to the front of the key of node %d", lo, hi), q)
		}
		if len(p[hi].Key) > 0 {
			q := cloneProof(p)
			q[lo].Value = exact(append(append([]byte{}, p[lo].Value...), p[hi].Key[0]))
			q[hi].Key = exact(p[hi].Key[1:])
			add("resplit", fmt.Sprintf("first key byte of node %d moved to the end of the value of node %d", hi, lo), q)
		}
	}
	// lift: present an ancestor of the proven node as the proven node (its key and hash are
	// recomputed by the reference chain), keeping the siblings above it. The root still matches.
	if steps, ok := refChain(p); ok {
		for j := 1; j <= L-2; j++ {
			q := append([]*lib.Node{{Key: exact(steps[j].key), Value: exact(steps[j].hash)}}, cloneProof(p[j+1:])...)
			kb, _ := keyBits(steps[j].key)
			add("lift-to-ancestor", fmt.Sprintf("nodes 0..%d replaced by their common ancestor (key bits %q)", j, kb), q)
		}
	}
	// a single node that carries the ROOT hash as its value, under the key of a reserved leaf (all-zero /
	// all-one bits of the leaf width) or of any node of the proof: with one node nothing is hashed, so
	// "recomputed root == root" holds trivially; only the length / shape checks stand in the way
	if steps, ok := refChain(p); ok && len(steps) > 0 {
		root := steps[len(steps)-1].hash
		var keys [][]byte
		if kb, ok := keyBits(p[0].Key); ok && len(kb) > 0 {
			zero, one := bytes.Repeat([]byte{'0'}, len(kb)), bytes.Repeat([]byte{'1'}, len(kb))
			keys = append(keys, encodeKey(string(zero)), encodeKey(string(one)))
		}
		for i := range p {
			keys = append(keys, p[i].Key)
		}
		for ki, k := range keys {
			for _, bm := range []int32{0, 1} {
				add("root-as-single-node", fmt.Sprintf("single node: key candidate %d (%d bytes), value = the root, bitmask %d", ki, len(k), bm),
					[]*lib.Node{{Key: exact(k), Value: exact(root), Bitmask: bm}})
			}
		}
	}
	return
}

// flips returns single-bit flips of key and value bytes of every node. bounded: all key bits,
// first and last value byte; otherwise every bit of both.
func flips(p []*lib.Node, bounded bool) (out []mutation) {
	for i := range p {
		for byt := 0; byt < len(p[i].Key); byt++ {
			for bit := 0; bit < 8; bit++ {
				q := cloneProof(p)
				q[i].Key[byt] ^= 1 << uint(bit)
				out = append(out, mutation{"flip-key-bit", fmt.Sprintf("node %d key byte %d bit %d", i, byt, bit), q})
			}
		}
		for byt := 0; byt < len(p[i].Value); byt++ {
			if bounded && byt != 0 && byt != len(p[i].Value)-1 {
				continue
			}
			for bit := 0; bit < 8; bit++ {
				q := cloneProof(p)
				q[i].Value[byt] ^= 1 << uint(bit)
				out = append(out, mutation{"flip-value-bit", fmt.Sprintf("node %d value byte %d bit %d", i, byt, bit), q})
			}
		}
	}
	return
}
