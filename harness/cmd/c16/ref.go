package main

// Reference side of the C16 check: everything in this file is independent of the code under
// test (it never calls into canopy's SMT): the node-key bit codec (written from the format
// comment in store/smt.go), the leaf position of a user key, the hash chain of a proof, the
// relation of a claimed key to the nodes of a proof, and the truth of a claim in a state.

import (
	"bytes"
	"crypto/sha256"
	"encoding/hex"
	"fmt"
	"strconv"
	"strings"

	"github.com/canopy-network/canopy/lib"
)

// leafBits returns the first n bits of sha256(userKey) as a string of '0'/'1'.
func leafBits(userKey []byte, n int) string {
	h := sha256.Sum256(userKey)
	var sb strings.Builder
	for i := 0; i < n; i++ {
		if h[i/8]>>(7-uint(i%8))&1 == 1 {
			sb.WriteByte('1')
		} else {
			sb.WriteByte('0')
		}
	}
	return sb.String()
}

func valueHash(v []byte) []byte { h := sha256.Sum256(v); return h[:] }

// keyBits decodes an encoded node key: data bytes then one meta byte holding the number of
// leading zero bits of the last data byte. ok=false for anything that is not well-formed.
func keyBits(k []byte) (string, bool) {
	if len(k) < 2 {
		return "", false
	}
	meta := int(k[len(k)-1])
	data := k[:len(k)-1]
	if meta > 7 {
		return "", false
	}
	var sb strings.Builder
	for _, b := range data[:len(data)-1] {
		fmt.Fprintf(&sb, "%08b", b)
	}
	digits := strconv.FormatUint(uint64(data[len(data)-1]), 2)
	if meta+len(digits) > 8 {
		return "", false
	}
	sb.WriteString(strings.Repeat("0", meta))
	sb.WriteString(digits)
	return sb.String(), true
}

// encodeKey is the inverse of keyBits (bits must be non-empty).
func encodeKey(bits string) []byte {
	var out []byte
	for len(bits) > 8 {
		v, _ := strconv.ParseUint(bits[:8], 2, 8)
		out = append(out, byte(v))
		bits = bits[8:]
	}
	v, _ := strconv.ParseUint(bits, 2, 8)
	meta := 0
	for meta < len(bits)-1 && bits[meta] == '0' {
		meta++
	}
	return append(out, byte(v), byte(meta))
}

func commonPrefix(a, b string) string {
	i := 0
	for i < len(a) && i < len(b) && a[i] == b[i] {
		i++
	}
	return a[:i]
}

type chainStep struct {
	key  []byte // encoded key of the node reconstructed at this level
	hash []byte
}

// refChain recomputes, level by level, the (key, hash) of the ancestors a proof commits to:
// parent hash = H(leftKey‖leftValue‖rightKey‖rightValue), parent key = common bit prefix of
// the two children. ok=false if a key on the way is not a well-formed node key.
func refChain(p []*lib.Node) (steps []chainStep, ok bool) {
	if len(p) == 0 || p[0] == nil {
		return nil, false
	}
	curKey, hash := p[0].Key, p[0].Value
	steps = append(steps, chainStep{key: curKey, hash: hash})
	for i := 1; i < len(p); i++ {
		cb, ok1 := keyBits(curKey)
		sb, ok2 := keyBits(p[i].Key)
		if !ok1 || !ok2 {
			return steps, false
		}
		var in []byte
		if p[i].Bitmask == 0 {
			in = concat(p[i].Key, p[i].Value, curKey, hash)
		} else {
			in = concat(curKey, hash, p[i].Key, p[i].Value)
		}
		h := sha256.Sum256(in)
		hash = h[:]
		cp := commonPrefix(cb, sb)
		if cp == "" {
			// the two children of the root share no bit: only legal at the last level
			if i != len(p)-1 {
				return steps, false
			}
			curKey = nil
		} else {
			curKey = encodeKey(cp)
		}
		steps = append(steps, chainStep{key: curKey, hash: hash})
	}
	return steps, true
}

func concat(parts ...[]byte) []byte {
	var out []byte
	for _, p := range parts {
		out = append(out, p...)
	}
	return out
}

// refRootMatches: does the proof's recomputed root equal root? ("na" when keys are malformed)
func refRootMatches(p []*lib.Node, root []byte) string {
	if len(p) < 2 {
		return "short"
	}
	steps, ok := refChain(p)
	if !ok {
		return "na"
	}
	if bytes.Equal(steps[len(steps)-1].hash, root) {
		return "match"
	}
	return "mismatch"
}

// relation classifies where the leaf of a claimed key lies with respect to the nodes a proof
// presents: the proven node itself, below it, a sibling that is a leaf, below a sibling whose
// subtree the proof does not expand, or none of them (it leaves the path on a compressed edge).
func relation(p []*lib.Node, leaf string) (rel string, nodeKeyHex string) {
	for i, n := range p {
		if n == nil {
			continue
		}
		nb, ok := keyBits(n.Key)
		if !ok || !strings.HasPrefix(leaf, nb) {
			continue
		}
		switch {
		case i == 0 && nb == leaf:
			return "proven-node", hex.EncodeToString(n.Key)
		case i == 0:
			return "below-proven-node", hex.EncodeToString(n.Key)
		case nb == leaf:
			return "sibling-leaf", hex.EncodeToString(n.Key)
		default:
			return "under-unexpanded-sibling", hex.EncodeToString(n.Key)
		}
	}
	return "off-path", ""
}

// ---------------------------------------------------------------------------------------
// states and claims

// state: which universe keys are present and with which value.
type state struct {
	present map[int]bool
	value   map[int][]byte // value of every universe key: the stored one if present, else the value it would have
}

// claim forms
const (
	formOwnValue   = iota // (B, value of B, membership)
	formValueOfA          // (B, value of A, membership)
	formOtherValue        // (B, some third value, membership)
	formNonMember         // (B, -, non-membership)
	numForms
)

var formName = []string{"member:value-of-B", "member:value-of-A", "member:other-value", "non-member"}

var otherValue = []byte("c16-some-other-value")

// claimOf returns the value to present, whether membership is claimed, and whether the claim
// is true in the state.
func claimOf(st *state, a, b, form int) (value []byte, membership bool, truth bool) {
	switch form {
	case formOwnValue:
		return st.value[b], true, st.present[b]
	case formValueOfA:
		return st.value[a], true, st.present[b] && bytes.Equal(st.value[a], st.value[b])
	case formOtherValue:
		return otherValue, true, false
	default:
		return nil, false, !st.present[b]
	}
}

func cloneProof(p []*lib.Node) []*lib.Node {
	out := make([]*lib.Node, len(p))
	for i, n := range p {
		if n == nil {
			continue
		}
		out[i] = &lib.Node{Key: exact(n.Key), Value: exact(n.Value), Bitmask: n.Bitmask,
			LeftChildKey: exact(n.LeftChildKey), RightChildKey: exact(n.RightChildKey)}
	}
	return out
}

// exact copies b into a slice with cap==len (VerifyProof appends to proof[i].Key).
func exact(b []byte) []byte {
	if b == nil {
		return nil
	}
	o := make([]byte, len(b))
	copy(o, b)
	return o
}

func proofString(p []*lib.Node) string {
	var sb strings.Builder
	sb.WriteString("[")
	for i, n := range p {
		if i > 0 {
			sb.WriteString(" ")
		}
		if n == nil {
			sb.WriteString("nil")
			continue
		}
		kb, ok := keyBits(n.Key)
		if !ok || len(kb) > 24 {
			kb = "…"
		}
		fmt.Fprintf(&sb, "{key=%x(%s) value=%x side=%d}", n.Key, kb, n.Value, n.Bitmask)
	}
	sb.WriteString("]")
	return sb.String()
}

func proofBytes(p []*lib.Node) string {
	var sb strings.Builder
	for _, n := range p {
		if n == nil {
			sb.WriteString("nil;")
			continue
		}
		fmt.Fprintf(&sb, "%x:%x:%d;", n.Key, n.Value, n.Bitmask)
	}
	return sb.String()
}
